#!/usr/bin/env python3
"""CPython as reference: loads pickles with classes, calls and persistent ids kept symbolic and
prints the result in canonical text. One case per input line, one answer per line.

  load <hex>      pure-Python unpickler (py2 `str` kept distinct as Y…)
  loadc <hex>     C unpickler (py2 `str` decoded as bytes: printed as B…)
  pyeq <v> ; <v>  Python == and hash agreement of two key values
"""
import io
import math
import pickle
import struct
import sys

sys.setrecursionlimit(20000)


class Glob(object):
    __slots__ = ("module", "name")

    def __init__(self, module, name):
        self.module, self.name = module, name

    def __call__(self, *args):
        return Call(self, args)

    def __eq__(self, o):
        return isinstance(o, Glob) and (self.module, self.name) == (o.module, o.name)

    def __ne__(self, o):
        return not self == o

    def __hash__(self):
        return hash(("Glob", self.module, self.name))


class Call(object):
    __slots__ = ("func", "args")

    def __init__(self, func, args):
        self.func, self.args = func, tuple(args)

    def __eq__(self, o):
        return isinstance(o, Call) and self.func == o.func and self.args == o.args

    def __ne__(self, o):
        return not self == o

    def __hash__(self):
        return hash(("Call", self.func, self.args))


class Pers(object):
    __slots__ = ("pid",)

    def __init__(self, pid):
        self.pid = pid

    def __eq__(self, o):
        return isinstance(o, Pers) and self.pid == o.pid

    def __ne__(self, o):
        return not self == o

    def __hash__(self):
        return hash(("Pers", self.pid))


class Str2(object):
    """A Python-2 `str` (byte string) as loaded from STRING / BINSTRING / SHORT_BINSTRING."""
    __slots__ = ("b",)

    def __init__(self, b):
        self.b = bytes(b)

    def __eq__(self, o):
        return isinstance(o, Str2) and self.b == o.b

    def __ne__(self, o):
        return not self == o

    def __hash__(self):
        return hash(("Str2", self.b))


def _text(x):
    if isinstance(x, Str2):
        return x.b.decode("latin-1")
    return x


def _codecs_encode(obj, encoding="utf-8", errors="strict"):
    import codecs
    return codecs.encode(_text(obj), _text(encoding), _text(errors))


def _bytearray(*args):
    args = [a.b if isinstance(a, Str2) else a for a in args]
    if len(args) >= 2:
        return bytearray(_text(args[0]) if not isinstance(args[0], (bytes, bytearray)) else args[0], _text(args[1]))
    return bytearray(*args)


def _bytes(*args):
    if not args:
        return b""
    return Call(Glob("builtins", "bytes"), args)


EXEC = {
    ("_codecs", "encode"): _codecs_encode,
    ("__builtin__", "bytearray"): _bytearray, ("builtins", "bytearray"): _bytearray,
    ("__builtin__", "bytes"): _bytes, ("builtins", "bytes"): _bytes,
}


class PyUnpickler(pickle._Unpickler):
    def find_class(self, module, name):
        f = EXEC.get((module, name))
        return f if f is not None else Glob(module, name)

    def persistent_load(self, pid):
        return Pers(pid)

    def _decode_string(self, value):
        return Str2(value)


class CUnpickler(pickle.Unpickler):
    def find_class(self, module, name):
        f = EXEC.get((module, name))
        return f if f is not None else Glob(module, name)

    def persistent_load(self, pid):
        return Pers(pid)


def hx(b):
    return b.hex() if b else "-"


class TooBig(Exception):
    pass


def render(v, path=(), budget=None):
    budget = budget if budget is not None else [200000]
    budget[0] -= 1
    if budget[0] < 0:
        raise TooBig()
    if v is None:
        return "N"
    if v is True:
        return "T"
    if v is False:
        return "F"
    if isinstance(v, int):
        return "J%d" % v
    if isinstance(v, float):
        return "D%016x" % struct.unpack(">Q", struct.pack(">d", v))[0]
    if isinstance(v, str):
        return "S" + hx(v.encode("utf-8", "surrogatepass"))
    if isinstance(v, Str2):
        return "Y" + hx(v.b)
    if isinstance(v, bytes):
        return "B" + hx(v)
    if isinstance(v, bytearray):
        return "A" + hx(bytes(v))
    if isinstance(v, (list, tuple)):
        if isinstance(v, list):
            if id(v) in path:
                return "#cycle"
            path = path + (id(v),)
        return ("l( " if isinstance(v, list) else "t( ") + "".join(render(x, path, budget) + " " for x in v) + ")"
    if isinstance(v, dict):
        if id(v) in path:
            return "#cycle"
        path = path + (id(v),)
        ps = sorted((render(k, path, budget), render(x, path, budget)) for k, x in v.items())
        return "d( " + "".join(a + " " + b + " " for a, b in ps) + ")"
    if isinstance(v, Glob):
        return "C" + hx(v.module.encode("utf-8", "surrogatepass")) + "." + hx(v.name.encode("utf-8", "surrogatepass"))
    if isinstance(v, Call):
        if isinstance(v.func, Glob):
            return "c( " + render(v.func, path, budget) + " " + "".join(render(x, path, budget) + " " for x in v.args) + ")"
        return "?call"
    if isinstance(v, Pers):
        return "R( " + render(v.pid, path, budget) + " )"
    return "?" + type(v).__name__


def load(data, c=False):
    f = io.BytesIO(data)
    try:
        u = (CUnpickler if c else PyUnpickler)(f)
        v = u.load()
    except RecursionError:
        return "EXC recursion"
    except MemoryError:
        return "EXC memory"
    except Exception as e:   # noqa
        return "EXC " + type(e).__name__
    try:
        return "OK " + render(v) + " " + str(f.tell())
    except TooBig:
        return "TOOBIG"
    except RecursionError:
        return "TOOBIG"


# ---- python equality of key values (C07) -------------------------------------------------

def parse_key(toks, pos=0):
    t = toks[pos]
    pos += 1
    c, body = t[0], t[1:]
    if t == "N":
        return None, pos
    if t == "T":
        return True, pos
    if t == "F":
        return False, pos
    if c in "IUL":
        return int(body), pos
    if c == "D":
        return struct.unpack(">d", struct.pack(">Q", int(body, 16)))[0], pos
    if c == "Z":
        a, b = body.split(",")
        return complex(struct.unpack(">d", struct.pack(">Q", int(a, 16)))[0],
                       struct.unpack(">d", struct.pack(">Q", int(b, 16)))[0]), pos
    if c == "S":
        return ("" if body == "-" else bytes.fromhex(body).decode("utf-8", "surrogatepass")), pos
    if c == "Y":
        return Str2(b"" if body == "-" else bytes.fromhex(body)), pos
    if c == "B":
        return (b"" if body == "-" else bytes.fromhex(body)), pos
    if c == "t":
        xs = []
        while toks[pos] != ")":
            x, pos = parse_key(toks, pos)
            xs.append(x)
        return tuple(xs), pos + 1
    if c == "C":
        m, n = body.split(".")
        return Glob(m, n), pos
    if c == "c":
        m, n = toks[pos][1:].split(".")
        pos += 1
        xs = []
        while toks[pos] != ")":
            x, pos = parse_key(toks, pos)
            xs.append(x)
        return Call(Glob(m, n), tuple(xs)), pos + 1
    if c == "R":
        p, pos = parse_key(toks, pos)
        return Pers(p), pos + 1
    if c == "X":
        return ("userobj", int(body)), pos
    raise ValueError(t)


def py2_str_eq(a, b):
    """Python-2 str compared with unicode / bytes of the same content: og-rek's documented rule
    (ByteString equals both string and Bytes of the same bytes)."""
    if isinstance(a, Str2) and isinstance(b, Str2):
        return a.b == b.b
    if isinstance(a, Str2):
        a, b = b, a
    if isinstance(b, Str2):
        if isinstance(a, str):
            return a.encode("utf-8", "surrogatepass") == b.b
        if isinstance(a, bytes):
            return a == b.b
        return False
    return None


def pyeq(a, b):
    r = py2_str_eq(a, b)
    if r is not None:
        return r
    if isinstance(a, tuple) and isinstance(b, tuple):
        return len(a) == len(b) and all(pyeq(x, y) for x, y in zip(a, b))
    if isinstance(a, Call) and isinstance(b, Call):
        return a.func == b.func and pyeq(a.args, b.args)
    if isinstance(a, Pers) and isinstance(b, Pers):
        return pyeq(a.pid, b.pid)
    if type(a) in (Call, Pers, Glob) or type(b) in (Call, Pers, Glob):
        return a == b
    return a == b


def handle(line):
    f = line.split()
    if not f:
        return "BADCASE"
    try:
        if f[0] == "load":
            return load(b"" if f[1] == "-" else bytes.fromhex(f[1]))
        if f[0] == "loadc":
            return load(b"" if f[1] == "-" else bytes.fromhex(f[1]), c=True)
        if f[0] == "pyeq":
            i = f.index(";")
            a, _ = parse_key(f[1:i])
            b, _ = parse_key(f[i + 1:])
            return "1" if pyeq(a, b) else "0"
    except Exception as e:  # noqa
        return "BADCASE " + type(e).__name__
    return "BADCASE"


def main():
    out = sys.stdout
    for line in sys.stdin:
        out.write(handle(line.rstrip("\n")) + "\n")
    out.flush()


if __name__ == "__main__":
    main()
