#!/usr/bin/env python3
"""CPython as reference: loads pickles with classes, calls and persistent ids kept symbolic and
prints the result in canonical text. One case per input line, one answer per line.

  load <hex>      pure-Python unpickler (py2 `str` kept distinct as Y…)
  loadc <hex>     C unpickler (py2 `str` decoded as bytes: printed as B…)
  pyeq <v> ; <v>  Python == and hash agreement of two key values
"""
import io
import math
import pickle
import struct
import sys

sys.setrecursionlimit(20000)


class Glob(object):
    __slots__ = ("module", "name")

    def __init__(self, module, name):
        self.module, self.name = module, name

    def __call__(self, *args):
        return Call(self, args)

    def __eq__(self, o):
        return isinstance(o, Glob) and (self.module, self.name) == (o.module, o.name)

    def __ne__(self, o):
        return not self == o

    def __hash__(self):
        return hash(("Glob", self.module, self.name))


class Call(object):
    __slots__ = ("func", "args")

    def __init__(self, func, args):
        self.func, self.args = func, tuple(args)

    def __eq__(self, o):
        return isinstance(o, Call) and self.func == o.func and self.args == o.args

    def __ne__(self, o):
        return not self == o

    def __hash__(self):
        return hash(("Call", self.func, self.args))


class Pers(object):
    __slots__ = ("pid",)

    def __init__(self, pid):
        self.pid = pid

    def __eq__(self, o):
        return isinstance(o, Pers) and self.pid == o.pid

    def __ne__(self, o):
        return not self == o

    def __hash__(self):
        return hash(("Pers", self.pid))


class Str2(object):
    """A Python-2 `str` (byte string) as loaded from STRING / BINSTRING / SHORT_BINSTRING."""
    __slots__ = ("b",)

    def __init__(self, b):
        self.b = bytes(b)

    def __eq__(self, o):
        return isinstance(o, Str2) and self.b == o.b

    def __ne__(self, o):
        return not self == o

    def __hash__(self):
        return hash(("Str2", self.b))


def _text(x):
    if isinstance(x, Str2):
        return x.b.decode("latin-1")
    return x


def _codecs_encode(obj, encoding="utf-8", errors="strict"):
    import codecs
    return codecs.encode(_text(obj), _text(encoding), _text(errors))


def _bytearray(*args):
    if len(args) >= 2:
        # bytearray(text, encoding): the encoding name is a Python-2 str in pickles Python 2 wrote ('latin-1'); Python 3 reads it as text
        a0 = args[0].b if isinstance(args[0], Str2) else args[0]
        return bytearray(a0, *[_text(a) for a in args[1:]])
    args = [a.b if isinstance(a, Str2) else a for a in args]
    return bytearray(*args)


def _bytes_of(module):
    def _bytes(*args):
        if not args:
            return b""
        return Call(Glob(module, "bytes"), args)      # bytes(...) with arguments: kept symbolic, under the name it was found by
    return _bytes


class ExecGlob(Glob):
    """A global that is executed when called (and is still a global when merely referenced)."""
    __slots__ = ("fn",)

    def __init__(self, module, name, fn):
        Glob.__init__(self, module, name)
        self.fn = fn

    def __call__(self, *args):
        return self.fn(*args)

    __hash__ = Glob.__hash__


EXEC = {
    ("_codecs", "encode"): ExecGlob("_codecs", "encode", _codecs_encode),
    ("__builtin__", "bytearray"): ExecGlob("__builtin__", "bytearray", _bytearray),
    ("builtins", "bytearray"): ExecGlob("builtins", "bytearray", _bytearray),
    ("__builtin__", "bytes"): ExecGlob("__builtin__", "bytes", _bytes_of("__builtin__")),
    ("builtins", "bytes"): ExecGlob("builtins", "bytes", _bytes_of("builtins")),
}


def find_class_for(proto, module, name):
    """bytes / bytearray builtins: `__builtin__` is their module for protocols <= 2 (CPython maps it through
    fix_imports), `builtins` from protocol 3 on, where `__builtin__` cannot be imported at all."""
    if module == "__builtin__" and name in ("bytes", "bytearray"):
        # from protocol 3 on this module name means nothing to CPython 3: kept symbolic like any other class
        return Glob(module, name) if proto >= 3 else EXEC[(module, name)]
    if module == "builtins" and name in ("bytes", "bytearray"):
        return EXEC[(module, name)] if proto >= 3 else Glob(module, name)
    f = EXEC.get((module, name))
    return f if f is not None else Glob(module, name)


class PyUnpickler(pickle._Unpickler):
    def find_class(self, module, name):
        return find_class_for(self.proto, module, name)

    def persistent_load(self, pid):
        return Pers(pid)

    def _decode_string(self, value):
        return Str2(value)


class CUnpickler(pickle.Unpickler):
    def find_class(self, module, name):
        f = EXEC.get((module, name))
        return f if f is not None else Glob(module, name)

    def persistent_load(self, pid):
        return Pers(pid)


# CPython compares "identical or equal" (PyObject_RichCompareBool): a NaN float object is a dict key equal to
# itself, and tuples holding the same NaN object are equal. IDENTITY = False evaluates the same program with
# plain == (what a value-based implementation can at best do); the two differ only around shared NaN objects.
IDENTITY = True


class RefDict(object):
    """Reference dictionary: linear search with an explicit equality; keeps the first key object and
    the last value per class, as Python's dict does."""

    def __init__(self, eq):
        self.eq = eq
        self.items_ = []

    def __setitem__(self, k, v):
        hash(k)     # unhashable keys raise TypeError as in dict
        for i, (a, _) in enumerate(self.items_):
            if (IDENTITY and a is k) or self.eq(a, k):
                self.items_[i] = (a, v)
                return
        self.items_.append((k, v))

    def update(self, other):
        for k, v in other.items():
            self[k] = v

    def items(self):
        return list(self.items_)

    __hash__ = None


def py2eq(a, b):
    """Equality with Python-2 str semantics for Str2: equal to unicode of the same ASCII content,
    and (og-rek's rule, = Python 3 with encoding='bytes') to bytes of the same content."""
    if IDENTITY and a is b:
        return True
    if isinstance(a, Str2) or isinstance(b, Str2):
        if isinstance(a, Str2) and isinstance(b, Str2):
            return a.b == b.b
        if isinstance(b, Str2):
            a, b = b, a
        if isinstance(b, str):
            try:
                return a.b.decode("ascii") == b
            except UnicodeDecodeError:
                return a.b == b.encode("utf-8", "surrogatepass")
        if isinstance(b, bytes):
            return a.b == b
        return False
    if isinstance(a, tuple) and isinstance(b, tuple):
        return len(a) == len(b) and all(py2eq(x, y) for x, y in zip(a, b))
    if isinstance(a, Call) and isinstance(b, Call):
        return a.func == b.func and py2eq(a.args, b.args)
    if isinstance(a, Pers) and isinstance(b, Pers):
        return py2eq(a.pid, b.pid)
    if isinstance(a, (list, dict, bytearray, RefDict)) or isinstance(b, (list, dict, bytearray, RefDict)):
        return a is b
    try:
        return bool(a == b)
    except Exception:   # noqa
        return False


def py3eq(a, b):
    """Equality when a py2 str is taken for text (StrictUnicode off; = Python 3 loading with a text
    encoding): it equals the unicode string of the same bytes and no bytes object."""
    def conv(x):
        if isinstance(x, Str2):
            return ("text", x.b)
        if isinstance(x, str):
            return ("text", x.encode("utf-8", "surrogatepass"))
        if isinstance(x, tuple):
            return tuple(conv(y) for y in x)
        return x
    a, b = conv(a), conv(b)
    return py2eq(a, b)


class RefUnpickler(PyUnpickler):
    """Pure-Python unpickler whose dicts are RefDicts with py2-aware Python equality."""
    dispatch = dict(pickle._Unpickler.dispatch)
    keyeq = staticmethod(py2eq)

    def load_empty_dictionary(self):
        self.append(RefDict(self.keyeq))
    dispatch[pickle.EMPTY_DICT[0]] = load_empty_dictionary

    def load_dict(self):
        items = self.pop_mark()
        d = RefDict(self.keyeq)
        for i in range(0, len(items), 2):
            d[items[i]] = items[i + 1]
        self.append(d)
    dispatch[pickle.DICT[0]] = load_dict


class RefUnpickler0(RefUnpickler):
    dispatch = RefUnpickler.dispatch
    keyeq = staticmethod(py3eq)


def hx(b):
    return b.hex() if b else "-"


class TooBig(Exception):
    pass


def render(v, path=(), budget=None):
    budget = budget if budget is not None else [200000]
    budget[0] -= 1
    if budget[0] < 0:
        raise TooBig()
    if v is None:
        return "N"
    if v is True:
        return "T"
    if v is False:
        return "F"
    if isinstance(v, int):
        return "J%d" % v
    if isinstance(v, float):
        return "D%016x" % struct.unpack(">Q", struct.pack(">d", v))[0]
    if isinstance(v, str):
        return "S" + hx(v.encode("utf-8", "surrogatepass"))
    if isinstance(v, Str2):
        return "Y" + hx(v.b)
    if isinstance(v, bytes):
        return "B" + hx(v)
    if isinstance(v, bytearray):
        return "A" + hx(bytes(v))
    if isinstance(v, (list, tuple)):
        if isinstance(v, list):
            if id(v) in path:
                return "#cycle"
            path = path + (id(v),)
        return ("l( " if isinstance(v, list) else "t( ") + "".join(render(x, path, budget) + " " for x in v) + ")"
    if isinstance(v, RefDict):
        if id(v) in path:
            return "#cycle"
        path = path + (id(v),)
        ps = sorted((render(k, path, budget), render(x, path, budget)) for k, x in v.items())
        return "d( " + "".join(a + " " + b + " " for a, b in ps) + ")"
    if isinstance(v, dict):
        if id(v) in path:
            return "#cycle"
        path = path + (id(v),)
        ps = sorted((render(k, path, budget), render(x, path, budget)) for k, x in v.items())
        return "d( " + "".join(a + " " + b + " " for a, b in ps) + ")"
    if isinstance(v, Glob):
        return "C" + hx(v.module.encode("utf-8", "surrogatepass")) + "." + hx(v.name.encode("utf-8", "surrogatepass"))
    if isinstance(v, Call):
        if isinstance(v.func, Glob):
            return "c( " + render(v.func, path, budget) + " " + "".join(render(x, path, budget) + " " for x in v.args) + ")"
        return "?call"
    if isinstance(v, Pers):
        return "R( " + render(v.pid, path, budget) + " )"
    return "?" + type(v).__name__


def load(data, c=False, ref=False, ref0=False):
    f = io.BytesIO(data)
    try:
        u = (RefUnpickler0 if ref0 else RefUnpickler if ref else CUnpickler if c else PyUnpickler)(f)
        v = u.load()
    except RecursionError:
        return "EXC recursion"
    except MemoryError:
        return "EXC memory"
    except Exception as e:   # noqa
        return "EXC " + type(e).__name__
    try:
        return "OK " + render(v) + " " + str(f.tell())
    except TooBig:
        return "TOOBIG"
    except RecursionError:
        return "TOOBIG"


# ---- python equality of key values (C07) -------------------------------------------------

def parse_key(toks, pos=0):
    t = toks[pos]
    pos += 1
    c, body = t[0], t[1:]
    if t == "N":
        return None, pos
    if t == "T":
        return True, pos
    if t == "F":
        return False, pos
    if c in "IULJ":
        return int(body), pos
    if c == "D":
        return struct.unpack(">d", struct.pack(">Q", int(body, 16)))[0], pos
    if c == "Z":
        a, b = body.split(",")
        return complex(struct.unpack(">d", struct.pack(">Q", int(a, 16)))[0],
                       struct.unpack(">d", struct.pack(">Q", int(b, 16)))[0]), pos
    if c == "S":
        return ("" if body == "-" else bytes.fromhex(body).decode("utf-8", "surrogatepass")), pos
    if c == "Y":
        return Str2(b"" if body == "-" else bytes.fromhex(body)), pos
    if c == "B":
        return (b"" if body == "-" else bytes.fromhex(body)), pos
    if c == "t":
        xs = []
        while toks[pos] != ")":
            x, pos = parse_key(toks, pos)
            xs.append(x)
        return tuple(xs), pos + 1
    if c == "C":
        m, n = body.split(".")
        return Glob(m, n), pos
    if c == "c":
        m, n = toks[pos][1:].split(".")
        pos += 1
        xs = []
        while toks[pos] != ")":
            x, pos = parse_key(toks, pos)
            xs.append(x)
        return Call(Glob(m, n), tuple(xs)), pos + 1
    if c == "R":
        p, pos = parse_key(toks, pos)
        return Pers(p), pos + 1
    if c == "X":
        return ("userobj", int(body)), pos
    raise ValueError(t)


def py2_str_eq(a, b):
    """Python-2 str compared with unicode / bytes of the same content: og-rek's documented rule
    (ByteString equals both string and Bytes of the same bytes)."""
    if isinstance(a, Str2) and isinstance(b, Str2):
        return a.b == b.b
    if isinstance(a, Str2):
        a, b = b, a
    if isinstance(b, Str2):
        if isinstance(a, str):
            return a.encode("utf-8", "surrogatepass") == b.b
        if isinstance(a, bytes):
            return a == b.b
        return False
    return None


def pyeq(a, b):
    r = py2_str_eq(a, b)
    if r is not None:
        return r
    if isinstance(a, tuple) and isinstance(b, tuple):
        return len(a) == len(b) and all(pyeq(x, y) for x, y in zip(a, b))
    if isinstance(a, Call) and isinstance(b, Call):
        return a.func == b.func and pyeq(a.args, b.args)
    if isinstance(a, Pers) and isinstance(b, Pers):
        return pyeq(a.pid, b.pid)
    if type(a) in (Call, Pers, Glob) or type(b) in (Call, Pers, Glob):
        return a == b
    return a == b


def handle(line):
    f = line.split()
    if not f:
        return "BADCASE"
    try:
        if f[0] == "load":
            return load(b"" if f[1] == "-" else bytes.fromhex(f[1]))
        if f[0] == "loadc":
            return load(b"" if f[1] == "-" else bytes.fromhex(f[1]), c=True)
        if f[0] == "loadr":
            return load(b"" if f[1] == "-" else bytes.fromhex(f[1]), ref=True)
        if f[0] == "loadr0":
            return load(b"" if f[1] == "-" else bytes.fromhex(f[1]), ref0=True)
        if f[0] in ("loadrn", "loadr0n"):      # the same without the identity shortcut
            global IDENTITY
            IDENTITY = False
            try:
                return load(b"" if f[1] == "-" else bytes.fromhex(f[1]), ref=f[0] == "loadrn", ref0=f[0] == "loadr0n")
            finally:
                IDENTITY = True
        if f[0] == "pyeq":
            i = f.index(";")
            a, _ = parse_key(f[1:i])
            b, _ = parse_key(f[i + 1:])
            return "1" if pyeq(a, b) else "0"
    except Exception as e:  # noqa
        return "BADCASE " + type(e).__name__
    return "BADCASE"


def main():
    out = sys.stdout
    for line in sys.stdin:
        out.write(handle(line.rstrip("\n")) + "\n")
    out.flush()


if __name__ == "__main__":
    main()
