#!/bin/sh
# Builds the framework from files on disk only (offline): fact extractor, Go harness (tag verif,
# against /repo's working tree), Lean model + theorems + compiled driver.
set -e
cd "$(dirname "$0")"
export GOFLAGS=-mod=mod GOPROXY=off GOSUMDB=off GOTOOLCHAIN=local
mkdir -p bin work evidence replays
(cd extract && go build -o ../bin/extract .)
cp /repo/go.sum harness/go.sum 2>/dev/null || true
(cd harness && go build -tags verif -o ../bin/harness .)
./bin/extract /repo work/generated.setup 2>/dev/null || { mkdir -p work/generated.setup && ./bin/extract /repo work/generated.setup; }
for f in work/generated.setup/*.lean; do
  cmp -s "$f" "lean/Ogorek/Generated/$(basename "$f")" || cp "$f" "lean/Ogorek/Generated/$(basename "$f")"
done
(cd lean && lake build)
echo "setup done"
