//go:build verif

package main

import (
	"fmt"
	"hash/maphash"
	"strings"

	og "github.com/kisielk/og-rek"
)

func longCase(s string) string {
	b, err := og.VerifDecodeLong(s)
	if err != nil {
		return "ERR"
	}
	return b.String()
}

func quoteCase(fn, s string) string {
	switch fn {
	case "pyquote":
		return hexOrDash(og.VerifPyquote(s))
	case "decse":
		r, err, p := func() (r string, err error, p string) {
			defer func() {
				if x := recover(); x != nil {
					p = fmt.Sprint(x)
				}
			}()
			r, err = og.VerifPydecodeStringEscape(s)
			return
		}()
		if p != "" {
			return "PANIC"
		}
		if err != nil {
			return "ERR"
		}
		return "OK " + hexOrDash(r)
	case "encrue":
		r, err := og.VerifPyencodeRawUnicodeEscape(s)
		if err != nil {
			return "ERR"
		}
		return "OK " + hexOrDash(r)
	case "decrue":
		r, err := og.VerifPydecodeRawUnicodeEscape(s)
		if err != nil {
			return "ERR"
		}
		return "OK " + hexOrDash(r)
	}
	return "BADCASE"
}

var seeds = func() []maphash.Seed {
	s := make([]maphash.Seed, 4)
	for i := range s {
		s[i] = maphash.MakeSeed()
	}
	return s
}()

func hashOf(seed maphash.Seed, x any) (h uint64, unhashable bool) {
	defer func() {
		if r := recover(); r != nil {
			unhashable = true
		}
	}()
	return og.VerifHash(seed, x), false
}

func eqCase(toks []string) string {
	i := 0
	for i < len(toks) && toks[i] != ";" {
		i++
	}
	if i >= len(toks) {
		return "BADCASE"
	}
	a, err := parseValue(toks[:i])
	if err != nil {
		return "BADCASE"
	}
	b, err := parseValue(toks[i+1:])
	if err != nil {
		return "BADCASE"
	}
	e := "0"
	if og.VerifEqual(a, b) {
		e = "1"
	}
	// the same key OBJECT on both sides (one slice, one pointer) must compare as two equal-valued objects do: equality is by value,
	// element-wise - a tuple holding a NaN is not equal to itself
	if strings.Join(toks[:i], " ") == strings.Join(toks[i+1:], " ") {
		if og.VerifEqual(a, a) != og.VerifEqual(a, b) {
			return "SELF-DIFFERS " + e
		}
	}
	h := "1"
	for _, s := range seeds {
		ha, ua := hashOf(s, a)
		hb, ub := hashOf(s, b)
		if ua || ub {
			h = "U"
			break
		}
		if ha != hb {
			h = "0"
		}
	}
	return e + " " + h
}
