package main

// Executes case lines against the real package, one answer line per case.

import (
	"bufio"
	"bytes"
	"encoding/hex"
	"errors"
	"fmt"
	"io"
	"math/big"
	"os"
	"runtime"
	"runtime/debug"
	"strconv"
	"strings"
	"sync/atomic"
	"time"

	og "github.com/kisielk/og-rek"
)

// classifyWithPos: print an OpcodeError with its position (commands decp / decsp; cases run one at a time).
var classifyWithPos atomic.Bool

func classify(err error) string {
	var oe og.OpcodeError
	switch {
	case errors.Is(err, io.ErrUnexpectedEOF):
		return "unexpectedEOF"
	case errors.Is(err, io.EOF):
		return "eof"
	case errors.As(err, &oe):
		if classifyWithPos.Load() {
			return "opcode:" + strconv.Itoa(int(oe.Key)) + "@" + strconv.Itoa(oe.Pos)
		}
		return "opcode:" + strconv.Itoa(int(oe.Key))
	case errors.Is(err, og.ErrInvalidPickleVersion):
		return "invalidVersion"
	}
	return "other"
}

func parseCfg(s string) (pyDict, su bool, err error) {
	if len(s) != 2 {
		return false, false, fmt.Errorf("bad cfg")
	}
	return s[0] == '1', s[1] == '1', nil
}

// loadHook builds PersistentLoad from its spec; calls are logged into *log.
func loadHook(spec string, log *[]og.Ref) (func(og.Ref) (any, error), error) {
	switch {
	case spec == "-":
		return nil, nil
	case spec == "K":
		return func(r og.Ref) (any, error) { *log = append(*log, r); return nil, nil }, nil
	case spec == "R":
		return func(r og.Ref) (any, error) {
			i := len(*log)
			*log = append(*log, r)
			return userObj(i), nil
		}, nil
	case spec == "I":
		// inverse of the "S" PersistentRef hook: "id<n>" -> application object n
		return func(r og.Ref) (any, error) {
			*log = append(*log, r)
			if s, ok := r.Pid.(string); ok && strings.HasPrefix(s, "id") {
				if n, err := strconv.Atoi(s[2:]); err == nil && n >= 0 && strconv.Itoa(n) == s[2:] {
					return userObj(n), nil
				}
			}
			if s, ok := r.Pid.(string); ok && strings.HasPrefix(s, "i\xe9d") { // inverse of the "B" hook as well
				if n, err := strconv.Atoi(s[3:]); err == nil && n >= 0 && strconv.Itoa(n) == s[3:] {
					return userObj(n), nil
				}
			}
			return nil, nil
		}, nil
	case spec == "J":
		// inverse of the "P" PersistentRef hook
		return func(r og.Ref) (any, error) {
			*log = append(*log, r)
			switch pid := r.Pid.(type) {
			case string:
				if strings.HasPrefix(pid, "id") {
					if n, err := strconv.Atoi(pid[2:]); err == nil {
						return userObj(n), nil
					}
				}
			case og.Tuple:
				if len(pid) == 2 {
					if u, ok := pid[0].(*UserObj); ok {
						if s, ok := pid[1].(string); ok && s == "oid"+strconv.Itoa(u.N-100) {
							return userObj(u.N - 100), nil
						}
					}
				}
			}
			return nil, nil
		}, nil
	case strings.HasPrefix(spec, "F"), strings.HasPrefix(spec, "G"):
		k, err := strconv.Atoi(spec[1:])
		if err != nil {
			return nil, err
		}
		withValue := spec[0] == 'G'
		return func(r og.Ref) (any, error) {
			i := len(*log)
			if i == k {
				// the failing call is not logged: the model's log lives in the state, which a failing step does not return
				if withValue {
					// what `return db.get(oid)` gives when get returns ((*T)(nil), err): a non-nil interface AND an error
					if i%2 == 0 {
						return (*UserObj)(nil), errors.New("injected load failure")
					}
					return userObj(i), errors.New("injected load failure")
				}
				return nil, errors.New("injected load failure")
			}
			*log = append(*log, r)
			return userObj(i), nil
		}, nil
	}
	return nil, fmt.Errorf("bad hook spec")
}

func refHook(spec string, log *[]any) (func(any) *og.Ref, error) {
	mk := func(f func(n int) *og.Ref) func(any) *og.Ref {
		return func(obj any) *og.Ref {
			*log = append(*log, obj)
			if u, ok := obj.(*UserObj); ok {
				return f(u.N)
			}
			return nil
		}
	}
	switch spec {
	case "-":
		return nil, nil
	case "S":
		return mk(func(n int) *og.Ref { return &og.Ref{Pid: "id" + strconv.Itoa(n)} }), nil
	case "B":
		// string ids that are not valid UTF-8 (8-byte binary oids kept in a Go string)
		return mk(func(n int) *og.Ref { return &og.Ref{Pid: "i\xe9d" + strconv.Itoa(n)} }), nil
	case "G":
		// a hook that maps EVERY kind of pointer-to-struct it is shown: application objects, and the library's own struct
		// types when held by pointer (*big.Int)
		return func(obj any) *og.Ref {
			*log = append(*log, obj)
			switch x := obj.(type) {
			case *UserObj:
				return &og.Ref{Pid: "id" + strconv.Itoa(x.N)}
			case *big.Int:
				return &og.Ref{Pid: "big:" + x.String()}
			}
			return nil
		}, nil
	case "T":
		return mk(func(n int) *og.Ref { return &og.Ref{Pid: og.Tuple{"cls", int64(n)}} }), nil
	case "N":
		return mk(func(n int) *og.Ref { return &og.Ref{Pid: "id\n" + strconv.Itoa(n)} }), nil
	case "P":
		// ZODB-like id (class, oid) whose first component is itself an application object the hook maps (objects >= 100
		// get a plain string id, so the recursion ends): the hook must be consulted inside the id too
		return mk(func(n int) *og.Ref {
			if n >= 100 {
				return &og.Ref{Pid: "id" + strconv.Itoa(n)}
			}
			return &og.Ref{Pid: og.Tuple{userObj(n + 100), "oid" + strconv.Itoa(n)}}
		}), nil
	case "E":
		return mk(func(n int) *og.Ref {
			if n%2 == 0 {
				return &og.Ref{Pid: "id" + strconv.Itoa(n)}
			}
			return nil
		}), nil
	}
	return nil, fmt.Errorf("bad ref hook spec")
}

type countReader struct {
	r io.Reader
	n int
}

func (c *countReader) Read(p []byte) (int, error) {
	n, err := c.r.Read(p)
	c.n += n
	return n, err
}

// decodeOne runs one Decode with panic capture.
func decodeOne(d *og.Decoder) (v any, err error, panicked string) {
	defer func() {
		if r := recover(); r != nil {
			panicked = fmt.Sprint(r)
		}
	}()
	v, err = d.Decode()
	return
}

func showDec(v any, err error, panicked string, consumed int) string {
	if panicked != "" {
		return "ERR PANIC:" + panicked
	}
	if err != nil {
		if v != nil {
			return "ERR " + classify(err) + " NONNIL"
		}
		return "ERR " + classify(err)
	}
	return "OK " + render(v) + " " + strconv.Itoa(consumed)
}

// consumed bytes = bytes handed to bufio minus what is still buffered there.
func runDec(pyDict, su bool, hook string, inp []byte, stream bool) string {
	s, _ := runDecLog(pyDict, su, hook, inp, stream)
	return s
}

func runDecLog(pyDict, su bool, hook string, inp []byte, stream bool) (string, []og.Ref) {
	var log []og.Ref
	h, err := loadHook(hook, &log)
	if err != nil {
		return "BADCASE", nil
	}
	// the decoder adopts a *bufio.Reader that is large enough, so Buffered() is observable
	src := bytes.NewReader(inp)
	br := bufio.NewReader(src)
	consumedOf := func() int { return len(inp) - src.Len() - br.Buffered() }
	d := og.NewDecoderWithConfig(br, &og.DecoderConfig{PersistentLoad: h, StrictUnicode: su, PyDict: pyDict})
	if !stream {
		v, err, p := decodeOne(d)
		return showDec(v, err, p, consumedOf()), log
	}
	var out []string
	var vals []any
	var snaps []string
	prev := 0
	for i := 0; i < 64; i++ {
		v, err, p := decodeOne(d)
		c := consumedOf()
		out = append(out, showDec(v, err, p, c-prev))
		prev = c
		if p != "" || errors.Is(err, io.EOF) || errors.Is(err, io.ErrUnexpectedEOF) {
			break
		}
		if err != nil {
			continue // the caller decides how far the stream is comparable after an error
		}
		vals = append(vals, v)
		snaps = append(snaps, render(v))
	}
	// values already returned must not be altered by later Decode calls
	for i, v := range vals {
		if render(v) != snaps[i] {
			out = append(out, fmt.Sprintf("ALTERED#%d", i))
		}
	}
	return strings.Join(out, " | "), log
}

func cutLetter(v any, err error, p string) byte {
	switch {
	case p != "":
		return 'P'
	case err == nil:
		return 'V'
	case v != nil:
		return 'N'
	case errors.Is(err, io.ErrUnexpectedEOF):
		return 'U'
	case errors.Is(err, io.EOF):
		return 'E'
	}
	return 'O'
}

func runCuts(pyDict, su bool, inp []byte) string {
	mk := func(b []byte) (*og.Decoder, func() int) {
		src := bytes.NewReader(b)
		br := bufio.NewReader(src)
		return og.NewDecoderWithConfig(br, &og.DecoderConfig{StrictUnicode: su, PyDict: pyDict}),
			func() int { return len(b) - src.Len() - br.Buffered() }
	}
	d, consumed := mk(inp)
	v, err, p := decodeOne(d)
	head := ""
	switch {
	case p != "":
		head = "ERR PANIC:" + p
	case err != nil:
		head = "ERR " + classify(err)
	default:
		_ = v
		head = "OK " + strconv.Itoa(consumed())
	}
	letters := make([]byte, len(inp))
	for k := 0; k < len(inp); k++ {
		d, _ := mk(inp[:k])
		v, err, p := decodeOne(d)
		letters[k] = cutLetter(v, err, p)
	}
	return head + " " + string(letters)
}

// runCutsK: the full input and the listed proper prefixes, each handed to a fresh Decoder through a reader of the
// given kind (B bytes.Reader, S strings.Reader, U bytes.Buffer — all with a Len method — R bufio over bytes.Reader,
// O a reader exposing only Read).
func runCutsK(pyDict, su bool, kind string, ks []int, inp []byte) string {
	mk := func(b []byte) io.Reader {
		switch kind {
		case "B":
			return bytes.NewReader(b)
		case "S":
			return strings.NewReader(string(b))
		case "U":
			return bytes.NewBuffer(append([]byte(nil), b...))
		case "R":
			return bufio.NewReader(bytes.NewReader(b))
		}
		return onlyReader{bytes.NewReader(b)}
	}
	dec := func(b []byte) byte {
		d := og.NewDecoderWithConfig(mk(b), &og.DecoderConfig{StrictUnicode: su, PyDict: pyDict})
		v, err, p := decodeOne(d)
		return cutLetter(v, err, p)
	}
	out := []byte{dec(inp), ' '}
	for _, k := range ks {
		if k < 0 || k > len(inp) {
			out = append(out, '?')
			continue
		}
		out = append(out, dec(inp[:k]))
	}
	return string(out)
}

type onlyReader struct{ r io.Reader }

func (o onlyReader) Read(p []byte) (int, error) { return o.r.Read(p) }

// chunkedReader delivers the input according to a schedule of chunk sizes
// (0 = an empty read; the last chunk may be delivered together with io.EOF).
type chunkedReader struct {
	data    []byte
	sizes   []int
	i       int
	withEOF bool
}

func (c *chunkedReader) Read(p []byte) (int, error) {
	if len(c.data) == 0 {
		return 0, io.EOF
	}
	n := len(c.data)
	if c.i < len(c.sizes) {
		n = c.sizes[c.i]
		c.i++
	}
	if n > len(c.data) {
		n = len(c.data)
	}
	if n > len(p) {
		n = len(p)
	}
	copy(p, c.data[:n])
	c.data = c.data[n:]
	if len(c.data) == 0 && c.withEOF {
		return n, io.EOF
	}
	return n, nil
}

// runDecR: stream decoding through a chunked reader. schedule: "e" prefix = final data with
// io.EOF; then comma-separated sizes, the last one repeating ("1" = byte at a time).
func runDecR(pyDict, su bool, sched string, inp []byte, hookSpec ...string) string {
	cr := &chunkedReader{data: append([]byte(nil), inp...)}
	if strings.HasPrefix(sched, "e") {
		cr.withEOF = true
		sched = sched[1:]
	}
	rep := 0
	for _, f := range strings.Split(sched, ",") {
		if f == "" {
			continue
		}
		if strings.HasSuffix(f, "*") {
			rep, _ = strconv.Atoi(f[:len(f)-1])
			continue
		}
		n, err := strconv.Atoi(f)
		if err != nil {
			return "BADCASE"
		}
		cr.sizes = append(cr.sizes, n)
	}
	if rep > 0 {
		for i := 0; i < len(inp)/rep+2; i++ {
			cr.sizes = append(cr.sizes, rep)
		}
	}
	cfgR := &og.DecoderConfig{StrictUnicode: su, PyDict: pyDict}
	if len(hookSpec) == 1 {
		var hlog []og.Ref
		h, err := loadHook(hookSpec[0], &hlog)
		if err != nil {
			return "BADCASE"
		}
		cfgR.PersistentLoad = h
	}
	d := og.NewDecoderWithConfig(cr, cfgR)
	var out []string
	for i := 0; i < 64; i++ {
		v, err, p := decodeOne(d)
		s := showDec(v, err, p, 0)
		// consumption is not observable through an arbitrary reader
		if strings.HasPrefix(s, "OK ") {
			s = s[:strings.LastIndex(s, " ")]
		}
		out = append(out, s)
		if p != "" || errors.Is(err, io.EOF) || errors.Is(err, io.ErrUnexpectedEOF) {
			break
		}
	}
	return strings.Join(out, " | ")
}

func runAlloc(pyDict, su bool, inp []byte) string {
	var m0, m1 runtime.MemStats
	d := og.NewDecoderWithConfig(bytes.NewReader(inp), &og.DecoderConfig{StrictUnicode: su, PyDict: pyDict})
	runtime.ReadMemStats(&m0)
	_, err, p := decodeOne(d)
	runtime.ReadMemStats(&m1)
	cls := "ok"
	if p != "" {
		cls = "PANIC"
	} else if err != nil {
		cls = classify(err)
	}
	return fmt.Sprintf("%d %s", m1.TotalAlloc-m0.TotalAlloc, cls)
}

// runReenc: decode, then re-encode the result at every protocol and decode that again.
func runReenc(pyDict, su bool, inp []byte) string {
	d := og.NewDecoderWithConfig(bytes.NewReader(inp), &og.DecoderConfig{StrictUnicode: su, PyDict: pyDict})
	v, err, p := decodeOne(d)
	if p != "" {
		return "ERR PANIC:" + p
	}
	if err != nil {
		return "ERR " + classify(err)
	}
	first := render(v)
	if first == "TOOBIG" || strings.Contains(first, "#cycle") {
		return "SKIP " + first[:6]
	}
	out := []string{"OK " + first}
	for proto := 0; proto <= 5; proto++ {
		w := &chunkWriter{}
		e := og.NewEncoderWithConfig(w, &og.EncoderConfig{Protocol: proto, StrictUnicode: su})
		err, p := encodeOne(e, v)
		if p != "" {
			out = append(out, fmt.Sprintf("p%d:PANIC:%s", proto, p))
			continue
		}
		if err != nil {
			out = append(out, fmt.Sprintf("p%d:ENCERR:%s", proto, encClass(err)))
			continue
		}
		d2 := og.NewDecoderWithConfig(bytes.NewReader(bytes.Join(w.chunks, nil)), &og.DecoderConfig{StrictUnicode: su, PyDict: pyDict})
		v2, err, p := decodeOne(d2)
		switch {
		case p != "":
			out = append(out, fmt.Sprintf("p%d:DECPANIC:%s", proto, p))
		case err != nil:
			out = append(out, fmt.Sprintf("p%d:DECERR:%s", proto, classify(err)))
		case render(v2) == first:
			out = append(out, fmt.Sprintf("p%d:SAME", proto))
		default:
			out = append(out, fmt.Sprintf("p%d:DIFF:%s", proto, strings.ReplaceAll(render(v2), " ", "_")))
		}
	}
	return strings.Join(out, " ")
}

// runEncW: the same value through differently buffering writers must give the same bytes.
func runEncW(proto int, su bool, v any) string {
	enc := func(w io.Writer) (error, string) {
		e := og.NewEncoderWithConfig(w, &og.EncoderConfig{Protocol: proto, StrictUnicode: su})
		return encodeOne(e, v)
	}
	cw := &chunkWriter{}
	err1, p1 := enc(cw)
	var bb bytes.Buffer
	err2, p2 := enc(&bb)
	var under bytes.Buffer
	bw := bufio.NewWriterSize(&under, 16)
	err3, p3 := enc(bw)
	bw.Flush()
	if p1 != "" || p2 != "" || p3 != "" {
		return "PANIC"
	}
	if (err1 == nil) != (err2 == nil) || (err1 == nil) != (err3 == nil) {
		return "DIFF errors"
	}
	if err1 != nil {
		return "ERR " + encClass(err1)
	}
	a := bytes.Join(cw.chunks, nil)
	if !bytes.Equal(a, bb.Bytes()) || !bytes.Equal(a, under.Bytes()) {
		return "DIFF bytes"
	}
	return "SAME " + strconv.Itoa(len(cw.chunks))
}

func runConv(pyDict, su bool, inp []byte) string {
	d := og.NewDecoderWithConfig(bytes.NewReader(inp), &og.DecoderConfig{StrictUnicode: su, PyDict: pyDict})
	v, err, p := decodeOne(d)
	if p != "" {
		return "ERR PANIC:" + p
	}
	if err != nil {
		return "ERR " + classify(err)
	}
	out := "I:"
	if i, err := og.AsInt64(v); err == nil {
		out += strconv.FormatInt(i, 10)
	} else {
		out += "ERR"
	}
	out += " S:"
	if s, err := og.AsString(v); err == nil {
		out += hexOrDash(s)
	} else {
		out += "ERR"
	}
	out += " B:"
	if b, err := og.AsBytes(v); err == nil {
		out += hexOrDash(string(b))
	} else {
		out += "ERR"
	}
	return out
}

func dictContents(d og.Dict) string {
	kv := [][2]string{}
	n := 0
	d.Iter()(func(k, v any) bool {
		kv = append(kv, [2]string{render(k), render(v)})
		n++
		return true
	})
	r := &renderer{}
	return fmt.Sprintf("len=%d iter=%d %s", d.Len(), n, r.pairs("d(", kv))
}

// runDict replays a history of `S k v`, `D k`, `G k` operations (separated by " ; ") on a fresh Dict.
func runDict(spec string) string {
	return runDictFrom(og.NewDict(), spec)
}

// runDictFrom runs the operations on d (the zero value Dict{} is the documented nil dictionary: empty, Set not allowed).
func runDictFrom(d og.Dict, spec string) string {
	var out []string
	for _, op := range strings.Split(spec, " ; ") {
		f := strings.Fields(op)
		if len(f) < 2 {
			return "BADCASE"
		}
		res := func() (res string) {
			defer func() {
				if r := recover(); r != nil {
					msg := fmt.Sprint(r)
					if i := strings.Index(msg, ":"); i >= 0 {
						msg = msg[:i+1]
					}
					res = "PANIC:" + strings.ReplaceAll(msg, " ", "_") + " " + dictContents(d)
				}
			}()
			switch f[0] {
			case "S":
				// key and value: the key is the first complete value
				p := &parser{toks: f[1:]}
				k, err := p.value()
				if err != nil {
					return "BADCASE"
				}
				v, err := p.value()
				if err != nil || p.pos != len(p.toks) {
					return "BADCASE"
				}
				d.Set(k, v)
				return dictContents(d)
			case "D":
				k, err := parseValue(f[1:])
				if err != nil {
					return "BADCASE"
				}
				d.Del(k)
				return dictContents(d)
			case "G":
				k, err := parseValue(f[1:])
				if err != nil {
					return "BADCASE"
				}
				v, ok := d.Get_(k)
				if !ok {
					return "get=nil " + dictContents(d)
				}
				return "get=" + render(v) + " " + dictContents(d)
			}
			return "BADCASE"
		}()
		out = append(out, res)
	}
	return strings.Join(out, " | ")
}

type chunkWriter struct {
	chunks  [][]byte
	failAt  int // 1-based index of the Write that fails; 0 = never
	writes  int
	flushes int
}

var errInjected = errors.New("injected write failure")

// Flush makes the writer look like a buffered one (bufio.Writer, http.Flusher, ...): an encoder that flushes its destination
// must not let a successful Flush hide a failed Write.  Nothing in the unchanged package calls it.
func (w *chunkWriter) Flush() error {
	w.flushes++
	return nil
}

func (w *chunkWriter) Write(p []byte) (int, error) {
	w.writes++
	if w.failAt != 0 && w.writes == w.failAt {
		return 0, errInjected
	}
	w.chunks = append(w.chunks, append([]byte(nil), p...))
	return len(p), nil
}

func encClass(err error) string {
	var te *og.TypeError
	if errors.As(err, &te) {
		// "no support for type 'X'"
		msg := te.Error()
		i := strings.Index(msg, "'")
		j := strings.LastIndex(msg, "'")
		if i >= 0 && j > i {
			return "typeError:" + msg[i+1:j]
		}
		return "typeError:?"
	}
	msg := err.Error()
	switch {
	case strings.HasPrefix(msg, "pickle: encode: invalid protocol"):
		return "invalidProtocol"
	case strings.HasPrefix(msg, "protocol 0: unicode"):
		return "p0-utf8"
	case strings.HasPrefix(msg, "protocol 0: persistent ID"):
		return "p0-persid"
	case strings.HasPrefix(msg, "protocol 0-3: global"):
		return "p0123-global"
	}
	return "other"
}

func encodeOne(e *og.Encoder, v any) (err error, panicked string) {
	defer func() {
		if r := recover(); r != nil {
			panicked = fmt.Sprint(r)
		}
	}()
	err = e.Encode(v)
	return
}

func runEnc(proto int, su bool, rh string, v any) (string, []byte) {
	var log []any
	g, err := refHook(rh, &log)
	if err != nil {
		return "BADCASE", nil
	}
	w := &chunkWriter{}
	e := og.NewEncoderWithConfig(w, &og.EncoderConfig{Protocol: proto, PersistentRef: g, StrictUnicode: su})
	err, p := encodeOne(e, v)
	if p != "" {
		return "ERR PANIC:" + p + " " + strconv.Itoa(len(w.chunks)), nil
	}
	if err != nil {
		return "ERR " + encClass(err) + " " + strconv.Itoa(len(w.chunks)), nil
	}
	hs := make([]string, len(w.chunks))
	for i, c := range w.chunks {
		hs[i] = hexOrDash(string(c))
	}
	return "OK " + strings.Join(hs, ","), bytes.Join(w.chunks, nil)
}

func handle(line string) string {
	f := strings.Fields(line)
	if len(f) == 0 {
		return "BADCASE"
	}
	switch f[0] {
	case "dec", "decs", "decp", "decsp":
		if len(f) != 4 {
			return "BADCASE"
		}
		if strings.HasSuffix(f[0], "p") {
			classifyWithPos.Store(true)
			defer classifyWithPos.Store(false)
		}
		pd, su, err := parseCfg(f[1])
		if err != nil {
			return "BADCASE"
		}
		s, err := unhexOrDash(f[3])
		if err != nil {
			return "BADCASE"
		}
		return runDec(pd, su, f[2], []byte(s), strings.HasPrefix(f[0], "decs"))
	case "cuts", "alloc":
		if len(f) != 3 {
			return "BADCASE"
		}
		pd, su, err := parseCfg(f[1])
		if err != nil {
			return "BADCASE"
		}
		s, err := unhexOrDash(f[2])
		if err != nil {
			return "BADCASE"
		}
		if f[0] == "alloc" {
			return runAlloc(pd, su, []byte(s))
		}
		return runCuts(pd, su, []byte(s))
	case "cutsk":
		if len(f) != 5 {
			return "BADCASE"
		}
		pd, su, err := parseCfg(f[1])
		if err != nil {
			return "BADCASE"
		}
		var ks []int
		for _, t := range strings.Split(f[3], ",") {
			k, err := strconv.Atoi(t)
			if err != nil {
				return "BADCASE"
			}
			ks = append(ks, k)
		}
		s, err := unhexOrDash(f[4])
		if err != nil {
			return "BADCASE"
		}
		return runCutsK(pd, su, f[2], ks, []byte(s))
	case "decrh": // decrh <cfg> <hook> <schedule> <hex>: chunked delivery with a PersistentLoad hook, OpcodeError with position
		if len(f) != 5 {
			return "BADCASE"
		}
		classifyWithPos.Store(true)
		defer classifyWithPos.Store(false)
		pdh, suh, errh := parseCfg(f[1])
		sh, errh2 := unhexOrDash(f[4])
		if errh != nil || errh2 != nil {
			return "BADCASE"
		}
		return runDecR(pdh, suh, f[3], []byte(sh), f[2])
	case "decr", "decrp":
		if len(f) != 4 {
			return "BADCASE"
		}
		if f[0] == "decrp" { // OpcodeError printed with its position
			classifyWithPos.Store(true)
			defer classifyWithPos.Store(false)
		}
		pd, su, err := parseCfg(f[1])
		if err != nil {
			return "BADCASE"
		}
		s, err := unhexOrDash(f[3])
		if err != nil {
			return "BADCASE"
		}
		return runDecR(pd, su, f[2], []byte(s))
	case "dech":
		if len(f) != 4 {
			return "BADCASE"
		}
		pd, su, err := parseCfg(f[1])
		if err != nil {
			return "BADCASE"
		}
		s, err := unhexOrDash(f[3])
		if err != nil {
			return "BADCASE"
		}
		r, log := runDecLog(pd, su, f[2], []byte(s), false)
		cs := make([]string, len(log))
		for i, c := range log {
			cs[i] = render(c)
		}
		return r + " ; " + strings.Join(cs, " ")
	case "enc":
		if len(f) < 5 {
			return "BADCASE"
		}
		proto, err := strconv.Atoi(f[1])
		if err != nil {
			return "BADCASE"
		}
		v, err := parseValue(f[4:])
		if err != nil {
			return "BADCASE"
		}
		s, _ := runEnc(proto, f[2] == "1", f[3], v)
		return s
	case "enc2", "enc2w":
		// enc2w <proto> <su> <k> <A> ;; <B>: the same, the k-th Write of the FIRST Encode failing (the writer works again afterwards)
		// enc2 <proto> <su> <rh> <A> ;; <B>: ONE Encoder encodes A (whatever comes of it), then B; the answer is what `enc` would
		// print for B, with the chunks written for B only: an Encoder keeps nothing from one Encode call to the next
		if len(f) < 7 {
			return "BADCASE"
		}
		proto, err := strconv.Atoi(f[1])
		if err != nil {
			return "BADCASE"
		}
		sep := -1
		for i := 4; i < len(f); i++ {
			if f[i] == ";;" {
				sep = i
				break
			}
		}
		if sep < 0 {
			return "BADCASE"
		}
		va, err := parseValue(f[4:sep])
		if err != nil {
			return "BADCASE"
		}
		vb, err := parseValue(f[sep+1:])
		if err != nil {
			return "BADCASE"
		}
		var log []any
		rhSpec, failK := f[3], 0
		if f[0] == "enc2w" {
			rhSpec = "-"
			if failK, err = strconv.Atoi(f[3]); err != nil {
				return "BADCASE"
			}
		}
		g, err := refHook(rhSpec, &log)
		if err != nil {
			return "BADCASE"
		}
		w := &chunkWriter{failAt: failK}
		e := og.NewEncoderWithConfig(w, &og.EncoderConfig{Protocol: proto, PersistentRef: g, StrictUnicode: f[2] == "1"})
		if _, p := encodeOne(e, va); p != "" {
			return "ERR PANIC(first):" + p
		}
		w.failAt = 0
		first := len(w.chunks)
		errB, p := encodeOne(e, vb)
		chunks := w.chunks[first:]
		if p != "" {
			return "ERR PANIC:" + p + " " + strconv.Itoa(len(chunks))
		}
		if errB != nil {
			return "ERR " + encClass(errB) + " " + strconv.Itoa(len(chunks))
		}
		hs := make([]string, len(chunks))
		for i, c := range chunks {
			hs[i] = hexOrDash(string(c))
		}
		return "OK " + strings.Join(hs, ",")
	case "encf":
		if len(f) < 5 {
			return "BADCASE"
		}
		proto, err := strconv.Atoi(f[1])
		k, err2 := strconv.Atoi(f[3])
		if err != nil || err2 != nil {
			return "BADCASE"
		}
		v, err := parseValue(f[4:])
		if err != nil {
			return "BADCASE"
		}
		w := &chunkWriter{failAt: k}
		e := og.NewEncoderWithConfig(w, &og.EncoderConfig{Protocol: proto, StrictUnicode: f[2] == "1"})
		err, p := encodeOne(e, v)
		if p != "" {
			return "PANIC:" + p
		}
		inj := 0
		cls := "-"
		if err == errInjected {
			inj = 1
		} else if err != nil {
			cls = encClass(err)
		}
		return fmt.Sprintf("%d %d %s", w.writes, inj, cls)
	case "encfh":
		if len(f) < 6 {
			return "BADCASE"
		}
		proto, err := strconv.Atoi(f[1])
		k, err2 := strconv.Atoi(f[4])
		if err != nil || err2 != nil {
			return "BADCASE"
		}
		v, err := parseValue(f[5:])
		if err != nil {
			return "BADCASE"
		}
		var log []any
		g, err := refHook(f[3], &log)
		if err != nil {
			return "BADCASE"
		}
		w := &chunkWriter{failAt: k}
		e := og.NewEncoderWithConfig(w, &og.EncoderConfig{Protocol: proto, PersistentRef: g, StrictUnicode: f[2] == "1"})
		err, p := encodeOne(e, v)
		if p != "" {
			return "PANIC:" + p
		}
		inj := 0
		cls := "-"
		if err == errInjected {
			inj = 1
		} else if err != nil {
			cls = encClass(err)
		}
		return fmt.Sprintf("%d %d %s", w.writes, inj, cls)
	case "encre":
		// encre <proto> <su> <k> <value>: ONE Encoder; Encode(value) while the k-th Write fails, then Encode(value) again with a
		// Writer that works: what the second call writes must be exactly the pickle a fresh Encoder writes
		if len(f) < 5 {
			return "BADCASE"
		}
		proto, err := strconv.Atoi(f[1])
		k, err2 := strconv.Atoi(f[3])
		if err != nil || err2 != nil {
			return "BADCASE"
		}
		v, err := parseValue(f[4:])
		if err != nil {
			return "BADCASE"
		}
		w := &chunkWriter{failAt: k}
		e := og.NewEncoderWithConfig(w, &og.EncoderConfig{Protocol: proto, StrictUnicode: f[2] == "1"})
		err1, p1 := encodeOne(e, v)
		if p1 != "" {
			return "PANIC:" + p1
		}
		first := len(w.chunks)
		err2b, p2 := encodeOne(e, v)
		if p2 != "" {
			return "PANIC:" + p2
		}
		second := bytes.Join(w.chunks[first:], nil)
		fw := &chunkWriter{}
		errF, p3 := encodeOne(og.NewEncoderWithConfig(fw, &og.EncoderConfig{Protocol: proto, StrictUnicode: f[2] == "1"}), v)
		if p3 != "" {
			return "PANIC:" + p3
		}
		fresh := bytes.Join(fw.chunks, nil)
		if (err2b == nil) != (errF == nil) {
			return fmt.Sprintf("DIFF error after reuse: %v vs fresh %v (first call: %v)", err2b, errF, err1)
		}
		if errF == nil && !bytes.Equal(second, fresh) {
			return "DIFF " + hexOrDash(string(second)) + " fresh " + hexOrDash(string(fresh))
		}
		return "SAME"
	case "rt":
		if len(f) < 4 {
			return "BADCASE"
		}
		proto, err := strconv.Atoi(f[1])
		if err != nil {
			return "BADCASE"
		}
		pd, su, err := parseCfg(f[2])
		if err != nil {
			return "BADCASE"
		}
		v, err := parseValue(f[3:])
		if err != nil {
			return "BADCASE"
		}
		before := render(v)
		s, data := runEnc(proto, su, "-", v)
		if after := render(v); after != before {
			return "MUTATED-ARGUMENT " + after
		}
		if strings.HasPrefix(s, "ERR ") {
			g := strings.Fields(s)
			return "ENCERR " + g[1]
		}
		return runDec(pd, su, "-", data, false)
	case "conv":
		if len(f) != 3 {
			return "BADCASE"
		}
		pd, su, err := parseCfg(f[1])
		if err != nil {
			return "BADCASE"
		}
		s, err := unhexOrDash(f[2])
		if err != nil {
			return "BADCASE"
		}
		return runConv(pd, su, []byte(s))
	case "dict":
		return runDict(strings.TrimPrefix(line, "dict "))
	case "dictz":
		return runDictFrom(og.Dict{}, strings.TrimPrefix(line, "dictz "))
	case "reenc":
		if len(f) != 3 {
			return "BADCASE"
		}
		pd, su, err := parseCfg(f[1])
		if err != nil {
			return "BADCASE"
		}
		s, err := unhexOrDash(f[2])
		if err != nil {
			return "BADCASE"
		}
		return runReenc(pd, su, []byte(s))
	case "encw":
		if len(f) < 4 {
			return "BADCASE"
		}
		proto, err := strconv.Atoi(f[1])
		if err != nil {
			return "BADCASE"
		}
		v, err := parseValue(f[3:])
		if err != nil {
			return "BADCASE"
		}
		return runEncW(proto, f[2] == "1", v)
	case "encr":
		if len(f) != 4 {
			return "BADCASE"
		}
		seed, err := strconv.ParseInt(f[1], 10, 64)
		proto, err2 := strconv.Atoi(f[2])
		if err != nil || err2 != nil {
			return "BADCASE"
		}
		return encrCase(seed, proto, f[3] == "1")
	case "encrf":
		if len(f) != 5 {
			return "BADCASE"
		}
		seed, err := strconv.ParseInt(f[1], 10, 64)
		proto, err2 := strconv.Atoi(f[2])
		k, err3 := strconv.Atoi(f[4])
		if err != nil || err2 != nil || err3 != nil {
			return "BADCASE"
		}
		return encrfCase(seed, proto, f[3] == "1", k)
	case "long":
		s, err := unhexOrDash(f[1])
		if err != nil {
			return "BADCASE"
		}
		return longCase(s)
	case "quote":
		s, err := unhexOrDash(f[2])
		if err != nil {
			return "BADCASE"
		}
		return quoteCase(f[1], s)
	case "sametype":
		// sametype <order 2|12|21> <proto>: two DIFFERENT struct types that print alike (both are `main.Node`, declared in two
		// functions) through one process: what is written for a value depends on the value, not on what was encoded before
		if len(f) != 3 {
			return "BADCASE"
		}
		proto, err := strconv.Atoi(f[2])
		if err != nil {
			return "BADCASE"
		}
		return sameTypeCase(f[1], proto)
	case "eq":
		return eqCase(f[1:])
	}
	return "BADCASE"
}

// caseTimeout bounds one case: code under test that never returns must not hang the run. The answer for such a case is
// "CRASH timeout …" and the process exits (a spinning goroutine cannot be stopped); the caller restarts with the remaining cases.
func caseTimeout() time.Duration {
	if s := os.Getenv("VERIF_CASE_TIMEOUT"); s != "" {
		if d, err := time.ParseDuration(s); err == nil {
			return d
		}
	}
	return 15 * time.Second
}

func runLines(in io.Reader, out io.Writer) {
	sc := bufio.NewScanner(in)
	sc.Buffer(make([]byte, 1<<20), 1<<28)
	w := bufio.NewWriter(out)
	defer w.Flush()
	limit := caseTimeout()
	for sc.Scan() {
		line := sc.Text()
		done := make(chan string, 1)
		go func() { done <- handle(line) }()
		select {
		case ans := <-done:
			w.WriteString(ans)
			w.WriteString("\n")
			w.Flush() // every answer is out before the next case starts: after a crash the caller knows which case it was
		case <-time.After(limit):
			w.WriteString("CRASH timeout: no answer within " + limit.String() + "\n")
			w.Flush()
			os.Exit(3)
		}
	}
}

func main() {
	// a runaway recursion in the code under test should end the process quickly (the default limit is 1 GB of stack)
	debug.SetMaxStack(128 << 20)
	if len(os.Args) >= 2 && os.Args[1] == "par" {
		parMain(os.Args[2:])
		return
	}
	runLines(os.Stdin, os.Stdout)
}

var _ = hex.EncodeToString

func sameNode1() any {
	type Node struct {
		Name string `pickle:"name"`
	}
	return &Node{Name: "old"}
}

func sameNode2() any {
	type Node struct {
		Name string   `pickle:"name"`
		Peer *UserObj `pickle:"peer"`
		Rest []any    `pickle:"rest"`
	}
	return &Node{Name: "new", Peer: userObj(3), Rest: []any{userObj(4), int64(5)}}
}

func sameTypeCase(order string, proto int) string {
	var log []any
	g, _ := refHook("S", &log)
	enc := func(v any) string {
		w := &chunkWriter{}
		e := og.NewEncoderWithConfig(w, &og.EncoderConfig{Protocol: proto, PersistentRef: g})
		err, p := encodeOne(e, v)
		if p != "" {
			return "PANIC:" + strings.ReplaceAll(p, " ", "_")
		}
		if err != nil {
			return "ERR:" + encClass(err)
		}
		hs := make([]string, len(w.chunks))
		for i, c := range w.chunks {
			hs[i] = hexOrDash(string(c))
		}
		return strings.Join(hs, ",")
	}
	out := []string{}
	for _, c := range order {
		switch c {
		case '1':
			out = append(out, "1="+enc(sameNode1()))
		case '2':
			out = append(out, "2="+enc(sameNode2()))
		default:
			return "BADCASE"
		}
	}
	return strings.Join(out, " ")
}
