package main

// Concurrency driver (C20): the same case lines are executed sequentially and then by N goroutines at
// once (own Decoder / Encoder per case, randomised start order), or N goroutines read one shared
// decoded value. Built with -race; the race detector's report goes to stderr (exit code 66).

import (
	"bufio"
	"bytes"
	"fmt"
	"math/rand"
	"os"
	"runtime"
	"sort"
	"strconv"
	"strings"
	"sync"

	og "github.com/kisielk/og-rek"
)

func parMain(args []string) {
	n := 8
	seed := int64(1)
	if len(args) > 0 {
		n, _ = strconv.Atoi(args[0])
	}
	if len(args) > 1 {
		seed, _ = strconv.ParseInt(args[1], 10, 64)
	}
	rng := rand.New(rand.NewSource(seed))
	runtime.GOMAXPROCS(1 + rng.Intn(16))
	var lines []string
	sc := bufio.NewScanner(os.Stdin)
	sc.Buffer(make([]byte, 1<<20), 1<<28)
	for sc.Scan() {
		lines = append(lines, sc.Text())
	}
	out := bufio.NewWriter(os.Stdout)
	defer out.Flush()

	var indep, shared []string
	for _, l := range lines {
		if strings.HasPrefix(l, "shared ") {
			shared = append(shared, l)
		} else {
			indep = append(indep, l)
		}
	}
	// --- separate instances
	seq := make([]string, len(indep))
	for i, l := range indep {
		seq[i] = handle(l)
	}
	par := make([]string, len(indep))
	order := rng.Perm(len(indep))
	var wg sync.WaitGroup
	start := make(chan struct{})
	for g := 0; g < n; g++ {
		wg.Add(1)
		go func(g int) {
			defer wg.Done()
			<-start
			for k := g; k < len(order); k += n {
				i := order[k]
				par[i] = handle(indep[i])
			}
		}(g)
	}
	close(start)
	wg.Wait()
	diff := 0
	for i := range indep {
		if !sameOutcome(seq[i], par[i]) {
			diff++
			fmt.Fprintf(out, "DIFF %s\n  seq: %.300s\n  par: %.300s\n", indep[i], seq[i], par[i])
		}
	}
	fmt.Fprintf(out, "INDEPENDENT cases=%d goroutines=%d gomaxprocs=%d diffs=%d\n", len(indep), n, runtime.GOMAXPROCS(0), diff)

	// --- shared read-only value
	sdiff, sops := 0, 0
	for _, l := range shared {
		f := strings.Fields(l)
		if len(f) != 3 {
			continue
		}
		pd, su, err := parseCfg(f[1])
		if err != nil {
			continue
		}
		s, _ := unhexOrDash(f[2])
		d := og.NewDecoderWithConfig(bytes.NewReader([]byte(s)), &og.DecoderConfig{StrictUnicode: su, PyDict: pd})
		v, err, p := decodeOne(d)
		if err != nil || p != "" {
			continue
		}
		read := func() string {
			var sb strings.Builder
			sb.WriteString(render(v))
			if dd, ok := v.(og.Dict); ok {
				fmt.Fprintf(&sb, " len=%d", dd.Len())
				var gets []string
				dd.Iter()(func(k, val any) bool {
					got, ok := dd.Get_(k)
					gets = append(gets, fmt.Sprintf(" get(%s)=%v:%s", render(k), ok, render(got)))
					return true
				})
				sort.Strings(gets) // iteration order is arbitrary
				sb.WriteString(strings.Join(gets, ""))
			}
			for proto := 0; proto <= 5; proto += 5 {
				w := &chunkWriter{}
				e := og.NewEncoderWithConfig(w, &og.EncoderConfig{Protocol: proto, StrictUnicode: su})
				err, p := encodeOne(e, v)
				if err != nil || p != "" {
					fmt.Fprintf(&sb, " enc%d=err", proto)
					continue
				}
				d2 := og.NewDecoderWithConfig(bytes.NewReader(bytes.Join(w.chunks, nil)), &og.DecoderConfig{StrictUnicode: su, PyDict: pd})
				v2, _, _ := decodeOne(d2)
				fmt.Fprintf(&sb, " enc%d=%s", proto, render(v2))
			}
			return sb.String()
		}
		want := read()
		res := make([]string, n)
		var wg sync.WaitGroup
		start := make(chan struct{})
		for g := 0; g < n; g++ {
			wg.Add(1)
			go func(g int) {
				defer wg.Done()
				<-start
				for r := 0; r < 3; r++ {
					res[g] = read()
				}
			}(g)
		}
		close(start)
		wg.Wait()
		for g := 0; g < n; g++ {
			sops++
			if !sameOutcome(res[g], want) {
				sdiff++
				fmt.Fprintf(out, "SHARED-DIFF %s\n  seq: %.300s\n  par: %.300s\n", l, want, res[g])
			}
		}
	}
	fmt.Fprintf(out, "SHARED values=%d reads=%d diffs=%d\n", len(shared), sops, sdiff)
}

// sameOutcome: equal answers; or both an encoder error — with several map / Dict entries failing for different
// documented reasons, which one is met first depends on Go's randomised map iteration order, not on concurrency.
func sameOutcome(a, b string) bool {
	if a == b {
		return true
	}
	return strings.HasPrefix(a, "ENCERR ") && strings.HasPrefix(b, "ENCERR ")
}
