package main

// C15: values of Go types generated with the reflect package (StructOf / ArrayOf / SliceOf / MapOf /
// PointerTo over all basic kinds), described in a text form the Lean model parses.

import (
	"fmt"
	"math"
	"math/big"
	"math/rand"
	"reflect"
	"strconv"
	"strings"
	"unsafe"

	og "github.com/kisielk/og-rek"
)

type MyStr string
type MyBytes []byte
type MyInt int16
type MyByte byte
type NamedArr struct {
	A [3]MyByte
	P *[2]MyByte
	S []MyByte
	M map[[1]MyByte]MyByte
}
type Inner struct {
	A int
	b string
}
type Outer struct {
	Inner
	X any
	y chan int
	Z *Inner `pickle:"zed"`
}
type Tagged struct {
	A int    `pickle:"a"`
	B string `pickle:"b"`
	c int    `pickle:"c"` // tagged but unexported (F6)
	D int
}
type ArrHolder struct {
	A [3]byte
	M map[[2]byte]int
}
type TagInner struct {
	A int `pickle:"a"`
	B string
}
type EmbPtr struct { // embedded pointer to a struct with tagged fields (nil or set)
	*TagInner
	X int
}
type EmbVal struct {
	TagInner
	Y int     `pickle:"y"`
	Z *EmbPtr `pickle:"z"`
}
type PtrChain struct {
	P ***int
	N *Inner
}

type rgen struct {
	rng *rand.Rand
}

func leafTypes() []any {
	return []any{false, int(0), int8(0), int16(0), int32(0), int64(0), uint(0), uint8(0), uint16(0), uint32(0), uint64(0),
		uintptr(0), float32(0), float64(0), complex64(0), complex128(0), "", MyStr(""), og.Bytes(""), og.ByteString(""),
		MyInt(0), []byte(nil), MyBytes(nil), make(chan int), (func())(nil), unsafe.Pointer(nil), og.None{}, og.Class{}, (*big.Int)(nil),
		og.Tuple(nil), og.Ref{}, og.Call{}, og.Dict{}, og.Dict{}, Inner{}, Outer{}, Tagged{}, ArrHolder{}, PtrChain{}, [2]byte{}, [0]byte{}, [2]MyByte{}, []MyByte(nil), NamedArr{}, MyByte(0), EmbPtr{}, EmbVal{}, TagInner{}}
}

func (g *rgen) leafType() reflect.Type {
	ts := leafTypes()
	return reflect.TypeOf(ts[g.rng.Intn(len(ts))])
}

// directedType: every leaf type inside every kind of typed container ([]T, [3]T, map[string]T, *T, []*T, struct{F T}), by index.
func directedType(idx int64) reflect.Type {
	ts := leafTypes()
	t := reflect.TypeOf(ts[int(idx)%len(ts)])
	switch (int(idx) / len(ts)) % 8 {
	case 6, 7:
		return reflect.PointerTo(t) // encrCase makes these a typed nil pointer / a slice holding typed nil pointers
	case 0:
		return reflect.SliceOf(t)
	case 1:
		return reflect.ArrayOf(3, t)
	case 2:
		return reflect.MapOf(reflect.TypeOf(""), t)
	case 3:
		return reflect.PointerTo(t)
	case 4:
		return reflect.SliceOf(reflect.PointerTo(t))
	default:
		return reflect.StructOf([]reflect.StructField{{Name: "F0", Type: t}, {Name: "F1", Type: reflect.SliceOf(t)}})
	}
}

var anyType = reflect.TypeOf((*any)(nil)).Elem()

func (g *rgen) genType(depth int) reflect.Type {
	if depth <= 0 || g.rng.Intn(100) < 35 {
		return g.leafType()
	}
	switch g.rng.Intn(8) {
	case 0:
		return reflect.PointerTo(g.genType(depth - 1))
	case 1:
		return reflect.SliceOf(g.genType(depth - 1))
	case 2:
		return reflect.ArrayOf(g.rng.Intn(4), g.genType(depth-1))
	case 3:
		var k reflect.Type
		switch g.rng.Intn(5) {
		case 0:
			k = reflect.TypeOf("")
		case 1:
			k = reflect.TypeOf(int(0))
		case 2:
			k = reflect.TypeOf([2]byte{})
		case 3:
			k = anyType
		default:
			k = reflect.TypeOf(MyStr(""))
		}
		return reflect.MapOf(k, g.genType(depth-1))
	case 4:
		return anyType
	default:
		n := g.rng.Intn(4)
		fields := make([]reflect.StructField, 0, n)
		tagSome := g.rng.Intn(3) == 0
		for i := 0; i < n; i++ {
			f := reflect.StructField{Type: g.genType(depth - 1)}
			if g.rng.Intn(4) == 0 {
				f.Name = "f" + strconv.Itoa(i)
				f.PkgPath = "main"
			} else {
				f.Name = "F" + strconv.Itoa(i)
			}
			if tagSome && g.rng.Intn(2) == 0 {
				f.Tag = reflect.StructTag(`pickle:"t` + strconv.Itoa(i) + `"`)
			}
			fields = append(fields, f)
		}
		return reflect.StructOf(fields)
	}
}

// fill returns a value of type t and its description.
func (g *rgen) fill(t reflect.Type, depth int) (reflect.Value, string) {
	rng := g.rng
	v := reflect.New(t).Elem()
	switch t {
	case reflect.TypeOf(og.None{}):
		return v, "N"
	case reflect.TypeOf(og.Class{}):
		c := og.Class{Module: "m", Name: "n" + strconv.Itoa(rng.Intn(3))}
		return reflect.ValueOf(c), "C" + hexOrDash(c.Module) + "." + hexOrDash(c.Name)
	case reflect.TypeOf((*big.Int)(nil)):
		if rng.Intn(3) == 0 {
			return v, "inv" // nil *big.Int: Elem of a nil pointer is invalid -> None
		}
		b := new(big.Int).Lsh(big.NewInt(int64(rng.Intn(7)-3)), uint(rng.Intn(80)))
		return reflect.ValueOf(b), "L" + b.String()
	case reflect.TypeOf(og.Tuple(nil)):
		n := rng.Intn(3)
		tu := make(og.Tuple, n)
		ds := make([]string, n)
		for i := range tu {
			e, d := g.fill(g.genType(depth-1), depth-1)
			if e.IsValid() && e.CanInterface() {
				tu[i] = e.Interface()
			} else {
				d = "inv"
			}
			ds[i] = d
		}
		return reflect.ValueOf(tu), "tup( " + strings.Join(append(ds, ")"), " ")
	case reflect.TypeOf(og.Dict{}):
		// og-rek's own Dict holding values of any generated type (unsupported kinds included): written like a map
		if rng.Intn(6) == 0 {
			return v, "rmap( )" // the zero Dict
		}
		dd := og.NewDict()
		n := rng.Intn(4)
		ds := []string{}
		for i := 0; i < n; i++ {
			var k any
			var kd string
			if rng.Intn(2) == 0 {
				k, kd = "k"+strconv.Itoa(i), "S"+hexOrDash("k"+strconv.Itoa(i))
			} else {
				k, kd = int64(i*300), "I"+strconv.Itoa(i*300)
			}
			e, d := g.fill(g.genType(depth-1), depth-1)
			if e.IsValid() && e.CanInterface() {
				dd.Set(k, e.Interface())
			} else {
				dd.Set(k, nil)
				d = "inv"
			}
			ds = append(ds, kd, d)
		}
		return reflect.ValueOf(dd), "rmap( " + strings.Join(append(ds, ")"), " ")
	case reflect.TypeOf(og.Ref{}):
		r := og.Ref{Pid: "oid" + strconv.Itoa(rng.Intn(3))}
		return reflect.ValueOf(r), "R( S" + hexOrDash(r.Pid.(string)) + " )"
	case reflect.TypeOf(og.Call{}):
		c := og.Call{Callable: og.Class{Module: "m", Name: "f"}, Args: og.Tuple{int64(1)}}
		return reflect.ValueOf(c), "c( C6d.66 I1 )"
	}
	switch t.Kind() {
	case reflect.Bool:
		b := rng.Intn(2) == 0
		v.SetBool(b)
		if b {
			return v, "T"
		}
		return v, "F"
	case reflect.Int, reflect.Int8, reflect.Int16, reflect.Int32, reflect.Int64:
		n := rng.Int63() >> uint(rng.Intn(63))
		if rng.Intn(2) == 0 {
			n = -n
		}
		bits := t.Bits()
		if bits < 64 {
			n = n % (1 << uint(bits-1))
		}
		v.SetInt(n)
		return v, "I" + strconv.FormatInt(v.Int(), 10)
	case reflect.Uint, reflect.Uint8, reflect.Uint16, reflect.Uint32, reflect.Uint64:
		n := rng.Uint64() >> uint(rng.Intn(64))
		bits := t.Bits()
		if bits < 64 {
			n = n % (1 << uint(bits))
		}
		v.SetUint(n)
		return v, "U" + strconv.FormatUint(v.Uint(), 10)
	case reflect.Uintptr:
		return v, "uns:uintptr"
	case reflect.Float32, reflect.Float64:
		f := []float64{0, 1.5, -2, math.Inf(1), 1e10, 0.1, math.Inf(-1), math.NaN(), math.Copysign(0, -1), 5e-324, 1e21, 123456789}[rng.Intn(12)]
		v.SetFloat(f)
		return v, "D" + f64hex(v.Float())
	case reflect.Complex64, reflect.Complex128:
		return v, "uns:" + t.Kind().String()
	case reflect.String:
		ss := []string{"", "a", "hé", "x\ny", "\xff", "\x0e\x1b\x1f", "ab\ncd", "\n", strings.Repeat("e", 255), strings.Repeat("f", 256),
			"\x00\x7f", "q\"'\\", string(rune(rng.Intn(0x30))), string([]byte{byte(rng.Intn(256))}),
			// valid text ending in a truncated multi-byte sequence, astral / BMP runes, format verbs, U+FFFD itself
			"abc \xc3", "日本語"[:8], "\xf0\x9f\x98", "ok\xe2\x82", "\xc3\xa9\xc3", "€", "\U0001f600", "%d%s%", "\u2028", "\ufffd", "a\xffb"}
		s := ss[rng.Intn(len(ss))]
		v.SetString(s)
		switch t {
		case reflect.TypeOf(og.Bytes("")):
			return v, "B" + hexOrDash(s)
		case reflect.TypeOf(og.ByteString("")):
			return v, "Y" + hexOrDash(s)
		}
		return v, "S" + hexOrDash(s)
	case reflect.Chan:
		if rng.Intn(2) == 0 {
			v = reflect.MakeChan(t, 0)
		}
		return v, "uns:chan"
	case reflect.Func:
		return v, "uns:func"
	case reflect.UnsafePointer:
		return v, "uns:unsafe.Pointer"
	case reflect.Interface:
		if depth <= 0 || rng.Intn(4) == 0 {
			return v, "inv"
		}
		e, d := g.fill(g.genType(depth-1), depth-1)
		if !e.IsValid() || !e.CanInterface() || e.Interface() == nil {
			return v, "inv"
		}
		v.Set(reflect.ValueOf(e.Interface()))
		return v, d
	case reflect.Ptr:
		if depth <= 0 || rng.Intn(4) == 0 {
			return v, "inv" // nil pointer: Elem() is the zero Value -> None
		}
		e, d := g.fill(t.Elem(), depth-1)
		p := reflect.New(t.Elem())
		p.Elem().Set(e)
		return p, "ptr( " + d + " )"
	case reflect.Slice, reflect.Array:
		n := rng.Intn(4)
		if t.Elem().Kind() == reflect.Uint8 {
			var bs []byte
			if t.Kind() == reflect.Array {
				for i := 0; i < t.Len(); i++ {
					b := byte(rng.Intn(256))
					v.Index(i).SetUint(uint64(b))
					bs = append(bs, b)
				}
			} else if rng.Intn(4) != 0 {
				bs = make([]byte, n)
				rng.Read(bs)
				v = reflect.MakeSlice(t, n, n)
				for i, b := range bs { // element-wise: the element type may be a named byte type
					v.Index(i).SetUint(uint64(b))
				}
			}
			return v, "barr:" + hexOrDash(string(bs))
		}
		if t.Kind() == reflect.Slice {
			if rng.Intn(5) == 0 {
				return v, "seq( )" // nil slice
			}
			v = reflect.MakeSlice(t, n, n)
		}
		ds := []string{}
		for i := 0; i < v.Len(); i++ {
			e, d := g.fill(t.Elem(), depth-1)
			v.Index(i).Set(e)
			ds = append(ds, d)
		}
		return v, "seq( " + strings.Join(append(ds, ")"), " ")
	case reflect.Map:
		if rng.Intn(5) == 0 {
			return v, "rmap( )" // nil map
		}
		v = reflect.MakeMap(t)
		n := rng.Intn(4)
		ds := []string{}
		seen := map[string]bool{}
		for i := 0; i < n; i++ {
			var kd string
			k := reflect.New(t.Key()).Elem()
			switch t.Key().Kind() {
			case reflect.String:
				s := "k" + strconv.Itoa(i)
				k.SetString(s)
				kd = "S" + hexOrDash(s)
			case reflect.Int:
				k.SetInt(int64(i * 300))
				kd = "I" + strconv.Itoa(i*300)
			case reflect.Array:
				k.Index(0).SetUint(uint64(i))
				kb := make([]byte, k.Len())
				kb[0] = byte(i)
				kd = "barr:" + hexOrDash(string(kb))
			default: // any: keys of different dynamic kinds in one map
				switch (i + rng.Intn(2)) % 4 {
				case 0:
					k.Set(reflect.ValueOf(int64(i)))
					kd = "I" + strconv.Itoa(i)
				case 1:
					k.Set(reflect.ValueOf("k" + strconv.Itoa(i)))
					kd = "S" + hexOrDash("k"+strconv.Itoa(i))
				case 2:
					k.Set(reflect.ValueOf(float64(i) + 0.5))
					kd = "D" + f64hex(float64(i)+0.5)
				default:
					k.Set(reflect.ValueOf(uint16(i + 7)))
					kd = "U" + strconv.Itoa(i+7)
				}
			}
			if seen[kd] {
				continue
			}
			seen[kd] = true
			e, d := g.fill(t.Elem(), depth-1)
			v.SetMapIndex(k, e)
			ds = append(ds, kd, d)
		}
		return v, "rmap( " + strings.Join(append(ds, ")"), " ")
	case reflect.Struct:
		ds := []string{}
		for i := 0; i < t.NumField(); i++ {
			f := t.Field(i)
			flags := "e"
			if f.PkgPath != "" {
				flags = "u"
			}
			if tag := f.Tag.Get("pickle"); tag != "" {
				flags += "=" + tag
			}
			d := "inv"
			if f.PkgPath == "" {
				e, dd := g.fill(f.Type, depth-1)
				v.Field(i).Set(e)
				d = dd
			} else {
				d = "zero"
			}
			ds = append(ds, f.Name+":"+flags, d)
		}
		return v, "st( " + strings.Join(append(ds, ")"), " ")
	}
	return v, "uns:" + t.Kind().String()
}

// encrfCase: the same generated value as encrCase(seed, ...), encoded into a Writer whose k-th Write fails.
func encrfCase(seed int64, proto int, su bool, k int) (out string) {
	defer func() {
		if r := recover(); r != nil {
			out = fmt.Sprintf("HARNESS-PANIC %v", r)
		}
	}()
	g := &rgen{rng: rand.New(rand.NewSource(seed))}
	depth := 1 + g.rng.Intn(4)
	t := g.genType(depth)
	if seed < 0 { // directed: -seed-1 indexes (leaf type, container kind, repetition)
		t, depth = directedType(-seed-1), 3
	}
	v, _ := g.fill(t, depth)
	if seed < 0 {
		switch (int(-seed-1) / len(leafTypes())) % 8 {
		case 6:
			v = reflect.Zero(t)
		case 7:
			v = reflect.MakeSlice(reflect.SliceOf(t), 2, 2)
		}
	}
	var arg any
	if v.IsValid() && v.CanInterface() {
		arg = v.Interface()
		if g.rng.Intn(6) == 0 {
			p := reflect.New(v.Type())
			p.Elem().Set(v)
			arg = p.Interface()
		}
	}
	w := &chunkWriter{failAt: k}
	e := og.NewEncoderWithConfig(w, &og.EncoderConfig{Protocol: proto, StrictUnicode: su})
	err, p := encodeOne(e, arg)
	if p != "" {
		return "PANIC:" + strings.ReplaceAll(p, " ", "_")
	}
	inj := 0
	cls := "-"
	if err == errInjected {
		inj = 1
	} else if err != nil {
		cls = encClass(err)
	}
	return fmt.Sprintf("%d %d %s", w.writes, inj, cls)
}

func encrCase(seed int64, proto int, su bool) (out string) {
	defer func() {
		if r := recover(); r != nil {
			out = fmt.Sprintf("HARNESS-PANIC %v", r)
		}
	}()
	g := &rgen{rng: rand.New(rand.NewSource(seed))}
	depth := 1 + g.rng.Intn(4)
	t := g.genType(depth)
	if seed < 0 { // directed: -seed-1 indexes (leaf type, container kind, repetition)
		t, depth = directedType(-seed-1), 3
	}
	v, desc := g.fill(t, depth)
	if seed < 0 {
		switch (int(-seed-1) / len(leafTypes())) % 8 {
		case 6: // (*T)(nil): a typed nil pointer is None, whatever T
			v, desc = reflect.Zero(t), "inv"
		case 7: // []*T{nil, nil}
			v, desc = reflect.MakeSlice(reflect.SliceOf(t), 2, 2), "seq( inv inv )"
		}
	}
	var arg any
	if v.IsValid() && v.CanInterface() {
		arg = v.Interface()
		if g.rng.Intn(6) == 0 {
			// pass a pointer to the value instead
			p := reflect.New(v.Type())
			p.Elem().Set(v)
			arg = p.Interface()
			desc = "ptr( " + desc + " )"
		}
	} else {
		desc = "inv"
	}
	w := &chunkWriter{}
	e := og.NewEncoderWithConfig(w, &og.EncoderConfig{Protocol: proto, StrictUnicode: su})
	err, p := encodeOne(e, arg)
	res := ""
	switch {
	case p != "":
		res = "PANIC " + strings.ReplaceAll(p, " ", "_")
	case err != nil:
		res = "ERR " + encClass(err)
	default:
		hs := make([]string, len(w.chunks))
		for i, c := range w.chunks {
			hs[i] = hexOrDash(string(c))
		}
		res = "OK " + strings.Join(hs, ",")
	}
	return fmt.Sprintf("%s => %s", desc, res)
}
