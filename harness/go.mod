module verif/harness

go 1.18

require github.com/kisielk/og-rek v0.0.0

require (
	github.com/aristanetworks/gomap v0.0.0-20230726210543-f4e41046dced // indirect
	golang.org/x/exp v0.0.0-20230725093048-515e97ebf090 // indirect
)

replace github.com/kisielk/og-rek => /repo
