package main

// Canonical text form of values, shared with the Lean driver and the Python oracle.

import (
	"encoding/hex"
	"fmt"
	"math"
	"math/big"
	"reflect"
	"sort"
	"strconv"
	"strings"
	"sync"

	og "github.com/kisielk/og-rek"
)

// UserObj is the application object used with the persistent-reference hooks.
type UserObj struct{ N int }

// Holder / TaggedHolder: application structs that keep a pointer to another application object in a
// field of pointer type (C18: the encoder must consult PersistentRef for it there too).
type Holder struct {
	A any
	B *UserObj
}
type TaggedHolder struct {
	A any      `pickle:"a"`
	B *UserObj `pickle:"b"`
}

var userObjs = map[int]*UserObj{}
var userObjsMu sync.Mutex // the table is the harness's, not the library's: guarded for the concurrent driver

func userObj(n int) *UserObj {
	userObjsMu.Lock()
	defer userObjsMu.Unlock()
	if o, ok := userObjs[n]; ok {
		return o
	}
	o := &UserObj{N: n}
	userObjs[n] = o
	return o
}

func hexOrDash(s string) string {
	if len(s) == 0 {
		return "-"
	}
	return hex.EncodeToString([]byte(s))
}

func unhexOrDash(s string) (string, error) {
	if s == "-" {
		return "", nil
	}
	b, err := hex.DecodeString(s)
	return string(b), err
}

const nodeBudget = 200000

type renderer struct {
	budget int
	path   map[any]bool // containers on the current path (maps by pointer, Dicts by value)
	big    bool
}

func render(v any) string {
	r := &renderer{budget: nodeBudget, path: map[any]bool{}}
	s := r.render(v)
	if r.big {
		return "TOOBIG"
	}
	return s
}

func (r *renderer) seq(open string, xs []any) string {
	var sb strings.Builder
	sb.WriteString(open)
	sb.WriteString(" ")
	for _, x := range xs {
		sb.WriteString(r.render(x))
		sb.WriteString(" ")
		if r.big {
			return ""
		}
	}
	sb.WriteString(")")
	return sb.String()
}

func (r *renderer) pairs(open string, kv [][2]string) string {
	sort.Slice(kv, func(i, j int) bool {
		if kv[i][0] != kv[j][0] {
			return kv[i][0] < kv[j][0]
		}
		return kv[i][1] < kv[j][1]
	})
	var sb strings.Builder
	sb.WriteString(open)
	sb.WriteString(" ")
	for _, p := range kv {
		sb.WriteString(p[0])
		sb.WriteString(" ")
		sb.WriteString(p[1])
		sb.WriteString(" ")
	}
	sb.WriteString(")")
	return sb.String()
}

func f64hex(f float64) string { return fmt.Sprintf("%016x", math.Float64bits(f)) }

func (r *renderer) render(v any) string {
	if r.big {
		return ""
	}
	r.budget--
	if r.budget < 0 {
		r.big = true
		return ""
	}
	switch x := v.(type) {
	case nil:
		return "Nil"
	case og.None:
		return "N"
	case bool:
		if x {
			return "T"
		}
		return "F"
	case int64:
		return "I" + strconv.FormatInt(x, 10)
	case int:
		return "I" + strconv.FormatInt(int64(x), 10)
	case int8:
		return "I" + strconv.FormatInt(int64(x), 10)
	case int16:
		return "I" + strconv.FormatInt(int64(x), 10)
	case int32:
		return "I" + strconv.FormatInt(int64(x), 10)
	case uint64:
		return "U" + strconv.FormatUint(x, 10)
	case uint:
		return "U" + strconv.FormatUint(uint64(x), 10)
	case uint8:
		return "U" + strconv.FormatUint(uint64(x), 10)
	case uint16:
		return "U" + strconv.FormatUint(uint64(x), 10)
	case uint32:
		return "U" + strconv.FormatUint(uint64(x), 10)
	case float32:
		return "D" + f64hex(float64(x))
	case *big.Int:
		return "L" + x.String()
	case float64:
		return "D" + f64hex(x)
	case complex128:
		return "Z" + f64hex(real(x)) + "," + f64hex(imag(x))
	case string:
		return "S" + hexOrDash(x)
	case og.ByteString:
		return "Y" + hexOrDash(string(x))
	case og.Bytes:
		return "B" + hexOrDash(string(x))
	case []byte:
		return "A" + hexOrDash(string(x))
	case []any:
		return r.seq("l(", x)
	case og.Tuple:
		return r.seq("t(", x)
	case map[any]any:
		p := reflect.ValueOf(x).Pointer()
		if r.path[p] {
			return "#cycle"
		}
		r.path[p] = true
		kv := make([][2]string, 0, len(x))
		for k, val := range x {
			kv = append(kv, [2]string{r.render(k), r.render(val)})
		}
		delete(r.path, p)
		return r.pairs("m(", kv)
	case og.Dict:
		if r.path[x] {
			return "#cycle"
		}
		r.path[x] = true
		kv := make([][2]string, 0, x.Len())
		x.Iter()(func(k, val any) bool {
			kv = append(kv, [2]string{r.render(k), r.render(val)})
			return true
		})
		delete(r.path, x)
		return r.pairs("d(", kv)
	case og.Class:
		return "C" + hexOrDash(x.Module) + "." + hexOrDash(x.Name)
	case og.Call:
		return "c( C" + hexOrDash(x.Callable.Module) + "." + hexOrDash(x.Callable.Name) + " " + strings.TrimPrefix(r.seq("", x.Args), " ")
	case og.Ref:
		return "R( " + r.render(x.Pid) + " )"
	case *UserObj:
		return "X" + strconv.Itoa(x.N)
	}
	// anything else: an undocumented type
	return fmt.Sprintf("?%T", v)
}

// ---- parsing ----

type parser struct {
	toks []string
	pos  int
}

func parseValue(toks []string) (any, error) {
	p := &parser{toks: toks}
	v, err := p.value()
	if err != nil {
		return nil, err
	}
	if p.pos != len(toks) {
		return nil, fmt.Errorf("trailing tokens")
	}
	return v, nil
}

func (p *parser) seq() ([]any, error) {
	xs := []any{}
	for {
		if p.pos >= len(p.toks) {
			return nil, fmt.Errorf("unterminated sequence")
		}
		if p.toks[p.pos] == ")" {
			p.pos++
			return xs, nil
		}
		v, err := p.value()
		if err != nil {
			return nil, err
		}
		xs = append(xs, v)
	}
}

func parseClass(t string) (og.Class, error) {
	parts := strings.Split(t[1:], ".")
	if len(parts) != 2 {
		return og.Class{}, fmt.Errorf("bad class token %q", t)
	}
	m, err := unhexOrDash(parts[0])
	if err != nil {
		return og.Class{}, err
	}
	n, err := unhexOrDash(parts[1])
	if err != nil {
		return og.Class{}, err
	}
	return og.Class{Module: m, Name: n}, nil
}

func (p *parser) value() (any, error) {
	if p.pos >= len(p.toks) {
		return nil, fmt.Errorf("unexpected end")
	}
	t := p.toks[p.pos]
	p.pos++
	body := t[1:]
	switch t[0] {
	case 'N':
		if t == "Nil" {
			return nil, nil
		}
		return og.None{}, nil
	case 'T':
		return true, nil
	case 'F':
		return false, nil
	case 'I':
		i, err := strconv.ParseInt(body, 10, 64)
		return i, err
	case 'U':
		u, err := strconv.ParseUint(body, 10, 64)
		return u, err
	case 'L':
		b, ok := new(big.Int).SetString(body, 10)
		if !ok {
			return nil, fmt.Errorf("bad big %q", body)
		}
		return b, nil
	case 'D':
		u, err := strconv.ParseUint(body, 16, 64)
		return math.Float64frombits(u), err
	case 'Z':
		parts := strings.Split(body, ",")
		if len(parts) != 2 {
			return nil, fmt.Errorf("bad complex")
		}
		a, err := strconv.ParseUint(parts[0], 16, 64)
		if err != nil {
			return nil, err
		}
		b, err := strconv.ParseUint(parts[1], 16, 64)
		return complex(math.Float64frombits(a), math.Float64frombits(b)), err
	case 'S':
		s, err := unhexOrDash(body)
		return s, err
	case 'Y':
		s, err := unhexOrDash(body)
		return og.ByteString(s), err
	case 'B':
		s, err := unhexOrDash(body)
		return og.Bytes(s), err
	case 'A':
		s, err := unhexOrDash(body)
		return []byte(s), err
	case 'X':
		n, err := strconv.Atoi(body)
		return userObj(n), err
	case 'Q': // signed of width w: Q<w>:<n>
		i := strings.Index(body, ":")
		if i < 0 {
			return nil, fmt.Errorf("bad Q token")
		}
		n, err := strconv.ParseInt(body[i+1:], 10, 64)
		if err != nil {
			return nil, err
		}
		switch body[:i] {
		case "0":
			return int(n), nil
		case "8":
			return int8(n), nil
		case "16":
			return int16(n), nil
		case "32":
			return int32(n), nil
		}
		return nil, fmt.Errorf("bad width")
	case 'V': // unsigned of width w: V<w>:<n>
		i := strings.Index(body, ":")
		if i < 0 {
			return nil, fmt.Errorf("bad V token")
		}
		n, err := strconv.ParseUint(body[i+1:], 10, 64)
		if err != nil {
			return nil, err
		}
		switch body[:i] {
		case "0":
			return uint(n), nil
		case "8":
			return uint8(n), nil
		case "16":
			return uint16(n), nil
		case "32":
			return uint32(n), nil
		case "64":
			return n, nil
		}
		return nil, fmt.Errorf("bad width")
	case 'E': // float32 bits
		u, err := strconv.ParseUint(body, 16, 32)
		return math.Float32frombits(uint32(u)), err
	case 'H', 'h', 'G': // H( v x ): &Holder{v, x}; h( v x ): Holder{v, x}; G( v x ): &TaggedHolder{v, x}  (x = X<n> or Nil)
		a, err := p.value()
		if err != nil {
			return nil, err
		}
		b, err := p.value()
		if err != nil {
			return nil, err
		}
		if p.pos >= len(p.toks) || p.toks[p.pos] != ")" {
			return nil, fmt.Errorf("bad holder")
		}
		p.pos++
		u, _ := b.(*UserObj)
		switch t[0] {
		case 'H':
			return &Holder{A: a, B: u}, nil
		case 'h':
			return Holder{A: a, B: u}, nil
		}
		return &TaggedHolder{A: a, B: u}, nil
	case 'u', 'w': // u( X1 X2 ): []UserObj{*X1, *X2} (struct VALUES in a typed slice); w( X1 X2 ): [n]Holder{{nil, X1}, …} as []Holder
		xs, err := p.seq()
		if err != nil {
			return nil, err
		}
		if t[0] == 'u' {
			out := make([]UserObj, 0, len(xs))
			for _, x := range xs {
				u, ok := x.(*UserObj)
				if !ok {
					return nil, fmt.Errorf("bad u element")
				}
				out = append(out, *u)
			}
			return out, nil
		}
		out := make([]Holder, 0, len(xs))
		for _, x := range xs {
			u, ok := x.(*UserObj)
			if !ok {
				return nil, fmt.Errorf("bad w element")
			}
			out = append(out, Holder{A: int64(u.N), B: u})
		}
		return out, nil
	case 'P': // P( v ): pointer to v
		v, err := p.value()
		if err != nil {
			return nil, err
		}
		if p.pos >= len(p.toks) || p.toks[p.pos] != ")" {
			return nil, fmt.Errorf("bad ptr")
		}
		p.pos++
		rv := reflect.New(reflect.TypeOf(v))
		rv.Elem().Set(reflect.ValueOf(v))
		return rv.Interface(), nil
	case 'C':
		return parseClass(t)
	case 'l':
		return p.seq()
	case 't':
		if t == "t0" { // the empty tuple as a nil slice (var t Tuple; Call{..., nil}.Args): the same Python value as Tuple{}
			return og.Tuple(nil), nil
		}
		xs, err := p.seq()
		return og.Tuple(xs), err
	case 'm':
		xs, err := p.seq()
		if err != nil || len(xs)%2 != 0 {
			return nil, fmt.Errorf("bad map")
		}
		m := make(map[any]any)
		for i := 0; i < len(xs); i += 2 {
			m[xs[i]] = xs[i+1]
		}
		return m, nil
	case 'd':
		xs, err := p.seq()
		if err != nil || len(xs)%2 != 0 {
			return nil, fmt.Errorf("bad dict")
		}
		return og.NewDictWithData(xs...), nil
	case 'c':
		if p.pos >= len(p.toks) {
			return nil, fmt.Errorf("bad call")
		}
		c, err := parseClass(p.toks[p.pos])
		if err != nil {
			return nil, err
		}
		p.pos++
		xs, err := p.seq()
		return og.Call{Callable: c, Args: og.Tuple(xs)}, err
	case 'R':
		v, err := p.value()
		if err != nil {
			return nil, err
		}
		if p.pos >= len(p.toks) || p.toks[p.pos] != ")" {
			return nil, fmt.Errorf("bad ref")
		}
		p.pos++
		return og.Ref{Pid: v}, nil
	}
	return nil, fmt.Errorf("bad token %q", t)
}
