package main

func genMain(args []string) {}
