package main

// Generates Ogorek/Generated/Facts.lean from /repo's current source (go/ast only):
// opcode constant values, highestProtocol, maxgrow, the PROTO range test, package-level
// variables and writes to them, calls whose error result is dropped, go/defer statements.

import (
	"fmt"
	"go/ast"
	"go/parser"
	"go/token"
	"os"
	"sort"
	"strconv"
	"strings"
)

func leanStr(s string) string { return strconv.Quote(s) }

func exprString(e ast.Expr) string {
	switch x := e.(type) {
	case *ast.Ident:
		return x.Name
	case *ast.SelectorExpr:
		return exprString(x.X) + "." + x.Sel.Name
	case *ast.CallExpr:
		return exprString(x.Fun) + "(…)"
	case *ast.BasicLit:
		return x.Value
	case *ast.UnaryExpr:
		return x.Op.String() + exprString(x.X)
	case *ast.CompositeLit:
		return "composite"
	case *ast.StarExpr:
		return "*" + exprString(x.X)
	case *ast.IndexExpr:
		return exprString(x.X) + "[…]"
	case *ast.ParenExpr:
		return "(" + exprString(x.X) + ")"
	}
	return fmt.Sprintf("%T", e)
}

func genFacts(repo, path string) error {
	fset := token.NewFileSet()
	pkgs, err := parser.ParseDir(fset, repo, func(fi os.FileInfo) bool {
		n := fi.Name()
		return !strings.HasSuffix(n, "_test.go") && n != "verif_hooks.go" && n != "fuzz.go"
	}, parser.ParseComments)
	if err != nil {
		return err
	}
	var files []*ast.File
	var fileNames []string
	for _, p := range pkgs {
		for name, f := range p.Files {
			files = append(files, f)
			fileNames = append(fileNames, name)
		}
	}
	// resolve package-scope identifiers across files
	fmap := map[string]*ast.File{}
	for i, f := range files {
		fmap[fileNames[i]] = f
	}
	pkg, _ := ast.NewPackage(fset, fmap, nil, nil) // errors about imports are expected and ignored

	type kv struct {
		name string
		val  int
	}
	var opcodes []kv
	highest := -1
	maxgrow := -1
	type gvar struct{ name, init string }
	var gvars []gvar
	gobj := map[*ast.Object]string{}
	returnsErr := map[string]bool{}

	for _, f := range files {
		for _, d := range f.Decls {
			switch d := d.(type) {
			case *ast.GenDecl:
				for _, s := range d.Specs {
					vs, ok := s.(*ast.ValueSpec)
					if !ok {
						continue
					}
					for i, n := range vs.Names {
						var val ast.Expr
						if i < len(vs.Values) {
							val = vs.Values[i]
						}
						if d.Tok == token.CONST {
							if strings.HasPrefix(n.Name, "op") && vs.Type != nil && exprString(vs.Type) == "byte" {
								if bl, ok := val.(*ast.BasicLit); ok && bl.Kind == token.CHAR {
									r, _, _, err := strconv.UnquoteChar(bl.Value[1:len(bl.Value)-1], '\'')
									if err == nil {
										opcodes = append(opcodes, kv{n.Name, int(r)})
									}
								}
							}
							if n.Name == "highestProtocol" {
								if bl, ok := val.(*ast.BasicLit); ok {
									highest, _ = strconv.Atoi(bl.Value)
								}
							}
						} else if d.Tok == token.VAR {
							init := "none"
							if val != nil {
								init = exprString(val)
							}
							gvars = append(gvars, gvar{n.Name, init})
							if n.Obj != nil {
								gobj[n.Obj] = n.Name
							}
						}
					}
				}
			case *ast.FuncDecl:
				if d.Type.Results != nil {
					for _, r := range d.Type.Results.List {
						if id, ok := r.Type.(*ast.Ident); ok && id.Name == "error" {
							returnsErr[d.Name.Name] = true
						}
					}
				}
			}
		}
	}
	_ = pkg

	// package-level var objects as resolved by ast.NewPackage
	isGlobal := func(id *ast.Ident) (string, bool) {
		if id.Obj == nil {
			return "", false
		}
		n, ok := gobj[id.Obj]
		return n, ok
	}

	var writes []string   // assignments / inc-dec / address-of on package-level vars
	var dropped []string  // calls whose error result is dropped
	var godefer []string  // go statements and defers (outside recover helpers)
	var protoTest []string

	calleeName := func(c *ast.CallExpr) string {
		switch f := c.Fun.(type) {
		case *ast.Ident:
			return f.Name
		case *ast.SelectorExpr:
			return f.Sel.Name
		}
		return ""
	}
	isErrCall := func(c *ast.CallExpr) bool {
		n := calleeName(c)
		if returnsErr[n] {
			return true
		}
		s := exprString(c.Fun)
		switch s {
		case "fmt.Fprintf", "e.w.Write", "io.ReadFull", "io.CopyN", "d.r.ReadByte", "d.r.ReadSlice":
			return true
		}
		return false
	}

	for i, f := range files {
		fname := fileNames[i]
		base := fname[strings.LastIndex(fname, "/")+1:]
		for _, d := range f.Decls {
			fd, ok := d.(*ast.FuncDecl)
			if !ok || fd.Body == nil {
				continue
			}
			ast.Inspect(fd.Body, func(n ast.Node) bool {
				switch x := n.(type) {
				case *ast.GenDecl:
					if x.Tok == token.CONST {
						for _, s := range x.Specs {
							vs := s.(*ast.ValueSpec)
							for i, nm := range vs.Names {
								if nm.Name == "maxgrow" && i < len(vs.Values) {
									if bl, ok := vs.Values[i].(*ast.BasicLit); ok {
										v, err := strconv.ParseInt(bl.Value, 0, 64)
										if err == nil {
											maxgrow = int(v)
										}
									}
								}
							}
						}
					}
				case *ast.AssignStmt:
					for _, l := range x.Lhs {
						if id, ok := l.(*ast.Ident); ok {
							if g, ok := isGlobal(id); ok {
								writes = append(writes, fmt.Sprintf("%s:%s assigns %s", base, fd.Name.Name, g))
							}
						}
					}
					// `_ = f()` / `_, _ = f()` with error-returning callee
					if len(x.Rhs) == 1 {
						if c, ok := x.Rhs[0].(*ast.CallExpr); ok && isErrCall(c) {
							last := x.Lhs[len(x.Lhs)-1]
							if id, ok := last.(*ast.Ident); ok && id.Name == "_" {
								dropped = append(dropped, fmt.Sprintf("%s:%s blanks error of %s", base, fd.Name.Name, exprString(c.Fun)))
							}
						}
					}
				case *ast.IncDecStmt:
					if id, ok := x.X.(*ast.Ident); ok {
						if g, ok := isGlobal(id); ok {
							writes = append(writes, fmt.Sprintf("%s:%s incdec %s", base, fd.Name.Name, g))
						}
					}
				case *ast.UnaryExpr:
					if x.Op == token.AND {
						if id, ok := x.X.(*ast.Ident); ok {
							if g, ok := isGlobal(id); ok {
								writes = append(writes, fmt.Sprintf("%s:%s takes address of %s", base, fd.Name.Name, g))
							}
						}
					}
				case *ast.ExprStmt:
					if c, ok := x.X.(*ast.CallExpr); ok && isErrCall(c) {
						dropped = append(dropped, fmt.Sprintf("%s:%s drops error of %s", base, fd.Name.Name, exprString(c.Fun)))
					}
				case *ast.GoStmt:
					godefer = append(godefer, fmt.Sprintf("%s:%s go", base, fd.Name.Name))
				case *ast.DeferStmt:
					godefer = append(godefer, fmt.Sprintf("%s:%s defer", base, fd.Name.Name))
				case *ast.BinaryExpr:
					// the PROTO range test `0 <= v && v <= 5`
					if fd.Name.Name == "Decode" && x.Op == token.LEQ {
						if id, ok := x.X.(*ast.Ident); ok && id.Name == "v" {
							protoTest = append(protoTest, exprString(x.Y))
						}
					}
				}
				return true
			})
		}
	}

	sort.Slice(opcodes, func(i, j int) bool { return opcodes[i].val < opcodes[j].val })
	sort.Slice(gvars, func(i, j int) bool { return gvars[i].name < gvars[j].name })
	sort.Strings(writes)
	sort.Strings(dropped)
	sort.Strings(godefer)

	var sb strings.Builder
	sb.WriteString("/- GENERATED by /verif/extract from /repo's current source. Do not edit. -/\n")
	sb.WriteString("namespace Ogorek.Generated\n\n")
	sb.WriteString("/-- Values of the `op*` byte constants declared in ogorek.go, sorted. -/\n")
	sb.WriteString("def opcodeValues : List Nat := [")
	for i, o := range opcodes {
		if i > 0 {
			sb.WriteString(", ")
		}
		fmt.Fprintf(&sb, "%d", o.val)
	}
	sb.WriteString("]\n\n")
	sb.WriteString("def opcodeNames : List (String × Nat) := [")
	for i, o := range opcodes {
		if i > 0 {
			sb.WriteString(", ")
		}
		fmt.Fprintf(&sb, "(%s, %d)", leanStr(o.name), o.val)
	}
	sb.WriteString("]\n\n")
	fmt.Fprintf(&sb, "def highestProtocol : Int := %d\n\n", highest)
	fmt.Fprintf(&sb, "def maxgrow : Int := %d\n\n", maxgrow)
	sb.WriteString("/-- Upper bounds `v <= _` found in Decode (the PROTO range test). -/\n")
	sb.WriteString("def protoUpperBounds : List String := [")
	for i, p := range protoTest {
		if i > 0 {
			sb.WriteString(", ")
		}
		sb.WriteString(leanStr(p))
	}
	sb.WriteString("]\n\n")
	sb.WriteString("/-- Package-level variables: name and initialiser. -/\n")
	sb.WriteString("def globalVars : List (String × String) := [")
	for i, g := range gvars {
		if i > 0 {
			sb.WriteString(",\n  ")
		}
		fmt.Fprintf(&sb, "(%s, %s)", leanStr(g.name), leanStr(g.init))
	}
	sb.WriteString("]\n\n")
	list := func(name, doc string, xs []string) {
		fmt.Fprintf(&sb, "/-- %s -/\ndef %s : List String := [", doc, name)
		for i, x := range xs {
			if i > 0 {
				sb.WriteString(",\n  ")
			}
			sb.WriteString(leanStr(x))
		}
		sb.WriteString("]\n\n")
	}
	list("globalWrites", "Assignments to, inc/dec of, or address-of a package-level variable inside a function.", writes)
	list("droppedErrors", "Calls to error-returning functions whose result is discarded.", dropped)
	list("goAndDefer", "go statements and defers.", godefer)
	sb.WriteString("end Ogorek.Generated\n")
	return os.WriteFile(path, []byte(sb.String()), 0o644)
}
