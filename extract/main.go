package main

import (
	"fmt"
	"os"
)

func main() {
	if len(os.Args) < 3 {
		fmt.Fprintln(os.Stderr, "usage: extract <repo dir> <lean Generated dir>")
		os.Exit(2)
	}
	repo, out := os.Args[1], os.Args[2]
	if err := genIsPrint(out + "/IsPrint.lean"); err != nil {
		fmt.Fprintln(os.Stderr, err)
		os.Exit(1)
	}
	if err := genFacts(repo, out+"/Facts.lean"); err != nil {
		fmt.Fprintln(os.Stderr, err)
		os.Exit(1)
	}
}
