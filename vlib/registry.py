from . import decprops


def all_checks():
    out = {}
    for mod in (decprops,):
        for name in dir(mod):
            c = getattr(mod, name)
            if isinstance(c, type) and getattr(c, "prop", None):
                out[c.prop] = c()
    return out


def get(prop):
    return all_checks().get(prop)
