from . import concprops, decprops, dictprops, encprops, pyprops


def all_checks():
    out = {}
    for mod in (decprops, encprops, dictprops, pyprops, concprops):
        for name in dir(mod):
            c = getattr(mod, name)
            if isinstance(c, type) and getattr(c, "prop", None) and c.__module__ == mod.__name__:
                out[c.prop] = c()
    return out


def get(prop):
    return all_checks().get(prop)
