"""Dict properties: C07 (equality / hash), C08 (histories), C09 (dict opcodes)."""
import importlib.util
import os
import struct

from . import common as C
from . import programs as P
from . import values as V
from .decprops import CFGS, TB_COMMON, dec_class, hexs, own_corpus, run_both

_spec = importlib.util.spec_from_file_location("pyoracle", C.PYORACLE)
ORACLE = importlib.util.module_from_spec(_spec)
_spec.loader.exec_module(ORACLE)


def pyeq_tokens(a, b):
    x, _ = ORACLE.parse_key(a.split())
    y, _ = ORACLE.parse_key(b.split())
    return ORACLE.pyeq(x, y)


def f32bits(x):
    return struct.unpack(">I", struct.pack(">f", x))[0]


def f32_exact(n):
    try:
        return float(struct.unpack(">f", struct.pack(">f", float(n)))[0]) == n
    except OverflowError:
        return False


def number_keys(rng, ks, ds=(-2, -1, 0, 1, 2), rich=True):
    """Every representation of +-2^k+d that can hold it."""
    out = []
    for k in ks:
        for d in ds:
            for sgn in (1, -1):
                n = sgn * (2 ** k) + d
                if -2 ** 63 <= n < 2 ** 63:
                    out.append(f"I{n}")
                    if rich:
                        out.append(f"Q0:{n}")          # the plain Go `int`
                        for w, lim in (("8", 7), ("16", 15), ("32", 31)):
                            if -2 ** lim <= n < 2 ** lim:
                                out.append(f"Q{w}:{n}")
                if 0 <= n < 2 ** 64:
                    out.append(f"U{n}")
                    if rich:
                        out.append(f"V0:{n}")          # the plain Go `uint`
                        for w in ("8", "16", "32"):
                            if n < 2 ** int(w):
                                out.append(f"V{w}:{n}")
                out.append(f"L{n}")
                try:
                    f = float(n)
                    out.append("D%016x" % V.f64bits(f))
                    if rich:
                        out.append("Z%016x,%016x" % (V.f64bits(f), 0))
                        if f32_exact(n) or rng.random() < 0.2:
                            try:
                                out.append("E%08x" % f32bits(f))
                            except OverflowError:
                                pass
                except OverflowError:
                    pass
    return out


SPECIAL_KEYS = ["T", "F", "N", "D0000000000000000", "D8000000000000000", "D7ff0000000000000", "Dfff0000000000000",
                "D7ff8000000000001", "D3fe0000000000000", "D3ff8000000000000", "Z3ff0000000000000,3ff0000000000000",
                "Z0000000000000000,8000000000000000", "Z7ff8000000000001,0000000000000000", "Z3ff0000000000000,7ff8000000000001",
                "D43e0000000000000", "D43f0000000000000", "Dc3e0000000000000", "D433fffffffffffff", "D4340000000000001",
                "E7fc00000", "E7f800000", "E00000001", "E3f800000",
                # complex numbers that differ only in the sign of a zero component, with the other component non-zero / NaN / Inf
                "Z0000000000000000,3ff0000000000000", "Z8000000000000000,3ff0000000000000", "Z0000000000000000,bff0000000000000",
                "Z8000000000000000,bff0000000000000", "Z3ff0000000000000,0000000000000000", "Z3ff0000000000000,8000000000000000",
                "Z0000000000000000,0000000000000000", "Z8000000000000000,0000000000000000", "Z8000000000000000,8000000000000000",
                "Z0000000000000000,7ff0000000000000", "Z8000000000000000,7ff0000000000000", "Z4000000000000000,4008000000000000",
                "Z0000000000000000,4340000000000000", "Z8000000000000000,4340000000000000", "Z43e0000000000000,3ff0000000000000",
                "L-9223372036854777856", "Dc3e0000000000001", "L9223372036854777856", "D43e0000000000001", "L-18446744073709549568",
                "Dc3efffffffffffff", "L-9007199254740993", "I-9007199254740993", "Dc340000000000000", "L-9223372036854775809",
                "S-", "Y-", "B-", "S61", "Y61", "B61", "S62", "Y62", "B6161", "Sc3a9", "Yc3a9", "Bc3a9", "Yff", "Bff",
                # content that is not valid UTF-8, in all three string types (a Go string can hold any bytes), bare and in tuples
                "Sff", "S63616665e9", "Y63616665e9", "B63616665e9", "Sd0", "Yd0", "t( Sff )", "t( Yff )", "t( Bff )", "R( Sff )", "R( Yff )",
                "C6d.6e", "C6d.6f", "C-.-", "c( C6d.6e )", "c( C6d.6e I1 )", "c( C6d.6e D3ff0000000000000 )", "c( C6d.6f I1 )",
                "R( I1 )", "R( L1 )", "R( S61 )", "R( Y61 )", "R( t( I1 ) )", "t( )", "t( I1 )", "t( T )", "t( L1 )",
                "t( D3ff0000000000000 )", "t( I1 I2 )", "t( I1 t( I2 ) )", "t( S61 )", "t( Y61 )", "t( B61 )", "t( N )",
                "t( t( ) )", "t( S61 Y61 )", "t( Y61 S61 )", "X0", "X1",
                # the three string kinds inside struct-typed keys (Ref id, Call arguments), bare and wrapped once more
                "R( B61 )", "R( S- )", "R( B- )", "R( Y- )", "t( R( S61 ) I1 )", "t( R( B61 ) I1 )", "t( R( Y61 ) I1 )", "R( R( S61 ) )",
                "R( R( B61 ) )", "c( C6d.6e S61 )", "c( C6d.6e B61 )", "c( C6d.6e Y61 )", "R( t( S61 ) )", "R( t( B61 ) )",
                # struct-typed keys whose payload is zero / empty in each Go representation (int 0, *big.Int 0, +-0.0, false, uint 0, the
                # empty tuple as a non-nil and as a nil slice): one Python value, whether or not it is the Go zero value
                "R( I0 )", "R( L0 )", "R( D0000000000000000 )", "R( D8000000000000000 )", "R( F )", "R( U0 )", "R( E80000000 )",
                "R( Z0000000000000000,0000000000000000 )", "R( Z8000000000000000,0000000000000000 )", "c( C6d.6e I0 )", "c( C6d.6e L0 )",
                "c( C6d.6e D8000000000000000 )", "t( R( I0 ) )", "t( R( L0 ) )", "R( R( L0 ) )", "R( R( I0 ) )", "R( t( ) )", "R( t0 )",
                "t0", "t( t0 )", "t( t0 I1 )", "t( t( ) I1 )", "c( C6d.6e t0 )", "c( C6d.6e t( ) )", "R( N )", "R( S- )", "I0", "L0",
                # a NaN inside a tuple / struct-typed key: such a key equals nothing, not even itself (the same object on both sides)
                "t( D7ff8000000000001 )", "t( D7ff8000000000001 S61 )", "t( I1 D7ff8000000000001 )", "R( D7ff8000000000001 )", "c( C6d.6e D7ff8000000000001 )",
                "t( E7fc00000 )", "t( Z7ff8000000000001,0000000000000000 )", "t( t( D7ff8000000000001 ) )",
                # the edges of int64 / uint64 in each representation, where a conversion can wrap
                "I9223372036854775807", "U9223372036854775807", "V0:9223372036854775807", "I-9223372036854775808", "L9223372036854775808",
                "U9223372036854775808", "D43e0000000000000", "Dc3e0000000000000", "L-9223372036854775808", "L9223372036854775807",
                "U18446744073709551615", "I-1", "L18446744073709551615", "L18446744073709551616", "Z43e0000000000000,0000000000000000",
                "Zc3f0000000000000,0000000000000000", "L-18446744073709551616", "Zfff0000000000000,0000000000000000"]


def rand_key(rng, depth=0):
    r = rng.random()
    if r < 0.5:
        return rng.choice(number_keys(rng, [rng.choice([0, 1, 7, 8, 31, 32, 52, 53, 54, 62, 63, 64, 65, 100, 1023])], ds=(rng.choice([-2, -1, 0, 1, 2]),)))
    if r < 0.75 or depth >= 2:
        return rng.choice(SPECIAL_KEYS)
    n = rng.randint(0, 3)
    return "t( " + "".join(rand_key(rng, depth + 1) + " " for _ in range(n)) + ")"


class C07:
    prop = "C07"
    lean_module = "Ogorek.Props.C07T"
    theorems = ["Ogorek.C07_exact_num", "Ogorek.C07_symm", "Ogorek.C07_hash_num", "Ogorek.C07_hash", "Ogorek.C07_hash_any_seed",
                "Ogorek.C07_strings", "Ogorek.C07_tuple", "Ogorek.C07_lookup", "Ogorek.F64.ofIntExact_sound",
                "Ogorek.F64.ofIntExact_complete", "Ogorek.F64.integral_same", "Ogorek.C07_refl", "Ogorek.goEqualList_refl", "Ogorek.C07_refl_nan",
                "Ogorek.reflOK_of_hashable", "Ogorek.C07_refl_hashable", "Ogorek.numEq_trans", "Ogorek.strEq_trans", "Ogorek.strEq_not_trans",
                "Ogorek.C07_trans", "Ogorek.goEqualList_trans"]
    trusted_base = TB_COMMON + ["gomap implements a hash table correctly when equal keys hash equally (the contract proved in C07_hash)",
                                "hash/maphash is an arbitrary function of (seed, bytes); big.Int.Float64 reports Exact iff the integer is a float64",
                                "CPython 3.11 `==` as the meaning of Python equality (the independent Lean spec `exactEq` is compared with it on every run)"]
    level_text = ("Lean theorems for ALL keys: on numbers `equal` is equality of exact mathematical values across bool, int8..64, uint8..64, "
                  "*big.Int, float32/64, complex (C07_exact_num, against an independently written specification; needs that an integral "
                  "float is determined by its integer value — F64.integral_same — and big.Int→float exactness, sound and complete); "
                  "`equal` is symmetric (C07_symm) and reflexive on every key holding no NaN, false on a NaN with itself as in Python "
                  "(C07_refl, C07_refl_nan) — in particular on every key `hash` accepts (C07_refl_hashable: the kinds `equal` never accepts "
                  "are kinds `hash` panics on), and transitive through every middle value that holds no ByteString, containers included (C07_trans, from "
                  "numEq_trans — equality of exact values — and strEq_trans; strEq_not_trans is the ByteString exception, K2's root); equal keys have the same hash tree, hence the same hash for EVERY hash function and "
                  "seed (C07_hash, C07_hash_any_seed), so a lookup succeeds iff the keys are equal whatever the seed (C07_lookup); str and "
                  "bytes differ, ByteString equals both, tuples compare element-wise (C07_strings, C07_tuple). Tie: the unexported "
                  "equal/hash of the real package (verif hook) on all ordered pairs of a boundary lattice, 4 seeds each, plus black-box "
                  "lookups in freshly seeded Dicts; the Lean specification is itself compared with CPython's == on the same pairs.")
    level_note = "trusted: Lean kernel + standard axioms; Dict model (equal/hash); gomap; CPython as oracle for Python equality"
    technique = "Lean 4 proof (IEEE-754 bit-level lemmas, 36-entry numeric matrix against an exact-value spec, structural induction on keys) + differential correspondence via hooks + CPython oracle"
    rule = ("ordered pairs of hashable keys from the boundary lattice +-2^k+d (k<=1023, d in -2..2) in every Go numeric type able to hold "
            "them (int8..int64, uint8..uint64, *big.Int, float32, float64, complex), NaN/+-Inf/+-0, string/Bytes/ByteString of equal and "
            "different content, tuples of these, None/Class/Call/Ref/application objects, plus random pairs; for each pair: "
            "equal(a,b) and hash agreement under 4 seeds on the implementation vs the model vs CPython ==, and lookups of b in freshly "
            "seeded Dicts holding a; distinct = distinct ordered pairs")
    assumptions = ["py2 str vs unicode/bytes follows og-rek's documented rule (ByteString equals both); CPython 3 has no such type"]

    def keys(self, ctx):
        rng = ctx.rng
        ks = [0, 1, 7, 8, 15, 16, 23, 24, 31, 32, 52, 53, 54, 62, 63, 64, 65] if not ctx.thorough else list(range(0, 70)) + [100, 127, 128, 1022, 1023]
        ks_extra = rng.sample(range(2, 1024), 6) + [1023, 1024]
        keys = number_keys(rng, ks) + number_keys(rng, ks_extra, ds=(0, 1), rich=False) + SPECIAL_KEYS
        keys = list(dict.fromkeys(keys))
        cap = ctx.scale(420, 1600)
        if len(keys) > cap:
            # always kept: the special keys and every representation of the small integers -3..3 and of +-2^63, +-2^64
            # (zero against negative zero, one against True, the int64 / uint64 edges)
            core = list(dict.fromkeys(SPECIAL_KEYS + number_keys(rng, [0, 1]) + number_keys(rng, [63, 64], ds=(-1, 0, 1))
                                      + number_keys(rng, [1023, 1024], ds=(0, 1), rich=False) + number_keys(rng, [127, 128], ds=(0,))))
            keep = set(core)
            rest = [k for k in keys if k not in keep]
            rng.shuffle(rest)
            keys = core + rest[: max(0, cap - len(core))]
        return keys

    def run(self, ctx):
        rng = ctx.rng
        keys = self.keys(ctx)
        pairs = [(a, b) for a in keys for b in keys]
        for _ in range(ctx.scale(8000, 100000)):
            pairs.append((rand_key(rng), rand_key(rng)))
        lines = [f"eq {a} ; {b}" for a, b in pairs]
        go, lean = run_both(lines)
        lookups = []
        for line, (a, b), g, l in zip(lines, pairs, go, lean):
            ctx.evaluations += 1
            ctx.tie(line, g, l)
            ctx.nontrivial((a, b))
            try:
                py = "1" if pyeq_tokens(_pykey(a), _pykey(b)) else "0"
            except Exception:   # noqa  (application objects etc.)
                py = None
            ge = g.split(" ")
            ctx.count("equal:" + ge[0])
            if py is not None and l.split(" ")[0] != py:
                ctx.disagree(line, "CPython: " + py, l, "Lean equality specification vs CPython ==")
            if py is not None and ge[0] != py:
                ctx.violate("Dict equality differs from Python's ==", line, py, g)
            if ge[0] == "1" and len(ge) > 1 and ge[1] == "0":
                ctx.violate("equal keys hash differently (lookup would depend on the seed)", line, "equal hash under every seed", g)
            if len(ge) > 1 and ge[1] == "U":
                ctx.count("unhashable-pair")
            elif ge[0] == "1" or rng.random() < 0.02:
                lookups.append((a, b, ge[0]))
        # black-box lookups in freshly seeded Dicts
        rng.shuffle(lookups)
        lookups = lookups[: ctx.scale(1500, 20000)]
        reps = ctx.scale(8, 64)
        ll = []
        for a, b, e in lookups:
            ll += [f"dict S {a} I7 ; G {b}"] * reps
        lg = C.run_sharded(C.run_go, ll)
        for i, (a, b, e) in enumerate(lookups):
            res = set(x.split(" | ")[-1].split(" ")[0] for x in lg[i * reps:(i + 1) * reps])
            ctx.evaluations += reps
            ctx.count("lookup:" + ("found" if res == {"get=I7"} else "absent" if res == {"get=nil"} else "MIXED"))
            want = {"get=I7"} if e == "1" else {"get=nil"}
            if res != want:
                ctx.violate("lookup of b in a fresh Dict holding a does not follow equality, or depends on the seed",
                            f"dict S {a} I7 ; G {b}   (x{reps} fresh Dicts)", sorted(want), sorted(res))
        for i in range(0, len(lines), max(1, len(lines) // 8)):
            ctx.sample(lines[i] + " -> " + go[i])


def _pykey(tok):
    """Typed tokens (Q/V/E) to the plain ones the oracle parses; values are unchanged."""
    out = []
    for t in tok.split():
        if t[0] == "Q":
            out.append("I" + t.split(":")[1])
        elif t[0] == "V":
            out.append("U" + t.split(":")[1])
        elif t[0] == "E":
            f = struct.unpack(">f", struct.pack(">I", int(t[1:], 16)))[0]
            out.append("D%016x" % V.f64bits(f))
        elif t == "t0":
            out += ["t(", ")"]
        else:
            out.append(t)
    return " ".join(out)


# ------------------------------------------------------------------------------------------- C08

ALPHABET = ["I1", "D3ff0000000000000", "T", "L1", "S61", "B61", "Y61", "t( I1 S61 )", "t( D3ff0000000000000 Y61 )", "t( L1 B61 )"]
# keys in which the non-transitive ByteString sits deeper: inside a nested tuple, a Ref id, Call arguments
NESTED = ["t( I1 t( S61 ) )", "t( I1 t( B61 ) )", "t( I1 t( Y61 ) )", "R( S61 )", "R( B61 )", "R( Y61 )",
          "c( C6d.6e S61 )", "c( C6d.6e B61 )", "c( C6d.6e Y61 )", "R( t( S61 ) )", "R( t( Y61 ) )", "R( t( B61 ) )",
          # one Python value in two Go representations: the empty tuple as a non-nil and as a nil slice; zero as int64 and as *big.Int
          "t( )", "t0", "R( t( ) )", "R( t0 )", "t( t0 I1 )", "t( t( ) L1 )", "R( I0 )", "R( L0 )",
          # a bool inside a tuple / struct-typed key against the equal int / float / long at the same place; Go's plain int and uint
          "t( T S61 )", "t( F )", "t( I0 )", "t( D0000000000000000 )", "R( T )", "R( I1 )", "R( D3ff0000000000000 )", "t( t( T ) )", "t( t( L1 ) )",
          "c( C6d.6e T )", "c( C6d.6e I1 )", "V0:1", "Q0:1", "t( V0:1 S61 )", "V0:0", "t( V0:7 )", "t( I7 )",
          # the edges of int64 / uint64 in each representation (a conversion between them can wrap exactly here)
          "I9223372036854775807", "U9223372036854775807", "I-9223372036854775808", "L9223372036854775808", "U9223372036854775808",
          "D43e0000000000000", "L-9223372036854775808", "t( I9223372036854775807 )", "t( U9223372036854775807 )", "I-1", "U18446744073709551615",
          "L18446744073709551615", "t( I-9223372036854775808 S61 )", "t( L9223372036854775808 S61 )"]


def ref_history(ops):
    """Reference dictionary with Python equality: list of (key, value), newest last."""
    es = []
    outs = []
    for op, k, v in ops:
        kk = _pykey(k)
        if op == "S":
            es = [(a, b) for a, b in es if not pyeq_tokens(kk, _pykey(a))] + [(k, v)]
            outs.append(None)
        elif op == "D":
            es = [(a, b) for a, b in es if not pyeq_tokens(kk, _pykey(a))]
            outs.append(None)
        else:
            cands = [b for a, b in es if pyeq_tokens(kk, _pykey(a))]
            outs.append(cands)
        yield_es = list(es)
        outs[-1] = (outs[-1], yield_es)
    return outs


class C08:
    prop = "C08"
    lean_module = "Ogorek.Props.C08S"
    theorems = ["Ogorek.tableDelete_spec", "Ogorek.C08_del", "Ogorek.C08_set", "Ogorek.C08_set_del", "Ogorek.C08_del_none",
                "Ogorek.C08_inv_step", "Ogorek.C08_inv", "Ogorek.C08_len_iter", "Ogorek.C08_get_any", "Ogorek.C08_match_unique",
                "Ogorek.C08_get_after_set", "Ogorek.C08_K2_witness", "Ogorek.C08_get_after_del", "Ogorek.C08_frame_del",
                "Ogorek.C08_frame_set", "Ogorek.C08_get_frame", "Ogorek.C08_len_del", "Ogorek.C08_len_set", "Ogorek.C08_len_set_inv",
                "Ogorek.C08_len_bound", "Ogorek.C08_entries_from_sets", "Ogorek.C08_get_set_same", "Ogorek.C08_get_set_hashable",
                "Ogorek.C08_get_from_sets", "Ogorek.C08_match_unique_noBS", "Ogorek.C08_get_after_set_noBS",
                "Ogorek.TGood.step", "Ogorek.TGood.run", "Ogorek.C08_step_spec", "Ogorek.C08_refines", "Ogorek.C08_refines_foldl"]
    trusted_base = TB_COMMON + ["gomap.Map refines the abstract table (Delete/Get act on SOME entry equal to the key; which one is "
                                "universally quantified) — justified by C07_hash + C07_symm, not by a proof about gomap's buckets"]
    level_text = ("Lean theorems for EVERY history and EVERY way the table resolves its choices (`pick`): Del's loop removes exactly the "
                  "entries equal to its argument and terminates (C08_del, via tableDelete_spec), Set = Del then insert, in closed form "
                  "(C08_set, C08_set_del, C08_del_none), no two stored keys are ever equal (C08_inv_step, C08_inv by induction over the "
                  "operation list), Len = number of entries Iter yields (C08_len_iter), Get returns the value of an entry equal to the "
                  "query (C08_get_any), unique when equality is transitive around the query (C08_match_unique) — proved for every query holding no ByteString "
                  "(C08_match_unique_noBS, from C07_trans), and right after Set it is "
                  "the value just set (C08_get_after_set; for EVERY query equal to the key that holds no ByteString, with no side condition: "
                  "C08_get_after_set_noBS); for a NaN-free key, Get k right after Set k v is v outright (C08_get_set_same, C08_get_set_hashable for every key the Dict accepts, from C07_refl); right after Del it is nothing (C08_get_after_del); Set / Del of a key leave the "
                  "candidates of every unrelated query untouched, so its Get is unchanged (C08_frame_set, C08_frame_del, C08_get_frame); Len "
                  "moves by exactly the number of entries equal to the key (C08_len_del, C08_len_set, C08_len_set_inv); after any history Len is at most the number of Sets and every stored entry is "
                  "the key and value of some Set of the history (C08_len_bound, C08_entries_from_sets, by induction over the history), so whatever Get q returns was set by a Set of the "
                  "history under a key equal to q (C08_get_from_sets). REFINEMENT: after any history whose keys hold no ByteString, Get q is what the abstract map read off the history says "
                  "(specGet: the latest Set under a key equal to q unless a later Del of such a key) — C08_refines / C08_refines_foldl, for every "
                  "pick at every step. The full 'most recently set' statement is FALSE for a ByteString query with "
                  "both a string and a Bytes stored (C08_K2_witness) — known finding K2. Tie: histories replayed on the real Dict "
                  "(Len, Iter contents, Get) against the model and against a Python-equality reference after every operation.")
    level_note = "trusted: Lean kernel + standard axioms; abstract-table model of gomap; Dict model"
    technique = "Lean 4 proof (invariant by induction over operation lists, for all pick functions) + differential correspondence on exhaustive short and long random histories"
    rule = ("histories of Set/Del/Get: exhaustively all of length <= 3 (quick) / <= 4 (thorough) over the 10-key colliding alphabet "
            "(1, 1.0, True, big 1, 'a', b'a', py2 'a', tuples mixing them), and random histories of 200-3000 operations growing and "
            "shrinking across rehash thresholds with lattice keys; after every operation: Len, Iter count, sorted contents, Get result; "
            "distinct = distinct histories")
    assumptions = []

    def histories(self, ctx):
        rng = ctx.rng
        import itertools
        hs = []
        ops1 = [("S", k) for k in ALPHABET] + [("D", k) for k in ALPHABET] + [("G", k) for k in ALPHABET]
        maxlen = ctx.scale(3, 4)
        for n in range(1, maxlen + 1):
            for combo in itertools.product(ops1, repeat=n):
                if n == maxlen and not ctx.thorough and rng.random() > 0.35:
                    continue
                hs.append([(op, k, f"I{100 + i}") for i, (op, k) in enumerate(combo)])
        ctx.exhaustive = True
        # every history of length <= 3 over each family of nested ByteString / string / Bytes keys
        for fam in (NESTED[0:3], NESTED[3:6], NESTED[6:9], NESTED[9:12], ["S61", "B61", "Y61", "t( S61 )", "t( B61 )", "t( Y61 )"],
                    ["Sff", "Bff", "Yff", "t( Sff )", "t( Yff )"], ["S63616665e9", "Y63616665e9", "B63616665e9"]):
            opsn = [("S", k) for k in fam] + [("D", k) for k in fam] + [("G", k) for k in fam]
            for n in range(1, 4):
                for combo in itertools.product(opsn, repeat=n):
                    hs.append([(op, k, f"I{100 + i}") for i, (op, k) in enumerate(combo)])
        # keys holding SEVERAL ByteStrings: one query equals up to 2^n stored keys that are pairwise different
        # (Del must remove all of them, Set must leave exactly one)
        pure2 = [f"t( {a} {b} )" for a in ("S61", "B61") for b in ("S61", "B61")]
        query2 = ["t( Y61 Y61 )", "t( Y61 S61 )", "t( S61 Y61 )", "t( Y61 B61 )", "t( B61 Y61 )"]
        all2 = [f"t( {a} {b} )" for a in ("S61", "B61", "Y61") for b in ("S61", "B61", "Y61")]
        for r in range(1, 5):
            for sub in itertools.permutations(pure2, r):
                if r >= 3 and rng.random() > (1.0 if ctx.thorough else 0.35):
                    continue
                for op in ("D", "S"):
                    for q in query2:
                        h = [("S", k, f"I{100 + i}") for i, k in enumerate(sub)] + [(op, q, "I900")]
                        h += [("G", k, "") for k in all2]
                        hs.append(h)
        pure3 = [f"t( {a} {b} {c} )" for a in ("S61", "B61") for b in ("S61", "B61") for c in ("S61", "B61")]
        for _ in range(ctx.scale(40, 400)):
            sub = rng.sample(pure3, rng.randint(2, 8))
            q = "t( " + " ".join(rng.choice(["Y61", "Y61", "S61", "B61"]) for _ in range(3)) + " )"
            h = [("S", k, f"I{100 + i}") for i, k in enumerate(sub)] + [(rng.choice("DS"), q, "I900")] + [("G", k, "") for k in pure3 + [q]]
            hs.append(h)
        # numbers at the edges of int64 / uint64 that are pairwise different although conversions overflow near them
        edge = ["I-9223372036854775808", "D43e0000000000000", "Dc3e0000000000000", "U9223372036854775808", "L9223372036854775808",
                "L-9223372036854775808", "I9223372036854775807", "U18446744073709551615", "D43f0000000000000",
                # float-exact integers just outside int64 on either side, as *big.Int and as float64 / complex
                "L-9223372036854777856", "Dc3e0000000000001", "Zc3e0000000000001,0000000000000000", "L9223372036854777856",
                "D43e0000000000001", "U9223372036854777856", "L-18446744073709549568", "Dc3efffffffffffff",
                "L-9223372036854779904", "Dc3e0000000000002"]
        opse = [("S", k) for k in edge] + [("D", k) for k in edge[:5] + edge[9:13]] + [("G", k) for k in edge[:5] + edge[9:13]]
        for n in (1, 2, 3):
            for combo in itertools.product(opse, repeat=n):
                if n == 3 and rng.random() > (0.3 if ctx.thorough else 0.02):
                    continue
                hs.append([(op, k, f"I{100 + i}") for i, (op, k) in enumerate(combo)] + [("G", k, "") for k in edge])
        for _ in range(ctx.scale(25, 300)):
            n = rng.choice([200, 600, 3000]) if ctx.thorough else rng.choice([100, 300, 800])
            keys = [rand_key(rng) for _ in range(rng.choice([12, 40, 150, 500]))] + ALPHABET + NESTED + edge + all2
            keys = [k for k in keys if "X" not in k]
            h = []
            phase_grow = True
            for i in range(n):
                if i % 97 == 0:
                    phase_grow = not phase_grow
                r = rng.random()
                k = rng.choice(keys)
                if r < (0.6 if phase_grow else 0.2):
                    h.append(("S", k, f"I{i}"))
                elif r < (0.75 if phase_grow else 0.8):
                    h.append(("D", k, ""))
                else:
                    h.append(("G", k, ""))
            hs.append(h)
        return hs

    def run(self, ctx):
        hs = self.histories(ctx)
        lines = ["dict " + " ; ".join(f"{op} {k}" + (f" {v}" if op == "S" else "") for op, k, v in h) for h in hs]
        go, lean = run_both(lines)
        for h, line, g, l in zip(hs, lines, go, lean):
            ctx.evaluations += 1
            ctx.nontrivial(line)
            ctx.count(f"history-len:{min(len(h), 5) if len(h) <= 5 else '>5'}")
            gs, ls = g.split(" | "), l.split(" | ")
            if len(gs) != len(h) or len(ls) != len(h):
                ctx.disagree(line[:2000], g[:500], l[:500], "answer count")
                continue
            try:
                ref = ref_history(h)
            except Exception:     # noqa: a Go string that is not valid UTF-8 has no Python counterpart: model only
                ref = [(None, None)] * len(h)
                ctx.count("history:no-python-reference")
            ctx.traces += 1
            agree = True
            for i, ((op, k, v), a, m, (cands, es)) in enumerate(zip(h, gs, ls, ref)):
                ctx.count("op:" + op)
                if "PANIC" in a or a.startswith("CRASH"):
                    ctx.violate("Dict operation panicked on a hashable key", line[:3000] + f"  [op {i}]", "no panic", a[:300])
                    agree = False
                    break
                body = a[a.index("len="):]
                mbody = m[m.index("len="):]
                if body != mbody:
                    agree = False
                    ctx.disagree(line[:3000] + f"  [op {i}]", a[:600], m[:600], "Dict contents after operation")
                # Len = Iter count, contents = reference
                f = body.split(" ", 2)
                n_len, n_iter = int(f[0][4:]), int(f[1][5:])
                if n_len != n_iter:
                    ctx.violate("Len differs from the number of entries Iter yields", line[:3000] + f"  [op {i}]", n_iter, n_len)
                if es is None:
                    continue
                want = "d( " + "".join(x + " " + y + " " for x, y in sorted((_canon(a_), b_) for a_, b_ in es)) + ")"
                if f[2] != want:
                    ctx.violate("Dict contents differ from the reference dictionary with Python equality", line[:3000] + f"  [op {i}]", want[:800], f[2][:800])
                    break
                if op == "G":
                    got = a.split(" ")[0][4:]
                    mc = m.split(" ")[0][4:].split("|or|")
                    if got not in mc and not (got == "nil" and mc == ["nil"]):
                        agree = False
                        ctx.disagree(line[:3000] + f"  [op {i}]", a[:300], m[:300], "Get result not among the model's candidates")
                    recent = cands[-1] if cands else "nil"
                    if got != recent:
                        if len(cands) >= 2 and got in cands and "Y" in k:
                            ctx.violate("Get returned an older value than the most recently set under an equal key", line[:3000] + f"  [op {i}]",
                                        recent, got, known="K2")
                        else:
                            ctx.violate("Get did not return the value most recently set under an equal key", line[:3000] + f"  [op {i}]", recent, got)
            if agree:
                ctx.exact_agree += 1
        for i in range(0, len(lines), max(1, len(lines) // 8)):
            ctx.sample(lines[i][:300] + " -> " + go[i][:300])


def _canon(tok):
    """Canonical rendering of a key token as both executors print it (typed tokens to plain, big as L)."""
    return V.render(V.parse(_pykey(tok)))
