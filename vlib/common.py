"""Shared machinery of the og-rek checks: building, running the three executors
(Go harness on the real code, Lean model driver, CPython oracle), evidence, findings."""
import fcntl
import hashlib
import json
import os
import re
import subprocess
import sys
import time

VERIF = os.path.dirname(os.path.dirname(os.path.abspath(__file__)))
REPO = os.environ.get("VERIF_REPO", "/repo")
LEAN = os.path.join(VERIF, "lean")
BIN = os.path.join(VERIF, "bin")
WORK = os.path.join(VERIF, "work")
HARNESS = os.path.join(BIN, "harness")
EXTRACT = os.path.join(BIN, "extract")
DRIVER = os.path.join(LEAN, ".lake", "build", "bin", "ogdriver")
PYORACLE = os.path.join(VERIF, "pyoracle", "oracle.py")

GOENV = dict(os.environ, GOFLAGS="-mod=mod", GOPROXY="off", GOSUMDB="off", GOTOOLCHAIN="local",
             CGO_ENABLED=os.environ.get("CGO_ENABLED", "1"))

ALLOWED_AXIOMS = {"propext", "Classical.choice", "Quot.sound"}
FORBIDDEN = re.compile(r"\b(sorry|admit|native_decide|bv_decide|implemented_by|unsafe)\b|^\s*axiom\s|maxHeartbeats\s+0")


class BuildFailure(Exception):
    def __init__(self, what, output):
        super().__init__(what)
        self.what = what
        self.output = output


def sh(cmd, cwd=None, env=None, timeout=None, input=None):
    p = subprocess.run(cmd, cwd=cwd, env=env, timeout=timeout, input=input,
                       stdout=subprocess.PIPE, stderr=subprocess.STDOUT, text=True)
    return p.returncode, p.stdout


def _write_if_changed(path, content):
    try:
        with open(path) as f:
            if f.read() == content:
                return False
    except FileNotFoundError:
        pass
    with open(path, "w") as f:
        f.write(content)
    return True


class Lock:
    """Serialises builds (several checks may be started concurrently)."""

    def __init__(self, name="build"):
        os.makedirs(WORK, exist_ok=True)
        self.path = os.path.join(WORK, f".{name}.lock")

    def __enter__(self):
        self.f = open(self.path, "w")
        fcntl.flock(self.f, fcntl.LOCK_EX)
        return self

    def __exit__(self, *a):
        fcntl.flock(self.f, fcntl.LOCK_UN)
        self.f.close()


def build_tools():
    """(Re)build the fact extractor and the Go harness from /repo's working tree."""
    os.makedirs(BIN, exist_ok=True)
    rc, out = sh(["go", "build", "-o", EXTRACT, "."], cwd=os.path.join(VERIF, "extract"), env=GOENV)
    if rc != 0:
        raise BuildFailure("extract does not build", out)
    hdir = os.path.join(VERIF, "harness")
    # go.sum of the harness is the repository's
    try:
        with open(os.path.join(REPO, "go.sum")) as f:
            _write_if_changed(os.path.join(hdir, "go.sum"), f.read())
    except FileNotFoundError:
        pass
    cover = ["-cover", "-coverpkg=./...,github.com/kisielk/og-rek/..."] if os.environ.get("VERIF_COVER") else []   # diagnostic only
    rc, out = sh(["go", "build", "-tags", "verif"] + cover + ["-o", HARNESS, "."], cwd=hdir, env=GOENV)
    if rc != 0:
        raise BuildFailure("harness does not build against /repo (tag verif)", out)


def regenerate_facts():
    """Regenerate Ogorek/Generated/*.lean from the current source (old files are replaced)."""
    gen = os.path.join(LEAN, "Ogorek", "Generated")
    tmp = os.path.join(WORK, "generated.tmp")
    os.makedirs(tmp, exist_ok=True)
    for f in os.listdir(tmp):
        os.remove(os.path.join(tmp, f))
    rc, out = sh([EXTRACT, REPO, tmp])
    if rc != 0:
        raise BuildFailure("fact extraction failed", out)
    os.makedirs(gen, exist_ok=True)
    for f in os.listdir(tmp):
        with open(os.path.join(tmp, f)) as fh:
            _write_if_changed(os.path.join(gen, f), fh.read())


def lake_build(targets):
    rc, out = sh(["lake", "build"] + list(targets), cwd=LEAN, timeout=3600)
    return rc, out


def build_all(lean_targets):
    """Everything a check needs; returns (ok, failures) where failures is a list of
    (kind, detail) describing broken proof obligations rather than raising."""
    failures = []
    with Lock():
        build_tools()
        regenerate_facts()
        rc, out = lake_build(["ogdriver"])
        if rc != 0:
            raise BuildFailure("the Lean model / driver does not build", out)
        for t in lean_targets:
            rc, out = lake_build([t])
            if rc != 0:
                failures.append((t, out))
    return failures


def audit_axioms(module, theorems):
    """#print axioms for each theorem; returns {theorem: [axioms]} and a list of problems."""
    os.makedirs(WORK, exist_ok=True)
    path = os.path.join(WORK, f"audit_{module.replace('.', '_')}.lean")
    src = f"import {module}\n" + "".join(f"#print axioms {t}\n" for t in theorems)
    with open(path, "w") as f:
        f.write(src)
    rc, out = sh(["lake", "env", "lean", path], cwd=LEAN, timeout=1800)
    res, problems = {}, []
    # output: "'name' depends on axioms: [a, b]" or "'name' does not depend on any axioms"
    for m in re.finditer(r"'([^']+)' depends on axioms: \[([^\]]*)\]", out):
        res[m.group(1)] = [a.strip() for a in m.group(2).replace("\n", " ").split(",") if a.strip()]
    for m in re.finditer(r"'([^']+)' does not depend on any axioms", out):
        res[m.group(1)] = []
    for t in theorems:
        if t not in res:
            problems.append(f"theorem {t} not found or not checked: {out.strip()[:400]}")
        else:
            bad = [a for a in res[t] if a not in ALLOWED_AXIOMS]
            if bad:
                problems.append(f"theorem {t} depends on non-standard axioms {bad}")
    return res, problems


def scan_forbidden(files):
    """sorry / admit / axiom / native_decide … outside comments."""
    hits = []
    for path in files:
        try:
            src = open(path).read()
        except FileNotFoundError:
            hits.append(f"{path}: missing")
            continue
        # strip block and line comments
        src = re.sub(r"/-.*?-/", lambda m: "\n" * m.group(0).count("\n"), src, flags=re.S)
        for i, line in enumerate(src.split("\n"), 1):
            line = line.split("--")[0]
            if FORBIDDEN.search(line):
                hits.append(f"{os.path.relpath(path, VERIF)}:{i}: {line.strip()[:120]}")
    return hits


def lean_sources():
    out = []
    for root, _, fs in os.walk(os.path.join(LEAN, "Ogorek")):
        for f in fs:
            if f.endswith(".lean"):
                out.append(os.path.join(root, f))
    out.append(os.path.join(LEAN, "Main.lean"))
    return sorted(out)


def leanchecker(module):
    rc, out = sh(["lake", "env", "leanchecker", module], cwd=LEAN, timeout=3600)
    return rc == 0, out


# ---------------------------------------------------------------- executors

def _run_lines(cmd, lines, timeout, env=None):
    data = "\n".join(lines) + "\n"
    p = subprocess.run(cmd, input=data, stdout=subprocess.PIPE, stderr=subprocess.PIPE, text=True,
                       timeout=timeout, env=env)
    out = p.stdout.split("\n")
    if out and out[-1] == "":
        out.pop()
    return p.returncode, out, p.stderr


def run_executor(cmd, lines, timeout=900, env=None, chunk=4000, label="executor"):
    """Feed case lines, get one answer per line. A crash (fatal error, OOM) is narrowed down to
    the line that causes it, whose answer becomes `CRASH <reason>`."""
    res = []
    for i in range(0, len(lines), chunk):
        part = lines[i:i + chunk]
        res.extend(_run_part(cmd, part, timeout, env, label))
    return res


_CRASHES = {"n": 0}
CRASH_LIMIT = 40      # per check process: beyond this the remaining cases of a crashing executor are not run one by one


def _run_part(cmd, part, timeout, env, label):
    """Answers are flushed line by line, so after a crash the answers received so far stand, the next line is the one
    that crashed (confirmed by running it alone), and the rest is fed to a fresh process: one process per crash. A tree on
    which the code under test crashes or hangs on hundreds of cases is reported from the first few dozen (each is a violation
    by itself); the rest are answered `CRASH skipped`."""
    res = []
    while part:
        if _CRASHES["n"] >= CRASH_LIMIT:
            return res + [f"CRASH skipped: more than {CRASH_LIMIT} cases crashed or hung in this run"] * len(part)
        try:
            rc, out, err = _run_lines(cmd, part, timeout, env)
        except subprocess.TimeoutExpired:
            rc, out, err = -9, [], "timeout"
        if len(out) == len(part) and (rc == 0 or out[-1].startswith("CRASH timeout")):
            if rc != 0:
                _CRASHES["n"] += 1
            return res + out
        _CRASHES["n"] += 1
        if len(part) == 1:
            reason = (err or "").strip().split("\n")[0][:200] if err else f"exit {rc}"
            return res + [f"CRASH {label}: {reason}"]
        if out and out[-1].startswith("CRASH timeout"):
            # the hanging case has been answered; go on with what follows it
            res += out
            part = part[len(out):]
            continue
        k = min(len(out), len(part) - 1)
        res += out[:k] + _run_part(cmd, [part[k]], timeout, env, label)
        part = part[k + 1:]
    return res


def go_env():
    e = dict(os.environ)
    e.setdefault("GOMEMLIMIT", "4GiB")
    if os.environ.get("VERIF_COVER"):
        e["GOCOVERDIR"] = os.environ["VERIF_COVER"]
    return e


def run_go(lines, timeout=900):
    return run_executor([HARNESS], lines, timeout, env=go_env(), label="go")


def run_lean(lines, timeout=1800):
    return run_executor([DRIVER], lines, timeout, label="lean")


def run_py(lines, timeout=1800, py2=False):
    if py2:
        env = dict(os.environ, PYENV_VERSION="2.7.18")
        return run_executor(["python2", PYORACLE], lines, timeout, env=env, label="py2")
    return run_executor([sys.executable, PYORACLE], lines, timeout, label="py3")


def parallel_map(fn, items, workers=None):
    """Run fn over items in a thread pool (executors are subprocesses)."""
    from concurrent.futures import ThreadPoolExecutor
    workers = workers or min(16, os.cpu_count() or 4)
    with ThreadPoolExecutor(max_workers=workers) as ex:
        return list(ex.map(fn, items))


def run_sharded(runner, lines, shards=None):
    """Split lines into shards processed concurrently; order preserved."""
    n = shards or min(12, max(1, len(lines) // 2000))
    if n <= 1:
        return runner(lines)
    # round-robin: neighbouring lines (often the expensive or crashing ones of one family) go to different shards
    parts = [lines[i::n] for i in range(n)]
    outs = parallel_map(runner, parts, workers=n)
    res = [None] * len(lines)
    for i, o in enumerate(outs):
        res[i::n] = o
    return res


# ---------------------------------------------------------------- findings / evidence

def load_known_findings():
    """known-findings.txt: lines `known: property=<id> key=<key> <text>` and `fixed: ...`."""
    known = {}
    path = os.path.join(VERIF, "known-findings.txt")
    try:
        for line in open(path):
            line = line.strip()
            m = re.match(r"known:\s+property=(\S+)\s+key=(\S+)\s+(.*)", line)
            if m:
                known.setdefault(m.group(1), {})[m.group(2)] = m.group(3)
    except FileNotFoundError:
        pass
    return known


def write_replay(prop, payload):
    d = os.path.join(VERIF, "replays")
    os.makedirs(d, exist_ok=True)
    blob = json.dumps(payload, indent=1, sort_keys=True, default=str)
    h = hashlib.sha1(blob.encode()).hexdigest()[:12]
    path = os.path.join(d, f"{prop}-{h}.json")
    with open(path, "w") as f:
        f.write(blob + "\n")
    return path


def write_evidence(prop, tier, seed, coverage, assumptions, wall, violations):
    d = os.path.join(VERIF, "evidence")
    os.makedirs(d, exist_ok=True)
    ev = {
        "property_id": prop,
        "tier": tier,
        "seed": seed,
        "level": "proof",
        "coverage": coverage,
        "assumptions": assumptions,
        "wall_s": round(wall, 2),
        "violations": violations,
    }
    with open(os.path.join(d, f"{prop}.json"), "w") as f:
        json.dump(ev, f, indent=1, sort_keys=False, default=str)
        f.write("\n")
