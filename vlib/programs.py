"""Pickle opcode assembler and a typed-grammar program generator for the decoder."""
import struct

from . import values as V

# ---------------------------------------------------------------- assembler

MARK, STOP, POP, POP_MARK, DUP = b"(", b".", b"0", b"1", b"2"
NONE, NEWTRUE, NEWFALSE = b"N", b"\x88", b"\x89"
EMPTY_LIST, EMPTY_TUPLE, EMPTY_DICT = b"]", b")", b"}"
LIST, TUPLE, DICT, APPEND, APPENDS, SETITEM, SETITEMS = b"l", b"t", b"d", b"a", b"e", b"s", b"u"
TUPLE1, TUPLE2, TUPLE3 = b"\x85", b"\x86", b"\x87"
REDUCE, BINPERSID, STACK_GLOBAL, MEMOIZE = b"R", b"Q", b"\x93", b"\x94"
BUILD, INST, OBJ, NEWOBJ = b"b", b"i", b"o", b"\x81"


def INT(n):
    return b"I" + str(n).encode() + b"\n"


def BININT(n):
    return b"J" + struct.pack("<i", n)


def BININT1(n):
    return b"K" + bytes([n])


def BININT2(n):
    return b"M" + struct.pack("<H", n)


def LONG(n):
    return b"L" + str(n).encode() + b"L\n"


def long_bytes(n):
    """CPython encode_long."""
    if n == 0:
        return b""
    nbytes = (n.bit_length() >> 3) + 1
    r = n.to_bytes(nbytes, "little", signed=True)
    if n < 0 and nbytes > 1 and r[-1] == 0xFF and (r[-2] & 0x80) != 0:
        r = r[:-1]
    return r


def LONG1(n, pad=0):
    b = long_bytes(n)
    if pad:
        b = b + (b"\xff" if n < 0 else b"\x00") * pad
    return b"\x8a" + bytes([len(b)]) + b


def FLOAT(x):
    return b"F" + repr(x).encode() + b"\n"


def BINFLOAT_bits(bits):
    return b"G" + struct.pack(">Q", bits)


def py_repr_bytes(s):
    """Python 2 repr of a str (what pickle protocol 0 writes after S)."""
    r = repr(s)          # b'...' or b"..."
    return r[1:].encode("latin-1")


def STRING(s):
    return b"S" + py_repr_bytes(s) + b"\n"


def BINSTRING(s):
    return b"T" + struct.pack("<I", len(s)) + s


def SHORT_BINSTRING(s):
    return b"U" + bytes([len(s)]) + s


def py_raw_unicode_escape(u):
    """What CPython's protocol-0 pickler writes after V (surrogatepass not needed here)."""
    u = u.replace("\\", "\\u005c").replace("\0", "\\u0000").replace("\n", "\\u000a")
    u = u.replace("\r", "\\u000d").replace("\x1a", "\\u001a")
    return u.encode("raw-unicode-escape")


def UNICODE_text(u):
    return b"V" + py_raw_unicode_escape(u) + b"\n"


def UNICODE_raw(b):
    return b"V" + b + b"\n"


def BINUNICODE(b):
    return b"X" + struct.pack("<I", len(b)) + b


def SHORT_BINUNICODE(b):
    return b"\x8c" + bytes([len(b)]) + b


def BINBYTES(b):
    return b"B" + struct.pack("<I", len(b)) + b


def SHORT_BINBYTES(b):
    return b"C" + bytes([len(b)]) + b


def BYTEARRAY8(b):
    return b"\x96" + struct.pack("<Q", len(b)) + b


def GLOBAL(m, n):
    return b"c" + m + b"\n" + n + b"\n"


def PERSID(s):
    return b"P" + s + b"\n"


def PUT(k):
    return b"p" + str(k).encode() + b"\n"


def BINPUT(k):
    return b"q" + bytes([k])


def LONG_BINPUT(k):
    return b"r" + struct.pack("<I", k)


def GET(k):
    return b"g" + str(k).encode() + b"\n"


def BINGET(k):
    return b"h" + bytes([k])


def LONG_BINGET(k):
    return b"j" + struct.pack("<I", k)


def PROTO(v):
    return b"\x80" + bytes([v])


def FRAME(n=0):
    return b"\x95" + struct.pack("<Q", n)


# ---------------------------------------------------------------- typed-grammar generator

class Ent:
    """Abstract stack entry."""
    __slots__ = ("kind", "hashable", "tup_hashable")

    def __init__(self, kind, hashable=True):
        self.kind = kind            # mark int float str ustr bytes bytearray none bool list dict tuple cls call ref
        self.hashable = hashable    # hashable in Python (and by og-rek's Dict)

    def __repr__(self):
        return self.kind + ("" if self.hashable else "!")


COLLIDING_LEAVES = [
    lambda g: BININT1(1), lambda g: INT(1), lambda g: BINFLOAT_bits(0x3ff0000000000000), lambda g: NEWTRUE,
    lambda g: LONG1(1), lambda g: LONG(1), lambda g: INT("01"), lambda g: BININT1(0), lambda g: NEWFALSE,
    lambda g: BINFLOAT_bits(0), lambda g: BINFLOAT_bits(0x8000000000000000), lambda g: LONG1(0),
    lambda g: BINUNICODE(b"a"), lambda g: SHORT_BINSTRING(b"a"), lambda g: SHORT_BINBYTES(b"a"),
    lambda g: STRING(b"a"), lambda g: UNICODE_text("a"), lambda g: BINFLOAT_bits(0x7ff8000000000001),
    lambda g: BININT(2 ** 31 - 1), lambda g: LONG1(2 ** 31 - 1), lambda g: LONG1(2 ** 63), lambda g: BINFLOAT_bits(0x43e0000000000000),
    lambda g: INT(2 ** 63), lambda g: NONE,
    # integers at the top of the float64 range and around the uint64 / int64 edges, as long and as float
    lambda g: LONG1(2 ** 1023), lambda g: BINFLOAT_bits(0x7fe0000000000000), lambda g: LONG1(-2 ** 1023),
    lambda g: BINFLOAT_bits(0xffe0000000000000), lambda g: LONG1(2 ** 64), lambda g: BINFLOAT_bits(0x43f0000000000000),
    lambda g: LONG1(-2 ** 63), lambda g: BINFLOAT_bits(0xc3e0000000000000), lambda g: LONG1(2 ** 1023 + 1), lambda g: LONG1(2 ** 1024),
    lambda g: INT(-2 ** 63), lambda g: LONG1(3 * 2 ** 62), lambda g: BINFLOAT_bits(0x43e8000000000000), lambda g: INT(-(2 ** 53 + 1)),
    lambda g: LONG1(-(2 ** 53 + 1)), lambda g: INT(2 ** 53 + 1), lambda g: BINFLOAT_bits(0x4340000000000000),
]
COLLIDING_KINDS = ["int", "int", "float", "bool", "int", "int", "bool", "int", "bool", "float", "float", "int",
                   "ustr", "str", "bytes", "str", "ustr", "float", "int", "int", "int", "float", "int", "none",
                   "int", "float", "int", "float", "int", "float", "int", "float", "int", "int",
                   "int", "int", "float", "int", "int", "int", "float"]


class ProgGen:
    def __init__(self, rng, wellformed=True, maxops=40, colliding=0.3, persid=0.03, memo=True,
                 unsupported=0.0, proto_frame=0.05, text_ops=True, allow_unhashable_keys=0.03,
                 junk_after_stop=False, selfcontained=False, special_calls=True):
        self.rng = rng
        self.wellformed = wellformed
        self.maxops = maxops
        self.colliding = colliding
        self.persid = persid
        self.memo = memo and not selfcontained
        self.selfcontained = selfcontained
        self.unsupported = unsupported
        self.proto_frame = proto_frame
        self.text_ops = text_ops
        self.unhashable_keys = allow_unhashable_keys
        self.special_calls = special_calls
        self.ops_used = []

    # -- leaves
    def leaf(self):
        rng = self.rng
        if rng.random() < self.colliding:
            i = rng.randrange(len(COLLIDING_LEAVES))
            return COLLIDING_LEAVES[i](self), Ent(COLLIDING_KINDS[i])
        r = rng.random()
        if r < 0.08:
            return NONE, Ent("none")
        if r < 0.14:
            return rng.choice([NEWTRUE, NEWFALSE, INT("01"), INT("00")]), Ent("bool")
        if r < 0.40:
            n = V.rand_int(rng)
            forms = [LONG1(n), LONG(n)] if -2 ** 2030 < n < 2 ** 2030 else [LONG(n)]
            if self.text_ops:
                forms.append(INT(n))
            if 0 <= n < 256:
                forms.append(BININT1(n))
            if 0 <= n < 65536:
                forms.append(BININT2(n))
            if -2 ** 31 <= n < 2 ** 31:
                forms.append(BININT(n))
            return rng.choice(forms), Ent("int")
        if r < 0.50:
            bits = V.rand_float_bits(rng)
            if self.text_ops and rng.random() < 0.4:
                return FLOAT(V.bits_f64(bits)), Ent("float")
            return BINFLOAT_bits(bits), Ent("float")
        if r < 0.62:
            s = V.rand_bytes(rng, maxchunks=4)
            forms = [BINSTRING(s)]
            if len(s) < 256:
                forms.append(SHORT_BINSTRING(s))
            if self.text_ops:
                forms.append(STRING(s))
            return rng.choice(forms), Ent("str")
        if r < 0.76:
            b = V.rand_bytes(rng, valid_utf8=True, maxchunks=4)
            forms = [BINUNICODE(b)]
            if len(b) < 256:
                forms.append(SHORT_BINUNICODE(b))
            if self.text_ops:
                forms.append(UNICODE_text(b.decode("utf-8")))
            return rng.choice(forms), Ent("ustr")
        if r < 0.84:
            b = V.rand_bytes(rng, maxchunks=4)
            forms = [BINBYTES(b)]
            if len(b) < 256:
                forms.append(SHORT_BINBYTES(b))
            return rng.choice(forms), Ent("bytes")
        if r < 0.88:
            return BYTEARRAY8(V.rand_bytes(rng, maxchunks=3)), Ent("bytearray", hashable=False)
        if r < 0.93:
            if self.special_calls:
                m = rng.choice([b"decimal", b"collections", b"__builtin__", b"builtins", b"_codecs", b"mod"])
                n = rng.choice([b"Decimal", b"OrderedDict", b"bytearray", b"bytes", b"encode", b"object", b"set"])
                return GLOBAL(m, n), Ent("cls")
            if rng.random() < 0.35:
                # the forms real picklers emit for bytes / bytearray below protocol 3 / 5
                b = V.rand_bytes(rng, maxchunks=3)
                u = b.decode("latin-1").encode("utf-8")
                enc = GLOBAL(b"_codecs", b"encode") + MARK + BINUNICODE(u) + rng.choice([BINUNICODE(b"latin1"), SHORT_BINSTRING(b"latin1")]) + TUPLE + REDUCE
                form = rng.choice(["bytes", "ba-bytes", "ba-empty", "bytes-empty"])
                if form == "bytes":
                    return enc, Ent("bytes")
                if form == "ba-bytes":
                    return GLOBAL(b"__builtin__", b"bytearray") + enc + TUPLE1 + REDUCE, Ent("bytearray", hashable=False)
                if form == "ba-empty":
                    return GLOBAL(b"__builtin__", b"bytearray") + EMPTY_TUPLE + REDUCE, Ent("bytearray", hashable=False)
                return GLOBAL(b"__builtin__", b"bytes") + EMPTY_TUPLE + REDUCE, Ent("bytes")
            m = rng.choice([b"decimal", b"collections", b"copy_reg", b"mod", b"a.b"])
            n = rng.choice([b"Decimal", b"OrderedDict", b"_reconstructor", b"object", b"set"])
            return GLOBAL(m, n), Ent("cls")
        if r < 0.96:
            return EMPTY_TUPLE, Ent("tuple")
        if r < 0.98:
            return EMPTY_LIST, Ent("list", hashable=False)
        return EMPTY_DICT, Ent("dict", hashable=False)

    # -- generation
    def gen(self):
        rng = self.rng
        out = []
        st = []          # abstract stack
        memo = {}        # key -> Ent
        nmemo = 0        # MEMOIZE counter (= len(memo) in the decoder)
        used = []

        def emit(name, b):
            out.append(b)
            used.append(name)

        def top_mark():
            for i in range(len(st) - 1, -1, -1):
                if st[i].kind == "mark":
                    return i
            return -1

        def nonmark_top(n):
            return len(st) >= n and all(e.kind != "mark" for e in st[-n:])

        nops = rng.randint(1, self.maxops)
        for _ in range(nops):
            cands = []
            mk = top_mark()
            above = len(st) - mk - 1 if mk >= 0 else 0
            cands += [("leaf", 10), ("MARK", 3)]
            if mk >= 0:
                cands += [("LIST", 2), ("TUPLE", 2)]
                if above % 2 == 0 and (self.rng.random() < self.unhashable_keys or all(st[i].hashable for i in range(mk + 1, len(st), 2))):
                    cands.append(("DICT", 3))
                if mk >= 1 and st[mk - 1].kind == "list":
                    cands.append(("APPENDS", 4))
                if mk >= 1 and st[mk - 1].kind == "dict" and above % 2 == 0 and \
                        (self.rng.random() < self.unhashable_keys or all(st[i].hashable for i in range(mk + 1, len(st), 2))):
                    cands.append(("SETITEMS", 5))
                if self.unsupported:
                    cands.append(("POP_MARK", self.unsupported * 10))
            for n, name in ((1, "TUPLE1"), (2, "TUPLE2"), (3, "TUPLE3")):
                if nonmark_top(n):
                    cands.append((name, 1.5))
            if nonmark_top(2) and st[-2].kind == "list":
                cands.append(("APPEND", 5))
            if nonmark_top(3) and st[-3].kind == "dict" and (st[-2].hashable or self.rng.random() < self.unhashable_keys):
                cands.append(("SETITEM", 6))
            if st:
                cands += [("DUP", 0.7), ("POP", 0.7)]
            if nonmark_top(1) and self.memo:
                cands += [("PUT", 1), ("BINPUT", 1.5), ("LONG_BINPUT", 0.5), ("MEMOIZE", 1)]
            if memo:
                cands += [("GET", 1), ("BINGET", 2), ("LONG_BINGET", 0.7)]
            if nonmark_top(2) and st[-1].kind == "tuple" and st[-2].kind == "cls":
                cands.append(("REDUCE", 8))
            if nonmark_top(2) and st[-1].kind == "ustr" and st[-2].kind == "ustr":
                cands.append(("STACK_GLOBAL", 3))
            if self.persid:
                cands.append(("PERSID", self.persid * 10))
                if nonmark_top(1):
                    cands.append(("BINPERSID", self.persid * 20))
            if self.proto_frame:
                cands += [("PROTO", self.proto_frame * 10), ("FRAME", self.proto_frame * 10)]
            if self.unsupported:
                cands.append(("UNSUPPORTED", self.unsupported * 10))
            if not self.wellformed:
                cands += [("ANY", 3)]
            total = sum(w for _, w in cands)
            x = rng.random() * total
            for name, w in cands:
                x -= w
                if x <= 0:
                    break
            if name == "leaf":
                b, e = self.leaf()
                emit("leaf", b)
                st.append(e)
            elif name == "MARK":
                emit(name, MARK)
                st.append(Ent("mark"))
            elif name in ("LIST", "TUPLE", "DICT"):
                items = st[mk + 1:]
                del st[mk:]
                if name == "TUPLE":
                    st.append(Ent("tuple", all(e.hashable for e in items)))
                else:
                    st.append(Ent("list" if name == "LIST" else "dict", False))
                emit(name, {"LIST": LIST, "TUPLE": TUPLE, "DICT": DICT}[name])
            elif name in ("APPENDS", "SETITEMS"):
                del st[mk:]
                emit(name, APPENDS if name == "APPENDS" else SETITEMS)
            elif name == "POP_MARK":
                del st[mk:]
                emit(name, POP_MARK)
            elif name in ("TUPLE1", "TUPLE2", "TUPLE3"):
                n = int(name[-1])
                items = st[-n:]
                del st[-n:]
                st.append(Ent("tuple", all(e.hashable for e in items)))
                emit(name, {1: TUPLE1, 2: TUPLE2, 3: TUPLE3}[n])
            elif name == "APPEND":
                st.pop()
                emit(name, APPEND)
            elif name == "SETITEM":
                st.pop()
                st.pop()
                emit(name, SETITEM)
            elif name == "DUP":
                st.append(st[-1])
                emit(name, DUP)
            elif name == "POP":
                st.pop()
                emit(name, POP)
            elif name in ("PUT", "BINPUT", "LONG_BINPUT"):
                k = rng.choice([0, 1, 2, 3, 255, 256, 70000]) if name != "BINPUT" else rng.choice([0, 1, 2, 3, 255])
                if k not in memo:
                    nmemo += 1
                memo[k] = st[-1]
                emit(name, {"PUT": PUT, "BINPUT": BINPUT, "LONG_BINPUT": LONG_BINPUT}[name](k))
            elif name == "MEMOIZE":
                if nmemo not in memo:
                    memo[nmemo] = st[-1]
                    nmemo += 1
                else:
                    memo[nmemo] = st[-1]
                emit(name, MEMOIZE)
            elif name in ("GET", "BINGET", "LONG_BINGET"):
                keys = [k for k in memo if name != "BINGET" or k < 256]
                if not keys:
                    continue
                k = rng.choice(keys)
                st.append(memo[k])
                emit(name, {"GET": GET, "BINGET": BINGET, "LONG_BINGET": LONG_BINGET}[name](k))
            elif name == "REDUCE":
                args = st.pop()
                st.pop()
                st.append(Ent("call", args.hashable))
                emit(name, REDUCE)
            elif name == "STACK_GLOBAL":
                st.pop()
                st.pop()
                st.append(Ent("cls"))
                emit(name, STACK_GLOBAL)
            elif name == "PERSID":
                emit(name, PERSID(rng.choice([b"id1", b"", b"a b", b"\xc4\x80", b"0"])))
                st.append(Ent("ref"))
            elif name == "BINPERSID":
                e = st.pop()
                st.append(Ent("ref", e.hashable))
                emit(name, BINPERSID)
            elif name == "PROTO":
                emit(name, PROTO(rng.choice([0, 1, 2, 3, 4, 5])))
            elif name == "FRAME":
                emit(name, FRAME(rng.choice([0, 1, 100, 2 ** 63])))
            elif name == "UNSUPPORTED":
                emit(name, rng.choice([BUILD, INST, OBJ, NEWOBJ, b"\x82\x01", b"\x8b\x00\x00\x00\x00", b"\x8d", b"\x8e",
                                       b"\x8f", b"\x90", b"\x91", b"\x92", b"\x97", b"\x98", b"\x99", b"\xff", b"\x00", b" "]))
                break
            elif name == "ANY":
                emit(name, bytes([rng.randrange(256)]))
        # finish: make the top a non-mark and STOP
        if self.wellformed:
            while st and st[-1].kind == "mark":
                st.pop()
                emit("POP", POP)
            if not st:
                b, e = self.leaf()
                emit("leaf", b)
                st.append(e)
        emit("STOP", STOP)
        self.ops_used = used
        return b"".join(out)


# ---------------------------------------------------------------- mutation of existing inputs

def mutate(rng, data, maxlen=16384):
    data = bytearray(data)
    for _ in range(rng.randint(1, 4)):
        r = rng.random()
        if r < 0.25 and data:
            data[rng.randrange(len(data))] = rng.randrange(256)
        elif r < 0.4 and data:
            del data[rng.randrange(len(data))]
        elif r < 0.55:
            data.insert(rng.randint(0, len(data)), rng.randrange(256))
        elif r < 0.7 and data:
            i = rng.randrange(len(data))
            j = min(len(data), i + rng.randint(1, 16))
            data[i:i] = data[i:j]
        elif r < 0.8 and data:
            data = data[:rng.randrange(len(data) + 1)]
        elif r < 0.9:
            op = rng.choice(b"(.012FIJKLMNPQRSTUVXabcdeghijlopqrstu})]BCG\x80\x81\x85\x86\x87\x88\x89\x8a\x8c\x93\x94\x95\x96\x97\x98")
            data.insert(rng.randint(0, len(data)), op)
        else:
            i = rng.randint(0, len(data))
            data[i:i] = rng.choice([b"\xff\xff\xff\xff", b"\xff\xff\xff\x7f", b"\x00\x00\x00\x80", b"\xff" * 8,
                                    b"\xff" * 7 + b"\x7f", b"\x00" * 7 + b"\x80", b"\n", b"L\n", b"'\n", b"\\"])
    return bytes(data[:maxlen])


def splice(rng, a, b):
    i = rng.randint(0, len(a))
    j = rng.randint(0, len(b))
    return a[:i] + b[j:]


LENGTH_OPS = [(b"T", 4), (b"X", 4), (b"B", 4), (b"\x96", 8), (b"U", 1), (b"C", 1), (b"\x8c", 1), (b"\x8a", 1), (b"\x95", 8)]
HUGE = [0, 1, 255, 256, 65535, 65536, 2 ** 31 - 1, 2 ** 31, 2 ** 31 + 1, 2 ** 32 - 1, 2 ** 63 - 1, 2 ** 63, 2 ** 63 + 1, 2 ** 64 - 1]


WELL_KNOWN_GLOBALS = [(b"collections", b"OrderedDict"), (b"collections", b"defaultdict"), (b"collections", b"deque"), (b"builtins", b"set"),
                      (b"__builtin__", b"set"), (b"builtins", b"frozenset"), (b"__builtin__", b"frozenset"), (b"builtins", b"list"),
                      (b"builtins", b"dict"), (b"__builtin__", b"dict"), (b"builtins", b"tuple"), (b"builtins", b"object"), (b"__builtin__", b"object"),
                      (b"builtins", b"str"), (b"__builtin__", b"unicode"), (b"builtins", b"int"), (b"__builtin__", b"long"), (b"builtins", b"float"),
                      (b"builtins", b"complex"), (b"builtins", b"bytes"), (b"__builtin__", b"bytes"), (b"builtins", b"bytearray"),
                      (b"__builtin__", b"bytearray"), (b"copy_reg", b"_reconstructor"), (b"copyreg", b"_reconstructor"), (b"copyreg", b"__newobj__"),
                      (b"datetime", b"datetime"), (b"decimal", b"Decimal"), (b"array", b"array"), (b"_codecs", b"encode"), (b"codecs", b"encode"),
                      (b"persistent.mapping", b"PersistentMapping"), (b"BTrees.OOBTree", b"OOBTree"), (b"zodbpickle", b"binary"),
                      (b"ogorek", b"Dict"), (b"__main__", b"Foo")]


def well_known_call_programs(tuple_args_only=False):
    """REDUCE of the classes picklers commonly name, with the argument shapes they use - nothing but the documented
    bytes / bytearray forms is interpreted; everything else stays a Call (or is an error)."""
    out = []
    args = [b")", b"(t", b"(]t", b"(}t", b"(K\x01t", b"(Vab\nt", b"(]K\x01at", b"(C\x02abt", b"(Vab\nVlatin1\nt", b"((K\x01K\x02tt"]
    if not tuple_args_only:
        args += [b"]", b"}", b"N"]      # not an argument tuple: ill-formed (CPython happens to accept any iterable)
    for m, n in WELL_KNOWN_GLOBALS:
        for a in args:
            for pre in (b"", b"\x80\x02", b"\x80\x03", b"\x80\x04"):
                out.append(pre + b"c" + m + b"\n" + n + b"\n" + a + b"R.")
            out.append(b"\x80\x04\x8c" + bytes([len(m)]) + m + b"\x8c" + bytes([len(n)]) + n + b"\x93" + a + b"R.")
        out.append(b"}K\x01c" + m + b"\n" + n + b"\n)Rs.")
        out.append(b"c" + m + b"\n" + n + b"\n)R(K\x01K\x02u.")
        out.append(b"c" + m + b"\n" + n + b"\n)R(K\x01e.")
    return out


def batch_programs():
    """Containers filled in one batch of 1 .. 40 items (DICT / SETITEMS / LIST / APPENDS / TUPLE) on empty and non-empty targets."""
    out = []
    for n in (1, 2, 7, 8, 9, 10, 16, 17, 33, 40):
        pairs = b"".join(BININT1(i) + BININT1(100 + i) for i in range(n))
        items = b"".join(BININT1(i) for i in range(n))
        out += [b"}(" + pairs + b"u.", b"(" + pairs + b"d.", b"}K\xffNs(" + pairs + b"u.", b"](" + items + b"e.", b"(" + items + b"l.",
                b"(" + items + b"t.", b"]K\xffa(" + items + b"e.", b"\x80\x02}q\x00(" + pairs + b"uh\x00\x86.",
                b"](}(" + pairs + b"ue.", b"cm\nn\n(}(" + pairs + b"utR."]
    return out


def sloppy_text_programs():
    """Text arguments with blanks, signs, CR, leading zeros, exponents: what CPython's int() / float() tolerate and Go's parsers may not -
    whatever the decoder does with them, only documented types may come out and every reader must agree."""
    out = []
    for arg in (b" 5", b"5 ", b"\t-7", b"5\r", b"+5", b"05", b"-0", b" ", b"", b"0x10", b"1_0", b"5L", b"1e3", "\u0967".encode()):
        out += [b"I" + arg + b"\n.", b"L" + arg + b"L\n.", b"L" + arg + b"\n.", b"F" + arg + b"\n.", b"(I" + arg + b"\nI1\nt.", b"}I" + arg + b"\nNs."]
    for arg in (b"1.5 ", b" 1.5", b"1.5\r", b"+1.5", b"1.5e", b"inf", b"-Inf", b"nan", b"NaN", b"infinity", b"1,5", b".5", b"5."):
        out += [b"F" + arg + b"\n."]
    for key in (b"01", b"007", b" 1", b"1 ", b"+1", b"-1", b"1\r", b"0x1", b""):
        out += [b"I5\np" + key + b"\n0g" + key + b"\n.", b"I5\np1\n0g" + key + b"\n.", b"I5\np" + key + b"\n0g1\n.", b"I5\nq\x010g" + key + b"\n."]
    return out


def pad_to(n):
    """Balanced, harmless instructions of total length n >= 2 (push None / a small int, pop it again)."""
    if n % 2:
        return b"N0" * ((n - 3) // 2) + b"K\x010"
    return b"N0" * (n // 2)


def boundary_programs(rng=None, sample=None, bufs=(4096, 8192)):
    """One opcode whose argument (or length prefix, or payload) straddles a multiple of the decoder's 4096-byte read
    buffer: k bytes of the opcode before the boundary, the rest after it. Returns (program, boundary offset)."""
    ops = [BININT(0x01020304), BININT(-2), BININT2(0x0102), BININT1(7), BINFLOAT_bits(0x3ff8000000000000), LONG1(2 ** 70 + 5),
           LONG1(-2 ** 63), SHORT_BINSTRING(b"abcdef"), BINSTRING(b"abcdef"), BINUNICODE(b"abcdef"), SHORT_BINUNICODE(b"abcdef"),
           BINBYTES(b"abcdef"), SHORT_BINBYTES(b"abcdef"), BYTEARRAY8(b"abcdef"), INT(123456), LONG(12345678901234567890), FLOAT(1.5),
           STRING(b"abcdef"), UNICODE_text("abcdef"), PERSID(b"abcdef"), GLOBAL(b"mod", b"name"), NONE + BINPUT(7), NONE + LONG_BINPUT(7),
           NONE + PUT(7), PROTO(2) + NONE, FRAME(0) + NONE, NONE + BINPUT(1) + POP + BINGET(1), NONE + LONG_BINPUT(1) + POP + LONG_BINGET(1)]
    out = []
    for op in ops:
        for k in range(1, len(op)):
            for buf in bufs:
                out.append((pad_to(buf - k) + op + b".", buf))
    if sample is not None and rng is not None and len(out) > sample:
        out = rng.sample(out, sample)
    return out


def length_field_cases():
    """Every length-prefixed opcode x every huge length x {no payload, 1 byte, complete when small}."""
    out = []
    for op, w in LENGTH_OPS:
        for l in HUGE:
            if l >= 256 ** w:
                continue
            hdr = op + l.to_bytes(w, "little")
            out.append(hdr)
            out.append(hdr + b"x")
            if l <= 65536:
                out.append(hdr + b"y" * l + b".")
                if l > 0:
                    out.append(hdr + b"y" * (l - 1))
    return out


def dag_tuple_programs():
    """Tuples whose children are one and the same object, level upon level (DUP, or the memo): 2^n paths through ~2n opcodes.
    Nothing in Decode may walk such a value path by path (it is built, stored, returned by reference); used as a dict key its hash
    is exponential in CPython too, so here it is only built, put into lists / tuples / a memo slot, and returned."""
    out = []
    for n in (20, 40, 64, 200):
        dup = b"K\x01K\x01\x86" + b"2\x86" * n
        memo = b"K\x01K\x01\x86q\x00" + b"h\x00h\x00\x86q\x00" * n
        out += [dup + b".", memo + b".", b"]" + dup + b"a.", b"(" + dup + b"t.", b"\x80\x04" + dup + b"\x94.", b"}K\x01" + dup + b"s.",
                dup + b"\x85\x85.", dup + b"Q.", b"(" + dup + b"l.", b"](" + memo + b"h\x00e."]
    return out


def magic_prefix_programs():
    """Bytes that often stand in front of data (byte order marks, compression and archive magic, blanks, a shebang, a newline) in
    front of a pickle: the first of them is the opcode, whatever follows."""
    out = []
    for pre in (b"\xef\xbb\xbf", b"\xff\xfe", b"\xfe\xff", b"\xef\xbb", b"\xef", b"\x1f\x8b\x08", b"\x78\x9c", b"BZh9", b"PK\x03\x04",
                b"\xfd7zXZ\x00", b"#!", b" ", b"\n", b"\r\n", b"\t", b"\x00", b"\x00\x00\x00\x01", b"\xff", b"\xef\xbb\xbf\xef\xbb\xbf"):
        for body in (b"N.", b"K\x01.", b"\x80\x02N.", b"", b"."):
            out.append(pre + body)
            out.append(b"N." + pre + body)        # ... and in front of the second pickle of a stream
    return out


def escape_sequence_lines():
    """UNICODE / STRING arguments made of backslash tokens in every order: a literal backslash pair, a backslash before an ordinary
    character, \\uXXXX, \\UXXXXXXXX, \\xXX, an ordinary character - what follows what decides how a run of backslashes is read."""
    toks = [b"\\\\", b"\\b", b"\\u1234", b"\\U0001f600", b"a", b"\\x41", b"\\u005c", b"\\", b"\\u000a", b"\\n", b"\\'"]
    out = []
    for a in toks:
        for b in toks:
            out.append(a + b)
            for c in (b"\\u1234", b"\\\\", b"a", b"\\u005c", b"\\U0001f600"):
                out.append(a + b + c)
    return out


def nested_tuple_key_programs():
    """Dict keys that are tuples nested 1 .. 200 levels deep (hashable in Python whatever the depth), through DICT, SETITEM and SETITEMS."""
    out = []
    for depth in (1, 2, 15, 16, 17, 18, 31, 32, 33, 40, 64, 200):
        key = b"K\x01" + b"\x85" * depth
        out += [b"}" + key + b"K\x02s.", b"(" + key + b"K\x02d.", b"}(" + key + b"K\x02u.", b"}q\x00" + key + b"K\x02sh\x00.",
                b"}G?\xf0\x00\x00\x00\x00\x00\x00" + b"\x85" * depth + b"K\x03s" + key + b"K\x02s."]
    return out


def bytestring_tuple_key_programs():
    """Tuple keys with Python-2 str members next to their unicode / bytes twins: (u'a', u'b'), (u'a', b'b'), (b'a', u'b'), (b'a', b'b')
    are four keys; ('a', 'b') with py2 strs equals all of them under og-rek's documented equality (StrictUnicode on)."""
    U = lambda t: b"X" + len(t).to_bytes(4, "little") + t       # noqa: E731
    B = lambda t: b"C" + bytes([len(t)]) + t                      # noqa: E731
    S = lambda t: b"U" + bytes([len(t)]) + t                      # noqa: E731
    out = []
    for n in (2, 3):
        import itertools
        variants = [b"".join(f(b"k%d" % i) for i, f in enumerate(fs)) + (b"\x86" if n == 2 else b"\x87")
                    for fs in itertools.product((U, B), repeat=n)]
        twin = b"".join(S(b"k%d" % i) for i in range(n)) + (b"\x86" if n == 2 else b"\x87")
        for k in range(1, len(variants) + 1):
            pre = b"".join(v + bytes([75, j]) for j, v in enumerate(variants[:k]))
            out += [b"\x80\x03(" + pre + twin + b"Kcd.", b"\x80\x03}(" + pre + b"u" + twin + b"Kcs.", b"\x80\x03}(" + pre + twin + b"Kcu.",
                    b"\x80\x03}q\x00(" + pre + b"uh\x00" + twin + b"Kcs."]
    return out


def both_ends_append_programs():
    """An empty list is remembered (PUT in any width / MEMOIZE / DUP), extended through the reference on the stack, fetched again and
    extended through that reference too; both are returned.  What the two lists hold is finding K1's subject; that it does NOT
    depend on how the input arrives, on what was decoded before, or on anything but the program is what C14 / C11 ask."""
    out = []
    remember = [(BINPUT(0), BINGET(0)), (PUT(0), GET(0)), (LONG_BINPUT(0), LONG_BINGET(0)), (MEMOIZE, BINGET(0)), (PUT(300), LONG_BINGET(300))]
    for mk in (EMPTY_LIST, MARK + LIST):
        for put, get in remember:
            for n1 in (1, 2, 3, 5):
                for n2 in (1, 2, 4):
                    a = b"".join(BININT1(i + 1) + APPEND for i in range(n1))
                    b = b"".join(BININT1(i + 11) + APPEND for i in range(n2))
                    out.append(mk + put + a + get + b + TUPLE2 + STOP)
                    out.append(mk + put + MARK + b"".join(BININT1(i + 1) for i in range(n1)) + APPENDS + get + b + get + TUPLE3 + STOP)
        for n1 in (1, 2, 3):
            a = b"".join(BININT1(i + 1) + APPEND for i in range(n1))
            out.append(mk + DUP + a + TUPLE2 + STOP)
    return list(dict.fromkeys(out))


def py2_bytearray_pickle(data, proto, c=False):
    """What Python 2.7 (and Python 3 before 3.8) writes for bytearray(data): bytearray(<text>, 'latin-1'), byte for byte as
    pickle.py (c=False) / cPickle (c=True) of 2.7.18 write it."""
    u = data.decode("latin-1")
    if proto == 0:
        t = b"V" + u.encode("raw-unicode-escape").replace(b"\n", b"\\u000a") + b"\n"
        if c:
            return b"c__builtin__\nbytearray\np1\n(" + t + b"S'latin-1'\ntRp2\n."
        return b"c__builtin__\nbytearray\np0\n(" + t + b"p1\nS'latin-1'\np2\ntp3\nRp4\n."
    x = b"X" + struct.pack("<I", len(u.encode("utf-8"))) + u.encode("utf-8")
    if proto == 1:
        if c:
            return b"c__builtin__\nbytearray\nq\x01(" + x + b"U\x07latin-1tRq\x02."
        return b"c__builtin__\nbytearray\nq\x00(" + x + b"q\x01U\x07latin-1q\x02tq\x03Rq\x04."
    if c:
        return b"\x80\x02c__builtin__\nbytearray\nq\x01" + x + b"U\x07latin-1\x86Rq\x02."
    return b"\x80\x02c__builtin__\nbytearray\nq\x00" + x + b"q\x01U\x07latin-1q\x02\x86q\x03Rq\x04."
