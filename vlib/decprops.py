"""Decoder-side properties: C04, C10, C11, C14, C16, C17, C18, C19."""
import os
import re

from . import common as C
from . import programs as P
from . import values as V

CFGS = ["00", "01", "10", "11"]

TB_COMMON = [
    "Lean 4.33.0 kernel; axioms limited to propext, Classical.choice, Quot.sound (audited per theorem each run)",
    "hand-written Lean model of ogorek.go / pyquote.go / dict.go / typeconv.go (modelled, not verified); tied to /repo by "
    "the correspondence run of this check (Go harness on the real package vs compiled Lean driver on the same case lines)",
    "facts regenerated from /repo's source by /verif/extract (go/ast) on every run",
    "Go standard library behaviour as modelled: bufio/io readers, strconv.ParseInt/ParseFloat/UnquoteChar, math/big decimal text, unicode/utf8",
    "/verif/harness (canonicaliser), /verif/vlib (generators, comparison), /verif/check",
]


def hexs(b):
    return b.hex() if b else "-"


def corpus_files(limit=None):
    d = os.path.join(C.REPO, "fuzz", "corpus")
    try:
        names = sorted(os.listdir(d))
    except FileNotFoundError:
        return []
    if limit:
        names = names[:: max(1, len(names) // limit)]
    out = []
    for n in names:
        try:
            out.append(open(os.path.join(d, n), "rb").read())
        except OSError:
            pass
    return out


def own_corpus(prop):
    """Minimised past disagreements, run first (one hex input per line, '#' comments)."""
    path = os.path.join(C.VERIF, "corpus", f"{prop}.txt")
    out = []
    try:
        for line in open(path):
            line = line.split("#")[0].strip()
            if line:
                out.append(bytes.fromhex(line) if line != "-" else b"")
    except FileNotFoundError:
        pass
    return out


def op_names(data):
    """Rough opcode histogram of a pickle (first byte of each … approximated by byte values that are opcodes)."""
    return data[:1].hex() if data else "empty"


def dec_class(ans):
    f = ans.split(" ")
    if f[0] == "OK":
        return "OK"
    return " ".join(f[:2])


def run_both(lines):
    go = C.run_sharded(C.run_go, lines)
    lean = C.run_sharded(C.run_lean, lines)
    return go, lean


def float_text_instances(ctx, cases, which="g"):
    """The protocol-0 float-text hypothesis of the round-trip theorems (ParseFloat reads %g / repr back), evaluated by the model for
    every float that occurs in a protocol-0 case of this run: cases = (protocol, rendered value).  With it true - and it is for every
    float but NaN, whose text carries no payload - the case is an instance of the *_dec theorems, not only a compared input."""
    fl = {}
    for p, text in cases:
        if p == 0:
            for m in re.finditer(r"D([0-9a-f]{16})", text):
                fl.setdefault(m.group(1), 0)
                fl[m.group(1)] += 1
    keys = sorted(fl)
    ans = C.run_sharded(C.run_lean, [f"ftok {which} {k}" for k in keys]) if keys else []
    for k, a in zip(keys, ans):
        bits = int(k, 16)
        nan = (bits >> 52) & 0x7ff == 0x7ff and bits & ((1 << 52) - 1) != 0
        if a == "1":
            ctx.count("protocol-0 float text hypothesis:holds (distinct floats)")
        elif nan:
            ctx.count("protocol-0 float text hypothesis:NaN (the text carries no payload; documented normal form)")
        else:
            # the case is then outside the theorem; model and implementation are still compared on it by the caller
            ctx.count("protocol-0 float text hypothesis:does not hold for " + k)


NON_OPCODES = None


def pickletools_codes():
    import pickletools
    return {ord(o.code): (o.name, o.proto) for o in pickletools.opcodes}


# ------------------------------------------------------------------------------------------- C04

UNSUPPORTED_CONTEXTS = [b"c__main__\nFoo\n)R}", b"c__main__\nFoo\n)R", b"c__main__\nFoo\n)R(", b"c__main__\nFoo\n", b"}", b"]", b"(", b"N",
                        b"NN", b"\x80\x02c__main__\nFoo\n)R}q\x00", b"(c__main__\nFoo\n)RN", b"I1\nc__main__\nFoo\n)RV\n", b"]q\x00(",
                        b"\x80\x04\x95\x00\x00\x00\x00\x00\x00\x00\x00\x8c\x01m\x8c\x01n\x93)R}", b"(c__main__\nFoo\n)R}",
                        b"c__main__\nFoo\n(K\x01", b"c__main__\nFoo\n)R}(V\nN", b"c__main__\nFoo\nc__main__\nBar\n)R",
                        # after PROTO of every version (an unsupported byte is an OpcodeError whatever protocol was announced)
                        b"\x80\x00N", b"\x80\x01N", b"\x80\x02N", b"\x80\x03N", b"\x80\x04N", b"\x80\x05N", b"\x80\x05", b"\x80\x05]q\x00(",
                        b"\x80\x05\x95\x00\x00\x00\x00\x00\x00\x00\x00N"]


class C04:
    prop = "C04"
    level_text = ("Lean theorems over the decoder model for ALL inputs, configurations, hooks and prior states: no panic outcome is "
                  "reachable (C04_no_panic), every instruction consumes >= 1 byte and the loop needs <= len+1 iterations "
                  "(C04_consumes, C04_progress), pre-allocation is <= 64 KiB whatever the length field and returned payloads were "
                  "present (C04_alloc, C04_alloc_payload), unsupported opcode bytes give OpcodeError with that byte (C04_opcode), "
                  "PROTO > 5 gives ErrInvalidPickleVersion (C04_proto); the model is tied to /repo by a correspondence run on ~20k "
                  "(quick) inputs per run and by regenerated facts (C04_facts). Real memory/time are measured, not proved.")
    level_note = ("trusted: Lean kernel + propext/Classical.choice/Quot.sound; the hand-written decoder model (validated against the "
                  "implementation on every run, exact outcome agreement required); Go runtime behaviour (stack growth, GC) outside the model")
    technique = "Lean 4 proof over an executable decoder model + differential correspondence (Go vs compiled Lean driver) + go/ast facts"
    lean_module = "Ogorek.Props.C04"
    theorems = ["Ogorek.C04_no_panic", "Ogorek.C04_consumes", "Ogorek.C04_progress", "Ogorek.C04_alloc",
                "Ogorek.C04_alloc_payload", "Ogorek.C04_opcode", "Ogorek.C04_proto", "Ogorek.C04_facts"]
    trusted_base = TB_COMMON + ["Go runtime: real memory use and wall-clock are measured (TotalAlloc delta, timeouts), not proved"]
    rule = ("inputs: all 256 single opcode bytes (alone and followed by STOP), all 256 PROTO arguments, every length-prefixed "
            "opcode x huge lengths x {no payload, 1 byte, complete}, the repository fuzz corpus, seeded mutations/splices of it, "
            "generated opcode programs (well-formed and chaotic), own corpus of past disagreements; x 4 decoder configurations. "
            "distinct = distinct (config,input); non-trivial = input has at least 2 bytes")
    assumptions = ["inputs up to 16 KiB", "stack overflow of the Go runtime on pathological nesting is outside the model",
                   "CPU cost of hashing DAG-shaped tuple keys is exponential in og-rek and CPython alike; terminates; outside the statement"]

    def inputs(self, ctx):
        rng = ctx.rng
        ins = []
        for b in own_corpus("C04"):
            ins.append(("own", b))
        for k in range(256):
            ins.append(("opcode", bytes([k])))
            ins.append(("opcode", bytes([k]) + b"."))
            ins.append(("opcode", b"K\x01" + bytes([k]) + b"."))
            ins.append(("opcode", b"(K\x01K\x02" + bytes([k]) + b"."))
        for v in range(256):
            ins.append(("proto", b"\x80" + bytes([v]) + b"N."))
            # PROTO is an ordinary opcode: later in the stream its argument is checked all the same
            for pre in (b"N0", b"\x80\x02N0", b"K\x010", b"\x80\x04\x95\x00\x00\x00\x00\x00\x00\x00\x00N0", b"]q\x000"):
                ins.append(("proto-late", pre + b"\x80" + bytes([v]) + b"N."))
        # every byte in opcode position after realistic stack contexts (what CPython writes for class instances,
        # reduce results, open marks, memoized containers)
        for pre in UNSUPPORTED_CONTEXTS:
            for k in range(256):
                ins.append(("opcode-ctx", pre + bytes([k]) + b"."))
        for b in P.length_field_cases():
            ins.append(("length", b))
        # text escapes of the protocol-0 string opcodes, complete and cut short at every length, alone and after another escape
        # (surrogate halves, astral, NUL), before and after ordinary text
        hexd = "1f600dc00"
        for pre in ("", "a", "\\ud83d", "\\udc00", "\\U0001f600", "\\u0000", "\\\\", "\\ud83d\\ude00"):
            for esc in ("\\u", "\\U", "\\x", "\\", "\\N", "\\u00e9\\u", "\\ud83d\\u", "\\ud83d\\U"):
                for n in range(0, 10):
                    for tail in ("", "z"):
                        txt = (pre + esc + hexd[:n] + tail).encode()
                        ins.append(("escape", b"V" + txt + b"\n."))
                        if n <= 4:
                            ins.append(("escape", b"S'" + txt + b"'\n."))
                            ins.append(("escape", b'S"' + txt + b'"\n.'))
        for o in ("\\0", "\\7", "\\12", "\\123", "\\400", "\\777", "\\8", "\\x4", "\\x41", "\\xg1", "\\'", '\\"', "\\a\\b\\f\\n\\r\\t\\v"):
            for tail in ("", "z", "7"):
                ins.append(("escape", b"S'" + (o + tail).encode() + b"'\n."))
        # FLOAT text whose exponent has many leading zeros (strconv's cap on the exponent counts significant digits only)
        for t in (b"1e0000000005", b"1e+0000000000000000005", b"1e-0000000000400", b"1E00000000000000000000000000400", b"1000000e0000000005",
                  b"1e000000000", b"0e99999999999999999999", b"1e00000000000000000000000000000000000000308", b"1e-000000000000000000000000324"):
            ins.append(("escape", b"F" + t + b"\n."))
            ins.append(("escape", b"(F" + t + b"\nF-" + t + b"\nt."))
        for b, _ in P.boundary_programs(rng, sample=ctx.scale(40, 400)):
            ins.append(("boundary", b))
        for b in P.well_known_call_programs():
            ins.append(("well-known-call", b))
        for b in P.batch_programs() + P.sloppy_text_programs():
            ins.append(("directed", b))
        for b in (P.dag_tuple_programs() + P.magic_prefix_programs() + P.nested_tuple_key_programs() + P.bytestring_tuple_key_programs()):
            ins.append(("directed", b))
        for t in P.escape_sequence_lines():
            ins.append(("escape", b"V" + t + b"\n."))
            ins.append(("escape", b"S'" + t + b"'\n."))
        # the latin-1 text forms of bytes / bytearray with a text that is not what an encoder writes: every last byte, truncated
        # and over-long UTF-8, code points above U+00FF
        for t in range(0x7f, 0x100):
            for body in (b"ab", b"", b"\xc3\xa9"):
                txt = body + bytes([t])
                x = b"X" + len(txt).to_bytes(4, "little") + txt
                ins.append(("latin1", b"c_codecs\nencode\n(" + x + b"U\x06latin1tR."))
                ins.append(("latin1", b"\x80\x02c__builtin__\nbytearray\n(" + x + b"U\x07latin-1tR."))
        for txt in (b"\xc4\x80", b"\xe2\x82\xac", b"\xc3", b"\xc2\xc2", b"\xc3\xa9\xc3", b"\xf0\x9f\x98\x80", b"\xed\xa0\x80"):
            x = b"X" + len(txt).to_bytes(4, "little") + txt
            ins.append(("latin1", b"c_codecs\nencode\n(" + x + b"Vlatin1\ntR."))
            ins.append(("latin1", b"\x80\x03cbuiltins\nbytearray\n(" + x + b"Vlatin-1\ntR."))
        corpus = corpus_files(ctx.scale(500, None))
        for b in corpus:
            ins.append(("corpus", b))
        base = corpus or [b"K\x01."]
        for _ in range(ctx.scale(1500, 40000)):
            ins.append(("mutant", P.mutate(rng, rng.choice(base))))
        for _ in range(ctx.scale(300, 8000)):
            ins.append(("splice", P.splice(rng, rng.choice(base), rng.choice(base))))
        for _ in range(ctx.scale(1200, 30000)):
            g = P.ProgGen(rng, wellformed=rng.random() < 0.6, unsupported=0.02, persid=0.03,
                          maxops=rng.choice([6, 15, 40, 120]))
            ins.append(("program", g.gen()))
        # dict programs whose key is, or holds at some depth (Tuple / Call arguments / Ref id), an unhashable object:
        # every recover() in the dict paths is load-bearing
        for atom in unhashable_atoms():
            for depth in (0, 1, 2, 3):
                for kind in ("t1", "t2", "t", "call", "ref"):
                    key = wrap_key(atom, depth, kind, rng)
                    ins += [("unhashable-key", b"(" + key + b"Nd."), ("unhashable-key", b"}" + key + b"Ns."),
                            ("unhashable-key", b"}(K\x01N" + key + b"Nu."), ("unhashable-key", b"}(" + key + b"NI1\nQNu.")]
        if ctx.thorough:
            ins += self.exhaustive_short()
        return ins

    def exhaustive_short(self):
        """All programs of <= 3 opcodes over minimal argument forms."""
        atoms = [b"(", b"0", b"1", b"2", b"N", b"K\x01", b"I1\n", b"L1L\n", b"F1\n", b"S'a'\n", b"Va\n", b"U\x01a", b"C\x01a",
                 b"X\x01\x00\x00\x00a", b"\x96\x01\x00\x00\x00\x00\x00\x00\x00a", b"]", b")", b"}", b"l", b"t", b"d", b"a", b"e",
                 b"s", b"u", b"\x85", b"\x86", b"\x87", b"R", b"Q", b"Pa\n", b"cm\nn\n", b"\x93", b"\x94", b"q\x00", b"h\x00",
                 b"p0\n", b"g0\n", b"\x88", b"\x8a\x01\x01", b"G\x00\x00\x00\x00\x00\x00\x00\x00", b"\x80\x02", b"\x95" + b"\0" * 8,
                 b"b", b"i", b"o", b"\x81", b"\x97", b"\x98", b"\x8c\x01a", b"J\x01\x00\x00\x00", b"M\x01\x00", b"T\x01\x00\x00\x00a",
                 b"B\x01\x00\x00\x00a", b"r\x00\x00\x00\x00", b"j\x00\x00\x00\x00"]
        out = []
        for a in atoms:
            out.append(("short", a + b"."))
            for b in atoms:
                out.append(("short", a + b + b"."))
                for c in atoms:
                    out.append(("short", a + b + c + b"."))
        return out

    def run(self, ctx):
        ins = self.inputs(ctx)
        lines, meta = [], []
        seen = set()
        for kind, data in ins:
            data = data[:16384]
            cfgs = CFGS if kind not in ("short",) else [ctx.rng.choice(CFGS)]
            for cfg in cfgs:
                key = (cfg, data)
                if key in seen:
                    continue
                seen.add(key)
                lines.append(f"dec {cfg} - {hexs(data)}")
                meta.append((kind, cfg, data))
        go, lean = run_both(lines)
        codes = pickletools_codes()
        for line, (kind, cfg, data), g, l in zip(lines, meta, go, lean):
            ctx.evaluations += 1
            ctx.count("kind:" + kind)
            ctx.count("outcome:" + dec_class(g))
            if len(data) >= 2:
                ctx.nontrivial((cfg, data))
            ctx.tie(line, g, l)
            # the property, evaluated directly on the implementation
            if "PANIC" in g or g.startswith("CRASH"):
                ctx.violate("Decode panicked / crashed / timed out", line, "a value or an error", g)
            if g.startswith("ERR") and "NONNIL" in g:
                ctx.violate("Decode returned a non-nil value together with an error", line, "nil value", g)
            if kind == "opcode" and len(data) <= 2:
                k = data[0]
                if k not in codes and g != f"ERR opcode:{k}":
                    ctx.violate("a byte that is no pickle opcode is not reported as OpcodeError with that byte", line, f"ERR opcode:{k}", g)
            if kind == "opcode" and len(data) == 1 and l == f"ERR opcode:{data[0]}" and g != l:
                ctx.violate("an opcode byte the decoder does not implement is not reported as OpcodeError with that byte", line, l, g)
            m = re.match(r"ERR opcode:(\d+)", g)
            if m and kind == "opcode" and len(data) <= 2 and int(m.group(1)) != data[0]:
                ctx.violate("OpcodeError carries the wrong byte", line, f"opcode:{data[0]}", g)
            if kind == "opcode-ctx":
                k = data[-2]
                if (k not in codes or l == f"ERR opcode:{k}") and g != f"ERR opcode:{k}":
                    ctx.violate("a byte the decoder does not support is not reported as OpcodeError with that byte (after a stack context)",
                                line, f"ERR opcode:{k}", g)
            if kind == "proto-late":
                v = data[-3]
                if (v <= 5) != g.startswith("OK N ") or (v > 5 and g != "ERR invalidVersion"):
                    ctx.violate("PROTO version handling (PROTO not first in the stream)", line, "OK N" if v <= 5 else "ERR invalidVersion", g)
            if kind == "proto":
                v = data[1]
                want = "OK N 4" if v <= 5 else "ERR invalidVersion"
                if g != want:
                    ctx.violate("PROTO version handling", line, want, g)
        for s in [lines[i] + " -> " + go[i] for i in range(0, len(lines), max(1, len(lines) // 10))][:10]:
            ctx.sample(s)
        # one Decoder, several pickles: what a call leaves behind (a MARK below its result, operands, a memo entry, an error half way)
        # must not make a later call panic - every ordered pair and sampled triples of short pickles, total for any input as alone
        small = [b"(N.", b"((N.", b"(K\x01N.", b"N(N.", b"(K\x01K\x02(N.", b"N.", b"t.", b"l.", b"d.", b"e.", b"u.", b"a.", b"s.", b"(t.", b"(l.", b"K\x01t.",
                 b"K\x01K\x02K\x03e.", b"]K\x01e.", b"}K\x01K\x02u.", b"(K\x01K\x02t.", b"]q\x00.", b"h\x00.", b"h\x00K\x01a.", b"(.", b"((.", b"0.", b"1.", b"2.",
                 b"\x85.", b"K\x01\x85.", b"(K\x01", b"\x80\x02(N.", b"\x80\x09(N.", b"(\xff", b"Q.", b"NQ.", b"R.", b"(I1\n", b"q\xff.", b"Nq\xff.", b"h\xff."]
        slines = [f"decs {ctx.rng.choice(CFGS)} - {hexs(a + b)}" for a in small for b in small]
        for _ in range(ctx.scale(1500, 20000)):
            slines.append(f"decs {ctx.rng.choice(CFGS)} - {hexs(b''.join(ctx.rng.choice(small) for _ in range(ctx.rng.randint(3, 6))))}")
        sgo, slean = run_both(slines)
        for line, g, l in zip(slines, sgo, slean):
            ctx.evaluations += 1
            ctx.count("kind:stream")
            # after an error in the middle of a pickle the two sides resume at different offsets: compared up to the first such error
            def upto(ans):
                out = []
                for x in ans.split(" | "):
                    out.append(x)
                    if x.startswith("ERR") and x not in ("ERR eof",):
                        break
                return " | ".join(out)
            ctx.tie(line, upto(g), upto(l))
            if "PANIC" in g or g.startswith("CRASH"):
                ctx.violate("Decode panicked / crashed on a later pickle of a stream", line, "a value or an error for each call", g[:400])
        # supported-opcode table measured on the implementation vs the model (behavioural fact)
        sup_go = sorted(k for k in range(256) if go[lines.index(f"dec 00 - {hexs(bytes([k]))}")] != f"ERR opcode:{k}")
        sup_lean = sorted(k for k in range(256) if lean[lines.index(f"dec 00 - {hexs(bytes([k]))}")] != f"ERR opcode:{k}")
        ctx.notes.append(f"supported opcode bytes measured on the implementation: {len(sup_go)}; model: {len(sup_lean)}")
        if sup_go != sup_lean:
            ctx.disagree("supported opcode set", str(sup_go), str(sup_lean), "measured opcode table")
        # allocation: length field without payload must not drive allocation
        alines, ameta = [], []
        for b in P.length_field_cases():
            for cfg in ("00", "11"):
                alines.append(f"alloc {cfg} {hexs(b)}")
                ameta.append(b)
        aout = C.run_go(alines)
        worst = 0
        for line, b, a in zip(alines, ameta, aout):
            ctx.evaluations += 1
            ctx.count("alloc-probe")
            try:
                n = int(a.split()[0])
            except (ValueError, IndexError):
                ctx.violate("allocation probe crashed", line, "a number", a)
                continue
            worst = max(worst, n - 8 * len(b))
            # model bound: prealloc <= 65536, the rest proportional to bytes present; generous slack for bufio (4096) and runtime
            if n > 65536 * 2 + 16 * len(b) + 262144:
                ctx.violate("allocation driven by a length field, not by bytes present", line, "<= 128KiB + 16*len + slack", a)
        ctx.notes.append(f"largest TotalAlloc delta beyond 8*len(input) over {len(alines)} length-field probes: {worst} bytes")


# ------------------------------------------------------------------------------------------- C10

class C10:
    prop = "C10"
    level_text = ("Lean theorem C10_trunc: for every input that is exactly one successfully decoded pickle, every proper non-empty "
                  "prefix yields io.ErrUnexpectedEOF (and C10_empty_is_eof: no bytes yields io.EOF), for all configurations, hooks "
                  "and prior states; proved from locality/truncation lemmas of the four reader combinators lifted through every opcode "
                  "(Lemmas/Reader.lean). Tied to /repo by decoding every cut of generated pickles on both sides each run.")
    level_note = ("trusted: Lean kernel + standard axioms; the decoder model's parse layer (readByte/readFull/copyN/readLine as models of "
                  "bufio/io), validated on every cut position of ~1700 pickles per quick run")
    technique = "Lean 4 proof (reader-combinator locality/truncation lemmas, induction over the decode loop) + differential correspondence on all cuts"
    lean_module = "Ogorek.Props.C10"
    theorems = ["Ogorek.C10_empty_is_eof", "Ogorek.C10_trunc"]
    trusted_base = TB_COMMON
    rule = ("valid pickles: Encode output of generated values at protocols 0-5, CPython pickles (3 pickler variants), generated "
            "well-formed programs, long text lines (> 4096 bytes), LONG1, 8-byte length prefixes, frames; every cut position k of "
            "every pickle (<= 2 KiB; opcode-boundary neighbourhood + random cuts for longer ones) x decoder configurations; "
            "distinct = distinct (config, pickle); non-trivial = pickle longer than 3 bytes")
    assumptions = ["errors are compared with errors.Is"]

    def pickles(self, ctx):
        rng = ctx.rng
        out = [b"N.", b"K\x01.", b"\x80\x02]q\x00(K\x01K\x02e.", b"I1\n.", b"S'abc'\n.", b"V\\u0100\n.",
               b"\x8a\x02\xff\x7f.", b"\x96\x03\x00\x00\x00\x00\x00\x00\x00abc.", b"\x80\x04\x95\x05\x00\x00\x00\x00\x00\x00\x00\x8c\x01a\x94.",
               b"cdecimal\nDecimal\n(S'1'\ntR.", b"(I1\nI2\ndp0\n.", b"Pabc\n.", b"K\x01Q.", b"L" + b"1" * 5000 + b"L\n.",
               b"S'" + b"x" * 4094 + b"'\n.", b"S'" + b"x" * 4095 + b"'\n.", b"S'" + b"x" * 4093 + b"'\n.", b"V" + b"y" * 9000 + b"\n.",
               b"F1.5\n.", b"G" + b"\x3f\xf8" + b"\0" * 6 + b".", b"T\x03\x00\x00\x00abc.", b"X\x03\x00\x00\x00abc.", b"B\x03\x00\x00\x00abc.",
               b"V" + b"\\u0100" * 900 + b"\n.", b"V" + b"z" * 4090 + b"\\U0001f600\\u20ac" * 3 + b"\n.",
               b"S'" + b"\\'\\\"\\x41\\\\" * 500 + b"'\n.", b"S\"" + b"q" * 4092 + b"\\\"\\n" + b"\"\n.", b"V" + b"w" * 5000 + b"\r\n.",
               b"I" + b"1" * 4095 + b"\n.", b"L" + b"2" * 4096 + b"L\n.", b"cmod\n" + b"n" * 5000 + b"\n.", b"P" + b"i" * 4097 + b"\n."]
        import pickle
        import struct
        out += [pickle.dumps("\u20ac\u0100" * 800 + "\n\\", 0), pickle.dumps(["x" * 5000, "\u1234" * 700], 0)]
        # payloads beyond the decoder's 64 KiB pre-allocation cap, in every length-prefixed form
        for n in (65535, 65536, 65537, 70001, 131073):
            pay = bytes((i * 7 + 3) % 251 for i in range(n))
            out += [b"T" + struct.pack("<I", n) + pay + b".", b"B" + struct.pack("<I", n) + pay + b".",
                    b"\x96" + struct.pack("<Q", n) + pay + b".", b"X" + struct.pack("<I", n) + b"u" * n + b".",
                    b"\x8e" + struct.pack("<Q", n) + pay + b".", b"\x8d" + struct.pack("<Q", n) + b"v" * n + b"."]
        out += [pickle.dumps(["a" * 70000, b"b" * 66000, bytearray(b"c" * 65600)], p) for p in (2, 3, 4, 5)]
        out += own_corpus("C10")
        out += [prog for prog, _ in P.boundary_programs(rng, sample=ctx.scale(40, 400))]
        # encoder output (through the implementation itself)
        vals = []
        for _ in range(ctx.scale(150, 3000)):
            cfgd, su = rng.random() < 0.5, rng.random() < 0.5
            g = V.ValueGen(rng, pydict=cfgd, su=su, canonical=True, maxdepth=3)
            vals.append((rng.randint(0, 5), su, g.value()))
        # values whose text could be taken for opcodes if a length or a line were written wrongly: strings of exactly 255 / 256 /
        # 257 / 65535 / 65536 bytes that begin with STOP or with a complete small pickle, names of globals and persistent ids with
        # a newline followed by opcodes (at protocols that must refuse them, and at those that can carry them)
        for n in ((255, 256, 257, 65535, 65536) if ctx.thorough else (255, 256, 257)):
            for head in (b".", b"N.", b"K\x01.", b"I1\n."):
                body = head + b"." * (n - len(head))
                for kind in ("S", "Y", "B", "A"):
                    for p in range(6):
                        vals.append((p, rng.random() < 0.5, (kind, body)))
        for m, nm in ((b"foo", b"bar\n."), (b"foo", b"bar\nN."), (b"fo\n.", b"bar"), (b"m", b"n\n.\n."), (b"m", b"\n.")):
            for p in range(6):
                for su in (False, True):
                    vals += [(p, su, ("C", m, nm)), (p, su, ("c", m, nm, [("I", 1)])), (p, su, ("l", [("C", m, nm), ("I", 2)])),
                             (p, su, ("R", ("S", m + b"\n" + nm)))]
        enc_lines = [f"enc {p} {int(su)} - {V.render(v, sort=False)}" for p, su, v in vals]
        self.from_encode = set()
        for a in C.run_go(enc_lines):
            if a.startswith("OK "):
                out.append(b"".join(bytes.fromhex(c) if c != "-" else b"" for c in a[3:].split(",")))
                self.from_encode.add(out[-1])
        # ... and of values from the reflect universe (typed nil pointers, pointer chains, structs, typed slices and maps)
        base = ctx.seed * 7000003
        for a in C.run_go([f"encr {base + i} {rng.randint(0, 5)} {rng.randint(0, 1)}" for i in range(ctx.scale(250, 3000))]):
            if " => OK " in a:
                out.append(b"".join(bytes.fromhex(c) if c != "-" else b"" for c in a.split(" => OK ", 1)[1].split(",")))
                self.from_encode.add(out[-1])
        # CPython pickles
        from . import pyside
        for obj in pyside.rand_objects(rng, ctx.scale(100, 2000)):
            for data in pyside.pickle_variants(obj, rng, n=2):
                out.append(data)
        for _ in range(ctx.scale(150, 3000)):
            out.append(P.ProgGen(rng, wellformed=True, maxops=rng.choice([5, 12, 30])).gen())
        return out

    def run(self, ctx):
        rng = ctx.rng
        lines, meta = [], []
        big_lines, big_meta = [], []
        seen = set()
        for data in self.pickles(ctx):
            if data in seen:
                continue
            seen.add(data)
            if len(data) <= 2048:
                cfgs = CFGS if (ctx.thorough or len(data) < 200) else [rng.choice(CFGS), "00"]
                for cfg in dict.fromkeys(cfgs):
                    lines.append(f"cuts {cfg} {hexs(data)}")
                    meta.append((cfg, data, None))
            elif len(data) > 20000:
                # very long pickles (payloads beyond the 64 KiB pre-allocation cap): the property is evaluated directly on the
                # implementation, each cut through readers of different kinds (with / without Len, buffered or not)
                ks = set(range(1, 20)) | set(range(len(data) - 40, len(data))) | set(range(4090, 4104)) | set(range(65530, 65560))
                ks |= set(range(131070, 131090)) | {rng.randrange(1, len(data)) for _ in range(60)}
                ks = sorted(k for k in ks if 0 < k < len(data))
                cfg = rng.choice(CFGS)
                for kind in "BSURO":
                    big_lines.append(f"cutsk {cfg} {kind} {','.join(map(str, ks))} {hexs(data)}")
                    big_meta.append((cfg, kind, ks, data))
            else:
                # long pickles: cuts near the ends of long lines and random ones
                ks = set(range(1, 20)) | set(range(len(data) - 80, len(data))) | set(range(4090, 4112)) | set(range(8186, 8200))
                ks |= {rng.randrange(1, len(data)) for _ in range(120)}
                cfg = rng.choice(CFGS)
                lines.append(f"dec {cfg} - {hexs(data)}")
                meta.append((cfg, data, "full"))
                for k in sorted(k for k in ks if 0 < k < len(data)):
                    lines.append(f"dec {cfg} - {hexs(data[:k])}")
                    meta.append((cfg, data, k))
        go, lean = run_both(lines)
        for bl, (cfg, kind, ks, data), g in zip(big_lines, big_meta, C.run_sharded(C.run_go, big_lines)):
            ctx.evaluations += 1
            ctx.count(f"big-pickle:reader={kind}:{'valid' if g[:1] == 'V' else 'invalid'}")
            if g[:1] != "V":
                continue
            ctx.nontrivial((cfg, kind, data))
            letters = g[2:]
            ctx.count("cuts", len(letters))
            for k, ch in zip(ks, letters):
                if ch != "U":
                    ctx.violate("a proper prefix of a valid pickle does not give (nil, io.ErrUnexpectedEOF)",
                                f"cutsk {cfg} {kind} {k} {hexs(data[:64])}… ({len(data)} bytes, first byte {data[:1]!r}, cut {k})", "U", ch)
                    break
        fullok = {}
        for line, (cfg, data, k), g, l in zip(lines, meta, go, lean):
            ctx.evaluations += 1
            ctx.tie(line, g, l)
            if k is None:
                f = g.split(" ")
                ctx.count("pickle:" + ("valid" if f[0] == "OK" else "invalid"))
                if f[0] == "OK" and int(f[1]) < len(data) and data in self.from_encode:
                    # what Encode wrote is one pickle by the quantifier's premise: this proper prefix of it returns a value
                    ctx.violate("a proper prefix of a pickle written by Encode returns a value instead of (nil, io.ErrUnexpectedEOF)",
                                f"dec {cfg} - {hexs(data[:int(f[1])])}   (cut {f[1]} of Encode output {hexs(data)})", "U", "a value")
                if f[0] == "OK" and int(f[1]) == len(data):
                    letters = f[2] if len(f) > 2 else ""
                    ctx.count("cuts", len(letters))
                    if len(data) > 3:
                        ctx.nontrivial((cfg, data))
                    want = "E" + "U" * (len(data) - 1)
                    if letters != want:
                        bad = next(i for i in range(len(want)) if i >= len(letters) or letters[i] != want[i])
                        ctx.violate("a proper prefix of a valid pickle does not give (nil, io.ErrUnexpectedEOF) / empty input io.EOF",
                                    f"dec {cfg} - {hexs(data[:bad])}   (cut {bad} of {hexs(data)})", want[bad],
                                    letters[bad] if bad < len(letters) else "missing")
            elif k == "full":
                # a valid pickle: the implementation, or the model (which is what the theorem quantifies over), decodes
                # exactly these bytes to a value
                fullok[(cfg, data)] = any(a.startswith("OK ") and a.endswith(f" {len(data)}") for a in (g, l))
                if g.startswith("OK ") and not g.endswith(f" {len(data)}") and data in self.from_encode:
                    ctx.violate("a proper prefix of a pickle written by Encode returns a value instead of (nil, io.ErrUnexpectedEOF)",
                                f"{line[:3000]}   (Encode output, {len(data)} bytes; Decode stopped after {g.rsplit(' ', 1)[1]})", "U", "a value")
                ctx.count("long-pickle:" + ("valid" if fullok[(cfg, data)] else "invalid"))
                if fullok[(cfg, data)]:
                    ctx.nontrivial((cfg, data))
            else:
                if fullok.get((cfg, data)):
                    ctx.count("cuts")
                    if g != "ERR unexpectedEOF":
                        ctx.violate("a proper prefix of a valid pickle does not give (nil, io.ErrUnexpectedEOF)", line, "ERR unexpectedEOF", g)
        # a cut inside a LATER pickle of a stream: the Decoder has decoded pickles before, the rule is the same - io.EOF only
        # between pickles, io.ErrUnexpectedEOF once an opcode of the next pickle was read
        valid = [(cfg, data) for (cfg, data, k), g in zip(meta, go)
                 if k is None and g.startswith("OK ") and g.split(" ")[1] == str(len(data)) and 2 <= len(data) <= 300]
        rng.shuffle(valid)
        # both pickles of a pair are ones that decode under the SAME configuration (a dict keyed by a tuple is a valid pickle with PyDict
        # only: under the other configuration its prefix fails before the cut, which is no statement about truncation)
        pairs = []
        for c4 in CFGS:
            same = [v for v in valid if v[0] == c4]
            pairs += list(zip(same, same[1:]))
        rng.shuffle(pairs)
        slines, smeta = [], []
        for (cfg, a), (_, b) in pairs[: ctx.scale(150, 2000)]:
            for k in sorted({0, 1, len(b) // 2, len(b) - 1}):
                slines.append(f"decs {cfg} - {hexs(a + b[:k])}")
                smeta.append((a, b, k, 1))
                slines.append(f"decs {cfg} - {hexs(a + a + b[:k])}")
                smeta.append((a, b, k, 2))
        sgo, slean = run_both(slines)
        memo_ops = (b"h", b"j", b"g", b"\x94")
        for line, (a, b, k, nlead), g, l in zip(slines, smeta, sgo, slean):
            ctx.evaluations += 1
            ctx.tie(line[:4000], g, l)
            parts = g.split(" | ")
            ctx.count("stream-cut:" + ("between-pickles" if k == 0 else "inside-a-pickle"))
            if any(op in a or op in b for op in memo_ops):
                continue        # memo fetches: what an earlier pickle memoized may change what a later one does before the cut (K7)
            want = "ERR eof" if k == 0 else "ERR unexpectedEOF"
            if len(parts) != nlead + 1 or not all(x.startswith("OK ") for x in parts[:-1]) or not parts[-1].startswith(want):
                ctx.violate("a cut in a later pickle of a stream does not give io.ErrUnexpectedEOF (io.EOF between pickles)", line[:3000],
                            "OK … | " * nlead + want, g[:300])
        # an Encoder whose destination failed once: what it writes next is ONE pickle (a prefix of it must not decode)
        vals = [("S", b"first"), ("l", [("I", 1), ("S", b"x")]), ("t", [("I", 1), ("I", 2), ("I", 3), ("I", 4)]), ("I", 7), ("B", b"ab"), ("m", [(("I", 1), ("N",))])]
        wc = [(p, su, k, a, b) for p in range(6) for su in (0, 1) for k in (1, 2, 3, 5) for a in vals[:3] for b in (vals[0], vals[3], vals[1])]
        wdec, wmeta = [], []
        for (p, su, k, a, b), g in zip(wc, second_encode_after_write_failure(ctx, wc, "encoder-reuse-after-write-failure")):
            if g.startswith("OK "):
                data = bytes.fromhex("".join(c for c in g[3:].split(",") if c != "-"))
                wdec.append(f"dec 0{su} - {hexs(data)}")
                wmeta.append((p, su, k, len(data)))
        for (p, su, k, n), r in zip(wmeta, C.run_sharded(C.run_go, wdec)):
            if r.startswith("OK ") and not r.endswith(f" {n}"):
                ctx.violate("a proper prefix of what an Encoder wrote in one Encode call decodes as a pickle (io.ErrUnexpectedEOF expected)",
                            f"enc2w {p} {su} {k} ...", "the whole output is one pickle", r[:300])
        for i in range(0, len(lines), max(1, len(lines) // 8)):
            ctx.sample(lines[i][:300] + " -> " + go[i][:200])


# ------------------------------------------------------------------------------------------- C16

DOC_TOKEN = re.compile(r"^(N|T|F|I-?\d+|L-?\d+|D[0-9a-f]{16}|S\S*|Y\S*|B\S*|A\S*|l\(|t\(|m\(|d\(|\)|C\S*|c\(|R\(|X\d+|#cycle)$")


def shape_problems(rendered, cfg, allow_user):
    """Check the type-shape of a rendered result against the documented table and the mode."""
    pyd, su = cfg[0] == "1", cfg[1] == "1"
    probs = []
    for t in rendered.split(" "):
        if not t:
            continue
        if not DOC_TOKEN.match(t):
            probs.append(f"undocumented {t[:40]}")
        elif t[0] == "Y" and not su:
            probs.append("ByteString without StrictUnicode")
        elif t == "d(" and not pyd:
            probs.append("Dict without PyDict")
        elif t == "m(" and pyd:
            probs.append("builtin map with PyDict")
        elif t[0] == "X" and not allow_user:
            probs.append("application object without PersistentLoad")
    return probs


class C16:
    prop = "C16"
    level_text = ("Lean invariant proof: Inv (stack entries are the mark or documented values; memo, heap containers and hook arguments "
                  "hold documented values only, never the mark; ByteString only with StrictUnicode; containers of the kind PyDict asks for) "
                  "holds initially and is preserved by every instruction (C16_step_preserves), hence for every successful Decode and "
                  "across streams (C16_result_wf, C16_hook_args_wf), and the fully resolved result consists of documented types only "
                  "(C16_resolved). Tied to /repo by type-shape scans of real results and hook arguments on ~10k inputs per quick run.")
    level_note = ("trusted: Lean kernel + standard axioms; decoder model (exact correspondence on every explored input); the hypothesis that "
                  "PersistentLoad returns application objects (HookOK) — whatever it returns is outside the library")
    technique = "Lean 4 invariant proof by case analysis over all instructions + differential correspondence + type-shape scan of implementation results"
    lean_module = "Ogorek.Props.C16"
    theorems = ["Ogorek.parseArg_insnOK", "Ogorek.C16_step_preserves", "Ogorek.C16_result_wf", "Ogorek.C16_hook_args_wf", "Ogorek.C16_resolved"]
    trusted_base = TB_COMMON
    rule = ("byte strings that decode successfully: fuzz corpus, mutations, generated programs, programs that place MARK under "
            "every consuming opcode; x 4 configurations x {no hook, replacing hook, nil hook}; the rendered result and every Ref "
            "passed to PersistentLoad are scanned token by token against the documented type table and the mode; "
            "distinct = distinct (config, hook, input) that decode successfully")
    assumptions = ["the canonicaliser prints any type outside the table as ?<type>"]

    def mark_programs(self):
        consumers = [b"a", b"e", b"s", b"u", b"l", b"t", b"d", b"\x85", b"\x86", b"\x87", b"R", b"Q", b"\x93", b"q\x00", b"p0\n",
                     b"r\x00\x00\x00\x00", b"\x94", b"2", b"0", b"."]
        pre = [b"", b"]", b"}", b"K\x01", b"]K\x01", b"}K\x01K\x02", b"cm\nn\n", b"cm\nn\n)", b"Va\nVb\n", b"(", b"]("]
        out = []
        for p in pre:
            for place in range(3):
                for c in consumers:
                    body = [p, b"(", b"K\x05", b"("][: 2 + place]
                    out.append(b"".join(body) + c + b".")
                    out.append(b"".join(body) + c + b"2\x86.")
                    out.append(p + b"(" + c + b"h\x00.")
                    out.append(p + b"((" + c + c + b".")
        return out

    def run(self, ctx):
        rng = ctx.rng
        ins = own_corpus("C16") + self.mark_programs() + corpus_files(ctx.scale(400, None)) + P.well_known_call_programs()
        ins += P.batch_programs() + P.sloppy_text_programs()
        ins += P.dag_tuple_programs() + P.magic_prefix_programs() + P.nested_tuple_key_programs() + P.bytestring_tuple_key_programs()
        ins += [b"V" + t + b"\n." for t in P.escape_sequence_lines()]
        base = corpus_files(300) or [b"K\x01."]
        for _ in range(ctx.scale(800, 20000)):
            ins.append(P.mutate(rng, rng.choice(base)))
        for _ in range(ctx.scale(1500, 30000)):
            ins.append(P.ProgGen(rng, wellformed=rng.random() < 0.85, persid=0.08, maxops=rng.choice([6, 15, 40])).gen())
        lines, meta = [], []
        seen = set()
        for data in ins:
            for cfg in CFGS if ctx.thorough else [rng.choice(CFGS), rng.choice(CFGS)]:
                hook = rng.choice(["-", "-", "R", "K"])
                key = (cfg, hook, data)
                if key in seen:
                    continue
                seen.add(key)
                lines.append(f"dech {cfg} {hook} {hexs(data[:16384])}")
                meta.append(key)
        go, lean = run_both(lines)
        for line, (cfg, hook, data), g, l in zip(lines, meta, go, lean):
            ctx.evaluations += 1
            ctx.tie(line, g, l)
            res, _, calls = g.partition(" ; ")
            ctx.count("outcome:" + dec_class(res))
            if res.startswith("OK ") and "TOOBIG" not in res:
                ctx.nontrivial((cfg, hook, data))
                body = res[3:].rsplit(" ", 1)[0]
                for p in shape_problems(body, cfg, allow_user=(hook == "R")):
                    ctx.violate("result contains a value outside the documented table for this mode: " + p, line, "documented types only", res[:400])
                for t in set(body.split(" ")):
                    ctx.count("tok:" + t[:1])
            if calls and "TOOBIG" not in calls:
                ctx.count("hook-calls", calls.count("R( "))
                for p in shape_problems(calls, cfg, allow_user=(hook == "R")):
                    ctx.violate("PersistentLoad received a Ref holding an undocumented value: " + p, line, "documented types only", calls[:400])
        for i in range(0, len(lines), max(1, len(lines) // 8)):
            ctx.sample(lines[i][:300] + " -> " + go[i][:200])


# ------------------------------------------------------------------------------------------- C11

def enc_pickles(ctx, n, canonical=True):
    """Encode output (through the implementation) of generated values at random protocols."""
    rng = ctx.rng
    vals = []
    for _ in range(n):
        pd, su = rng.random() < 0.5, rng.random() < 0.5
        g = V.ValueGen(rng, pydict=pd, su=su, canonical=canonical, maxdepth=3)
        vals.append((rng.randint(0, 5), su, g.value()))
    lines = [f"enc {p} {int(su)} - {V.render(v, sort=False)}" for p, su, v in vals]
    out = []
    for a in C.run_go(lines):
        if a.startswith("OK "):
            out.append(b"".join(bytes.fromhex(c) if c != "-" else b"" for c in a[3:].split(",")))
    return out


class C11:
    prop = "C11"
    lean_module = "Ogorek.Props.C11Reloc"
    theorems = ["Ogorek.C11_relocate", "Ogorek.C11_relocate_err", "Ogorek.C11_stream_any", "Ogorek.reloc_step", "Ogorek.reloc_step_err", "Ogorek.resolveV_reloc", "Ogorek.C11_K7_witness",
                "Ogorek.C11_reset", "Ogorek.C11_consumes", "Ogorek.C11_stream", "Ogorek.C11_then_eof", "Ogorek.C11_encoded_stream"]
    trusted_base = TB_COMMON
    level_text = ("Lean theorems: a Decode call depends on earlier calls only through memo/heap/id supply/hook log, never through "
                  "operands, a MARK or the protocol left behind (C11_reset, the F5 repair); a successful call consumes exactly "
                  "through its STOP and what follows cannot influence it (C11_consumes, from reader locality); hence a concatenation "
                  "decodes pickle by pickle, then io.EOF (C11_stream, C11_then_eof). What earlier pickles leave behind does not matter: "
                  "C11_relocate - for ANY byte string that decodes on a fresh Decoder and holds no MEMOIZE opcode, Decode on a Decoder in "
                  "ANY state (heap, memo, id supply left by earlier pickles) succeeds too, consumes the same bytes and returns the same "
                  "value up to a renaming of container references and *big.Int identities, building the same containers moved and "
                  "touching nothing older (proved by a simulation of the two runs through every instruction, reloc_step, over "
                  "invariance lemmas for marks, hashing, both equalities, both kinds of assignment and the interpreted calls); the "
                  "unfolded results are the same (resolveV_reloc); C11_stream_any lifts it to streams; and the error too: a pickle without MEMOIZE "
                  "and without memo fetches that FAILS alone fails with the same error after the same bytes anywhere (C11_relocate_err, "
                  "reloc_step_err - a fetch is excluded there because a key missing alone may exist after other pickles). For streams written by the "
                  "encoder C11_encoded_stream additionally gives the value each call returns. MEMOIZE is excluded for a reason: its key "
                  "is the next free index of the Decoder's memo, which earlier pickles advance - C11_K7_witness proves that a "
                  "self-contained pickle using MEMOIZE + BINGET returns another value after an earlier pickle than alone: known "
                  "finding K7. Only hook-free decoders are covered by C11_relocate (a PersistentLoad hook sees a call index). "
                  "Tie: every stream is decoded on both sides and each element is compared with the same pickle decoded alone.")
    level_note = ("trusted: Lean kernel + standard axioms; decoder model; 'values already returned are not altered' is immutability in "
                  "the model and is checked on the implementation by re-rendering every returned value after the last call")
    technique = ("Lean 4 proof (reader locality lifted to the decode loop; simulation of a pickle's run on a fresh and on a used Decoder "
                 "through every instruction) + differential correspondence on pickle streams + snapshot comparison")
    rule = ("sequences of 1-8 self-contained pickles: Encode output at independently chosen protocols (incl. []byte whose decoding "
            "depends on the announced protocol), memo-free generated programs that leave operands and marks behind, erroring pickles "
            "in any position; x 4 configurations; each stream decoded through one Decoder on both sides and every element compared "
            "with the same pickle decoded alone; distinct = distinct (config, stream) with >= 2 pickles")
    assumptions = ["the memo is shared across the pickles of one stream, as for a CPython Unpickler object: pickles with explicit memo keys (PUT before GET) "
                   "are self-contained; pickles that rely on MEMOIZE numbering are not, when decoded after another pickle - known finding K7"]

    def run(self, ctx):
        rng = ctx.rng
        pool = enc_pickles(ctx, ctx.scale(300, 5000))
        pool += [b"(I1\n.", b"I2\nt.", b"(K\x01K\x02.", b"\x80\x03K\x01.", b"\x80\x05\x96\x01\x00\x00\x00\x00\x00\x00\x00a.",
                 b"c__builtin__\nbytearray\n(c_codecs\nencode\n(X\x01\x00\x00\x00aX\x06\x00\x00\x00latin1tRtR.",
                 b"\x80\x03cbuiltins\nbytearray\nC\x01a\x85R.", b"K\x01K\x02K\x03.", b"((((N.", b"]}(.",
                 b"t.", b"a.", b"\x80\x09N.", b"K\x01", b"(l.", b".", b"(.", b"I1\n(.", b"((.", b"K\x01K\x02(.", b"]}(.", b"K\x07.",
                 b".", b"(."] + own_corpus("C11")
        for _ in range(ctx.scale(300, 5000)):
            pool.append(P.ProgGen(rng, wellformed=rng.random() < 0.8, selfcontained=True, maxops=rng.choice([4, 10, 25]),
                                  persid=0).gen())
        lines, meta = [], []
        single = {}
        # every ordered pair (and some triples) of short pickles that leave operands / a MARK behind, fail at their
        # STOP, or reach below their own pushes: what one call leaves must never reach the next
        small = [b"(N.", b"((N.", b"(K\x01N.", b".", b"(.", b"I1\n(.", b"((.", b"K\x01K\x02(.", b"]}(.", b"K\x07.", b"t.", b"a.", b"0.", b"2.", b"N.", b"(l.",
                 b"\x85.", b"\x86.", b"s.", b"e.", b"u.", b"d.", b"K\x01K\x02.", b"\x80\x03N.", b"Q.", b"R.", b"\x94.", b"q\x00."]
        streams = [[a, b] for a in small for b in small]
        streams += [[rng.choice(small) for _ in range(3)] for _ in range(ctx.scale(300, 3000))]
        for _ in range(ctx.scale(1200, 25000)):
            k = rng.randint(1, 8)
            streams.append([rng.choice(pool) for _ in range(k)])
        # streams longer than the decoder's 4096-byte read buffer: a later pickle's opcode argument straddles the refill
        # boundary; several long text lines (each longer than the buffer) go through the same Decoder
        for prog, buf in P.boundary_programs(rng, sample=ctx.scale(60, 400)):
            body = prog[:-1]
            cut = rng.choice([0, 2 * (len(body) // 4), 2 * ((buf - 64) // 2)])        # the padding is 2-byte units: split it into pickles
            first = body[:cut] + b"N." if cut else b""
            pad2 = body[cut:]
            # keep the total offset: the first pickle gained 2 bytes (N.), drop one padding unit from the second
            ps = ([first] if first else []) + [(pad2[2:] if first and pad2[:2] == b"N0" else pad2) + b".", b"K\x07."]
            streams.append(ps)
        # FRAME opcodes whose announced length is not what follows (the decoder ignores the length; what follows the pickle must not matter)
        framed = [b"\x80\x04\x95" + n.to_bytes(8, "little") + body for n in (0, 1, 2, 3, 16, 40, 4000, 70000) for body in (b"K\x07.", b"]q\x00(K\x01e.", b"N.")]
        for _ in range(ctx.scale(80, 800)):
            streams.append([rng.choice(framed + small) for _ in range(rng.randint(2, 5))])
        longs = [b"V" + b"a" * 5000 + b"\n.", b"N.", b"V" + b"b" * 4500 + b"\n.", b"S'" + b"c" * 4200 + b"'\n.", b"I" + b"7" * 4100 + b"\n.",
                 b"P" + b"d" * 4097 + b"\n.", b"cmod\n" + b"e" * 6000 + b"\n.", b"V" + b"f" * 9000 + b"\n.", b"Vshort\n.", b"L" + b"1" * 4200 + b"L\n."]
        for _ in range(ctx.scale(25, 300)):
            streams.append([rng.choice(longs) for _ in range(rng.randint(2, 5))])
        streams.append(longs)
        # pickles CPython writes for objects that hold one immutable object several times: the second occurrence is a memo fetch.
        # Below protocol 4 the memo keys are explicit (BINPUT 0, 1, ...: each pickle overwrites them before it reads them); from
        # protocol 4 on they are implicit (MEMOIZE = "the next free index"), which a Decoder that has already decoded a pickle
        # counts on from where that pickle stopped - known finding K7
        import pickle as _pickle
        cpy = []
        for i, tag in enumerate(("aa", "bb", "cc")):
            s1, t1 = tag * 3, (i, tag * 2)
            for obj in ([s1, s1], (t1, t1, s1), {"k": s1, "l": [s1, t1]}, [s1, [t1, s1], t1]):
                for proto in (2, 3, 4, 5):
                    cpy.append(_pickle.dumps(obj, proto))
        for _ in range(ctx.scale(120, 1500)):
            streams.append([rng.choice(cpy) for _ in range(rng.randint(2, 4))])
        streams += [[cpy[3], cpy[19]], [cpy[0], cpy[16]], [cpy[2], cpy[18], cpy[34]]]
        # payload-carrying opcodes of every kind and size, several per stream: the decoder's reusable payload buffer and the 4096-byte
        # read buffer are crossed at ever different offsets
        import struct as _struct

        def payload_pickle():
            n = rng.choice([0, 1, 5, 255, 256, 300, 700, 1500, 2500, 3000, 4090, 4100, 6000])
            data = bytes(rng.choice(b"abcxyz") for _ in range(n))
            forms = [b"T" + _struct.pack("<I", n) + data, b"B" + _struct.pack("<I", n) + data, b"X" + _struct.pack("<I", n) + data,
                     b"\x96" + _struct.pack("<Q", n) + data, b"V" + data + b"\n", b"S'" + data + b"'\n"]
            if n < 256:
                forms += [b"U" + bytes([n]) + data, b"C" + bytes([n]) + data, b"\x8c" + bytes([n]) + data]
            return rng.choice(forms) + b"."
        for _ in range(ctx.scale(150, 2000)):
            streams.append([payload_pickle() for _ in range(rng.randint(3, 9))])
        # dict keys whose TYPE is the same and whose hashability is a matter of content (a Ref with a text id, then a Ref with a tuple /
        # list id; a Tuple of numbers, then a Tuple holding a list; a Call likewise): what one pickle's keys went through must not
        # vouch for the next pickle's
        good_keys = [b"Vabc\nQ", b"K\x01Q", b"K\x01K\x02\x86", b"Vx\n\x85", b"cm\nn\nK\x01\x85R", b"NQ", b"K\x01QQ"]
        bad_keys = [b"K\x01K\x02\x86Q", b"]Q", b"]\x85", b"K\x01]\x86", b"cm\nn\n]\x85R", b"}Q", b"]QQ", b"\x80\x05\x96\x01\x00\x00\x00\x00\x00\x00\x00aQ"]
        def dict_with(k, style):
            return {0: b"}" + k + b"Ns.", 1: b"(" + k + b"Nd.", 2: b"}(" + k + b"Nu."}[style]
        for gk in good_keys:
            for bk in bad_keys:
                for st1 in (0, 1, 2):
                    st2 = rng.randint(0, 2)
                    streams.append([dict_with(gk, st1), dict_with(bk, st2)])
                    streams.append([dict_with(gk, st1), dict_with(gk, st2), dict_with(bk, st1), dict_with(gk, 0)])
        # an empty payload right after a non-empty one of another (or the same) kind, across pickles
        empties = [b"U\x00.", b"\x80\x03C\x00.", b"T\x00\x00\x00\x00.", b"X\x00\x00\x00\x00.", b"\x8c\x00.", b"B\x00\x00\x00\x00.",
                   b"\x96\x00\x00\x00\x00\x00\x00\x00\x00.", b"V\n.", b"S''\n."]
        fulls = [b"U\x05hello.", b"\x80\x03C\x03abc.", b"X\x03\x00\x00\x00xyz.", b"T\x02\x00\x00\x00pq.", b"Vtext\n.", b"\x8c\x04four."]
        for e in empties:
            for f in fulls:
                streams.append([f, e])
                streams.append([f, e, f, e])
        # the bytes / bytearray builtins and _codecs.encode in every spelling - recognised or left symbolic depending on the pickle's OWN
        # protocol and arguments - after pickles that failed under another protocol, or that used the same callable the other way
        failing = [b"\x80\x03.", b"\x80\x04(.", b"\x80\x05N(.", b"\x80\x03K\x01K\x02\x86}(K\x01K\x02\x86Nu0.", b"\x80\x04\x95\x00\x00\x00\x00\x00\x00\x00\x00t.",
                   b"\x80\x05a.", b"\x80\x02.", b"\x80\x03h\x07."]
        calls = [b"c__builtin__\nbytearray\n(c_codecs\nencode\n(X\x01\x00\x00\x00aX\x06\x00\x00\x00latin1tRtR.", b"c__builtin__\nbytes\n)R.",
                 b"c__builtin__\nbytearray\n)R.", b"\x80\x02c__builtin__\nbytes\n)R.", b"\x80\x03cbuiltins\nbytearray\nC\x01a\x85R.", b"\x80\x03cbuiltins\nbytes\n)R.",
                 b"\x80\x02cbuiltins\nbytearray\nU\x01a\x85R.", b"\x80\x04c__builtin__\nbytearray\n)R.", b"c_codecs\nencode\n(X\x03\x00\x00\x00abcX\x05\x00\x00\x00utf-8tR.",
                 b"c_codecs\nencode\n(X\x03\x00\x00\x00abcX\x06\x00\x00\x00latin1tR.", b"\x80\x03c_codecs\nencode\nX\x02\x00\x00\x00\xc3\xa9X\x06\x00\x00\x00latin1\x86R.",
                 b"cbuiltins\nbytearray\n)R.", b"\x80\x02cbuiltins\nbytes\n)R.", P.py2_bytearray_pickle(b"ab", 1), P.py2_bytearray_pickle(b"ab", 2, True)]
        for f in failing:
            for c in calls:
                streams += [[f, c], [f, f, c, c]]
        streams += [[a, b] for a in calls for b in calls if a != b]
        # an EMPTY container is returned, then a later pickle builds a container of the same kind in place (EMPTY_DICT + SETITEM(S),
        # EMPTY_LIST + APPEND(S)): the object already handed out stays empty
        empt = [b"}.", b"].", b").", b"\x80\x02}q\x00.", b"]q\x00.", b"(d.", b"(l.", b"(}]t."]
        fill = [b"}K\x01K\x02s.", b"}(K\x01K\x02u.", b"]K\x01a.", b"](K\x01K\x02e.", b"}q\x00K\x01K\x02s.", b"(K\x01K\x02d.", b"}(U\x01aK\x02K\x03K\x04u.",
                b"]q\x00K\x07a."]
        for e in empt:
            for f in fill:
                streams += [[e, f], [e, f, e], [e, e, f, f], [f, e, f]]
        # classes whose module / name pairs differ only in where the boundary lies ("os.path" "join" / "os" "path.join"), in every
        # spelling (GLOBAL text, STACK_GLOBAL, as the callable of a call): what one pickle named must not be handed to the next
        names = [(b"os.path", b"join"), (b"os", b"path.join"), (b"a", b"b.c"), (b"a.b", b"c"), (b"a b", b"c"), (b"a", b"b c"), (b"", b"a.b"),
                 (b"a.b", b""), (b"m", b"n"), (b"m.", b"n"), (b"m", b".n"), (b"m.n", b"m.n"), (b"m", b"n.m.n")]
        gl = []
        for m, n in names:
            gl += [b"c" + m + b"\n" + n + b"\n.", b"\x80\x04\x8c" + bytes([len(m)]) + m + b"\x8c" + bytes([len(n)]) + n + b"\x93.",
                   b"c" + m + b"\n" + n + b"\n)R.", b"(c" + m + b"\n" + n + b"\nK\x01d."]
        streams += [[a, b] for a in gl for b in gl if a != b and (ctx.thorough or rng.random() < 0.3)]
        # bytes / bytearray objects as CPython writes them at every protocol (bytearray(text, 'latin-1'), _codecs.encode(text, 'latin1'),
        # bytearray(bytes), BINBYTES, BYTEARRAY8), long ones before short ones: a buffer one pickle's value was built in is not the next one's
        bobjs = [bytearray(b"hello world"), bytearray(b"ABCDE"), bytearray(), b"bytes-\xff-payload", b"xy", bytearray(b"\xe9\xff" * 4),
                 [bytearray(b"first"), bytearray(b"2nd")], bytearray(b"z" * 300), b"\x80" * 40]
        bps = [_pickle.dumps(o, pr) for o in bobjs for pr in range(6)]
        # ... and as Python 2.7 / Python 3 before 3.8 write a bytearray: bytearray(text, 'latin-1')
        bps += [P.py2_bytearray_pickle(bytes(o), pr, c) for o in bobjs if isinstance(o, bytearray) for pr in (0, 1, 2) for c in (False, True)]
        for _ in range(ctx.scale(400, 5000)):
            streams.append([rng.choice(bps) for _ in range(rng.randint(2, 4))])
        for ps in streams:
            cfg = rng.choice(CFGS)
            lines.append(f"decsp {cfg} - {hexs(b''.join(ps))}")
            meta.append((cfg, ps))
            for p in ps:
                single.setdefault((cfg, p), None)
        slines = [f"decp {cfg} - {hexs(p)}" for (cfg, p) in single]
        go, lean = run_both(lines)
        sgo, slean = run_both(slines)
        for key, a, sl, ln in zip(list(single), sgo, slean, slines):
            single[key] = a
            ctx.tie(ln, a, sl)        # each pickle alone: implementation vs model
        # pickles whose error is raised at their STOP (everything before executed, all bytes consumed): the
        # stream stays aligned after them. Detected by: the body followed by `N.` decodes alone, consuming all.
        at_stop = {}
        cand = [(cfg, p) for (cfg, p), a in single.items() if a == "ERR other" and p.endswith(b".")]
        cgo = C.run_sharded(C.run_go, [f"dec {cfg} - {hexs(p[:-1] + b'N.')}" for cfg, p in cand])
        for key, a in zip(cand, cgo):
            at_stop[key] = a == f"OK N {len(key[1]) + 1}"
        for line, (cfg, ps), g, l in zip(lines, meta, go, lean):
            ctx.evaluations += 1
            if len(ps) >= 2:
                ctx.nontrivial((cfg, tuple(ps)))
            ctx.count(f"stream-len:{len(ps)}")
            if "ALTERED" in g:
                ctx.violate("a value already returned was altered by a later Decode call", line, "unchanged", g)
            if "PANIC" in g or g.startswith("CRASH"):
                ctx.violate("Decode panicked", line, "value or error", g)
            # each element must equal the pickle decoded alone, up to the first error; then eof
            got = [x for x in g.split(" | ") if not x.startswith("ALTERED")]
            want = []
            for p in ps:
                a = single[(cfg, p)]
                if a in ("ERR unexpectedEOF", "ERR eof"):
                    want = None      # a truncated pickle is not a pickle: it runs into its successor
                    break
                want.append(a)
                if not a.startswith("OK "):
                    if at_stop.get((cfg, p)):
                        continue
                    break
                if not a.endswith(f" {len(p)}"):
                    # the pickle alone does not consume all its bytes (junk after STOP): not self-contained input
                    want = None
                    break
            else:
                if want is not None:
                    want.append("ERR eof")
            if want is None:
                ctx.count("skipped:trailing-bytes")
                continue
            ctx.count("element", len(want))
            if "TOOBIG" in g:
                continue
            got = got[:len(want)]      # beyond a mid-pickle error the stream is not aligned any more
            ctx.tie(line, " | ".join(got), " | ".join(l.split(" | ")[:len(want)]))
            if got != want:
                i = next((j for j in range(min(len(got), len(want))) if got[j] != want[j]), min(len(got), len(want)))
                k7 = 0 < i < len(ps) and _uses_implicit_memo(ps[i]) and any(_memoizes(q) for q in ps[:i])
                ctx.violate("a pickle in a stream did not decode as it does alone (or the stream did not end with io.EOF)",
                            line + f"   [element {i}]", want[i] if i < len(want) else "(end)", got[i] if i < len(got) else "(missing)",
                            known="K7" if k7 else None)
        for i in range(0, len(lines), max(1, len(lines) // 8)):
            ctx.sample(lines[i][:300] + " -> " + go[i][:300])


def _opnames(p):
    import pickletools
    try:
        return [op.name for op, _, _ in pickletools.genops(p)]
    except Exception:   # noqa
        return []


def _memoizes(p):
    """The pickle stores something in the memo (so a later pickle's MEMOIZE continues from a non-zero index)."""
    return any(n in ("MEMOIZE", "PUT", "BINPUT", "LONG_BINPUT") for n in _opnames(p))


def _uses_implicit_memo(p):
    """MEMOIZE (key = next free index of the Decoder's memo) together with a fetch by explicit index."""
    ns = _opnames(p)
    return "MEMOIZE" in ns and any(n in ("GET", "BINGET", "LONG_BINGET") for n in ns)


# ------------------------------------------------------------------------------------------- C14

class C14:
    prop = "C14"
    lean_module = "Ogorek.Props.C14"
    theorems = ["Ogorek.C14_readByte", "Ogorek.C14_readFull", "Ogorek.C14_copyN", "Ogorek.C14_readLine"]
    trusted_base = TB_COMMON + ["bufio.Reader / io.ReadFull / io.CopyN are modelled by their contracts (each call returns between 1 and the "
                                "requested number of the next bytes, or the end); the 4096-byte buffer appears as ErrBufferFull answers of ReadSlice"]
    level_text = ("Lean theorems: each of the four primitives the decoder reads with — ReadByte, io.ReadFull, io.CopyN and og-rek's own "
                  "readLine loop over ReadSlice/ErrBufferFull — returns, under EVERY schedule of partial deliveries (any chunk sizes, "
                  "buffer-full answers at any point), exactly what the flat-input reader of the decoder model returns "
                  "(C14_readByte/readFull/copyN/readLine); the decoder model is built from these primitives only (Lemmas/Reader.lean). "
                  "PARTIAL: bufio itself is modelled by its contract, not verified. Tie: the real Decoder is fed through readers that "
                  "split the input at every position / byte-wise / randomly / with empty reads / with data+EOF and must equal the model on the flat input.")
    level_note = "trusted: Lean kernel + standard axioms; the contract model of bufio/io; decoder model"
    technique = "Lean 4 proof over chunk-schedule models of the four read primitives + differential run of the implementation under many Read schedules"
    rule = ("inputs: pickles and streams from Encode, CPython, generated programs, corpus, malformed inputs, lines of "
            "4095/4096/4097/8192/100000 bytes; schedules: 1-byte reads, every single split point (inputs <= 1 KiB), random k-way "
            "splits, zero-length reads before data, final chunk with io.EOF; the implementation under each schedule must equal the "
            "model on the flat input; distinct = distinct (config, schedule, input)")
    assumptions = ["fewer than 100 consecutive empty reads (bufio gives up with io.ErrNoProgress beyond that)"]

    def run(self, ctx):
        rng = ctx.rng
        from . import pyside
        ins = [b"S'" + b"x" * n + b"'\n." for n in (4090, 4093, 4094, 4095, 4096, 8190, 100000)]
        ins += [b"V" + b"y" * n + b"\n." for n in (4094, 4095, 4096, 4097, 8192)]
        ins += [b"V" + b"w" * 5000 + b"\r\n.", b"S'" + b"x" * 4500 + b"\r'\n.", b"V" + b"\\u0100" * 900 + b"\n.", b"cmo\rd\nna" + b"m" * 4200 + b"\r\n.",
                b"P" + b"i" * 4097 + b"\r\n."]
        ins += [b"L" + b"9" * 4200 + b"L\n.", b"I" + b"7" * 4100 + b"\n.", b"cmod" + b"m" * 5000 + b"\nname\n.",
                b"T" + (5000).to_bytes(4, "little") + b"z" * 5000 + b".", b"\x8a\xff" + b"\x01" * 255 + b".",
                b"K\x01.K\x02.K\x03.", b"S'" + b"x" * 5000, b"S'" + b"x" * 4096 + b"\n."]
        ins += own_corpus("C14") + enc_pickles(ctx, ctx.scale(150, 3000))
        for obj in pyside.rand_objects(rng, ctx.scale(60, 1500)):
            ins += pyside.pickle_variants(obj, rng, n=2)
        for _ in range(ctx.scale(150, 3000)):
            ins.append(P.ProgGen(rng, wellformed=rng.random() < 0.7, maxops=rng.choice([5, 15, 40])).gen())
        base = corpus_files(200) or [b"N."]
        for _ in range(ctx.scale(100, 3000)):
            ins.append(P.mutate(rng, rng.choice(base)))
        # streams
        for _ in range(ctx.scale(60, 1000)):
            ins.append(b"".join(rng.choice(ins[10:]) for _ in range(rng.randint(2, 4))))
        # pickles separated by bytes that are no part of them (newline-separated files, padding): what the byte after a STOP does
        # must not depend on whether it arrived in the same Read
        directed = []
        smalls = [b"I5\n.", b"K\x07.", b"\x80\x02]q\x00.", b"Vab\n.", b"N."]
        for sep in (b"\n", b"\r\n", b" ", b"\x00", b"N", b".", b"\n\n"):
            for a in smalls:
                for b2 in smalls[:3]:
                    directed.append(a + sep + b2 + sep)
                    directed.append(a + sep + b2)
        import pickle as _pickle
        directed += P.sloppy_text_programs() + P.magic_prefix_programs()
        directed += [_pickle.dumps(o, pr) for o in (bytearray(b"abc"), b"", [bytearray(b"x"), b"y"], {"k": bytearray()}) for pr in (2, 3, 4, 5)]
        # lists extended through two references (finding K1's subject): WHAT they hold is not compared with the model here, only that it is
        # the same under every schedule (the capacity of a Go slice must not depend on how much input happened to be buffered)
        k1_progs = set(P.both_ends_append_programs())
        directed += sorted(k1_progs)
        ins += directed
        force_all = set(directed)
        flat, sched_lines, meta = [], [], []
        k1_idx = set()
        for data in ins:
            data = data[:120000]
            cfg = rng.choice(CFGS)
            scheds = ["1*", "e1*", "0,0,3*", "e4096*", "4095,1*", "4096,1,4095*", "4097*", "e7*"]
            n = len(data)
            if n <= 1024 and (ctx.thorough or data in force_all or rng.random() < 0.25):
                scheds += [f"{k},{n}" for k in range(1, n)]
                scheds += [f"e{k},{n}" for k in range(1, n, 3)]
            else:
                for _ in range(6):
                    k = rng.randint(1, max(1, n - 1))
                    scheds.append(f"{k},0,{n}")
            for _ in range(4):
                cuts = sorted(rng.randint(0, 50) for _ in range(rng.randint(2, 8)))
                scheds.append(("e" if rng.random() < 0.5 else "") + ",".join(str(c) for c in cuts) + f",{rng.choice([1, 2, 5, 4096])}*")
            flat.append(f"decsp {cfg} - {hexs(data)}")       # errors with their position: that, too, must not depend on the delivery
            if data in k1_progs:
                k1_idx.add(len(flat) - 1)
            for s in scheds:
                sched_lines.append(f"decrp {cfg} {s} {hexs(data)}")
                meta.append((len(flat) - 1, cfg, s, data))
        lean = C.run_sharded(C.run_lean, flat)
        goflat = C.run_sharded(C.run_go, flat)
        go = C.run_sharded(C.run_go, sched_lines)

        def strip(ans):   # drop consumed counts
            return " | ".join(re.sub(r"^(OK .*) \d+$", r"\1", x) for x in ans.split(" | ") if not x.startswith("ALTERED"))

        def upto_error(ans):
            # after an error in the middle of a pickle model and implementation resume at different offsets
            out = []
            for x in ans.split(" | "):
                out.append(x)
                if x.startswith("ERR"):
                    break
            return " | ".join(out)
        for fi, (line, g, l) in enumerate(zip(flat, goflat, lean)):
            ctx.evaluations += 1
            if fi in k1_idx:
                ctx.count("K1-territory program: schedules compared on the implementation only")
                continue
            ctx.tie(line, upto_error(g), upto_error(l))
        for line, (fi, cfg, s, data), g in zip(sched_lines, meta, go):
            ctx.evaluations += 1
            ctx.count("schedule:" + ("split1" if re.fullmatch(r"e?\d+,\d+", s) else s[:12]))
            ctx.nontrivial((cfg, s, data))
            want_model = upto_error(strip(lean[fi]))
            want_impl = strip(goflat[fi])
            if "UNMODELLED" in want_model or "TOOBIG" in want_model or "TOOBIG" in g or data in k1_progs:
                ctx.unmodelled += 1
            elif upto_error(g) != want_model:
                ctx.disagree(line[:3000], g, want_model, "chunked implementation vs model on flat input")
            ctx.traces += 1
            if g != want_impl and "TOOBIG" not in g:
                ctx.violate("decoding depends on how the Reader delivers the bytes", line[:6000], want_impl, g)
        # PersistentLoad hooks that fail (at the first, second, third call): where the stream stands after the error - what the NEXT
        # Decode calls see - must not depend on whether the id's line had arrived in one piece
        hprogs = [b"Pabc\n.I5\n.", b"(Pabc\nPdef\nt.K\x07.", b"Pabc\n.Pdef\n.Pghi\n.", b"]Pabc\na.N.", b"Vx\nQ.I1\n.", b"Pa\n.Pbb\n.Pccc\n.K\x01.",
                  b"(I1\nPid-1\nI2\nt.S'after'\n.", b"P" + b"x" * 5000 + b"\n.K\x02."]
        hflat, hsched, hmeta = [], [], []
        for data in hprogs:
            for hook in ("F0", "F1", "F2", "K", "R"):
                cfg = rng.choice(CFGS)
                hflat.append(f"decsp {cfg} {hook} {hexs(data)}")
                n = len(data)
                for sc in ["1*", "e1*", "4096*", "e7*"] + ([f"{k},{n}" for k in range(1, n)] if n <= 200 else [f"{k},{n}" for k in (1, 2, 4096, 4097, 5001, 5002)]):
                    hsched.append(f"decrh {cfg} {hook} {sc} {hexs(data)}")
                    hmeta.append(len(hflat) - 1)
        hgo = C.run_sharded(C.run_go, hflat)
        hlean = C.run_sharded(C.run_lean, hflat)
        hs = C.run_sharded(C.run_go, hsched)
        for line, g, l in zip(hflat, hgo, hlean):
            ctx.evaluations += 1
            ctx.tie(line, upto_error(g), upto_error(l))
        for line, fi, g in zip(hsched, hmeta, hs):
            ctx.evaluations += 1
            ctx.traces += 1
            ctx.count("schedule:with-failing-hook")
            if g != strip(hgo[fi]):
                ctx.violate("decoding (with a PersistentLoad hook that fails) depends on how the Reader delivers the bytes", line[:3000], strip(hgo[fi]), g)
        for i in range(0, len(sched_lines), max(1, len(sched_lines) // 8)):
            ctx.sample(sched_lines[i][:200] + " -> " + go[i][:200])


# ------------------------------------------------------------------------------------------- C17

def unhashable_atoms():
    return [b"]", b"}", b"\x96\x01\x00\x00\x00\x00\x00\x00\x00a", b"(K\x01l", b"(K\x01K\x02d", b"]K\x01a",
            b"\x96\x00\x00\x00\x00\x00\x00\x00\x00", b"(l", b"(d", b"c__builtin__\nbytearray\n)R",
            # a dict that contains itself (d['a'] = d), directly and through a tuple: whatever reports the bad key must not walk it forever
            b"}q\x00U\x01ah\x00s", b"}q\x00U\x01ah\x00\x85s", b"}q\x09(U\x01ah\x09U\x01bh\x09u", b"]q\x00h\x00a",
            # a bytearray as Python 2 (and Python 3 before 3.8) writes it - bytearray(text, 'latin-1'), the encoding name a Python-2 str -
            # and as CPython 3 writes it below protocol 5
            P.py2_bytearray_pickle(b"ab", 0)[:-1], P.py2_bytearray_pickle(b"ab", 1, True)[:-1], P.py2_bytearray_pickle(b"a\xe9", 2)[:-1],
            b"c__builtin__\nbytearray\n(X\x02\x00\x00\x00abX\x07\x00\x00\x00latin-1tR", b"c__builtin__\nbytearray\n(c_codecs\nencode\n(X\x01\x00\x00\x00aX\x06\x00\x00\x00latin1tRtR"]


def wrap_key(atom, depth, kind, rng):
    """Bury the unhashable atom at `depth` inside Tuple / Call arguments / Ref id."""
    k = atom
    for _ in range(depth):
        w = rng.choice(["t1", "t2", "t", "call", "ref"]) if kind is None else kind
        if w == "t1":
            k = k + b"\x85"
        elif w == "t2":
            k = b"K\x07" + k + b"\x86"
        elif w == "t":
            k = b"(K\x01" + k + b"Va\nt"
        elif w == "call":
            k = b"cmod\nfn\n(" + k + b"tR"
        else:
            k = k + b"Q"
    return k


class C17:
    prop = "C17"
    lean_module = "Ogorek.Props.C17"
    theorems = ["Ogorek.hashTree_none_of_hasUnhashable", "Ogorek.goMapHashable_false_of", "Ogorek.C17_assign_present",
                "Ogorek.C17_setitem", "Ogorek.C17_dict", "Ogorek.C17_setitems", "Ogorek.C17_api", "Ogorek.C04_no_panic"]
    trusted_base = TB_COMMON + ["gomap: hashes the key before touching the table when the map is non-empty (empty case: repair F7)"]
    level_text = ("Lean theorems: a key that is or contains (through Tuple, Call arguments, Ref id, at any depth) a list, dict/map or "
                  "bytearray has no hash (hashTree_none_of_hasUnhashable) and — like any tuple — is refused by the builtin map "
                  "(goMapHashable_false_of); SETITEM, DICT and SETITEMS with such a key at any position give an error, not success "
                  "(C17_setitem/_dict/_setitems) and never a panic (C04_no_panic); an accepted assignment stores its entry "
                  "(C17_assign_present); Dict.Get/Set/Del with such a key panic 'unhashable type:' before touching the table (C17_api). "
                  "Tie: generated dict programs with the unhashable object at depth 0..3 x 3 opcodes x 2 modes, and API calls on Dicts of several sizes.")
    level_note = "trusted: Lean kernel + standard axioms; decoder and Dict models; Go runtime's unhashable-key panic and recover()"
    technique = "Lean 4 proof (structural induction on keys, case analysis of the three inserting opcodes) + differential correspondence + direct API probes"
    rule = ("dict-building programs whose key holds a list / dict / bytearray (and, in map mode, a tuple) at depth 0..3 inside Tuple, Call "
            "arguments or Ref id, inserted by DICT, SETITEM or SETITEMS at any pair position, x PyDict x StrictUnicode; direct "
            "Get/Set/Del on Dicts with 0, 1, 100 entries; distinct = distinct (config, program) or (state, op, key)")
    assumptions = []

    def run(self, ctx):
        rng = ctx.rng
        lines, meta = [], []
        atoms = unhashable_atoms()
        for atom in atoms + [b"K\x05\x85", b"(K\x01K\x02t", b")"]:   # tuples: unhashable for builtin maps only
            is_tuple_atom = atom in (b"K\x05\x85", b"(K\x01K\x02t", b")")
            for depth in range(0, 4):
                for kind in ([None] if depth == 0 else ["t1", "t2", "t", "call", "ref", None]):
                    key = wrap_key(atom, depth, kind, rng)
                    good = b"K\x09"
                    for npre in (0, 1, 2):
                        pre = b"".join(b"K" + bytes([i]) + b"N" for i in range(npre))
                        progs = {
                            "DICT": b"(" + pre + key + b"N" + good + b"Nd.",
                            "SETITEM": b"}" + b"".join(b"K" + bytes([i]) + b"Ns" for i in range(npre)) + key + b"Ns.",
                            "SETITEMS": b"}(" + pre + key + b"N" + good + b"Nu.",
                            "SETITEMS-memo": b"}q\x00(" + pre + key + b"Nuh\x00.",
                        }
                        for op, prog in progs.items():
                            for cfg in ("00", "11", "10"):
                                lines.append(f"dec {cfg} - {hexs(prog)}")
                                meta.append((op, cfg, depth, is_tuple_atom, kind))
                            if npre == 0 and depth <= 1:
                                # the same program behind a FRAME, with and without a PROTO of an older protocol in front (what a key is
                                # must not depend on a framing hint)
                                fr = b"\x95" + (len(prog)).to_bytes(8, "little")
                                for head in (fr, b"\x80\x02" + fr, b"\x80\x01" + fr):
                                    cfg = rng.choice(("00", "11", "10"))
                                    lines.append(f"dec {cfg} - {hexs(head + prog)}")
                                    meta.append((op, cfg, depth, is_tuple_atom, kind))
        # the unhashable object far from the start of a wide tuple / of Call arguments, and very deep inside
        # Tuple / Ref / Call wrappers: hashability must be decided by the whole key
        def dict_progs(key):
            return {"DICT": b"(" + key + b"NK\x09Nd.", "SETITEM": b"}" + key + b"Ns.", "SETITEMS": b"}(K\x01N" + key + b"Nu."}
        for atom in atoms[:3] + [atoms[5]]:
            for pos in (1, 7, 8, 15, 16, 17, 31, 32, 33, 63, 64, 65, 127, 128, 255, 256, 257, 1000, 4100):
                if not ctx.thorough and pos > 300 and atom != atoms[0]:
                    continue
                for tail in (0, 1, 20):
                    items = b"K\x01" * pos + atom + b"N" * tail
                    for kind, key in (("wide-tuple", b"(" + items + b"t"), ("wide-call", b"cmod\nfn\n(" + items + b"tR"),
                                      ("wide-tuple-in-tuple", b"(" + items + b"t\x85")):
                        for op, prog in dict_progs(key).items():
                            for cfg in ("00", "10"):
                                lines.append(f"dec {cfg} - {hexs(prog)}")
                                meta.append((op, cfg, pos, False, kind))
            for depth in (4, 5, 8, 16, 31, 32, 33, 63, 64, 65, 99, 100, 101, 102, 127, 128, 129, 255, 256, 257, 600):
                for kind in ("t1", "ref", "call", "t2", None):
                    key = wrap_key(atom, depth, kind, rng)
                    for op, prog in dict_progs(key).items():
                        for cfg in ("00", "10"):
                            lines.append(f"dec {cfg} - {hexs(prog)}")
                            meta.append((op, cfg, depth, False, "deep-" + str(kind)))
        # hashable keys of any depth / mixed string kinds: accepted in PyDict mode whatever the nesting
        for prog in P.nested_tuple_key_programs() + P.bytestring_tuple_key_programs():
            for cfg in ("00", "10", "11"):
                lines.append(f"dec {cfg} - {hexs(prog)}")
                meta.append(("HASHABLE", cfg, 0, True, "nested-hashable"))
        # an unhashable key that has the same Go type as an acceptable key assigned just before it in the same batch
        # (Ref{1} then Ref{[]}; Ref{Ref{1}} then Ref{Ref{[]}}): hashability is not a property of the dynamic type
        goods = [b"I1\nQ", b"K\x02QQ", b"Vid\nQ", b"Pabc\n", b"NQ"]
        for atom in atoms:
            for bad in (atom + b"Q", atom + b"QQ", atom + b"\x85Q"):
                for good in goods:
                    for ngood in (1, 2, 5):
                        pre = b"".join(good[:-1] + bytes([48 + i]) + good[-1:] if good.startswith(b"V") else good for i in range(ngood))
                        gk = b"".join((b"K" + bytes([i]) + b"Q") + b"N" for i in range(ngood))      # distinct good Ref keys
                        progs = {"DICT": b"(" + gk + bad + b"N" + b"d.", "SETITEMS": b"}(" + gk + bad + b"Nu.",
                                 "SETITEM": b"}" + b"".join(b"K" + bytes([i]) + b"QNs" for i in range(ngood)) + bad + b"Ns.",
                                 "DICT-mixed": b"(" + good + b"N" + bad + b"N" + good + b"Nd."}
                        for op, prog in progs.items():
                            for cfg in ("00", "10", "01"):
                                lines.append(f"dec {cfg} - {hexs(prog)}")
                                meta.append((op, cfg, ngood, False, "good-then-bad"))
        for _ in range(ctx.scale(400, 10000)):
            g = P.ProgGen(rng, wellformed=True, allow_unhashable_keys=0.5, colliding=0.2, maxops=rng.choice([10, 25]))
            cfg = rng.choice(CFGS)
            lines.append(f"dec {cfg} - {hexs(g.gen())}")
            meta.append(("random", cfg, None, None, None))
        go, lean = run_both(lines)
        for line, (op, cfg, depth, is_tuple, kind), g, l in zip(lines, meta, go, lean):
            ctx.evaluations += 1
            ctx.tie(line, g, l)
            ctx.nontrivial(line)
            ctx.count(f"{op}:{dec_class(g)}")
            if "PANIC" in g or g.startswith("CRASH"):
                ctx.violate("Decode panicked on an unhashable key", line, "an error", g)
            if op != "random":
                pyd = cfg[0] == "1"
                # tuple atoms are fine as Dict keys; Call/Tuple wrappers make any key unhashable for builtin maps
                must_fail = (not is_tuple) or (not pyd)
                if must_fail and not g.startswith("ERR"):
                    ctx.violate("a pickle using an unhashable dict key did not make Decode return an error", line, "ERR …", g)
                if op == "HASHABLE" and pyd and not g.startswith("OK"):
                    ctx.violate("a hashable key (tuples of hashable items, at any depth) was rejected in PyDict mode", line, "OK …", g)
        # direct API
        dl, dm = [], []
        bad_keys = ["l( )", "A01", "t( l( I1 ) )", "t( I1 t( A- ) )", "c( C6d.6e l( ) )", "R( l( ) )", "R( t( A01 ) )", "d( )",
                    "m( )", "t( d( ) )", "t( t( t( l( ) ) ) )"]
        for pos in (15, 16, 17, 40, 300):
            bad_keys.append("t( " + "I1 " * pos + "l( ) N )")
            bad_keys.append("c( C6d.6e " + "I1 " * pos + "A01 )")
        for depth in (50, 100, 101, 130, 300):
            bad_keys.append("t( " * depth + "l( ) " + ") " * depth)
            bad_keys.append("R( " * depth + "A01 " + ") " * depth)
        bad_keys = [k.strip() for k in bad_keys]
        # an EMPTY Dict, after a hashable key of the same Go type went through the same path (hashability is a property of
        # the value, not of its type)
        for good, bad in (("t( I1 )", "t( l( ) )"), ("t( I1 S61 )", "t( I1 A01 )"), ("R( I1 )", "R( l( I1 ) )"), ("R( S61 )", "R( d( ) )"),
                          ("c( C6d.6e I1 )", "c( C6d.6e l( ) )"), ("t( t( I1 ) )", "t( t( A- ) )")):
            for op1 in ("G", "D"):
                for op2 in ("G", "D", "S"):
                    dl.append(f"dict {op1} {good} ; {op2} {bad}" + (" I1" if op2 == "S" else ""))
                    dm.append((0, op2, bad))
                    dl.append(f"dict S {good} I5 ; D {good} ; {op1} {good} ; {op2} {bad}" + (" I1" if op2 == "S" else ""))
                    dm.append((0, op2, bad))
        for n in (0, 1, 100):
            pre = " ; ".join(f"S I{i} I{i * 2}" for i in range(n))
            for k in bad_keys:
                for op in ("G", "D", "S"):
                    tail = f"{op} {k}" + (" I1" if op == "S" else "")
                    dl.append("dict " + (pre + " ; " if pre else "") + tail)
                    dm.append((n, op, k))
        # an unhashable key that is element-wise EQUAL to a stored hashable key (a list / bytearray against a tuple of the same
        # items), in dictionaries of 1..10 entries: the call must panic before it touches the table
        twins = [("t( I1 I2 )", "l( I1 I2 )"), ("t( I1 I2 )", "A0102"), ("t( t( ) )", "t( l( ) )"), ("R( t( I1 ) )", "R( l( I1 ) )"),
                 ("c( C6d.6e t( I1 ) )", "c( C6d.6e l( I1 ) )"), ("t( S61 t( I1 ) )", "t( S61 A01 )"), ("t( )", "l( )"), ("t( )", "A-")]
        for good, bad in twins:
            for extra in (0, 1, 3, 7, 9):
                pre = " ; ".join([f"S {good} I5"] + [f"S I{i} I{i}" for i in range(extra)])
                for op in ("G", "D", "S"):
                    dl.append(f"dict {pre} ; {op} {bad}" + (" I6" if op == "S" else ""))
                    dm.append((extra + 1, op, bad))
        # the zero value Dict{} (the documented nil dictionary: empty; Set with a hashable key is not allowed on it)
        for k in bad_keys:
            for op in ("G", "D", "S"):
                dl.append(f"dictz {op} {k}" + (" I1" if op == "S" else ""))
                dm.append((0, op, k))
        for good in ("I1", "t( I1 )", "S61"):
            for k in bad_keys[:6]:
                dl.append(f"dictz G {good} ; D {good} ; G {k}")
                dm.append((0, "G", k))
        dgo, dlean = run_both(dl)
        for line, (n, op, k), g, l in zip(dl, dm, dgo, dlean):
            ctx.evaluations += 1
            ctx.nontrivial(line)
            ctx.count(f"api:{op}:n={n}")
            lastg, lastl = g.split(" | ")[-1], l.split(" | ")[-1]
            ctx.tie(line[-300:], lastg, lastl)
            prev = g.split(" | ")[-2] if n else "len=0 iter=0 d( )"
            prev = prev[prev.index("len="):]
            if not lastg.startswith("PANIC:unhashable_type:"):
                ctx.violate("Dict API call with an unhashable key did not panic with 'unhashable type:'", line[-300:], "PANIC:unhashable_type: …", lastg[:200])
            elif lastg[len("PANIC:unhashable_type: "):] != prev:
                ctx.violate("Dict contents changed by a panicking API call", line[-300:], prev[:200], lastg[:200])
        for i in range(0, len(lines), max(1, len(lines) // 6)):
            ctx.sample(lines[i][:300] + " -> " + go[i][:200])
        ctx.sample(dl[0] + " -> " + dgo[0])


# ------------------------------------------------------------------------------------------- C18

def enc_project(ans):
    """Order-independent view of an encoder answer (map / Dict iteration order is arbitrary):
    OK -> sorted chunk multiset; ERR -> just "ERR": with several entries failing for different reasons, which
    error is met first depends on the iteration order (the error named must still be one the value can cause;
    the callers check that separately against the value)."""
    f = ans.split(" ")
    if f[0] == "OK":
        return "OK " + ",".join(sorted(f[1].split(","))) if len(f) > 1 else "OK"
    if f[0] == "ERR":
        return "ERR"
    return ans


def enc_tie(ctx, line, g, l, v):
    multi = V.max_entries(v) > 1
    return ctx.tie(line, g, l, project=enc_project if multi else None)


def second_encode_tie(ctx, cases, what):
    """ONE Encoder, two Encode calls (the first may fail for a documented reason or succeed): what the second call writes or refuses
    must be exactly what the model says for its own argument - an Encoder keeps nothing from one call to the next (no header
    written "once per stream", no remembered error, no left-over bytes)."""
    lines = [f"enc2 {p} {int(su)} {rh} {V.render(a, sort=False)} ;; {V.render(b, sort=False)}" for p, su, rh, a, b in cases]
    mlines = [f"enc {p} {int(su)} {rh} {V.render(b, sort=False)}" for p, su, rh, a, b in cases]
    go = C.run_sharded(C.run_go, lines)
    lean = C.run_sharded(C.run_lean, mlines)
    for line, (p, su, rh, a, b), g, l in zip(lines, cases, go, lean):
        ctx.evaluations += 1
        ctx.count(what + ":" + g.split(" ")[0])
        if "PANIC" in g or g.startswith("CRASH"):
            ctx.violate("Encode panicked on an Encoder that was used before", line[:3000], "bytes or an error", g[:300])
            continue
        if not enc_tie(ctx, line[:4000], g, l, b):
            ctx.violate("the second Encode call on one Encoder does not write what a new Encoder writes for the same value", line[:3000],
                        l[:600], g[:600])


def second_encode_after_write_failure(ctx, cases, what):
    """ONE Encoder whose destination fails at the k-th Write of the first Encode call and works again afterwards: the second call
    writes exactly the pickle of its own argument - nothing of the failed pickle is left over in the Encoder.
    cases: (proto, su, k, a, b)."""
    lines = [f"enc2w {p} {int(su)} {k} {V.render(a, sort=False)} ;; {V.render(b, sort=False)}" for p, su, k, a, b in cases]
    mlines = [f"enc {p} {int(su)} - {V.render(b, sort=False)}" for p, su, k, a, b in cases]
    go = C.run_sharded(C.run_go, lines)
    lean = C.run_sharded(C.run_lean, mlines)
    outs = []
    for line, (p, su, k, a, b), g, l in zip(lines, cases, go, lean):
        ctx.evaluations += 1
        ctx.count(what + ":" + g.split(" ")[0])
        outs.append(g)
        if "PANIC" in g or g.startswith("CRASH"):
            ctx.violate("Encode panicked on an Encoder whose previous Encode met a failing Write", line[:3000], "bytes or an error", g[:300])
            continue
        if "".join(g.split(",")) != "".join(l.split(",")) and not (g.startswith("ERR") and l.startswith("ERR")):
            ctx.violate("after an Encode that met a failing Write, the next Encode on the same Encoder does not write the pickle of its own argument",
                        line[:3000], l[:600], g[:600])
    return outs


class C18:
    prop = "C18"
    lean_module = "Ogorek.Props.C03Dec"
    theorems = ["Ogorek.C03_roundtrip_hook_dec", "Ogorek.FloatsOK_of_b", "Ogorek.C18_other_insn_no_call", "Ogorek.C18_handleRef", "Ogorek.C18_persid", "Ogorek.C18_binpersid",
                "Ogorek.C18_one_call", "Ogorek.C18_ref_p0", "Ogorek.C18_ref_bin", "Ogorek.C18_ref_unmapped",
                "Ogorek.C18_inverse_hooks", "Ogorek.C03_roundtrip_hook", "Ogorek.repU_of_rep"]
    trusted_base = TB_COMMON + ["PersistentRef ids returned by the application do not themselves contain application objects (substitution model)"]
    level_text = ("Lean theorems: only PERSID/BINPERSID invoke PersistentLoad (C18_other_insn_no_call, by cases over all instructions), "
                  "each exactly once with Ref{decoded id}, a non-nil answer replaces the Ref, nil keeps it, an error aborts with an error "
                  "(C18_handleRef, C18_persid, C18_binpersid, C18_one_call); a pointer-to-struct mapped by PersistentRef is encoded exactly "
                  "as that Ref — PERSID with single-line string id at protocol 0 else the documented error, id+BINPERSID at protocols >= 1 "
                  "(C18_ref_p0, C18_ref_bin, C18_ref_unmapped). The inverse pair as a whole: Encode with a PersistentRef mapping every "
                  "application object of a graph to a string id, then Decode - from any state, any protocol 0-5, both modes - with a "
                  "PersistentLoad that answers those ids with the objects they came from, returns the graph again, the same objects at "
                  "the same places and everything else identical in type and content (C18_inverse_hooks; from C03_roundtrip_hook, the "
                  "round-trip theorem generalised to an arbitrary hook, and the substitution lemma repU_of_rep). PARTIAL: ids that are "
                  "not plain strings (tuples holding further mapped objects) and Refs inside dict keys are outside the theorem; at "
                  "protocol 0 the float-text hypothesis of C03 (decidable per float: C03_roundtrip_hook_dec with floatsOKb, evaluated for "
                  "the floats of this run's protocol-0 graphs). Tie: instrumented hooks on both sides: call "
                  "sequences, results, and Encode->Decode of object graphs with 0-20 references.")
    level_note = "trusted: Lean kernel + standard axioms; decoder/encoder models; the application hooks are parameters"
    technique = "Lean 4 proof (case analysis over instructions; encoder substitution lemma) + differential correspondence with instrumented hooks"
    rule = ("decoder: generated programs rich in PERSID/BINPERSID x hook behaviours {none, keep, replace, fail at call i} x 4 configs, "
            "comparing result and the sequence of Refs the hook received; encoder: object graphs with 0-20 application objects x "
            "PersistentRef behaviours {string ids, tuple ids, ids with newline, only even objects mapped} x protocols 0-5; round trip "
            "with inverse hooks; distinct = distinct case lines")
    assumptions = []

    def graphs(self, ctx, n):
        rng = ctx.rng
        out = []
        for _ in range(n):
            pd, su = rng.random() < 0.5, rng.random() < 0.5
            g = V.ValueGen(rng, pydict=pd, su=su, canonical=True, allow_user=True, maxdepth=3,
                           allow_refs=False, allow_bad_class=False)
            v = g.value()
            k = rng.randint(0, 6)
            items = [v] + [("X", rng.randint(0, 9)) for _ in range(k)]
            rng.shuffle(items)
            out.append((("l", items) if rng.random() < 0.5 else ("t", items), pd, su))
        return out

    def run(self, ctx):
        rng = ctx.rng
        lines, meta = [], []
        for _ in range(ctx.scale(1500, 30000)):
            g = P.ProgGen(rng, wellformed=rng.random() < 0.9, persid=0.25, maxops=rng.choice([6, 15, 30]))
            hook = rng.choice(["-", "K", "R", "R", "F0", "F1", "F2", "F5"])
            cfg = rng.choice(CFGS)
            lines.append(f"dech {cfg} {hook} {hexs(g.gen())}")
            meta.append(("dec", hook))
        # protocol-0 ids exactly as written in the stream: everything up to the newline — carriage returns, ids
        # longer than a bufio buffer, ids followed by more ids
        ids = [b"a\r", b"\r", b"a\r\r", b"a\rb", b"", b" ", b"x" * 4094, b"x" * 4095, b"x" * 4096, b"x" * 4097, b"y" * 10000,
               b"w" * 65535, b"w" * 65536, b"v" * 65537, b"u" * 200000,
               b"z" * 4095 + b"\r", b"\xc4\x80\r"]
        for pid in ids:
            for prog in (b"P" + pid + b"\n.", b"(P" + pid + b"\nPsecond\nI1\nt.", b"(lp0\nP" + pid + b"\naP" + pid + b"\na."):
                for hook in ("-", "K", "R"):
                    cfg = rng.choice(CFGS)
                    lines.append(f"dech {cfg} {hook} {hexs(prog)}")
                    meta.append(("dec-id", (hook, pid)))
        for pid in (b"\nab", b"\n", b"\n\n", b"ab\n", b"a\nb", b"\nP1\n", b"", b"ab", b"\r\n", b"x" * 5000 + b"\n", b"\n" + b"y" * 5000):
            for v in (("R", ("S", pid)), ("l", [("R", ("S", pid)), ("I", 1)]), ("R", ("Y", pid)), ("t", [("R", ("t", [("S", pid)]))])):
                for p in range(6):
                    for su in (0, 1):
                        lines.append(f"enc {p} {su} - {V.render(v, sort=False)}")
                        meta.append(("enc", ("-", p, v, False, bool(su))))
        for _ in range(ctx.scale(300, 6000)):
            g = P.ProgGen(rng, wellformed=True, persid=0.4, maxops=rng.choice([6, 15, 30]))
            lines.append(f"dech {rng.choice(CFGS)} {rng.choice(['G0', 'G1', 'G2', 'G4'])} {hexs(g.gen())}")
            meta.append(("dec", "F" + lines[-1].split(" ")[2][1:]))
        for v, pd, su in self.graphs(ctx, ctx.scale(500, 10000)):
            p = rng.randint(0, 5)
            rh = rng.choice(["-", "S", "S", "T", "N", "E", "B", "B"])      # B: string ids that are not valid UTF-8
            lines.append(f"enc {p} {int(su)} {rh} {V.render(v, sort=False)}")
            meta.append(("enc", (rh, p, v, pd, su)))
        # a mapped object in every kind of container, with hooks whose ids protocol 0 cannot write: the error must surface
        x1 = ("X", 1)
        for shape in (x1, ("l", [x1]), ("t", [x1]), ("d", [(("S", b"k"), x1)]), ("d", [(x1, ("I", 1))]), ("m", [(("S", b"k"), x1)]),
                      ("m", [(x1, ("I", 1))]), ("c", b"m", b"n", [x1]), ("R", x1), ("l", [("d", [(("S", b"k"), ("t", [x1]))])]),
                      ("d", [(("S", b"k"), ("d", [(("S", b"j"), x1)]))]), ("t", [("d", [(("I", 1), x1)]), ("I", 2)])):
            for rh in ("T", "N", "S"):
                for p in (0, 1, 2):
                    for su in (0, 1):
                        lines.append(f"enc {p} {su} {rh} {V.render(shape, sort=False)}")
                        meta.append(("enc", (rh, p, shape, V.contains(shape, lambda x: x[0] == "d"), bool(su))))
        # one Encoder for several objects: after an object whose id protocol 0 cannot write (tuple id, id with a newline) was
        # refused, the next object's id is asked for and written as if the Encoder were new
        x1, x2 = ("X", 1), ("X", 2)
        reuse = []
        for p in range(6):
            for su in (False, True):
                for rh in ("S", "T", "N", "E"):
                    for a in (x1, ("l", [x1, x2]), ("R", ("t", [("I", 1)])), ("R", ("S", b"a\nb")), ("I", 5)):
                        for b in (x2, ("t", [x2, ("I", 1)]), ("R", ("S", b"ok")), ("l", [x1])):
                            reuse.append((p, su, rh, a, b))
        if not ctx.thorough:
            reuse = rng.sample(reuse, 400)
        second_encode_tie(ctx, reuse, "encoder-reuse")
        # records of two pickles read by one Decoder (a class pickle, then a state pickle whose persistent ids fetch what the first
        # pickle memoized - the layout ZODB writes): the memo outlives a pickle, the hook sees the fetched objects
        for cls in (b"cmod\nKlass\nq\x01.", b"\x80\x02cmod\nKlass\nq\x01K\x07q\x02."):
            for state in (b"(U\x08oid00001h\x01tQ.", b"\x80\x02U\x03oidh\x01\x86Q.", b"(h\x01Qh\x01Ql.", b"\x80\x02}U\x01kU\x02o1h\x01\x86Qs.",
                          b"h\x01.", b"(Pabc\nh\x01t."):
                for hook in ("-", "K", "R"):
                    lines.append(f"decs {rng.choice(CFGS)} {hook} {hexs(cls + state)}")
                    meta.append(("dec", hook))
        go, lean = run_both(lines)
        float_text_instances(ctx, [(int(ln.split(" ")[1]), ln) for ln in lines if ln.startswith("enc ")])
        self.run_every_pointer(ctx)
        self.run_same_named_types(ctx)
        self.run_holders(ctx)
        self.run_nested_ids(ctx)
        rt_lines, rt_meta = [], []
        for line, (kind, info), g, l in zip(lines, meta, go, lean):
            ctx.evaluations += 1
            ctx.nontrivial(line)
            if kind == "dec-id":
                hook, pid = info
                ctx.tie(line[:300], g, l)
                ctx.count(f"explicit-id:hook={hook}")
                want = "R( S" + (hexs(pid) if pid else "-") + " )"
                where = g.partition(" ; ")[2] if hook != "-" else g
                if want not in where:
                    ctx.violate("the persistent id handed to PersistentLoad / kept in the Ref is not the id in the stream",
                                line[:300], want[:200], g[:300])
            elif kind == "dec":
                ctx.tie(line, g, l)
                res, _, calls = g.partition(" ; ")
                ncalls = calls.count("R( ")
                ctx.count(f"hook={info}:{dec_class(res)}")
                ctx.count("persistent-load-calls", ncalls)
                if line.split(" ")[2][:1] == "G" and res.startswith("OK") and l.startswith("ERR"):
                    ctx.violate("PersistentLoad returned an error (together with a value) but Decode did not fail", line[:600], l[:100], g[:300])
                if info.startswith("F") and ncalls > int(info[1:]) and not res.startswith("ERR"):
                    ctx.violate("PersistentLoad returned an error but Decode did not fail", line, "ERR", g)
                if "PANIC" in g:
                    ctx.violate("Decode panicked", line, "value or error", g)
            else:
                rh, p, v, pd, su = info
                enc_tie(ctx, line, g, l, v)
                if rh == "-" and p == 0 and g.startswith("OK") and V.contains(
                        v, lambda x: x[0] == "R" and (x[1][0] != "S" or b"\n" in x[1][1])):
                    ctx.violate("protocol 0 wrote a persistent id that is not a single-line string instead of returning the documented error",
                                line[:600], "ERR p0-persid", g[:200])
                if rh in ("T", "N") and p == 0 and not g.startswith("ERR") and V.contains(v, lambda x: x[0] == "X"):
                    ctx.violate("protocol 0 cannot write the persistent id the hook returned (a tuple / a multi-line string), yet Encode "
                                "reported success", line[:600], "ERR p0-persid", g[:200])
                if kind == "enc" and rh.startswith("-") and "PANIC" in g:
                    ctx.violate("Encode panicked", line[:600], "bytes or error", g[:200])
                ctx.count(f"refhook={rh}:p{p}:{g.split(' ')[0]}{(':' + g.split(' ')[1]) if g.startswith('ERR') else ''}")
                if rh in ("S", "B") and g.startswith("OK "):
                    data = bytes.fromhex("".join(c for c in g[3:].split(",") if c != "-"))
                    # inverse hook: ids "id<n>" map back to object n -> decode must restore the graph
                    rt_lines.append((data, v, p, pd, su))
        # round trip with inverse hooks (implementation only: the model side is covered by enc + dech ties)
        if rt_lines:
            cfg_lines = []
            for (data, v, p, pd, su) in rt_lines:
                cfg_lines.append(f"dech {int(pd)}{int(su)} I {hexs(data)}")
            rgo, rlean = run_both(cfg_lines)
            for cl, (data, v, p, pd, su), g, l in zip(cfg_lines, rt_lines, rgo, rlean):
                ctx.evaluations += 1
                ctx.count("roundtrip-inverse-hooks")
                ctx.tie(cl, g, l)
                res = g.partition(" ; ")[0]
                # float text at protocol 0 keeps NaN-ness, not the payload ("FNaN")
                vn = V.mapv(v, lambda x: ("D", 0x7ff8000000000001) if p == 0 and x[0] == "D" and V.is_nan_bits(x[1]) else x)
                want = V.render(vn)
                got = res[3:].rsplit(" ", 1)[0] if res.startswith("OK ") else res
                if got != want and not self._expected_normalisation(v, p):
                    ctx.violate("Encode with PersistentRef followed by Decode with the inverse PersistentLoad did not restore the graph",
                                cl[:3000], want[:1500], got[:1500])
        for i in range(0, len(lines), max(1, len(lines) // 8)):
            ctx.sample(lines[i][:300] + " -> " + go[i][:200])

    def run_every_pointer(self, ctx):
        """PersistentRef is consulted for EVERY pointer-to-struct, the library's own struct types included: a hook that maps *big.Int
        objects (hook G) must see them wherever they occur; what is written is what the model writes for the value with those
        objects replaced by the references (the model's hooks know application objects only)."""
        rng = ctx.rng
        glines, mlines = [], []
        for _ in range(ctx.scale(150, 2500)):
            ns = [rng.choice([0, 1, -1, 2 ** 63, -2 ** 64 - 1, rng.getrandbits(90), 255]) for _ in range(3)]
            mk = rng.choice(["m", "d"])
            v = ("l", [("L", ns[0]), ("X", rng.randint(0, 9)), ("t", [("L", ns[1]), ("I", 5)]), (mk, [(("S", b"k"), ("L", ns[2]))]), ("N",)])
            sub = V.mapv(v, lambda x: ("R", ("S", b"big:" + str(x[1]).encode())) if x[0] == "L" else x)
            p, su = rng.randint(0, 5), rng.randint(0, 1)
            glines.append(f"enc {p} {su} G {V.render(v, sort=False)}")
            mlines.append(f"enc {p} {su} S {V.render(sub, sort=False)}")
        go = C.run_sharded(C.run_go, glines)
        lean = C.run_sharded(C.run_lean, mlines)
        for gl, g, l in zip(glines, go, lean):
            ctx.evaluations += 1
            ctx.count("every-pointer-to-struct:" + g.split(" ")[0])
            if "".join(g.split(",")) != "".join(l.split(",")):
                ctx.violate("PersistentRef maps *big.Int objects, yet they were not written as the references it returned (the hook must be "
                            "consulted for every pointer-to-struct)", gl[:3000], l[:600], g[:600])

    def run_same_named_types(self, ctx):
        """Two different struct types that print alike (`main.Node` twice), one with a tagged pointer field the hook maps: what is
        written for a value of the second type - references included - does not depend on whether a value of the first type went
        through the package before (each order runs in a process of its own)."""
        for p in range(6):
            alone = C.run_go([f"sametype 2 {p}"])[0]
            after = C.run_go([f"sametype 12 {p}"])[0]
            before = C.run_go([f"sametype 21 {p}"])[0]
            ctx.evaluations += 3
            ctx.count("same-named-types:" + ("OK" if "2=" in alone and "ERR" not in alone and "PANIC" not in alone else alone[:20]))
            want2 = alone.split("2=")[-1]

            def norm(x):      # tagged fields are written in map order: the chunks are compared as a multiset
                return sorted(x.split(","))
            for what, ans in (("after a value of the other type", after.split("2=")[-1]), ("before a value of the other type", before.split("2=")[-1].split(" ")[0])):
                if norm(ans) != norm(want2):
                    ctx.violate("Encode of a struct value (tagged pointer field mapped by PersistentRef) depends on what was encoded " + what +
                                " in the same process", f"sametype 12 / 21 / 2 {p}", want2[:600], ans[:600])
            want1 = C.run_go([f"sametype 1 {p}"])[0].split("1=")[-1]
            if norm(before.split("1=")[-1]) != norm(want1):
                ctx.violate("Encode of a struct value depends on what was encoded before in the same process", f"sametype 21 {p}", want1[:600],
                            before.split("1=")[-1][:600])

    def run_holders(self, ctx):
        """Mapped application objects reachable only through a pointer-typed field of another application struct
        (held by pointer, by value, with tagged fields; at top level and inside lists / tuples / maps): the encoder
        must consult PersistentRef there too. Implementation only (the struct encodes like a map with its field
        names as keys, so the expected round-trip result is known without the model)."""
        rng = ctx.rng
        cases = []
        for _ in range(ctx.scale(300, 5000)):
            pd, su = rng.random() < 0.5, rng.random() < 0.5
            g = V.ValueGen(rng, pydict=pd, su=su, canonical=True, maxdepth=2, allow_refs=False, allow_bad_class=False)
            inner = g.value()
            kind = rng.choice(["H", "h", "G"])
            x = ("X", rng.randint(0, 9)) if rng.random() < 0.85 else ("Nil",)
            h = (kind, inner, x)
            names = (b"a", b"b") if kind == "G" else (b"A", b"B")
            want_h = ("d" if pd else "m", [(("S", names[0]), inner), (("S", names[1]), x if x[0] == "X" else ("N",))])
            shape = rng.choice(["top", "list", "tuple", "nested", "values"])
            mk = "d" if pd else "m"
            if shape == "values":
                # typed slices of struct VALUES: PersistentRef is for pointers only, the elements are written as structs
                ns = [rng.randint(0, 9) for _ in range(rng.randint(0, 3))]
                ms = [rng.randint(0, 9) for _ in range(rng.randint(0, 2))]
                v = ("l", [("X", 1), ("u", ns), h, ("w", ms)])
                want = ("l", [("X", 1), ("l", [(mk, [(("S", b"N"), ("I", n))]) for n in ns]), want_h,
                              ("l", [(mk, [(("S", b"A"), ("I", n)), (("S", b"B"), ("X", n))]) for n in ms])])
            elif shape == "top":
                v, want = h, want_h
            elif shape == "list":
                v, want = ("l", [("X", 1), h, ("I", 5)]), ("l", [("X", 1), want_h, ("I", 5)])
            elif shape == "tuple":
                v, want = ("t", [h, h]), ("t", [want_h, want_h])
            else:
                v, want = ("H", h, ("X", 2)), ("d" if pd else "m", [(("S", b"A"), want_h), (("S", b"B"), ("X", 2))])
            cases.append((rng.randint(0, 5), pd, su, v, want))
        go = C.run_sharded(C.run_go, [f"enc {p} {int(su)} S {V.render(v, sort=False)}" for p, pd, su, v, want in cases])
        rt, rtm = [], []
        for (p, pd, su, v, want), g in zip(cases, go):
            ctx.evaluations += 1
            ctx.count("holder:enc:" + g.split(" ")[0])
            if "PANIC" in g:
                ctx.violate("Encode panicked on an application struct", V.render(v, sort=False)[:1500], "bytes", g[:300])
            if g.startswith("OK "):
                data = bytes.fromhex("".join(c for c in g[3:].split(" ")[0].split(",") if c != "-"))
                rt.append(f"dech {int(pd)}{int(su)} I {hexs(data)}")
                rtm.append((p, v, want))
        rgo = C.run_sharded(C.run_go, rt)
        for line, (p, v, want), g in zip(rt, rtm, rgo):
            ctx.evaluations += 1
            ctx.nontrivial(line)
            res = g.partition(" ; ")[0]
            wn = V.mapv(want, lambda x: ("D", 0x7ff8000000000001) if p == 0 and x[0] == "D" and V.is_nan_bits(x[1]) else x)
            got = res[3:].rsplit(" ", 1)[0] if res.startswith("OK ") else res
            if got != V.render(wn):
                ctx.violate("an application object held in a pointer field was not written as its persistent reference / not restored",
                            f"protocol {p}: " + V.render(v, sort=False)[:1500] + "  ->  " + line[:600], V.render(wn)[:1200], got[:1200])

    def run_nested_ids(self, ctx):
        """Persistent ids that themselves hold mapped application objects ((class-object, oid) ids as in ZODB): the hook
        must be consulted inside the id as well, and the inverse PersistentLoad must restore the graph. Implementation only
        (the model's substitution assumes plain ids — see the trusted base)."""
        rng = ctx.rng
        cases = []
        for _ in range(ctx.scale(150, 3000)):
            pd, su = rng.random() < 0.5, rng.random() < 0.5
            g = V.ValueGen(rng, pydict=pd, su=su, canonical=True, maxdepth=2, allow_refs=False, allow_bad_class=False)
            items = [g.value()] + [("X", rng.randint(0, 9)) for _ in range(rng.randint(1, 4))]
            rng.shuffle(items)
            cases.append((rng.randint(1, 5), pd, su, ("l", items) if rng.random() < 0.5 else ("t", items)))
        go = C.run_sharded(C.run_go, [f"enc {p} {int(su)} P {V.render(v, sort=False)}" for p, pd, su, v in cases])
        rt, rtm = [], []
        for (p, pd, su, v), g in zip(cases, go):
            ctx.evaluations += 1
            ctx.count("nested-id:enc:" + g.split(" ")[0])
            if g.startswith("OK "):
                data = bytes.fromhex("".join(c for c in g[3:].split(" ")[0].split(",") if c != "-"))
                rt.append(f"dech {int(pd)}{int(su)} J {hexs(data)}")
                rtm.append((p, v))
        for line, (p, v), g in zip(rt, rtm, C.run_sharded(C.run_go, rt)):
            ctx.evaluations += 1
            ctx.nontrivial(line)
            res, _, calls = g.partition(" ; ")
            got = res[3:].rsplit(" ", 1)[0] if res.startswith("OK ") else res
            nx = V.render(v).count("X")
            if got != V.render(v):
                ctx.violate("ids holding mapped application objects: Encode with PersistentRef + Decode with the inverse hook did not "
                            "restore the graph", f"protocol {p}: {V.render(v, sort=False)[:1200]}  ->  {line[:400]}", V.render(v)[:1200], got[:1200])
            elif calls.count("R( ") != 2 * nx:
                ctx.violate("PersistentLoad was not called once per reference (outer and inner ids)", line[:400], 2 * nx, calls.count("R( "))

    @staticmethod
    def _expected_normalisation(v, p):
        # values are generated canonical for their own (pydict, su) so the round trip is the identity,
        # except bytearray calls below protocol 5 decode through the announced protocol (by design) - still identity.
        return False


# ------------------------------------------------------------------------------------------- C19

def int_forms(n):
    forms = [("INT", P.INT(n)), ("LONG", P.LONG(n))]
    if -2 ** 2030 < n < 2 ** 2030:
        forms.append(("LONG1", P.LONG1(n)))
        if len(P.long_bytes(n)) < 250:
            forms.append(("LONG1pad", P.LONG1(n, pad=3)))
    if 0 <= n < 256:
        forms.append(("BININT1", P.BININT1(n)))
    if 0 <= n < 65536:
        forms.append(("BININT2", P.BININT2(n)))
    if -2 ** 31 <= n < 2 ** 31:
        forms.append(("BININT", P.BININT(n)))
    return forms


def payload_forms(s):
    """(name, bytes, kind) kind: 'str2' py2 str, 'uni' unicode, 'bytes', 'bytearray'."""
    out = [("BINSTRING", P.BINSTRING(s), "str2"), ("STRING", P.STRING(s), "str2"),
           ("STRING-gorepr", b"S" + go_pyquote(s) + b"\n", "str2"),
           ("BINBYTES", P.BINBYTES(s), "bytes"), ("BYTEARRAY8", P.BYTEARRAY8(s), "bytearray")]
    if len(s) < 256:
        out += [("SHORT_BINSTRING", P.SHORT_BINSTRING(s), "str2"), ("SHORT_BINBYTES", P.SHORT_BINBYTES(s), "bytes")]
    if not any(c in s for c in b"'\\\n"):
        # the payload bytes as they are between the quotes (legal for the string-escape codec whatever the bytes; repr never writes it)
        out.append(("STRING-raw", b"S'" + s + b"'\n", "str2"))
    out.append(("BINUNICODE", P.BINUNICODE(s), "uni"))
    if len(s) < 256:
        out.append(("SHORT_BINUNICODE", P.SHORT_BINUNICODE(s), "uni"))
    try:
        u = s.decode("utf-8")
        out.append(("UNICODE", P.UNICODE_text(u), "uni"))
    except UnicodeDecodeError:
        pass
    return out


def go_pyquote(s):
    """A second quoting of a byte string: double quotes, \\x escapes for everything non-printable ASCII."""
    out = bytearray(b'"')
    for b in s:
        if b in (0x22, 0x5c):
            out += b"\\" + bytes([b])
        elif 0x20 <= b < 0x7f:
            out.append(b)
        else:
            out += b"\\x%02x" % b
    out += b'"'
    return bytes(out)


def py2_string_lines(payloads):
    """The STRING lines Python 2's pickler writes for these byte strings (protocol 0, memo PUT stripped), or None without python2."""
    import subprocess
    prog = ("import sys, pickle\n"
            "for l in sys.stdin:\n"
            "    s = l.strip().decode('hex')\n"
            "    d = pickle.dumps(s, 0)\n"
            "    i = d.rindex('\\np')\n"
            "    sys.stdout.write(d[:i + 1].encode('hex') + '\\n')\n")
    try:
        r = subprocess.run(["python2", "-c", prog], input="".join(s.hex() + "\n" for s in payloads).encode(), capture_output=True,
                           env=dict(os.environ, PYENV_VERSION="2.7.18"), timeout=600)
    except (OSError, subprocess.TimeoutExpired):
        return None
    out = r.stdout.decode().split("\n")[:-1]
    if r.returncode != 0 or len(out) != len(payloads):
        return None
    return [bytes.fromhex(x) for x in out]


class C19:
    prop = "C19"
    lean_module = "Ogorek.Props.C19U"
    theorems = ["Ogorek.parseDecimal_fmtInt", "Ogorek.decodeLong_twos", "Ogorek.C19_INT", "Ogorek.C19_LONG", "Ogorek.C19_BININT1",
                "Ogorek.C19_BININT2", "Ogorek.C19_BININT", "Ogorek.C19_LONG1", "Ogorek.C19_LONG1_zero", "Ogorek.C19_counted",
                "Ogorek.C19_helpers", "Ogorek.C19_key", "Ogorek.C19_UNICODE_cpython", "Ogorek.C19_UNICODE_cpython_asString",
                "Ogorek.C19_STRING_py2repr", "Ogorek.py2repr_body_inv", "Ogorek.cpRue_inv", "Ogorek.cpRue_no_lf"]
    trusted_base = TB_COMMON
    level_text = ("Lean theorems, for EVERY integer n and every opcode form able to carry it: INT text, LONG text, BININT1, BININT2, BININT, "
                  "LONG1 of every width 1..255 into which n fits (decodeLong proved to be two's complement for all widths — the F1 "
                  "area), the instruction read pushes a value on which AsInt64 answers n iff n fits int64 (C19_INT … C19_LONG1, "
                  "from parseDecimal_fmtInt and decodeLong_twos); every counted string/bytes opcode delivers its payload unchanged as the "
                  "documented kind and AsString/AsBytes accept exactly unicode+py2-str / bytes+py2-str in both StrictUnicode modes "
                  "(C19_counted, C19_helpers); int64 and *big.Int forms of one integer are equal Dict keys with equal hash (C19_key). "
                  "The text forms STRING / UNICODE as the encoder writes them are covered by the codec inverse theorems of C03 (pyquote_inv, rue_inv); "
                  "The text forms as OTHER picklers write them: for EVERY text, the UNICODE line CPython's pickler writes (its own "
                  "raw_unicode_escape: backslash, LF, CR, NUL, 0x1a as \\u00XX, U+0100.. as \\uXXXX / \\UXXXXXXXX, Latin-1 as single bytes; model "
                  "cpRue, tied byte for byte to pickle.dumps in C02) is read back as exactly that text (C19_UNICODE_cpython, from cpRue_inv / "
                  "cpRue_no_lf); for EVERY byte string, the STRING line Python 2's pickler writes (repr: quote choice, \\\\ \\' \\t \\n \\r, \\xNN; "
                  "model py2repr, tied here to Python 2's own pickle.dumps where python2 is installed and to repr(bytes) of Python 3) is read "
                  "back as exactly those bytes (C19_STRING_py2repr). Lines in yet other spellings (hand-written escapes, Go-style quoting) are "
                  "tied by correspondence and compared with Python's codecs.")
    level_note = "trusted: Lean kernel + standard axioms; decoder parse layer and typeconv model; strconv.ParseInt/big.SetString as `[+-]?[0-9]+`"
    technique = "Lean 4 proof (decimal and two's-complement round-trip lemmas, per-opcode evaluation) + differential correspondence over integers x forms"
    rule = ("integers: quick: -300..300, boundary lattice +-2^k+d (k<=70, and k up to 2031 for LONG1 widths 1..255), random 64-bit; "
            "thorough: exhaustively -2^16..2^16 in addition; x every applicable opcode form (INT, LONG, LONG1 minimal and padded, "
            "BININT, BININT1, BININT2); payloads from the adversarial alphabet x 11 opcode forms x StrictUnicode; in PyDict mode pairs of "
            "forms of one integer as keys of one dict; distinct = distinct (form, value) cases")
    assumptions = []

    def run(self, ctx):
        rng = ctx.rng
        ints = set(range(-300, 301)) | set(V.INT_LATTICE)
        for k in list(range(71, 2031, 37)) + [127 * 8 - 1, 127 * 8, 128 * 8 - 1, 128 * 8, 255 * 8 - 2, 2030]:
            for d in (-1, 0, 1):
                ints.add(2 ** k + d)
                ints.add(-(2 ** k) + d)
        for _ in range(ctx.scale(300, 5000)):
            ints.add(rng.getrandbits(64) - 2 ** 63)
            ints.add(rng.getrandbits(rng.choice([70, 100, 500])) * rng.choice([1, -1]))
        if ctx.thorough:
            ints |= set(range(-2 ** 16, 2 ** 16 + 1))
            ctx.exhaustive = True
        lines, meta = [], []
        for n in sorted(ints):
            for name, b in int_forms(n):
                cfg = rng.choice(CFGS)
                lines.append(f"conv {cfg} {hexs(b + b'.')}")
                meta.append(("int", name, n))
        payloads = [b"", b"a", b"abc", b"'", b'"', b"\\", b"\n", b"a\nb", b"\x00", b"\xff", b"\xc3\xa9", "€".encode(), b"\\x41",
                    b"\\u0041", b"'\"", b"x" * 255, b"y" * 256, b"z" * 300, b"\x80abc", b"\r\n\t", b"\x1a\x7f"]
        payloads += [bytes([b]) for b in range(256)]                       # every byte value on its own
        # text of Latin-1 letters whose raw bytes (as UNICODE writes them) happen to be valid UTF-8 of something else
        payloads += [t.encode() for t in ("\u00c3\u00a9", "na\u00c3\u00afve", "\u00e2\u0082\u00ac", "\u00c2\u00a0x", "\u00f0\u009f\u0098\u0080",
                                          "\u00c3\u00a9\u00ff", "ab\u00c5\u0093")]
        for _ in range(ctx.scale(40, 600)):
            payloads.append("".join(chr(rng.choice([rng.randint(0x80, 0xff), rng.randint(0xc2, 0xf4), rng.randint(0x80, 0xbf), 0x41]))
                                    for _ in range(rng.randint(1, 6))).encode())
        payloads += [b"p" * n for n in (4094, 4095, 4096, 4097, 8191, 8192, 8193, 9000, 12289, 20000, 65535, 65536, 65537, 70000)]   # text lines over 1, 2, 3+ bufio buffers, over 64 KiB
        payloads += [("\u20ac" * 3000).encode(), b"q" * 8190 + b"'\"\\\n" + b"r" * 5000]
        for _ in range(ctx.scale(250, 4000)):
            payloads.append(V.rand_bytes(rng, maxchunks=5))
        for s in payloads:
            for name, b, kind in payload_forms(s):
                for su in "01":
                    lines.append(f"conv {rng.choice('01')}{su} {hexs(b + b'.')}")
                    meta.append(("payload", name, (s, kind, su)))
        # the same payload forms inside a protocol-4 FRAME that announces its true length - frames of 4090 .. 70000 bytes, longer than
        # the reader's 4096-byte buffer: a frame is a hint, what it carries is delivered unchanged
        import struct as _st
        for n in (100, 4082, 4090, 4096, 5000, 65535, 70000):
            s = bytes((i * 11 + 5) % 251 for i in range(n))
            for name, b, kind in payload_forms(s):
                if name in ("BINSTRING", "BINBYTES", "BINUNICODE", "BYTEARRAY8"):
                    for su in "01":
                        body = b + b"."
                        framed = bytes([0x80, 4, 0x95]) + _st.pack("<Q", len(body)) + body
                        lines.append(f"conv {rng.choice('01')}{su} {hexs(framed)}")
                        meta.append(("payload", name + "-in-frame", (s, kind, su)))
        # an EMPTY payload in a 4/8-byte-length form right after a non-empty string load (one scratch buffer serves them all):
        # every form must still deliver the empty payload
        for first in (P.SHORT_BINSTRING(b"abc"), P.SHORT_BINBYTES(b"wxyz"), P.BINUNICODE(b"hello"), P.BINSTRING(b"q" * 300)):
            for name, form in (("BINSTRING", P.BINSTRING(b"")), ("BINBYTES", P.BINBYTES(b"")), ("BYTEARRAY8", P.BYTEARRAY8(b"")),
                               ("BINUNICODE", P.BINUNICODE(b"")), ("SHORT_BINSTRING", P.SHORT_BINSTRING(b""))):
                for su in "01":
                    lines.append(f"dec {rng.choice('01')}{su} - {hexs(b'(' + first + form + form + b't.')}")
                    meta.append(("empty-after", name, None))
        # UNICODE lines made of backslash tokens in every order (what other picklers and hand-written pickles contain): the text is
        # what Python's raw-unicode-escape decoder gives
        for t in P.escape_sequence_lines():
            try:
                want = t.decode("raw-unicode-escape").encode("utf-8")
            except (UnicodeDecodeError, UnicodeEncodeError):
                want = None
            prog = b"V" + t + b"\n."
            for su in "01":
                lines.append(f"conv {rng.choice('01')}{su} {hexs(prog)}")
                meta.append(("uniline", "UNICODE-escapes", want))
        # two integers in one pickle, each in every form: what the reading of one argument leaves behind (a scratch buffer, a cached
        # width) must not reach the next - in one pickle and across two Decode calls on one Decoder
        firsts = [70000, -1, 2 ** 31 - 1, -2 ** 31, 0x01020304, 255, 65535, 2 ** 63 - 1, -2 ** 63, 2 ** 64 + 0x0a0b0c0d, -(2 ** 70) - 3]
        seconds = [300, 0, 255, 65535, 7, -5, 0x0102, 2 ** 40 + 1]
        for n1 in firsts:
            for n2 in (seconds if ctx.thorough else rng.sample(seconds, 4)):
                for na, fa in int_forms(n1):
                    for nb, fb in int_forms(n2):
                        lines.append(f"dec {rng.choice(CFGS)} - {hexs(b'(' + fa + fb + b't.')}")
                        meta.append(("int-pair", f"{na}/{nb}", (n1, n2)))
                        if rng.random() < 0.25:
                            lines.append(f"decs {rng.choice(CFGS)} - {hexs(fa + b'.' + fb + b'.')}")
                            meta.append(("int-stream", f"{na}/{nb}", (n1, n2)))
        # likewise two payloads of different length, each in every counted / text form
        for s1, s2 in ((b"abcdefgh", b"xy"), (b"x" * 300, b"\xe9"), (b"", b"q"), (b"\xff\xfe", b""), (b"0123456789" * 30, b"ab\ncd")):
            for na, fa, ka in payload_forms(s1):
                for nb, fb, kb in payload_forms(s2):
                    lines.append(f"dec {rng.choice(CFGS)} - {hexs(b'(' + fa + fb + b't.')}")
                    meta.append(("payload-pair", f"{na}/{nb}", (s1, s2)))
        # a pickle longer than the reader's 4096-byte buffer made of one long payload and then many short ones in a one-byte-length
        # form: wherever a short payload straddles the buffer boundary it is still delivered unchanged
        for form in (P.SHORT_BINSTRING, P.SHORT_BINBYTES, P.SHORT_BINUNICODE):
            for first in (P.BINSTRING(b"blob"), P.BINBYTES(b"0123456789" * 30), P.BINUNICODE(b"u" * 7)):
                for shift in range(0, 12, 5):
                    items = [b"item-%05d" % i for i in range(700)]
                    prog = b"(" + first + P.SHORT_BINSTRING(b"s" * shift) + b"".join(form(x) for x in items) + b"t."
                    lines.append(f"dec {rng.choice(CFGS)} - {hexs(prog)}")
                    meta.append(("many-short", form.__name__, items))
        # one integer, two representations, one Dict entry
        for n in rng.sample(sorted(i for i in ints if -2 ** 200 < i < 2 ** 200), ctx.scale(150, 2000)):
            fs = int_forms(n)
            (n1, f1), (n2, f2) = rng.choice(fs), rng.choice(fs)
            prog = b"}" + f1 + b"K\x07s" + f2 + b"K\x08s."
            lines.append(f"dec 1{rng.choice('01')} - {hexs(prog)}")
            meta.append(("key", f"{n1}/{n2}", n))
        go, lean = run_both(lines)
        for line, (kind, name, info), g, l in zip(lines, meta, go, lean):
            ctx.evaluations += 1
            ctx.tie(line, g, l)
            ctx.nontrivial((kind, name, str(info)))
            ctx.count(f"{kind}:{name}")
            if kind == "int":
                n = info
                want = f"I:{n} S:ERR B:ERR" if -2 ** 63 <= n < 2 ** 63 else "I:ERR S:ERR B:ERR"
                if g != want:
                    ctx.violate(f"AsInt64 of the value decoded from the {name} form of {n if abs(n) < 10**30 else 'a big integer'}", line[:400], want, g)
            elif kind == "payload":
                s, k, su = info
                h = hexs(s)
                want = {"str2": f"I:ERR S:{h} B:{h}" if su == "1" else f"I:ERR S:{h} B:ERR",
                        "uni": f"I:ERR S:{h} B:ERR", "bytes": f"I:ERR S:ERR B:{h}", "bytearray": "I:ERR S:ERR B:ERR"}[k]
                if g != want:
                    ctx.violate(f"AsString/AsBytes on the value decoded from {name} (StrictUnicode={su})", line[:400], want, g)
            elif kind == "uniline":
                if info is not None and g != f"I:ERR S:{hexs(info)} B:ERR":
                    ctx.violate("AsString on the value decoded from a UNICODE line with backslash escapes", line[:400],
                                f"I:ERR S:{hexs(info)} B:ERR", g)
            elif kind == "int-pair":
                m = re.match(r"OK t\( [IL](-?\d+) [IL](-?\d+) \) \d+$", g)
                if not m or (int(m.group(1)), int(m.group(2))) != info:
                    ctx.violate(f"two integers in one pickle ({name} forms) are not both delivered", line[:400], f"t( {info[0]} {info[1]} )", g[:300])
            elif kind == "int-stream":
                m = re.match(r"OK [IL](-?\d+) \d+ \| OK [IL](-?\d+) \d+ \| ERR eof$", g)
                if not m or (int(m.group(1)), int(m.group(2))) != info:
                    ctx.violate(f"two integers in two pickles of one stream ({name} forms) are not both delivered", line[:400],
                                f"{info[0]} | {info[1]}", g[:300])
            elif kind == "payload-pair":
                m = re.match(r"OK t\( [SYBA](\S+) [SYBA](\S+) \) \d+$", g)
                if not m or (m.group(1), m.group(2)) != (hexs(info[0]), hexs(info[1])):
                    ctx.violate(f"two payloads in one pickle ({name} forms) are not both delivered unchanged", line[:400],
                                f"{hexs(info[0])[:80]} {hexs(info[1])[:80]}", g[:300])
            elif kind == "many-short":
                toks = g.split(" ")
                got = [t[1:] for t in toks[4:-2]] if g.startswith("OK t( ") else None
                if got != [hexs(x) for x in info]:
                    bad = next((i for i, (a, b) in enumerate(zip(got or [], [hexs(x) for x in info])) if a != b), 0) if got else -1
                    ctx.violate(f"a short payload ({name}) in a pickle longer than the read buffer is not delivered unchanged", line[:300],
                                f"item {bad}: {hexs(info[bad]) if bad >= 0 else 'a tuple'}", (got[bad] if got and bad < len(got) else g[:200]))
            elif kind == "empty-after":
                m = re.match(r"OK t\( \S+ (\S+) (\S+) \) \d+$", g)
                if not m or m.group(1)[1:] != "-" or m.group(2)[1:] != "-":
                    ctx.violate(f"an empty {name} payload after a non-empty string load is not delivered empty", line[:400],
                                "OK t( <first> <empty> <empty> )", g[:300])
            else:
                m = re.match(r"OK d\( (\S+) I8 \) \d+$", g)
                if not m:
                    ctx.violate("two representations of one integer did not address the same Dict entry", line[:400], "OK d( <n> I8 )", g)
        # the model of Python 2's repr (what C19_STRING_py2repr quantifies over) against Python: repr(bytes) of this interpreter and,
        # where a Python 2 is installed, the STRING line its pickler really writes
        rs = [s for s in payloads if len(s) <= 9000]
        got = C.run_sharded(C.run_lean, [f"py2repr {hexs(s)}" for s in rs])
        real2 = py2_string_lines(rs)
        ctx.count("py2repr:python2-available" if real2 is not None else "py2repr:python2-absent")
        for i, (s, l) in enumerate(zip(rs, got)):
            ctx.evaluations += 1
            want = "OK " + hexs(P.py_repr_bytes(s))
            ctx.count("py2repr:model-vs-repr")
            if l != want:
                ctx.disagree(f"py2repr {hexs(s)[:300]}", "repr(bytes): " + want[:600], l[:600], "py2repr model")
            if real2 is not None:
                ctx.count("py2repr:model-vs-python2-pickle")
                if real2[i] != b"S" + P.py_repr_bytes(s) + b"\n":
                    ctx.disagree(f"py2repr {hexs(s)[:300]}", "python2 pickle.dumps: " + hexs(real2[i])[:600],
                                 hexs(b"S" + P.py_repr_bytes(s) + b"\n")[:600], "py2repr model")
        for i in range(0, len(lines), max(1, len(lines) // 8)):
            ctx.sample(lines[i][:200] + " -> " + go[i][:120])
