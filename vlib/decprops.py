"""Decoder-side properties: C04, C10, C11, C14, C16, C17, C18, C19."""
import os
import re

from . import common as C
from . import programs as P
from . import values as V

CFGS = ["00", "01", "10", "11"]

TB_COMMON = [
    "Lean 4.33.0 kernel; axioms limited to propext, Classical.choice, Quot.sound (audited per theorem each run)",
    "hand-written Lean model of ogorek.go / pyquote.go / dict.go / typeconv.go (modelled, not verified); tied to /repo by "
    "the correspondence run of this check (Go harness on the real package vs compiled Lean driver on the same case lines)",
    "facts regenerated from /repo's source by /verif/extract (go/ast) on every run",
    "Go standard library behaviour as modelled: bufio/io readers, strconv.ParseInt/ParseFloat/UnquoteChar, math/big decimal text, unicode/utf8",
    "/verif/harness (canonicaliser), /verif/vlib (generators, comparison), /verif/check",
]


def hexs(b):
    return b.hex() if b else "-"


def corpus_files(limit=None):
    d = os.path.join(C.REPO, "fuzz", "corpus")
    try:
        names = sorted(os.listdir(d))
    except FileNotFoundError:
        return []
    if limit:
        names = names[:: max(1, len(names) // limit)]
    out = []
    for n in names:
        try:
            out.append(open(os.path.join(d, n), "rb").read())
        except OSError:
            pass
    return out


def own_corpus(prop):
    """Minimised past disagreements, run first (one hex input per line, '#' comments)."""
    path = os.path.join(C.VERIF, "corpus", f"{prop}.txt")
    out = []
    try:
        for line in open(path):
            line = line.split("#")[0].strip()
            if line:
                out.append(bytes.fromhex(line) if line != "-" else b"")
    except FileNotFoundError:
        pass
    return out


def op_names(data):
    """Rough opcode histogram of a pickle (first byte of each … approximated by byte values that are opcodes)."""
    return data[:1].hex() if data else "empty"


def dec_class(ans):
    f = ans.split(" ")
    if f[0] == "OK":
        return "OK"
    return " ".join(f[:2])


def run_both(lines):
    go = C.run_sharded(C.run_go, lines)
    lean = C.run_sharded(C.run_lean, lines)
    return go, lean


NON_OPCODES = None


def pickletools_codes():
    import pickletools
    return {ord(o.code): (o.name, o.proto) for o in pickletools.opcodes}


# ------------------------------------------------------------------------------------------- C04

class C04:
    prop = "C04"
    level_text = ("Lean theorems over the decoder model for ALL inputs, configurations, hooks and prior states: no panic outcome is "
                  "reachable (C04_no_panic), every instruction consumes >= 1 byte and the loop needs <= len+1 iterations "
                  "(C04_consumes, C04_progress), pre-allocation is <= 64 KiB whatever the length field and returned payloads were "
                  "present (C04_alloc, C04_alloc_payload), unsupported opcode bytes give OpcodeError with that byte (C04_opcode), "
                  "PROTO > 5 gives ErrInvalidPickleVersion (C04_proto); the model is tied to /repo by a correspondence run on ~20k "
                  "(quick) inputs per run and by regenerated facts (C04_facts). Real memory/time are measured, not proved.")
    level_note = ("trusted: Lean kernel + propext/Classical.choice/Quot.sound; the hand-written decoder model (validated against the "
                  "implementation on every run, exact outcome agreement required); Go runtime behaviour (stack growth, GC) outside the model")
    technique = "Lean 4 proof over an executable decoder model + differential correspondence (Go vs compiled Lean driver) + go/ast facts"
    lean_module = "Ogorek.Props.C04"
    theorems = ["Ogorek.C04_no_panic", "Ogorek.C04_consumes", "Ogorek.C04_progress", "Ogorek.C04_alloc",
                "Ogorek.C04_alloc_payload", "Ogorek.C04_opcode", "Ogorek.C04_proto", "Ogorek.C04_facts"]
    trusted_base = TB_COMMON + ["Go runtime: real memory use and wall-clock are measured (TotalAlloc delta, timeouts), not proved"]
    rule = ("inputs: all 256 single opcode bytes (alone and followed by STOP), all 256 PROTO arguments, every length-prefixed "
            "opcode x huge lengths x {no payload, 1 byte, complete}, the repository fuzz corpus, seeded mutations/splices of it, "
            "generated opcode programs (well-formed and chaotic), own corpus of past disagreements; x 4 decoder configurations. "
            "distinct = distinct (config,input); non-trivial = input has at least 2 bytes")
    assumptions = ["inputs up to 16 KiB", "stack overflow of the Go runtime on pathological nesting is outside the model",
                   "CPU cost of hashing DAG-shaped tuple keys is exponential in og-rek and CPython alike; terminates; outside the statement"]

    def inputs(self, ctx):
        rng = ctx.rng
        ins = []
        for b in own_corpus("C04"):
            ins.append(("own", b))
        for k in range(256):
            ins.append(("opcode", bytes([k])))
            ins.append(("opcode", bytes([k]) + b"."))
            ins.append(("opcode", b"K\x01" + bytes([k]) + b"."))
            ins.append(("opcode", b"(K\x01K\x02" + bytes([k]) + b"."))
        for v in range(256):
            ins.append(("proto", b"\x80" + bytes([v]) + b"N."))
        for b in P.length_field_cases():
            ins.append(("length", b))
        corpus = corpus_files(ctx.scale(500, None))
        for b in corpus:
            ins.append(("corpus", b))
        base = corpus or [b"K\x01."]
        for _ in range(ctx.scale(1500, 40000)):
            ins.append(("mutant", P.mutate(rng, rng.choice(base))))
        for _ in range(ctx.scale(300, 8000)):
            ins.append(("splice", P.splice(rng, rng.choice(base), rng.choice(base))))
        for _ in range(ctx.scale(1200, 30000)):
            g = P.ProgGen(rng, wellformed=rng.random() < 0.6, unsupported=0.02, persid=0.03,
                          maxops=rng.choice([6, 15, 40, 120]))
            ins.append(("program", g.gen()))
        if ctx.thorough:
            ins += self.exhaustive_short()
        return ins

    def exhaustive_short(self):
        """All programs of <= 3 opcodes over minimal argument forms."""
        atoms = [b"(", b"0", b"1", b"2", b"N", b"K\x01", b"I1\n", b"L1L\n", b"F1\n", b"S'a'\n", b"Va\n", b"U\x01a", b"C\x01a",
                 b"X\x01\x00\x00\x00a", b"\x96\x01\x00\x00\x00\x00\x00\x00\x00a", b"]", b")", b"}", b"l", b"t", b"d", b"a", b"e",
                 b"s", b"u", b"\x85", b"\x86", b"\x87", b"R", b"Q", b"Pa\n", b"cm\nn\n", b"\x93", b"\x94", b"q\x00", b"h\x00",
                 b"p0\n", b"g0\n", b"\x88", b"\x8a\x01\x01", b"G\x00\x00\x00\x00\x00\x00\x00\x00", b"\x80\x02", b"\x95" + b"\0" * 8,
                 b"b", b"i", b"o", b"\x81", b"\x97", b"\x98", b"\x8c\x01a", b"J\x01\x00\x00\x00", b"M\x01\x00", b"T\x01\x00\x00\x00a",
                 b"B\x01\x00\x00\x00a", b"r\x00\x00\x00\x00", b"j\x00\x00\x00\x00"]
        out = []
        for a in atoms:
            out.append(("short", a + b"."))
            for b in atoms:
                out.append(("short", a + b + b"."))
                for c in atoms:
                    out.append(("short", a + b + c + b"."))
        return out

    def run(self, ctx):
        ins = self.inputs(ctx)
        lines, meta = [], []
        seen = set()
        for kind, data in ins:
            data = data[:16384]
            cfgs = CFGS if kind not in ("short",) else [ctx.rng.choice(CFGS)]
            for cfg in cfgs:
                key = (cfg, data)
                if key in seen:
                    continue
                seen.add(key)
                lines.append(f"dec {cfg} - {hexs(data)}")
                meta.append((kind, cfg, data))
        go, lean = run_both(lines)
        codes = pickletools_codes()
        for line, (kind, cfg, data), g, l in zip(lines, meta, go, lean):
            ctx.evaluations += 1
            ctx.count("kind:" + kind)
            ctx.count("outcome:" + dec_class(g))
            if len(data) >= 2:
                ctx.nontrivial((cfg, data))
            ctx.tie(line, g, l)
            # the property, evaluated directly on the implementation
            if "PANIC" in g or g.startswith("CRASH"):
                ctx.violate("Decode panicked / crashed / timed out", line, "a value or an error", g)
            if g.startswith("ERR") and "NONNIL" in g:
                ctx.violate("Decode returned a non-nil value together with an error", line, "nil value", g)
            if kind == "opcode" and len(data) <= 2:
                k = data[0]
                if k not in codes and g != f"ERR opcode:{k}":
                    ctx.violate("a byte that is no pickle opcode is not reported as OpcodeError with that byte", line, f"ERR opcode:{k}", g)
            if kind == "opcode" and len(data) == 1 and l == f"ERR opcode:{data[0]}" and g != l:
                ctx.violate("an opcode byte the decoder does not implement is not reported as OpcodeError with that byte", line, l, g)
            m = re.match(r"ERR opcode:(\d+)", g)
            if m and kind == "opcode" and len(data) <= 2 and int(m.group(1)) != data[0]:
                ctx.violate("OpcodeError carries the wrong byte", line, f"opcode:{data[0]}", g)
            if kind == "proto":
                v = data[1]
                want = "OK N 4" if v <= 5 else "ERR invalidVersion"
                if g != want:
                    ctx.violate("PROTO version handling", line, want, g)
        for s in [lines[i] + " -> " + go[i] for i in range(0, len(lines), max(1, len(lines) // 10))][:10]:
            ctx.sample(s)
        # supported-opcode table measured on the implementation vs the model (behavioural fact)
        sup_go = sorted(k for k in range(256) if go[lines.index(f"dec 00 - {hexs(bytes([k]))}")] != f"ERR opcode:{k}")
        sup_lean = sorted(k for k in range(256) if lean[lines.index(f"dec 00 - {hexs(bytes([k]))}")] != f"ERR opcode:{k}")
        ctx.notes.append(f"supported opcode bytes measured on the implementation: {len(sup_go)}; model: {len(sup_lean)}")
        if sup_go != sup_lean:
            ctx.disagree("supported opcode set", str(sup_go), str(sup_lean), "measured opcode table")
        # allocation: length field without payload must not drive allocation
        alines, ameta = [], []
        for b in P.length_field_cases():
            for cfg in ("00", "11"):
                alines.append(f"alloc {cfg} {hexs(b)}")
                ameta.append(b)
        aout = C.run_go(alines)
        worst = 0
        for line, b, a in zip(alines, ameta, aout):
            ctx.evaluations += 1
            ctx.count("alloc-probe")
            try:
                n = int(a.split()[0])
            except (ValueError, IndexError):
                ctx.violate("allocation probe crashed", line, "a number", a)
                continue
            worst = max(worst, n - 8 * len(b))
            # model bound: prealloc <= 65536, the rest proportional to bytes present; generous slack for bufio (4096) and runtime
            if n > 65536 * 2 + 16 * len(b) + 262144:
                ctx.violate("allocation driven by a length field, not by bytes present", line, "<= 128KiB + 16*len + slack", a)
        ctx.notes.append(f"largest TotalAlloc delta beyond 8*len(input) over {len(alines)} length-field probes: {worst} bytes")


# ------------------------------------------------------------------------------------------- C10

class C10:
    prop = "C10"
    level_text = ("Lean theorem C10_trunc: for every input that is exactly one successfully decoded pickle, every proper non-empty "
                  "prefix yields io.ErrUnexpectedEOF (and C10_empty_is_eof: no bytes yields io.EOF), for all configurations, hooks "
                  "and prior states; proved from locality/truncation lemmas of the four reader combinators lifted through every opcode "
                  "(Lemmas/Reader.lean). Tied to /repo by decoding every cut of generated pickles on both sides each run.")
    level_note = ("trusted: Lean kernel + standard axioms; the decoder model's parse layer (readByte/readFull/copyN/readLine as models of "
                  "bufio/io), validated on every cut position of ~1700 pickles per quick run")
    technique = "Lean 4 proof (reader-combinator locality/truncation lemmas, induction over the decode loop) + differential correspondence on all cuts"
    lean_module = "Ogorek.Props.C10"
    theorems = ["Ogorek.C10_empty_is_eof", "Ogorek.C10_trunc"]
    trusted_base = TB_COMMON
    rule = ("valid pickles: Encode output of generated values at protocols 0-5, CPython pickles (3 pickler variants), generated "
            "well-formed programs, long text lines (> 4096 bytes), LONG1, 8-byte length prefixes, frames; every cut position k of "
            "every pickle (<= 2 KiB; opcode-boundary neighbourhood + random cuts for longer ones) x decoder configurations; "
            "distinct = distinct (config, pickle); non-trivial = pickle longer than 3 bytes")
    assumptions = ["errors are compared with errors.Is"]

    def pickles(self, ctx):
        rng = ctx.rng
        out = [b"N.", b"K\x01.", b"\x80\x02]q\x00(K\x01K\x02e.", b"I1\n.", b"S'abc'\n.", b"V\\u0100\n.",
               b"\x8a\x02\xff\x7f.", b"\x96\x03\x00\x00\x00\x00\x00\x00\x00abc.", b"\x80\x04\x95\x05\x00\x00\x00\x00\x00\x00\x00\x8c\x01a\x94.",
               b"cdecimal\nDecimal\n(S'1'\ntR.", b"(I1\nI2\ndp0\n.", b"Pabc\n.", b"K\x01Q.", b"L" + b"1" * 5000 + b"L\n.",
               b"S'" + b"x" * 4094 + b"'\n.", b"S'" + b"x" * 4095 + b"'\n.", b"S'" + b"x" * 4093 + b"'\n.", b"V" + b"y" * 9000 + b"\n.",
               b"F1.5\n.", b"G" + b"\x3f\xf8" + b"\0" * 6 + b".", b"T\x03\x00\x00\x00abc.", b"X\x03\x00\x00\x00abc.", b"B\x03\x00\x00\x00abc."]
        out += own_corpus("C10")
        # encoder output (through the implementation itself)
        vals = []
        for _ in range(ctx.scale(150, 3000)):
            cfgd, su = rng.random() < 0.5, rng.random() < 0.5
            g = V.ValueGen(rng, pydict=cfgd, su=su, canonical=True, maxdepth=3)
            vals.append((rng.randint(0, 5), su, g.value()))
        enc_lines = [f"enc {p} {int(su)} - {V.render(v, sort=False)}" for p, su, v in vals]
        for a in C.run_go(enc_lines):
            if a.startswith("OK "):
                out.append(b"".join(bytes.fromhex(c) if c != "-" else b"" for c in a[3:].split(",")))
        # CPython pickles
        from . import pyside
        for obj in pyside.rand_objects(rng, ctx.scale(100, 2000)):
            for data in pyside.pickle_variants(obj, rng, n=2):
                out.append(data)
        for _ in range(ctx.scale(150, 3000)):
            out.append(P.ProgGen(rng, wellformed=True, maxops=rng.choice([5, 12, 30])).gen())
        return out

    def run(self, ctx):
        rng = ctx.rng
        lines, meta = [], []
        seen = set()
        for data in self.pickles(ctx):
            if data in seen:
                continue
            seen.add(data)
            if len(data) <= 2048:
                cfgs = CFGS if (ctx.thorough or len(data) < 200) else [rng.choice(CFGS), "00"]
                for cfg in dict.fromkeys(cfgs):
                    lines.append(f"cuts {cfg} {hexs(data)}")
                    meta.append((cfg, data, None))
            else:
                # long pickles: cuts near the ends of long lines and random ones
                ks = set(range(1, 8)) | set(range(len(data) - 8, len(data)))
                ks |= {4095, 4096, 4097, 4098, 8192, 8193} | {rng.randrange(1, len(data)) for _ in range(40)}
                cfg = rng.choice(CFGS)
                lines.append(f"dec {cfg} - {hexs(data)}")
                meta.append((cfg, data, "full"))
                for k in sorted(k for k in ks if 0 < k < len(data)):
                    lines.append(f"dec {cfg} - {hexs(data[:k])}")
                    meta.append((cfg, data, k))
        go, lean = run_both(lines)
        fullok = {}
        for line, (cfg, data, k), g, l in zip(lines, meta, go, lean):
            ctx.evaluations += 1
            ctx.tie(line, g, l)
            if k is None:
                f = g.split(" ")
                ctx.count("pickle:" + ("valid" if f[0] == "OK" else "invalid"))
                if f[0] == "OK" and int(f[1]) == len(data):
                    letters = f[2] if len(f) > 2 else ""
                    ctx.count("cuts", len(letters))
                    if len(data) > 3:
                        ctx.nontrivial((cfg, data))
                    want = "E" + "U" * (len(data) - 1)
                    if letters != want:
                        bad = next(i for i in range(len(want)) if i >= len(letters) or letters[i] != want[i])
                        ctx.violate("a proper prefix of a valid pickle does not give (nil, io.ErrUnexpectedEOF) / empty input io.EOF",
                                    f"dec {cfg} - {hexs(data[:bad])}   (cut {bad} of {hexs(data)})", want[bad],
                                    letters[bad] if bad < len(letters) else "missing")
            elif k == "full":
                fullok[(cfg, data)] = g.startswith("OK ") and g.endswith(f" {len(data)}")
                ctx.count("long-pickle:" + ("valid" if fullok[(cfg, data)] else "invalid"))
                if fullok[(cfg, data)]:
                    ctx.nontrivial((cfg, data))
            else:
                if fullok.get((cfg, data)):
                    ctx.count("cuts")
                    if g != "ERR unexpectedEOF":
                        ctx.violate("a proper prefix of a valid pickle does not give (nil, io.ErrUnexpectedEOF)", line, "ERR unexpectedEOF", g)
        for i in range(0, len(lines), max(1, len(lines) // 8)):
            ctx.sample(lines[i][:300] + " -> " + go[i][:200])


# ------------------------------------------------------------------------------------------- C16

DOC_TOKEN = re.compile(r"^(N|T|F|I-?\d+|L-?\d+|D[0-9a-f]{16}|S\S*|Y\S*|B\S*|A\S*|l\(|t\(|m\(|d\(|\)|C\S*|c\(|R\(|X\d+|#cycle)$")


def shape_problems(rendered, cfg, allow_user):
    """Check the type-shape of a rendered result against the documented table and the mode."""
    pyd, su = cfg[0] == "1", cfg[1] == "1"
    probs = []
    for t in rendered.split(" "):
        if not t:
            continue
        if not DOC_TOKEN.match(t):
            probs.append(f"undocumented {t[:40]}")
        elif t[0] == "Y" and not su:
            probs.append("ByteString without StrictUnicode")
        elif t == "d(" and not pyd:
            probs.append("Dict without PyDict")
        elif t == "m(" and pyd:
            probs.append("builtin map with PyDict")
        elif t[0] == "X" and not allow_user:
            probs.append("application object without PersistentLoad")
    return probs


class C16:
    prop = "C16"
    level_text = ("Lean invariant proof: Inv (stack entries are the mark or documented values; memo, heap containers and hook arguments "
                  "hold documented values only, never the mark; ByteString only with StrictUnicode; containers of the kind PyDict asks for) "
                  "holds initially and is preserved by every instruction (C16_step_preserves), hence for every successful Decode and "
                  "across streams (C16_result_wf, C16_hook_args_wf), and the fully resolved result consists of documented types only "
                  "(C16_resolved). Tied to /repo by type-shape scans of real results and hook arguments on ~10k inputs per quick run.")
    level_note = ("trusted: Lean kernel + standard axioms; decoder model (exact correspondence on every explored input); the hypothesis that "
                  "PersistentLoad returns application objects (HookOK) — whatever it returns is outside the library")
    technique = "Lean 4 invariant proof by case analysis over all instructions + differential correspondence + type-shape scan of implementation results"
    lean_module = "Ogorek.Props.C16"
    theorems = ["Ogorek.parseArg_insnOK", "Ogorek.C16_step_preserves", "Ogorek.C16_result_wf", "Ogorek.C16_hook_args_wf", "Ogorek.C16_resolved"]
    trusted_base = TB_COMMON
    rule = ("byte strings that decode successfully: fuzz corpus, mutations, generated programs, programs that place MARK under "
            "every consuming opcode; x 4 configurations x {no hook, replacing hook, nil hook}; the rendered result and every Ref "
            "passed to PersistentLoad are scanned token by token against the documented type table and the mode; "
            "distinct = distinct (config, hook, input) that decode successfully")
    assumptions = ["the canonicaliser prints any type outside the table as ?<type>"]

    def mark_programs(self):
        consumers = [b"a", b"e", b"s", b"u", b"l", b"t", b"d", b"\x85", b"\x86", b"\x87", b"R", b"Q", b"\x93", b"q\x00", b"p0\n",
                     b"r\x00\x00\x00\x00", b"\x94", b"2", b"0", b"."]
        pre = [b"", b"]", b"}", b"K\x01", b"]K\x01", b"}K\x01K\x02", b"cm\nn\n", b"cm\nn\n)", b"Va\nVb\n", b"(", b"]("]
        out = []
        for p in pre:
            for place in range(3):
                for c in consumers:
                    body = [p, b"(", b"K\x05", b"("][: 2 + place]
                    out.append(b"".join(body) + c + b".")
                    out.append(b"".join(body) + c + b"2\x86.")
                    out.append(p + b"(" + c + b"h\x00.")
                    out.append(p + b"((" + c + c + b".")
        return out

    def run(self, ctx):
        rng = ctx.rng
        ins = own_corpus("C16") + self.mark_programs() + corpus_files(ctx.scale(400, None))
        base = corpus_files(300) or [b"K\x01."]
        for _ in range(ctx.scale(800, 20000)):
            ins.append(P.mutate(rng, rng.choice(base)))
        for _ in range(ctx.scale(1500, 30000)):
            ins.append(P.ProgGen(rng, wellformed=rng.random() < 0.85, persid=0.08, maxops=rng.choice([6, 15, 40])).gen())
        lines, meta = [], []
        seen = set()
        for data in ins:
            for cfg in CFGS if ctx.thorough else [rng.choice(CFGS), rng.choice(CFGS)]:
                hook = rng.choice(["-", "-", "R", "K"])
                key = (cfg, hook, data)
                if key in seen:
                    continue
                seen.add(key)
                lines.append(f"dech {cfg} {hook} {hexs(data[:16384])}")
                meta.append(key)
        go, lean = run_both(lines)
        for line, (cfg, hook, data), g, l in zip(lines, meta, go, lean):
            ctx.evaluations += 1
            ctx.tie(line, g, l)
            res, _, calls = g.partition(" ; ")
            ctx.count("outcome:" + dec_class(res))
            if res.startswith("OK ") and "TOOBIG" not in res:
                ctx.nontrivial((cfg, hook, data))
                body = res[3:].rsplit(" ", 1)[0]
                for p in shape_problems(body, cfg, allow_user=(hook == "R")):
                    ctx.violate("result contains a value outside the documented table for this mode: " + p, line, "documented types only", res[:400])
                for t in set(body.split(" ")):
                    ctx.count("tok:" + t[:1])
            if calls and "TOOBIG" not in calls:
                ctx.count("hook-calls", calls.count("R( "))
                for p in shape_problems(calls, cfg, allow_user=(hook == "R")):
                    ctx.violate("PersistentLoad received a Ref holding an undocumented value: " + p, line, "documented types only", calls[:400])
        for i in range(0, len(lines), max(1, len(lines) // 8)):
            ctx.sample(lines[i][:300] + " -> " + go[i][:200])
