"""CPython side: random objects of the documented types, the three pickler variants,
and the documented Python -> Go table (decoding direction)."""
import io
import pickle
import pickletools
import struct

from . import values as V


def rand_text(rng):
    r = rng.random()
    if r < 0.1:
        return ""
    if r < 0.16:
        return "".join(rng.choice("abcXYZ019 ") for _ in range(rng.choice([254, 255, 256, 257])))
    chunks = [c.decode("utf-8") for c in V.VALID_UTF8_CHUNKS]
    return "".join(rng.choice(chunks) for _ in range(rng.randint(1, 5)))


def rand_pybytes(rng):
    return V.rand_bytes(rng, maxchunks=4)


def rand_pyint(rng):
    r = rng.random()
    if r < 0.45:
        return V.rand_int(rng)
    if r < 0.6:
        k = rng.choice([7, 8, 15, 16, 31, 32, 63, 64, 127, 128, 255, 256, 1015, 1016, 1023, 2031, 2037])
        return rng.choice([1, -1]) * (2 ** k + rng.choice([-1, 0, 1]))
    if r < 0.7:
        return rng.getrandbits(rng.choice([70, 200, 1000, 2030])) * rng.choice([1, -1])
    return rng.randint(-1000, 100000)


def rand_pyfloat(rng):
    return V.bits_f64(V.rand_float_bits(rng))


class ObjGen:
    def __init__(self, rng, maxdepth=4, share=0.25, tuple_keys=True):
        self.rng = rng
        self.maxdepth = maxdepth
        self.share = share
        self.pool = []      # previously built sub-objects, for DAG sharing
        self.tuple_keys = tuple_keys

    def leaf(self):
        rng = self.rng
        r = rng.random()
        if r < 0.08:
            return None
        if r < 0.16:
            return rng.random() < 0.5
        if r < 0.40:
            return rand_pyint(rng)
        if r < 0.52:
            return rand_pyfloat(rng)
        if r < 0.72:
            return rand_text(rng)
        if r < 0.86:
            return rand_pybytes(rng)
        if r < 0.94:
            return bytearray(rand_pybytes(rng))
        return rng.choice([(), [], {}, b"", "", bytearray()])

    def key(self, depth):
        rng = self.rng
        r = rng.random()
        if r < 0.12 and self.tuple_keys and depth < self.maxdepth:
            return tuple(self.key(depth + 1) for _ in range(rng.randint(0, 3)))
        for _ in range(10):
            k = self.leaf()
            if isinstance(k, (bytearray, list, dict)):
                continue
            if isinstance(k, float) and k != k:
                continue
            return k
        return 0

    def obj(self, depth=0):
        rng = self.rng
        if self.pool and rng.random() < self.share:
            return rng.choice(self.pool)
        if depth >= self.maxdepth or rng.random() < 0.4:
            o = self.leaf()
        else:
            n = rng.choice([0, 1, 2, 2, 3, 4, 6])
            r = rng.random()
            if r < 0.35:
                o = [self.obj(depth + 1) for _ in range(n)]
            elif r < 0.65:
                o = tuple(self.obj(depth + 1) for _ in range(n))
            else:
                o = {}
                for _ in range(n):
                    o[self.key(depth + 1)] = self.obj(depth + 1)
        if not isinstance(o, (int, float, type(None), bool)) or rng.random() < 0.1:
            self.pool.append(o)
        return o


def rand_objects(rng, n, **kw):
    out = []
    for i in range(n):
        g = ObjGen(rng, **kw)
        o = g.obj()
        out.append(o)
    # a few big containers to cross the BATCHSIZE boundary
    if n >= 50:
        out.append(list(range(2500)))
        out.append({i: str(i) for i in range(1100)})
        out.append([[1, 2]] * 3)
    return out


def pickle_c(obj, proto):
    return pickle.dumps(obj, protocol=proto)


def pickle_py(obj, proto):
    f = io.BytesIO()
    pickle._Pickler(f, proto).dump(obj)
    return f.getvalue()


def pickle_variants(obj, rng=None, n=None, protos=range(6)):
    """(C pickler, pure-Python pickler, pickletools.optimize) x protocols; optionally a random subset."""
    out = []
    for p in protos:
        try:
            c = pickle_c(obj, p)
        except Exception:
            continue
        out.append(c)
        try:
            out.append(pickle_py(obj, p))
        except Exception:
            pass
        try:
            out.append(pickletools.optimize(c))
        except Exception:
            pass
    if n is not None and rng is not None and len(out) > n:
        out = rng.sample(out, n)
    return out


def has_tuple_key(obj, seen=None):
    seen = seen if seen is not None else set()
    if id(obj) in seen:
        return False
    if isinstance(obj, dict):
        seen.add(id(obj))
        return any(isinstance(k, tuple) or has_tuple_key(v, seen) for k, v in obj.items())
    if isinstance(obj, (list, tuple)):
        seen.add(id(obj))
        return any(has_tuple_key(x, seen) for x in obj)
    return False


def table(obj, pydict, proto_is_long=None):
    """The documented Python -> Go table for objects CPython 3 pickles (decoding direction).
    ints: int64 or *big.Int depending on the opcode — returned as ('int', n) and compared by value
    (which Go type carries it is C19's subject)."""
    if obj is None:
        return ("N",)
    if obj is True:
        return ("T",)
    if obj is False:
        return ("F",)
    if isinstance(obj, int):
        return ("int", obj)
    if isinstance(obj, float):
        return ("D", 0x7ff8000000000000 if obj != obj else V.f64bits(obj))    # NaN: the class, not the payload
    if isinstance(obj, str):
        return ("S", obj.encode("utf-8", "surrogatepass"))
    if isinstance(obj, bytes):
        return ("B", obj)
    if isinstance(obj, bytearray):
        return ("A", bytes(obj))
    if isinstance(obj, list):
        return ("l", [table(x, pydict) for x in obj])
    if isinstance(obj, tuple):
        return ("t", [table(x, pydict) for x in obj])
    if isinstance(obj, dict):
        return ("d" if pydict else "m", [(table(k, pydict), table(v, pydict)) for k, v in obj.items()])
    raise TypeError(type(obj))


def render_expected(t):
    """Canonical text of a `table` value with ints rendered as J<n> (type-agnostic)."""
    k = t[0]
    if k == "int":
        return f"J{t[1]}"
    if k in ("l", "t"):
        return k + "( " + "".join(render_expected(x) + " " for x in t[1]) + ")"
    if k in ("m", "d"):
        ps = sorted((render_expected(a), render_expected(b)) for a, b in t[1])
        return k + "( " + "".join(a + " " + b + " " for a, b in ps) + ")"
    return V.render(t)


def intagnostic(rendered):
    """Rewrite I<n>/L<n> tokens of a Go-side rendering to J<n>, re-sorting dict entries."""
    v = V.parse(rendered)
    return _ia(v)


def _ia(v):
    k = v[0]
    if k in ("I", "L"):
        return f"J{v[1]}"
    if k == "D" and V.is_nan_bits(v[1]):
        return "D7ff8000000000000"
    if k in ("l", "t"):
        return k + "( " + "".join(_ia(x) + " " for x in v[1]) + ")"
    if k in ("m", "d"):
        ps = sorted((_ia(a), _ia(b)) for a, b in v[1])
        return k + "( " + "".join(a + " " + b + " " for a, b in ps) + ")"
    if k == "c":
        return "c( C" + V.hx(v[1]) + "." + V.hx(v[2]) + " " + "".join(_ia(x) + " " for x in v[3]) + ")"
    if k == "R":
        return "R( " + _ia(v[1]) + " )"
    return V.render(v)


# ---------------------------------------------------------------- Python 2 as a source of pickles

def _py2_expr(rng, depth=0, key=False):
    """An expression both Python 2.7 can evaluate: None / bool / int / long / float / str (bytes) / unicode / bytearray / tuple /
    list / dict.  Literals that repeat are one constant object in Python 2, so its pickler writes memo fetches for them."""
    r = rng.random()
    if depth < 3 and r < (0.25 if key else 0.45):
        n = rng.choice([0, 1, 2, 3, 5])
        if key or rng.random() < 0.35:
            items = [_py2_expr(rng, depth + 1, key) for _ in range(n)]
            return "(" + ", ".join(items) + ("," if n == 1 else "") + ")"
        if rng.random() < 0.5:
            return "[" + ", ".join(_py2_expr(rng, depth + 1) for _ in range(n)) + "]"
        return "{" + ", ".join(_py2_expr(rng, depth + 1, True) + ": " + _py2_expr(rng, depth + 1) for _ in range(n)) + "}"
    r = rng.random()
    if r < 0.08:
        return rng.choice(["None", "True", "False"])
    if r < 0.30:
        return repr(rand_pyint(rng))
    if r < 0.40:
        f = rand_pyfloat(rng)
        if f != f:
            return "1.5" if key else "float('nan')"
        if f in (float("inf"), float("-inf")):
            return "float('%s')" % ("inf" if f > 0 else "-inf")
        return "float.fromhex('%s')" % f.hex()
    if r < 0.65:
        b = rand_pybytes(rng) if rng.random() < 0.6 else rng.choice([b"", b"a", b"key", b"it's", b'q"', b"\\", b"a\nb"])
        return "'" + "".join("\\x%02x" % c for c in b) + "'"
    if r < 0.90:
        t = rand_text(rng) if rng.random() < 0.6 else rng.choice(["", "a", "key", "\u20ac", "\xe9", "a\nb\\"])
        return "u'" + "".join("\\U%08x" % ord(c) for c in t) + "'"
    if key:
        return repr(rng.randint(-3, 3))
    return "bytearray(b'" + "".join("\\x%02x" % c for c in rand_pybytes(rng)) + "')"


def py2_pickles(rng, n):
    """Pickles written by Python 2.7's pickle and cPickle (protocols 0-2) for n generated objects; None where python2 is absent."""
    import os
    import subprocess
    exprs = [_py2_expr(rng) for _ in range(n)]
    prog = ("import sys, pickle, cPickle\n"
            "for l in sys.stdin:\n"
            "    o = eval(l)\n"
            "    sys.stdout.write(' '.join(m.dumps(o, p).encode('hex') for m in (pickle, cPickle) for p in (0, 1, 2)) + '\\n')\n")
    try:
        r = subprocess.run(["python2", "-c", prog], input=("\n".join(exprs) + "\n").encode(), capture_output=True,
                           env=dict(os.environ, PYENV_VERSION="2.7.18"), timeout=600)
    except (OSError, subprocess.TimeoutExpired):
        return None
    out = r.stdout.decode().split("\n")[:-1]
    if r.returncode != 0 or len(out) != len(exprs):
        return None
    res = []
    for l in out:
        res += [bytes.fromhex(h) for h in l.split(" ")]
    return res
