"""Go-side value universe in Python: representation, canonical text, generators."""
import struct
import sys

if hasattr(sys, "set_int_max_str_digits"):
    sys.set_int_max_str_digits(0)

# value = tuple(kind, ...):
#   ('N',) ('Nil',) ('T',) ('F',) ('I', int) ('U', int) ('L', int) ('D', bits) ('Z', re, im)
#   ('S', bytes) ('Y', bytes) ('B', bytes) ('A', bytes)
#   ('l', [v]) ('t', [v]) ('m', [(k, v)]) ('d', [(k, v)])
#   ('C', mod, name) ('c', mod, name, [args]) ('R', pid) ('X', n)


def hx(b):
    return b.hex() if b else "-"


def f64bits(x):
    return struct.unpack(">Q", struct.pack(">d", x))[0]


def bits_f64(b):
    return struct.unpack(">d", struct.pack(">Q", b))[0]


def render(v, sort=True):
    k = v[0]
    if k in ("N", "Nil", "T", "F"):
        return k
    if k in ("I", "U", "L", "X", "J"):
        return f"{k}{v[1]}"
    if k == "D":
        return "D%016x" % v[1]
    if k == "Z":
        return "Z%016x,%016x" % (v[1], v[2])
    if k in ("S", "Y", "B", "A"):
        return k + hx(v[1])
    if k in ("l", "t"):
        return k + "( " + "".join(render(x, sort) + " " for x in v[1]) + ")"
    if k in ("m", "d"):
        ps = [(render(a, sort), render(b, sort)) for a, b in v[1]]
        if sort:
            ps.sort()
        return k + "( " + "".join(a + " " + b + " " for a, b in ps) + ")"
    if k == "C":
        return "C" + hx(v[1]) + "." + hx(v[2])
    if k == "c":
        return "c( C" + hx(v[1]) + "." + hx(v[2]) + " " + "".join(render(x, sort) + " " for x in v[3]) + ")"
    if k == "R":
        return "R( " + render(v[1], sort) + " )"
    if k == "cycle":
        return "#cycle"
    if k in ("u", "w"):           # typed slices of application struct VALUES (harness only): u = []UserObj, w = []Holder{A: n, B: X<n>}
        return k + "( " + "".join(f"X{n} " for n in v[1]) + ")"
    if k in ("H", "h", "G"):      # application structs holding a pointer field (harness only)
        return f"{k}( {render(v[1], sort)} {render(v[2], sort)} )"
    raise ValueError(k)


def size(v):
    k = v[0]
    if k in ("l", "t"):
        return 1 + sum(size(x) for x in v[1])
    if k in ("m", "d"):
        return 1 + sum(size(a) + size(b) for a, b in v[1])
    if k == "c":
        return 1 + sum(size(x) for x in v[3])
    if k == "R":
        return 1 + size(v[1])
    return 1


def parse(text):
    toks = text.split()
    v, pos = _parse(toks, 0)
    if pos != len(toks):
        raise ValueError("trailing tokens")
    return v


def _unhx(s):
    return b"" if s == "-" else bytes.fromhex(s)


def _seq(toks, pos):
    xs = []
    while toks[pos] != ")":
        x, pos = _parse(toks, pos)
        xs.append(x)
    return xs, pos + 1


def _parse(toks, pos):
    t = toks[pos]
    pos += 1
    c, body = t[0], t[1:]
    if t in ("N", "Nil", "T", "F"):
        return (t,), pos
    if t == "#cycle":
        return ("cycle",), pos
    if c in "IULXJ":
        return (c, int(body)), pos
    if c == "D":
        return ("D", int(body, 16)), pos
    if c == "Z":
        a, b = body.split(",")
        return ("Z", int(a, 16), int(b, 16)), pos
    if c in "SYBA":
        return (c, _unhx(body)), pos
    if c == "C":
        m, n = body.split(".")
        return ("C", _unhx(m), _unhx(n)), pos
    if c in "lt":
        xs, pos = _seq(toks, pos)
        return (c, xs), pos
    if c in "md":
        xs, pos = _seq(toks, pos)
        return (c, [(xs[i], xs[i + 1]) for i in range(0, len(xs), 2)]), pos
    if c == "c":
        m, n = toks[pos][1:].split(".")
        xs, pos = _seq(toks, pos + 1)
        return ("c", _unhx(m), _unhx(n), xs), pos
    if c == "R":
        p, pos = _parse(toks, pos)
        assert toks[pos] == ")"
        return ("R", p), pos + 1
    raise ValueError("bad token " + t)


# ------------------------------------------------------------------ alphabets

ADV_CHUNKS = [
    b"'", b'"', b"\\", b"\n", b"\r", b"\x00", b"\x1a", b"\x7f", b"\x80", b"\xff", b"\xc3\xa9",
    "\u0100".encode(), "\u2028".encode(), "\ufffd".encode(), "\U0001F600".encode(), "\U00010000".encode(),
    b"a", b"Z", b" ", b"0", b"\\n", b"\\x41", b"\\u0041", b"\\U00000041", b"\\\\", b"\t", b"\x0b", b"\x1f",
    "\u07ff".encode(), "\u0800".encode(), "\uffff".encode(), "\ud7ff".encode(), "\ue000".encode(),
    "\U0010ffff".encode(), b"\xed\xa0\x80", b"\xc0\x80", b"\xf4\x90\x80\x80", b"\xe2\x82", b"latin1",
    "\u0085".encode(), "\u00a0".encode(), "\u00ad".encode(), "\u0378".encode(),
]


# every byte value on its own, and short ASCII texts whose only special character is a newline / carriage return
# (no backslash, no non-ASCII: nothing that would send them down an escaping path for another reason)
EDGE_STRINGS = [bytes([b]) for b in range(256)] + [
    b"ab\ncd", b"\n", b"x\n.", b"hello world\n", b"\nP1\n", b"a\rb", b"I1\n.", b"\n\n", b"q" * 254 + b"\n", b"\x0e\x1b\x1f", b"e" * 255,
    b"\x01\x02\x03\x04\x05\x06\x0e\x0f\x10\x11\x12\x13\x14\x15\x16\x17\x18\x19\x1a\x1b\x1c\x1d\x1e\x1f",
    # valid text ending in a truncated multi-byte sequence; U+FFFD itself next to invalid bytes; format verbs
    b"abc \xc3", "日本語".encode()[:8], b"\xf0\x9f\x98", b"ok\xe2\x82", b"\xc3\xa9\xc3", b"\xef\xbf\xbd\xff", b"\xff\xef\xbf\xbd",
    b"%d%s%", b"%!v(MISSING)", "\u20ac\U0001f600".encode(),
    # fewer than 256 characters, more than 255 bytes (and the reverse cannot happen): the one-byte length counts BYTES
    ("\u044f" * 200).encode(), ("\u20ac" * 100).encode(), ("\u00e9" * 128).encode(), ("\u00e9" * 127 + "a").encode(), ("\U0001f600" * 64).encode(),
    ("\u00e9" * 255).encode()]


def edge_string_values():
    """Each edge string as string, ByteString and Bytes, bare and as a list element / map key."""
    out = []
    for b in EDGE_STRINGS:
        out += [("S", b), ("Y", b), ("B", b)]
    for b in EDGE_STRINGS[256:]:
        out += [("A", b), ("l", [("S", b), ("Y", b)]), ("m", [(("S", b), ("B", b))]), ("R", ("S", b)), ("R", ("Y", b)), ("R", ("B", b)),
                ("R", ("t", [("S", b)])), ("c", b"m", b"n", [("S", b)])]
    # globals whose module or name holds a newline (only STACK_GLOBAL can carry them: documented error below protocol 4)
    for m, n in ((b"m", b"a\n."), (b"m\n", b"n"), (b"m", b"\n"), (b"\nm", b"n\n"), (b"mod", b"a\nb"), (b"m", b"n"),
                 # format verbs, carriage returns, spaces, non-ASCII and non-UTF-8 bytes in names: all legal where no newline is needed
                 (b"mod", b"a%sb"), (b"100%", b"n"), (b"%d", b"%v%%"), (b"foo\r", b"bar\r"), (b"m", b"n\r"), (b" m ", b" n"), (b"m\xc3\xa9", b"n\xe9"),
                 (b"os.path", b"join"), (b"", b"")):
        out += [("C", m, n), ("c", m, n, [("I", 1)]), ("t", [("C", m, n), ("I", 2)])]
    # globals whose module or name is as long as / longer than a one-byte length field can say (dots inside: a cut name ends in a STOP)
    for sz in (255, 256, 257, 259, 300, 65535, 65536):
        long = (b"pkg.sub." * (sz // 8 + 1))[:sz]
        out += [("C", long, b"n"), ("C", b"m", long), ("c", long, long, [("I", 1)])]
    return out


def _is_utf8(b):
    try:
        b.decode("utf-8")
        return True
    except UnicodeDecodeError:
        return False


VALID_UTF8_CHUNKS = [c for c in ADV_CHUNKS if _is_utf8(c)]


def rand_bytes(rng, valid_utf8=False, maxchunks=6):
    r = rng.random()
    if r < 0.08:
        return b""
    if r < 0.14:
        # lengths straddling 255/256
        n = rng.choice([254, 255, 256, 257, 300])
        if valid_utf8:
            return bytes(rng.choice(b"abcXYZ019 ") for _ in range(n))
        return bytes(rng.randrange(256) for _ in range(n))
    chunks = VALID_UTF8_CHUNKS if valid_utf8 else ADV_CHUNKS
    return b"".join(rng.choice(chunks) for _ in range(rng.randint(1, maxchunks)))


def int_lattice(maxk=70):
    out = set()
    for k in range(0, maxk + 1):
        for d in (-2, -1, 0, 1, 2):
            out.add(2 ** k + d)
            out.add(-(2 ** k) + d)
    return sorted(out)


INT_LATTICE = int_lattice()


def rand_int(rng):
    r = rng.random()
    if r < 0.5:
        return rng.choice(INT_LATTICE)
    if r < 0.7:
        return rng.randint(-300, 70000)
    return rng.getrandbits(64) - 2 ** 63


SPECIAL_FLOATS = [
    0x0000000000000000, 0x8000000000000000, 0x7ff0000000000000, 0xfff0000000000000,
    0x7ff8000000000001, 0x7ff8000000000000, 0xfff8000000000000, 0x7ff0000000000001, 0x7ff4000000000000,
    0x0000000000000001, 0x000fffffffffffff, 0x0010000000000000, 0x7fefffffffffffff,
    0x3ff0000000000000, 0xbff0000000000000, 0x3fb999999999999a, 0x4340000000000000, 0x4340000000000001,
    0x433fffffffffffff, 0x43e0000000000000, 0xc3e0000000000000, 0x43f0000000000000, 0x3fe0000000000000,
    0x4059000000000000, 0x412e848000000000, 0x3f1a36e2eb1c432d, 0x3ee4f8b588e368f1, 0x44b52d02c7e14af6,
    0x4415af1d78b58c40, 0x40f86a0000000000, 0x4132d68700000000,
]


def rand_float_bits(rng):
    r = rng.random()
    if r < 0.45:
        return rng.choice(SPECIAL_FLOATS)
    if r < 0.7:
        return rng.getrandbits(64)
    if r < 0.85:
        return f64bits(float(rng.randint(-10 ** 6, 10 ** 6)) / rng.choice([1, 2, 4, 10, 100, 1000]))
    return f64bits(float(rng.choice(INT_LATTICE)))


def is_nan_bits(b):
    return (b >> 52) & 0x7ff == 0x7ff and (b & ((1 << 52) - 1)) != 0


# ------------------------------------------------------------------ coarse key identity

def _num_key(v):
    """Exact numeric value for bool/int/uint/big/float keys (None if NaN / not numeric)."""
    from fractions import Fraction
    k = v[0]
    if k == "T":
        return Fraction(1)
    if k == "F":
        return Fraction(0)
    if k in ("I", "U", "L"):
        return Fraction(v[1])
    if k == "D":
        if is_nan_bits(v[1]):
            return None
        f = bits_f64(v[1])
        if f in (float("inf"), float("-inf")):
            return ("inf", f > 0)
        return Fraction(f)
    return None


def go_key_id(v):
    """Identity of a builtin-map key under Go ==; None = never equal to anything (NaN)."""
    k = v[0]
    if k in ("T", "F"):
        return ("bool", k)
    if k in ("I", "U"):
        return (k, v[1])
    if k == "L":
        return ("L", id(v))     # pointer identity: each literal is its own key
    if k == "D":
        if is_nan_bits(v[1]):
            return None
        return ("D", _num_key(v))
    if k in ("S", "Y", "B"):
        return (k, v[1])
    if k == "N":
        return ("N",)
    if k == "C":
        return ("C", v[1], v[2])
    if k == "R":
        inner = go_key_id(v[1])
        return None if inner is None else ("R", inner)
    if k == "X":
        return ("X", v[1])
    raise ValueError("unhashable in Go map: " + k)


def py_key_id(v):
    """A coarse identity under which Dict keys that og-rek considers equal coincide
    (numbers by value, the three string types by content): used to keep generated Dict
    literals free of equal keys. Tuples are compared element-wise."""
    k = v[0]
    n = _num_key(v)
    if n is not None:
        return ("num", n)
    if k == "D":
        return None
    if k in ("S", "Y", "B"):
        return ("str", v[1])
    if k == "t":
        ids = [py_key_id(x) for x in v[1]]
        return None if any(i is None for i in ids) else ("t", tuple(ids))
    if k == "N":
        return ("N",)
    if k == "C":
        return ("C", v[1], v[2])
    if k == "c":
        ids = [py_key_id(x) for x in v[3]]
        return None if any(i is None for i in ids) else ("c", v[1], v[2], tuple(ids))
    if k == "R":
        inner = py_key_id(v[1])
        return None if inner is None else ("R", inner)
    if k == "X":
        return ("X", v[1])
    raise ValueError("unhashable Dict key: " + k)


# ------------------------------------------------------------------ generators

class ValueGen:
    """Random values. `mode`:
       canon(pydict, su): only what Decode produces for that configuration (C03 identity domain)
       doc: the documented encoder table incl. uint, ByteString/string in any mode (C01)."""

    def __init__(self, rng, pydict=False, su=False, canonical=True, valid_utf8_strings=False,
                 allow_refs=True, allow_user=False, maxdepth=4, allow_bad_class=True):
        self.rng = rng
        self.pydict = pydict
        self.su = su
        self.canonical = canonical
        self.valid = valid_utf8_strings
        self.allow_refs = allow_refs
        self.allow_user = allow_user
        self.maxdepth = maxdepth
        self.allow_bad_class = allow_bad_class

    def string(self):
        return ("S", rand_bytes(self.rng, valid_utf8=self.valid or self.rng.random() < 0.7))

    def ident(self):
        rng = self.rng
        if self.allow_bad_class and rng.random() < 0.08:
            return rand_bytes(rng, valid_utf8=True, maxchunks=3)
        return rng.choice([b"decimal", b"Decimal", b"collections", b"OrderedDict", b"__builtin__", b"builtins",
                           b"object", b"set", b"a.b", b"m", b"n", b"_codecs", b"encode", b"bytearray", b"bytes",
                           "Āx".encode(), b"copy_reg", b"_reconstructor"])

    def leaf(self):
        rng = self.rng
        r = rng.random()
        if r < 0.07:
            return ("N",)
        if r < 0.14:
            return (rng.choice("TF"),)
        if r < 0.34:
            i = rand_int(rng)
            if -2 ** 63 <= i < 2 ** 63:
                return ("I", i)
            if not self.canonical and 0 <= i < 2 ** 64 and rng.random() < 0.5:
                return ("U", i)
            return ("L", i)
        if r < 0.40:
            return ("L", rand_int(rng))
        if r < 0.52:
            return ("D", rand_float_bits(rng))
        if r < 0.68:
            return self.string()
        if r < 0.76:
            if self.su or not self.canonical:
                return ("Y", rand_bytes(rng))
            return self.string()
        if r < 0.84:
            return ("B", rand_bytes(rng))
        if r < 0.90:
            return ("A", rand_bytes(rng))
        if r < 0.95:
            return ("C", self.ident(), self.ident())
        if not self.canonical and r < 0.97:
            return ("U", rng.choice([0, 1, 255, 256, 65535, 65536, 2 ** 31, 2 ** 32, 2 ** 63 - 1, 2 ** 63, 2 ** 64 - 1]))
        if self.allow_user and r < 0.99:
            return ("X", rng.randint(0, 7))
        return ("t", [])

    def map_key(self, depth):
        """Key valid in a builtin map."""
        rng = self.rng
        for _ in range(20):
            r = rng.random()
            if r < 0.75 or depth >= self.maxdepth:
                v = self.leaf()
            elif r < 0.9 and self.allow_refs:
                v = ("R", self.map_key(depth + 1))
            else:
                v = ("C", self.ident(), self.ident())
            if v[0] in ("A", "t", "l", "m", "d", "c", "X", "U"):
                continue
            return v
        return ("I", rng.randint(0, 100))

    def dict_key(self, depth):
        rng = self.rng
        for _ in range(20):
            r = rng.random()
            if r < 0.6 or depth >= self.maxdepth:
                v = self.leaf()
            elif r < 0.8:
                v = ("t", [self.dict_key(depth + 1) for _ in range(rng.randint(0, 3))])
            elif r < 0.88 and self.allow_refs:
                v = ("R", self.dict_key(depth + 1))
            elif r < 0.94:
                v = ("c", self.ident(), self.ident(), [self.dict_key(depth + 1) for _ in range(rng.randint(0, 2))])
            else:
                v = ("C", self.ident(), self.ident())
            if v[0] in ("A", "l", "m", "d", "X", "U"):
                continue
            if v[0] == "c" and self._reserved_call(v):
                continue
            return v
        return ("I", rng.randint(0, 100))

    def _reserved_call(self, v):
        # calls the decoder itself interprets (bytes / bytearray forms) are not canonical values
        return (v[1], v[2]) in ((b"_codecs", b"encode"), (b"__builtin__", b"bytearray"), (b"builtins", b"bytearray"),
                                (b"__builtin__", b"bytes"), (b"builtins", b"bytes"))

    def value(self, depth=0):
        rng = self.rng
        if depth >= self.maxdepth or rng.random() < 0.45:
            return self.leaf()
        r = rng.random()
        n = rng.choice([0, 1, 1, 2, 2, 3, 3, 4, 5])
        if r < 0.25:
            return ("l", [self.value(depth + 1) for _ in range(n)])
        if r < 0.5:
            return ("t", [self.value(depth + 1) for _ in range(n)])
        if r < 0.75:
            use_dict = self.pydict if self.canonical else rng.random() < 0.5
            if use_dict:
                seen, kvs = set(), []
                for _ in range(n):
                    k = self.dict_key(depth + 1)
                    kid = py_key_id(k)
                    if kid is not None and kid in seen:
                        continue
                    seen.add(kid)
                    kvs.append((k, self.value(depth + 1)))
                return ("d", kvs)
            seen, kvs = set(), []
            for _ in range(n):
                k = self.map_key(depth + 1)
                kid = go_key_id(k)
                if kid is not None and kid in seen:
                    continue
                if not self.canonical:
                    # a builtin map outside the decoder's own domain may be decoded into a Dict, or have its
                    # ByteString keys turned into strings: keys that would then coincide (False / -0.0,
                    # ByteString "a" / "a") make the result depend on the map's iteration order
                    pid = py_key_id(k)
                    if pid is not None and ("py", pid) in seen:
                        continue
                    seen.add(("py", pid))
                seen.add(kid)
                kvs.append((k, self.value(depth + 1)))
            return ("m", kvs)
        if r < 0.87:
            for _ in range(10):
                v = ("c", self.ident(), self.ident(), [self.value(depth + 1) for _ in range(min(n, 3))])
                if not self._reserved_call(v):
                    return v
            return ("N",)
        if self.allow_refs:
            if rng.random() < 0.5:
                return ("R", ("S", rng.choice([b"id1", b"oid\x00\x01", b"a b", b"", b"x\ny", "Ā".encode()])))
            return ("R", self.value(depth + 1))
        return self.leaf()


def contains(v, pred):
    if pred(v):
        return True
    k = v[0]
    if k in ("l", "t"):
        return any(contains(x, pred) for x in v[1])
    if k in ("m", "d"):
        return any(contains(a, pred) or contains(b, pred) for a, b in v[1])
    if k == "c":
        return any(contains(x, pred) for x in v[3])
    if k == "R":
        return contains(v[1], pred)
    return False


def max_entries(v):
    """Largest number of entries in any map/dict inside v (output order is arbitrary beyond 1)."""
    k = v[0]
    m = 0
    if k in ("m", "d"):
        m = len(v[1])
        for a, b in v[1]:
            m = max(m, max_entries(a), max_entries(b))
    elif k in ("l", "t"):
        for x in v[1]:
            m = max(m, max_entries(x))
    elif k == "c":
        for x in v[3]:
            m = max(m, max_entries(x))
    elif k == "R":
        m = max_entries(v[1])
    return m


def mapv(v, f):
    """Rebuild v bottom-up, applying f to every node."""
    k = v[0]
    if k in ("l", "t"):
        v = (k, [mapv(x, f) for x in v[1]])
    elif k in ("m", "d"):
        v = (k, [(mapv(a, f), mapv(b, f)) for a, b in v[1]])
    elif k == "c":
        v = (k, v[1], v[2], [mapv(x, f) for x in v[3]])
    elif k == "R":
        v = (k, mapv(v[1], f))
    return f(v)


# ------------------------------------------------------------------ non-canonical relatives (typed tokens)

def with_relatives(rng, v):
    """Replace some canonical leaves by non-canonical relatives with the same normal form."""
    k = v[0]
    if k == "I" and rng.random() < 0.3:
        n = v[1]
        opts = []
        if -128 <= n < 128:
            opts.append(("Qraw", f"Q8:{n}"))
        if -2 ** 15 <= n < 2 ** 15:
            opts.append(("Qraw", f"Q16:{n}"))
        if -2 ** 31 <= n < 2 ** 31:
            opts.append(("Qraw", f"Q32:{n}"))
        opts.append(("Qraw", f"Q0:{n}"))
        if 0 <= n < 256:
            opts.append(("Qraw", f"V8:{n}"))
        if 0 <= n < 2 ** 16:
            opts.append(("Qraw", f"V16:{n}"))
        if 0 <= n:
            opts.append(("Qraw", f"V64:{n}"))
            opts.append(("Qraw", f"V0:{n}"))
        return ("raw", rng.choice(opts)[1], v)
    if k == "U" and rng.random() < 0.5:
        # the same value as Go `uint` (64 bits wide here) instead of uint64
        return ("raw", f"V0:{v[1]}", v)
    if k == "D" and rng.random() < 0.5:
        # a float32 holding some (mostly non-dyadic) value: its normal form is the exact widening to float64
        import struct
        b32 = rng.choice([0x3dcccccd, 0x3eaaaaab, 0x40490fdb, 0x00000001, 0x7f7fffff, 0x80000000, 0x7f800000, 0x3f800000,
                          0x00800000, 0x007fffff, 0xc2f6e979, rng.getrandbits(32)])
        f = struct.unpack(">f", struct.pack(">I", b32))[0]
        if f == f:
            return ("raw", "E%08x" % b32, ("D", f64bits(f)))
    if k == "N" and rng.random() < 0.3:
        return ("raw", "Nil", v)
    if k in ("l", "t"):
        return (k, [with_relatives(rng, x) for x in v[1]])
    if k in ("I", "D", "S", "B", "T", "F") and rng.random() < 0.08:
        return ("raw", "P( " + render(v) + " )", v)
    return v


def render_raw(v):
    k = v[0]
    if k == "raw":
        return v[1]
    if k in ("l", "t"):
        return k + "( " + "".join(render_raw(x) + " " for x in v[1]) + ")"
    return render(v, sort=False)


def strip_raw(v):
    k = v[0]
    if k == "raw":
        return v[2]
    if k in ("l", "t"):
        return (k, [strip_raw(x) for x in v[1]])
    return v
