"""C20: concurrency."""
import os
import subprocess

from . import common as C
from . import programs as P
from . import pyside
from . import values as V
from .decprops import CFGS, TB_COMMON, corpus_files, enc_pickles, hexs

RACE = os.path.join(C.BIN, "harness-race")


def build_race():
    with C.Lock("race"):
        rc, out = C.sh(["go", "build", "-race", "-tags", "verif", "-o", RACE, "."], cwd=os.path.join(C.VERIF, "harness"), env=C.GOENV)
    if rc != 0:
        raise C.BuildFailure("race-enabled harness does not build", out)


class C20:
    prop = "C20"
    lean_module = "Ogorek.Props.C20"
    theorems = ["Ogorek.C20_facts", "Ogorek.C20_independent", "Ogorek.C20_any_two_schedules", "Ogorek.C20_readonly_get"]
    trusted_base = TB_COMMON + ["the Go memory model, scheduler and race detector (runtime behaviour no executable model here exhibits)",
                                "gomap's internals under concurrent readers (measured with the race detector, not modelled)"]
    level_text = ("Lean theorems carry the LOGICAL non-interference: the package has no mutable package-level state — every package-level "
                  "variable is an errors.New value, none is written or has its address taken, no goroutine is started (C20_facts, over "
                  "facts regenerated from the source by go/ast on every run) — so instances are machines that touch only their own "
                  "state, and for such machines every interleaving leaves each in the state it reaches alone (C20_independent, "
                  "C20_any_two_schedules, by induction on the schedule); Dict reads return the table unchanged (C20_readonly_get). "
                  "PARTIAL, named honestly: data-race freedom in the sense of the Go memory model and gomap's internal flag word are not "
                  "provable here; they are measured: the real code runs under the race detector with up to 64 goroutines on separate "
                  "instances and on one shared decoded value, results compared with the sequential run.")
    level_note = "trusted: Lean kernel + standard axioms; the go/ast fact extractor; the Go race detector as the oracle for data races"
    technique = "Lean 4 proof (interleaving independence by induction; decide over regenerated source facts) + race-detector runs compared with sequential results"
    rule = ("case lines (decode / round trip / encode of generated values, CPython pickles, corpus files) executed first sequentially and "
            "then by N in {2, 8, 64} goroutines on separate Decoder/Encoder instances with randomised start order and GOMAXPROCS; "
            "decoded values (Dicts, maps, nested) shared read-only among N goroutines doing render(Iter)/Len/Get/Encode; any race report or "
            "result difference is a violation; distinct = distinct case lines x N")
    assumptions = ["schedules are whatever the Go scheduler produces in this run (not enumerated)"]

    def run(self, ctx):
        rng = ctx.rng
        build_race()
        lines = []
        for data in enc_pickles(ctx, ctx.scale(300, 3000)) + corpus_files(ctx.scale(200, 1500)):
            lines.append(f"dec {rng.choice(CFGS)} - {hexs(data)}")
        for _ in range(ctx.scale(300, 3000)):
            pd, su = rng.random() < 0.5, rng.random() < 0.5
            v = V.ValueGen(rng, pydict=pd, su=su, canonical=True, maxdepth=3).value()
            lines.append(f"rt {rng.randint(0, 5)} {int(pd)}{int(su)} {V.render(v, sort=False)}")
        for _ in range(ctx.scale(200, 2000)):
            lines.append(f"reenc {rng.choice(CFGS)} {hexs(P.ProgGen(rng, wellformed=True, maxops=20).gen())}")
        shared = []
        import pickle
        for obj in pyside.rand_objects(rng, ctx.scale(60, 600)):
            if isinstance(obj, (dict, list, tuple)):
                shared.append(f"shared {rng.choice(['10', '11', '00'])} {hexs(pickle.dumps(obj, 2))}")
        big = {i: (str(i), [i, float(i)]) for i in range(300)}
        shared.append(f"shared 11 {hexs(pickle.dumps(big, 3))}")
        allin = "\n".join(lines + shared) + "\n"
        races = 0
        for n in (2, 8, 64):
            for rep in range(ctx.scale(1, 4)):
                seed = ctx.seed * 100 + n + rep
                p = subprocess.run([RACE, "par", str(n), str(seed)], input=allin, capture_output=True, text=True, timeout=1800,
                                   env=dict(os.environ, GORACE="halt_on_error=0"))
                ctx.evaluations += len(lines) + len(shared)
                ctx.count(f"goroutines:{n}", len(lines) + len(shared))
                for l in lines + shared:
                    ctx.nontrivial((n, l))
                if "DATA RACE" in p.stderr:
                    races += 1
                    ctx.violate("the race detector reports a data race", f"harness-race par {n} {seed} < cases ({len(lines)} independent, {len(shared)} shared)",
                                "no race", p.stderr[:3000])
                if p.returncode not in (0,) and "DATA RACE" not in p.stderr:
                    ctx.violate("concurrent run crashed", f"harness-race par {n} {seed}", "exit 0", f"exit {p.returncode}: {p.stderr[-1500:]}")
                for ol in p.stdout.split("\n"):
                    if ol.startswith("INDEPENDENT") or ol.startswith("SHARED "):
                        ctx.sample(f"N={n} seed={seed}: {ol}")
                        if not ol.endswith("diffs=0"):
                            ctx.violate("results under concurrency differ from the sequential run", f"harness-race par {n} {seed}", "diffs=0",
                                        p.stdout[:3000])
        # the sequential results themselves are tied to the model
        go = C.run_sharded(C.run_go, lines)
        lean = C.run_sharded(C.run_lean, lines)
        for l, g, m in zip(lines, go, lean):
            if l.startswith("rt ") and V.max_entries(V.parse(l.split(" ", 3)[3])) > 1:
                ctx.tie(l[:3000], g, m, project=lambda s: "ENCERR" if s.startswith("ENCERR") else s)
            else:
                ctx.tie(l[:3000], g, m)
        ctx.notes.append(f"race reports: {races}")
