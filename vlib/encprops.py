"""Encoder-side properties: C01, C03, C05, C12, C13."""
import re

from . import common as C
from . import programs as P
from . import values as V
from .decprops import (CFGS, TB_COMMON, corpus_files, dec_class, enc_project, enc_tie, hexs, own_corpus, run_both, second_encode_tie, float_text_instances,
                       second_encode_after_write_failure)

GO_NAN = 0x7ff8000000000001


def is_valid_utf8(b):
    try:
        b.decode("utf-8")
        return True
    except UnicodeDecodeError:
        return False


# ------------------------------------------------------------------ documented normal form (C03)

def normal_form(v, p, pydict, su):
    """What decode(encode(v)) must return: the value itself for canonical values, the documented
    normal form for their relatives (narrow / unsigned ints, float32, pointers, nil, ByteString
    without StrictUnicode, map vs Dict by mode). Float text at protocol 0 keeps NaN-ness, not the payload."""
    k = v[0]
    if k in ("N", "Nil"):
        return ("N",)
    if k in ("T", "F", "I", "L", "B", "A", "C"):
        return v
    if k == "U":
        return ("I", v[1]) if v[1] < 2 ** 63 else ("L", v[1])
    if k == "D":
        if p == 0 and V.is_nan_bits(v[1]):
            return ("D", GO_NAN)
        return v
    if k == "S":
        return v
    if k == "Y":
        return v if su else ("S", v[1])
    if k == "l":
        return ("l", [normal_form(x, p, pydict, su) for x in v[1]])
    if k == "t":
        return ("t", [normal_form(x, p, pydict, su) for x in v[1]])
    if k in ("m", "d"):
        return ("d" if pydict else "m", [(normal_form(a, p, pydict, su), normal_form(b, p, pydict, su)) for a, b in v[1]])
    if k == "c":
        return ("c", v[1], v[2], [normal_form(x, p, pydict, su) for x in v[3]])
    if k == "R":
        return ("R", normal_form(v[1], p, pydict, su))
    if k == "X":
        return v
    raise ValueError(k)


def allowed_error(v, p, su):
    """The three documented protocol limitations, as predicates on the value."""
    errs = set()

    def walk(x, in_class=False):
        k = x[0]
        if k == "S" and p == 0 and su and not is_valid_utf8(x[1]):
            errs.add("p0-utf8")
        if k == "C" or k == "c":
            if p <= 3 and (b"\n" in x[1] or b"\n" in x[2]):
                errs.add("p0123-global")
            if p >= 4 and p == 0:
                pass
        if k == "R" and p == 0:
            pid = x[1]
            if not (pid[0] == "S" and b"\n" not in pid[1]):
                errs.add("p0-persid")
            return          # at protocol 0 the id is not encoded recursively
        if k in ("l", "t"):
            for y in x[1]:
                walk(y)
        elif k in ("m", "d"):
            for a, b in x[1]:
                walk(a)
                walk(b)
        elif k == "c":
            for y in x[3]:
                walk(y)
        elif k == "R":
            walk(x[1])
    walk(v)
    # Bytes below protocol 3 and bytearray below protocol 5 go through _codecs.encode with unicode text: always valid UTF-8
    return errs


def go_map_rejects(v):
    """Some dict in v has a key that a builtin Go map cannot hold (tuple, Call, or a Ref of those)."""
    def bad_key(k):
        if k[0] in ("t", "c", "l", "A", "m", "d"):
            return True
        if k[0] == "R":
            return bad_key(k[1])
        return False

    def walk(x):
        k = x[0]
        if k in ("m", "d"):
            return any(bad_key(a) or walk(a) or walk(b) for a, b in x[1])
        if k in ("l", "t"):
            return any(walk(y) for y in x[1])
        if k == "c":
            return any(walk(y) for y in x[3])
        if k == "R":
            return walk(x[1])
        return False
    return walk(v)


# ------------------------------------------------------------------------------------------- C03

with_relatives, render_raw, strip_raw = V.with_relatives, V.render_raw, V.strip_raw


class C03:
    prop = "C03"
    lean_module = "Ogorek.Props.C03Dec"
    theorems = ["Ogorek.C03_roundtrip", "Ogorek.C03_roundtrip_dec", "Ogorek.C03_normal_form_dec", "Ogorek.FloatsOK_of_b", "Ogorek.floatTextOK_of_b", "Ogorek.C03_roundtrip_bin", "Ogorek.C03_normal_form", "Ogorek.C03_normal_form_reflect", "Ogorek.encR_lower",
                "Ogorek.rt_val", "Ogorek.rtn_val", "Ogorek.C03_int", "Ogorek.parseDecimal_fmtInt",
                "Ogorek.toSigned_ofSigned_32", "Ogorek.goEqual_strip", "Ogorek.assignAll_of_keysOK", "Ogorek.C03_string_p0",
                "Ogorek.C03_unicode_p0", "Ogorek.pyquote_inv", "Ogorek.pyquote_no_lf", "Ogorek.rue_inv", "Ogorek.rue_no_lf",
                "Ogorek.encodeRune_of_exact", "Ogorek.decodeRune_exact", "Ogorek.C03_isprint_lf"]
    trusted_base = TB_COMMON + ["strconv float formatting/parsing as modelled (exact-rational shortest digits, correct rounding); strconv.IsPrint table regenerated from the toolchain"]
    level_text = ("Lean theorem C03_roundtrip, for ALL canonical values (None, bool, int64, *big.Int, float64, string, ByteString, Bytes, "
                  "[]byte, Class, and lists, Tuples, Calls, Refs, builtin maps and Dicts nested to any depth), ALL protocols 0-5, both "
                  "StrictUnicode and both PyDict settings, from any decoder state: if Encode returns no error, Decode of exactly the "
                  "bytes written succeeds, consumes all of them and returns a value identical in type and content (ByteString -> string "
                  "without StrictUnicode, map <-> Dict by mode, big ints as fresh objects) - by mutual structural induction over the value "
                  "(rt_val: every fragment of the encoder's output parses as instructions that push exactly one representing value and "
                  "leave stack, memo and protocol alone), using the number lemmas (C03_int, parseDecimal_fmtInt, toSigned_ofSigned_32), the "
                  "Latin-1 lemma for Bytes below protocol 3, that equality and hashing ignore big-int identity (goEqual_strip) so DICT "
                  "rebuilds the entries (assignAll_of_keysOK), and for protocol 0 the two text codecs proved inverse for EVERY byte "
                  "string / every valid UTF-8 text with newline-free output (pyquote_inv, pyquote_no_lf, rue_inv, rue_no_lf, from an exact "
                  "description of utf8.DecodeRune and encodeRune_of_exact: re-encoding a decoded rune gives back its bytes). Hypotheses: "
                  "payloads < 2^32 bytes; keys of one literal pairwise different for the decoder's table; LF not printable in the IsPrint "
                  "table (C03_isprint_lf, regenerated each run); and, at protocol 0 only, FloatTextOK for each float in the value: "
                  "ParseFloat returns the same float for its %g text (newline-freeness of that text is proved, fmtG_no_lf) - strconv's "
                  "shortest-round-trip property, NOT proved (C03_roundtrip_bin: no such hypothesis from protocol 1 on). Non-canonical "
                  "values are covered by C03_normal_form (rtn_val, the same induction): unsigned integers and pointers to application structs, "
                  "at any depth and as map / Dict keys, come back as their documented normal form `norm v` (uint64 -> int64 of the same value, or "
                  "*big.Int above 2^63-1; struct -> map / Dict of its fields; `norm` is the identity on canonical values), and by "
                  "C03_normal_form_reflect for the reflect universe: typed slices / arrays, maps of any key type, pointer chains, nil pointers "
                  "and interfaces, structs with tagged / untagged / unexported fields are written exactly like the plain value `lower rv` "
                  "(encR_lower), so they round-trip to its normal form. The protocol-0 float-text hypothesis (ParseFloat reads %g back; not proved for all floats) is decidable per float: floatsOKb runs the model's formatter and parser on every float of the value, C03_roundtrip_dec / C03_normal_form_dec restates the theorem with it, and the check evaluates it for every float of its protocol-0 cases (evidence: `protocol-0 float text hypothesis:*`), so those cases are instances of the theorem. PARTIAL: that float-text hypothesis for floats no run has met, *big.Int keys of builtin maps, "
                  "and the widening of narrow int / float32 values (done by the harness when it describes a value) are tied by correspondence: decode(encode(v)) is computed "
                  "by the implementation and by the model for every generated value x protocol x mode and compared with each other and "
                  "with the documented normal form; the argument is re-rendered after Encode to detect mutation.")
    level_note = ("trusted: Lean kernel + standard axioms; encoder and decoder models (exact agreement required on every explored case); float "
                  "text conversion (strconv) as modelled by exact rational arithmetic")
    technique = "Lean 4 proof (mutual structural induction: Encode→Decode round trip for protocols 0-5, text codecs proved inverse) + differential correspondence of decode∘encode on generated values"
    rule = ("canonical values for each decoder configuration (None, bool, int64, *big.Int, float64 incl. NaN/-0/Inf/denormals, string, "
            "ByteString, Bytes, []byte, []any, Tuple, map/Dict incl. NaN / -0 / big keys, Class, Call, Ref) nested to depth 4, and "
            "non-canonical relatives (int8..int32, int, uint8..uint64 incl. > MaxInt64, float32, pointers, nil, map<->Dict across "
            "modes, ByteString without StrictUnicode) x protocols 0..5 x StrictUnicode x PyDict; the implementation's "
            "decode(encode(v)) is compared with the model's and with the documented normal form; the argument is re-rendered after "
            "Encode to detect mutation; distinct = distinct (protocol, config, value)")
    assumptions = ["lengths < 2^32", "float text: NaN payloads are not preserved at protocol 0 (nan text)"]

    def cases(self, ctx, n):
        rng = ctx.rng
        out = []
        for _ in range(n):
            pd, su = rng.random() < 0.5, rng.random() < 0.5
            canonical = rng.random() < 0.7
            g = V.ValueGen(rng, pydict=pd, su=su, canonical=canonical, maxdepth=rng.choice([1, 2, 3, 4]))
            v = g.value()
            if rng.random() < 0.3:
                v = with_relatives(rng, v)
            for p in (range(6) if ctx.thorough or rng.random() < 0.2 else [rng.randint(0, 5), 0]):
                out.append((p, pd, su, v))
        for v in V.edge_string_values():
            if v[0] == "m":
                continue
            for p in ((0, rng.randint(1, 5)) if not ctx.thorough else range(6)):
                out.append((p, False, v[0] == "Y" or rng.random() < 0.5, v))
        for k in (999, 1000, 1001, 2000):
            for v in (("l", [("I", i % 7) for i in range(k)]), ("t", [("I", i % 5) for i in range(k)]), ("l", [("N",), ("l", [("I", 1)] * k)])):
                for p in ((1, 2, 4) if not ctx.thorough else range(6)):
                    out.append((p, rng.random() < 0.5, rng.random() < 0.5, v))
        # pairs of numeric keys that are different numbers but collide when a conversion wraps (2^63 as float / long / uint64 against
        # -2^63, 2^64 - 1 against -1, ...), together in one builtin map - which the decoder in PyDict mode turns into one Dict
        wrap = [("I", -2 ** 63), ("D", 0x43e0000000000000), ("L", 2 ** 63), ("U", 2 ** 63), ("I", -1), ("L", 2 ** 64 - 1), ("U", 2 ** 64 - 1),
                ("I", 2 ** 63 - 1), ("D", 0xc3e0000000000000), ("L", -2 ** 63 - 1), ("L", 2 ** 64), ("I", 0), ("D", 0x43f0000000000000)]
        for i, a in enumerate(wrap):
            for b in wrap[i + 1:]:
                def num(x):
                    return V.bits_f64(x[1]) if x[0] == "D" else x[1]
                if (a[0] == "D" and b[0] == "D") or num(a) == num(b):
                    continue        # the same number twice is one key in Python too (a non-canonical map: outside the statement)
                for p in (0, 2, 4):
                    out.append((p, True, rng.random() < 0.5, ("m", [(a, ("I", 1)), (b, ("I", 2))])))
        # long flat lists of values with fixed-size binary operands (8-byte floats, 4-byte and 2-byte ints) after prefixes of every
        # length mod 9: every operand position relative to the 4096-byte read buffer occurs
        for shift in range(9):
            pre = ("S", b"p" * shift)
            for p in ((1, 2, 4) if not ctx.thorough else range(6)):
                out.append((p, False, False, ("l", [pre] + [("D", 0x3ff0000000000000 + 0x0102030405 * i) for i in range(700)])))
                out.append((p, False, False, ("l", [pre] + [("I", 100000 + 257 * i) for i in range(1200)])))
                out.append((p, False, False, ("l", [pre] + [("I", 256 + i) for i in range(1800)])))
        # very many SMALL containers in one flat value (12000 one- to three-item tuples, empty tuples, one-item lists, one-entry
        # maps): per-container bookkeeping of the encoder (a depth counter, a scratch buffer) is exercised 12000 times in one Encode
        for small in (("t", [("I", 1), ("I", 2)]), ("t", []), ("t", [("N",)]), ("l", [("I", 1)]), ("m", [(("I", 1), ("N",))]), ("t", [("I", 1)] * 4)):
            for p in ((0, 2, 4) if not ctx.thorough else range(6)):
                out.append((p, False, rng.random() < 0.5, ("l", [small] * 12000)))
        # payloads beyond 64 KiB (the decoder pre-allocates at most that much and must still read all of it)
        for n in (65536, 65537, 70001) + ((200001,) if ctx.thorough else ()):
            pay = bytes((i * 5 + 1) % 127 + 1 for i in range(n))
            for kind in ("S", "Y", "B", "A"):
                big = (kind, pay)
                for p in range(6):
                    su = kind == "Y" or rng.random() < 0.5
                    out.append((p, False, su, big if rng.random() < 0.5 else ("l", [("I", 1), big, big])))
        return out

    def run(self, ctx):
        cases = []
        for line in own_corpus_lines("C03"):
            cases.append(line)
        gen = self.cases(ctx, ctx.scale(1200, 30000))
        lines, meta = [], []
        for p, pd, su, v in gen:
            lines.append(f"rt {p} {int(pd)}{int(su)} {render_raw(v)}")
            meta.append((p, pd, su, strip_raw(v)))
        go, lean = run_both(lines)
        float_text_instances(ctx, [(m[0], ln) for m, ln in zip(meta, lines)])
        for line, (p, pd, su, v), g, l in zip(lines, meta, go, lean):
            ctx.evaluations += 1
            ctx.nontrivial(line)
            multi = V.max_entries(v) > 1
            # with several map entries the encoder's order is arbitrary; the decoded result is order-free anyway,
            # except the position at which an encoding error strikes (class compared, not count)
            # several entries: which of several possible documented errors strikes first depends on the iteration order
            ctx.tie(line, g, l, project=(lambda s: "ENCERR" if s.startswith("ENCERR") else s) if multi else None)
            ctx.count(f"p{p}:" + (g.split(" ")[0] if not g.startswith("ENCERR") else g))
            if g.startswith("MUTATED"):
                ctx.violate("Encode modified the value it was given", line[:3000], "unchanged argument", g[:500])
                continue
            if "PANIC" in g or g.startswith("CRASH"):
                ctx.violate("Encode/Decode panicked", line[:3000], "value or error", g[:500])
                continue
            allowed = allowed_error(v, p, su)
            if g.startswith("ENCERR"):
                cls = g.split(" ")[1]
                if cls not in allowed:
                    ctx.violate("Encode failed outside the three documented limitations", line[:3000], f"one of {sorted(allowed)} or success", g)
                continue
            if allowed and not multi:
                ctx.violate("Encode succeeded where a documented limitation applies", line[:3000], sorted(allowed), g[:300])
                continue
            if not pd and go_map_rejects(v):
                # documented: default map mode returns an error for dicts keyed by tuples (a Dict given to a map-mode round trip)
                ctx.count("map-mode-rejects-key")
                if not g.startswith("ERR other"):
                    ctx.violate("map mode accepted a dict key a Go map cannot hold", line[:3000], "ERR other", g[:300])
                continue
            if g.startswith("ERR"):
                ctx.violate("Decode of the encoder's own output failed", line[:3000], "a value", g)
                continue
            if "TOOBIG" in g:
                continue
            want = V.render(normal_form(v, p, pd, su))
            got = g[3:].rsplit(" ", 1)[0]
            if got != want and not allowed:
                ctx.violate("decode(encode(v)) is not the value / its documented normal form", line[:3000], want[:1500], got[:1500])
        self.reflect_tie(ctx)
        for i in range(0, len(lines), max(1, len(lines) // 8)):
            ctx.sample(lines[i][:300] + " -> " + go[i][:200])

    def reflect_tie(self, ctx):
        """Application structs (tagged / untagged / embedded fields), typed slices, arrays and maps, pointers: many different Go
        types encoded one after another by each harness process (so anything remembered per type, per name or per process shows);
        the bytes must be the model's for the described value, whose decoding is the normal form proved in C03_normal_form."""
        rng = ctx.rng
        n = ctx.scale(2000, 30000)
        base = ctx.seed * 5000011
        lines = [f"encr {base + i} {rng.randint(0, 5)} {rng.randint(0, 1)}" for i in range(n)]
        # directed: every leaf type in every kind of typed container ([]T, [3]T, map[string]T, *T, []*T, struct{F T; S []T}, (*T)(nil), []*T{nil, nil}) x protocols
        lines += [f"encr {-(k + 1)} {p} {rng.randint(0, 1)}" for k in range(DIRECTED_REFLECT) for p in range(6)]
        go = C.run_sharded(C.run_go, lines)
        mlines = []
        for line, g in zip(lines, go):
            f = line.split(" ")
            mlines.append(f"encr {f[2]} {f[3]} {g.split(' => ')[0] if ' => ' in g else 'inv'}")
        lean = C.run_sharded(C.run_lean, mlines)
        for line, ml, g, l in zip(lines, mlines, go, lean):
            ctx.evaluations += 1
            if " => " not in g:
                ctx.count("reflect:generator-failed")
                continue
            desc, res = g.split(" => ", 1)
            multi = "rmap(" in desc or "=" in desc
            gi = res + " x" if res.startswith("ERR ") else res
            ctx.count("reflect:" + ("tagged-struct" if "=" in desc else "struct" if "st(" in desc else "other"))
            norm = lambda a: " ".join(a.split(" ")[:2]) if a.startswith("ERR") else a     # noqa: E731
            ctx.tie(ml[:3000], norm(gi), norm(l), project=enc_project if multi else None)
            if res.startswith("PANIC"):
                ctx.violate("Encode panicked on a generated value", line + "   value: " + desc[:1500], "bytes or an error", res[:300])


def own_corpus_lines(prop):
    import os
    path = os.path.join(C.VERIF, "corpus", f"{prop}.lines")
    try:
        return [l.rstrip("\n") for l in open(path) if l.strip() and not l.startswith("#")]
    except FileNotFoundError:
        return []


# ------------------------------------------------------------------------------------------- C05

class C05:
    prop = "C05"
    lean_module = "Ogorek.Props.C03Dec"
    theorems = ["Ogorek.C05_reencode", "Ogorek.C05_reencode_dec", "Ogorek.FloatsOK_of_b", "Ogorek.C05_decodes_back", "Ogorek.rep_resolve", "Ogorek.canon_of_rep", "Ogorek.exec_heapKeys",
                "Ogorek.decode_heapKeys", "Ogorek.C05_encodable",
                "Ogorek.C16_resolved", "Ogorek.C16_result_wf", "Ogorek.C03_roundtrip"]
    trusted_base = TB_COMMON
    level_text = ("Lean theorem C05_reencode (the fuzz target's invariant, for the model): for EVERY byte string a fresh Decoder accepts whose "
                  "result, containers unfolded, is acyclic and of encodable shape (payloads < 4 GiB; no Call of the bytes / bytearray builtins "
                  "- excluded by the property; with builtin maps no *big.Int key), at every protocol 0-5 at which Encode of that value "
                  "returns no error, decoding exactly the bytes written succeeds, consumes them all and returns a result standing for the "
                  "same value: identical in type and content (C05_decodes_back is the same from any decoder state and for any value the "
                  "result stands for; rep_resolve: an acyclic result stands for its own unfolding). Proof: a new invariant over ALL executions - every container the "
                  "decoder builds holds hashable, pairwise different keys (exec_heapKeys by cases over all instructions, decode_heapKeys) - "
                  "makes the represented value canonical (canon_of_rep, mutual structural induction), then the round-trip theorem "
                  "C03_roundtrip applies. That every resolved acyclic result consists of documented types is C16_resolved / C16_result_wf, "
                  "and that the encoder accepts every such value except for the three documented limitations - never a TypeError, never "
                  "a panic - is C05_encodable. The protocol-0 float-text hypothesis (ParseFloat reads %g back; not proved for all floats) is decidable per float: floatsOKb runs the model's formatter and parser on every float of the value, C05_reencode_dec restates the theorem with it, and the check evaluates it for every float of its protocol-0 cases (evidence: `protocol-0 float text hypothesis:*`), so those cases are instances of the theorem. PARTIAL: at protocol 0 that hypothesis for floats no run has met; *big.Int keys of builtin maps "
                  "(excluded by shapeOK). These are tied by correspondence: decode->encode(p)->decode is run by the implementation and by the model on every "
                  "successful input.")
    level_note = ("trusted: Lean kernel + standard axioms; encoder / decoder models; results with cycles, beyond the node budget, or containing "
                  "calls of the bytes / bytearray builtins are outside the statement (counted in the evidence)")
    technique = "Lean 4 proof (key invariant over all executions + bridge lemma + C03 round trip) + differential correspondence of decode→encode→decode"
    rule = ("byte strings that decode successfully (fuzz corpus, mutations, generated programs incl. memo/DUP sharing, persistent ids) "
            "x 4 configurations; the result is re-encoded at each protocol 0..5 and decoded again, on the implementation and on the "
            "model; results with cycles, more than 200k nodes, or calls of the bytes/bytearray builtins are skipped (counted); "
            "distinct = distinct (config, input) that decode successfully")
    assumptions = ["acyclic results below the node budget"]

    BUILTIN_CALL = re.compile(r"c\( C(5f5f6275696c74696e5f5f|6275696c74696e73)\.(6279746573|627974656172726179) ")

    def run(self, ctx):
        rng = ctx.rng
        ins = own_corpus("C05") + corpus_files(ctx.scale(500, None))
        base = corpus_files(300) or [b"N."]
        for _ in range(ctx.scale(600, 15000)):
            ins.append(P.mutate(rng, rng.choice(base)))
        for _ in range(ctx.scale(1500, 30000)):
            ins.append(P.ProgGen(rng, wellformed=rng.random() < 0.9, persid=0.05, maxops=rng.choice([6, 15, 40, 80])).gen())
        # every integer of the lattice (±2^k±{0,1,2}, k <= 70) as int64 / *big.Int result: the re-encoder's
        # width choices (BININT1/2, BININT, text) are decided by these boundaries
        import struct
        for n in (65536, 65537, 70001):
            pay = bytes((i * 3 + 2) % 200 + 32 for i in range(n))
            ins += [b"T" + struct.pack("<I", n) + pay + b".", b"B" + struct.pack("<I", n) + pay + b".",
                    b"\x96" + struct.pack("<Q", n) + pay + b".", b"X" + struct.pack("<I", n) + b"u" * n + b"."]
        # every edge string (format verbs, invalid UTF-8, text of fewer than 256 characters in more than 255 bytes, ...) decoded as
        # unicode, bytes and Python-2 str, then re-encoded at every protocol
        for t in V.EDGE_STRINGS[256:]:
            ins += [b"X" + struct.pack("<I", len(t)) + t + b".", b"B" + struct.pack("<I", len(t)) + t + b".", b"T" + struct.pack("<I", len(t)) + t + b".",
                    b"(X" + struct.pack("<I", len(t)) + t + b"K\x01t."]
        # globals whose module / name holds a newline, a carriage return, quotes (only re-encodable from protocol 4 on)
        for m, n in ((b"m", b"a\n."), (b"m\n", b"n"), (b"m", b"\n"), (b"\nm", b"n\n"), (b"mod", b"a\nb"), (b"m", b"n\r"), (b"m", b"'\""),
                     (b"foo\r", b"bar\r"), (b"\rm", b"n"), (b"mod", b"a%sb"), (b"100%", b"%d"), (b" m ", b" n "), (b"m\t", b"n\x00")):
            sg = b"\x8c" + bytes([len(m)]) + m + b"\x8c" + bytes([len(n)]) + n + b"\x93"
            ins += [sg + b".", sg + b")R.", b"(" + sg + b"K\x01t.", b"\x80\x04" + sg + b"\x94."]
        # one content as unicode, bytes and py2 str keys in every order (the py2 str equals both others, which differ):
        # the decoded Dict must hold pairwise different keys, or re-encoding collapses it
        import itertools
        for content in (b"a", b"key"):
            forms = {"u": b"X" + struct.pack("<I", len(content)) + content, "b": b"C" + bytes([len(content)]) + content,
                     "s": b"U" + bytes([len(content)]) + content}
            for order in itertools.permutations("ubs"):
                ks = [forms[o] for o in order]
                for wrap in (lambda k: k, lambda k: k + b"\x85", lambda k: b"K\x01" + k + b"\x86"):
                    kv = [wrap(k) + b"K" + bytes([i + 1]) for i, k in enumerate(ks)]
                    ins += [b"(" + b"".join(kv) + b"d.", b"}" + b"".join(x + b"s" for x in kv) + b".", b"}(" + b"".join(kv) + b"u.",
                            b"}" + kv[0] + b"s(" + kv[1] + kv[2] + b"u."]
        for n in V.INT_LATTICE:
            ins.append(P.INT(n) + b".")
            ins.append(b"(" + P.LONG(n) + P.INT(n) + b"t.")
        # one container reached twice (no cycle): remembered by PUT / MEMOIZE / DUP, filled before and / or after, fetched again - as
        # element of a tuple, of a list, as two values of a dict, behind a persistent reference
        from .pyprops import sharing_programs
        shared = sharing_programs()
        ins += shared if ctx.thorough else rng.sample(shared, min(len(shared), 500))
        for mk, fill in ((b"}", b"K\x01K\x02s"), (b"]", b"K\x01a"), (b"}", b"(K\x01K\x02K\x03K\x04u"), (b")", b""), (b"K\x05\x85", b"")):
            one = mk + fill + b"q\x00"
            ins += [b"(" + one + b"h\x00l.", b"}K\x01" + one + b"sK\x02h\x00s.", b"(" + one + b"h\x00h\x00t.", b"]" + one + b"ah\x00a.",
                    one + b"h\x00\x86\x85.", b"cm\nn\n(" + one + b"h\x00tR.", one + b"0(h\x00h\x00}h\x00h\x00sl."]
        lines, meta = [], []
        seen = set()
        for data in ins:
            for cfg in (CFGS if ctx.thorough else [rng.choice(CFGS)]):
                if (cfg, data) in seen:
                    continue
                seen.add((cfg, data))
                lines.append(f"reenc {cfg} {hexs(data[:300000])}")
                meta.append((cfg, data))
        go, lean = run_both(lines)
        float_text_instances(ctx, [(0, g) for g in go if g.startswith("OK ")])     # every decoded value is re-encoded at protocol 0 too
        for line, (cfg, data), g, l in zip(lines, meta, go, lean):
            ctx.evaluations += 1
            if g.startswith("SKIP") or l.startswith("SKIP"):
                ctx.count("skipped:" + g.split(" ")[-1])
                ctx.unmodelled += 1
                continue
            ctx.tie(line, g, l)
            if not g.startswith("OK "):
                ctx.count("first-decode:" + dec_class(g))
                continue
            ctx.nontrivial((cfg, data))
            m = re.match(r"OK (.*?)((?: p\d:\S+){6})$", g)
            if not m:
                ctx.disagree(line, g, l, "unparsable answer")
                continue
            first, per = m.group(1), m.group(2).split()
            if self.BUILTIN_CALL.search(first):
                ctx.count("excluded:builtin-call")
                continue
            v = V.parse(first)
            su = cfg[1] == "1"
            for item in per:
                p = int(item[1])
                res = item[3:]
                ctx.count("reencode:" + res.split(":")[0])
                if res == "SAME":
                    continue
                allowed = allowed_error(v, p, su)
                if res.startswith("ENCERR:") and res.split(":", 1)[1] in allowed:
                    continue
                if p == 0 and res.startswith("DIFF:"):
                    # float text keeps NaN-ness, not the payload
                    got = V.parse(res[5:].replace("_", " "))
                    if V.render(got) == V.render(normal_form(v, 0, cfg[0] == "1", su)):
                        ctx.count("p0:nan-payload-normalised")
                        continue
                ctx.violate(f"a decoded value does not survive re-encoding at protocol {p}", line[:3000], "SAME (or a documented limitation)", item[:800])
        for i in range(0, len(lines), max(1, len(lines) // 8)):
            ctx.sample(lines[i][:200] + " -> " + go[i][:200])


# ------------------------------------------------------------------------------------------- C12

ARGMAP = {"none": None}


class C12:
    prop = "C12"
    lean_module = "Ogorek.Props.C03R"
    theorems = ["Ogorek.C12_conforms", "Ogorek.C12_conforms_bin", "Ogorek.C12_conforms_reflect", "Ogorek.scans_val", "Ogorek.scanLoop_run", "Ogorek.fmtG_no_lf", "Ogorek.C12_reject", "Ogorek.C12_facts"]
    trusted_base = TB_COMMON + ["the opcode table of Ogorek/Opcodes.lean (transcribed from pickletools; diffed against pickletools.opcodes of CPython 3.11 on every run)"]
    level_text = ("Lean theorem C12_conforms: for EVERY value (any nesting; application structs, unsigned ints, maps and Dicts included) "
                  "with payloads < 2^32 bytes and EVERY protocol p in 0..5, if Encode returns no error its output passes the independent "
                  "opcode scanner (Ogorek/Opcodes.lean: opcode -> introducing protocol, argument layout, stack effect): it begins with PROTO p "
                  "exactly when p >= 2 and holds no other PROTO, every opcode was introduced in a protocol <= p, the stack discipline holds "
                  "at every opcode, and the single STOP at the very end finds exactly one object - by mutual structural induction over the "
                  "value (scans_val: each fragment scans as table opcodes of protocols <= p with net effect 'push one object') and a "
                  "run lemma for the scanner (scanLoop_run); the text lines of protocol 0 are newline-free because the two codecs' outputs "
                  "are (pyquote_no_lf, rue_no_lf, proved) and LF is not printable in the regenerated IsPrint table. A protocol outside 0-5 "
                  "is rejected with nothing written (C12_reject); highestProtocol in the source is the model's (C12_facts). The %g text of "
                  "every float64 is proved newline-free as well (fmtG_no_lf), so the theorem has no hypothesis about floats. Tie: the IMPLEMENTATION's bytes are scanned "
                  "with the same scanner (table diffed against pickletools.opcodes each run) and cross-checked with pickletools.genops, "
                  "while the model must emit the same chunks.")
    level_note = ("trusted: Lean kernel + standard axioms; encoder model; the transcribed opcode table (checked against CPython's pickletools on every run)")
    technique = "Lean 4 proof (structural induction: the encoder's output passes an independent opcode-table scanner for protocols 0-5) + scan of the implementation's bytes with the same table, cross-checked by pickletools.genops"
    rule = ("values of the documented encoder table (incl. uint, typed relatives, ByteString/string in both modes, Calls, Refs, persistent "
            "ids, every size class 0/1/255/256/65536) x protocols -1..7 x StrictUnicode; the implementation's output is scanned with the "
            "Lean scanner (opcode -> introducing protocol, argument layout, stack effect) and with pickletools.genops; distinct = distinct "
            "(protocol, su, value)")
    assumptions = ["payload lengths < 2^32"]

    def table_matches_pickletools(self, ctx):
        import pickletools
        ans = C.run_lean(["optable"])[0].split(" ")
        mine = {}
        for item in ans:
            code, name, proto, arg = item.split(":")
            mine[int(code)] = (name, int(proto), arg.split(".")[-1])
        argkind = {None: "none", "uint1": "u1", "uint2": "u2", "int4": "i4", "uint4": "u4", "uint8": "u8", "float8": "f8",
                   "decimalnl_short": "line", "decimalnl_long": "line", "stringnl": "line", "stringnl_noescape": "line",
                   "unicodestringnl": "line", "floatnl": "line", "stringnl_noescape_pair": "line2",
                   "string1": "counted1", "string4": "counted4", "bytes1": "counted1", "bytes4": "counted4", "bytes8": "counted8",
                   "unicodestring1": "counted1", "unicodestring4": "counted4", "unicodestring8": "counted8",
                   "long1": "counted1", "long4": "counted4", "bytearray8": "counted8"}
        theirs = {}
        for o in pickletools.opcodes:
            theirs[ord(o.code)] = (o.name, o.proto, argkind[o.arg.name if o.arg else None])
        if mine != theirs:
            diff = {k: (mine.get(k), theirs.get(k)) for k in set(mine) | set(theirs) if mine.get(k) != theirs.get(k)}
            ctx.disagree("opcode table vs pickletools.opcodes", str(diff)[:1500], "", "independent opcode table")
        ctx.notes.append(f"opcode table: {len(mine)} entries, equal to pickletools.opcodes: {mine == theirs}")

    def values(self, ctx, n):
        rng = ctx.rng
        out = []
        sizes = [0, 1, 255, 256, 65536]
        for sz in sizes:
            out += [("S", b"a" * sz), ("Y", b"b" * sz), ("B", b"c" * sz), ("A", b"d" * sz),
                    ("l", [("I", 1)] * min(sz, 300)), ("t", [("N",)] * min(sz, 300))]
        for k in range(0, 5):
            out += [("t", [("I", i) for i in range(k)]), ("l", [("I", i) for i in range(k)]),
                    ("m", [(("I", i), ("N",)) for i in range(k)]), ("d", [(("I", i), ("N",)) for i in range(k)]),
                    ("c", b"m", b"n", [("I", i) for i in range(k)])]
        out += V.edge_string_values()
        # containers of exactly / around a thousand items (picklers batch at 1000), bare and nested
        for k in (999, 1000, 1001, 2000, 2001):
            out += [("l", [("I", i % 7) for i in range(k)]), ("t", [("I", i % 5) for i in range(k)]), ("d", [(("I", i), ("N",)) for i in range(k)]),
                    ("l", [("N",), ("l", [("I", 1)] * k)]), ("c", b"m", b"n", [("I", 2)] * k)]
        for _ in range(n):
            g = V.ValueGen(rng, pydict=rng.random() < 0.5, su=rng.random() < 0.5, canonical=False, maxdepth=rng.choice([1, 2, 3, 4]))
            out.append(g.value())
        return out

    def run(self, ctx):
        import pickletools
        rng = ctx.rng
        self.table_matches_pickletools(ctx)
        lines, meta = [], []
        for v in self.values(ctx, ctx.scale(700, 15000)):
            protos = list(range(-1, 8)) if (ctx.thorough or rng.random() < 0.15) else [rng.randint(0, 5), rng.choice([-1, 6, 7, 0, 2])]
            for p in protos:
                su = rng.randint(0, 1)
                lines.append(f"enc {p} {su} - {V.render(v, sort=False)}")
                meta.append((p, su, v))
        go, lean = run_both(lines)
        scan_lines, scan_meta = [], []
        for line, (p, su, v), g, l in zip(lines, meta, go, lean):
            ctx.evaluations += 1
            ctx.nontrivial(line)
            enc_tie(ctx, line[:4000], g, l, v)
            ctx.count(f"p{p}:{g.split(' ')[0]}")
            if "PANIC" in g or g.startswith("CRASH"):
                ctx.violate("Encode panicked", line[:3000], "bytes or error", g[:300])
                continue
            if not 0 <= p <= 5:
                if g != "ERR invalidProtocol 0":
                    ctx.violate("a protocol outside 0-5 is not rejected before anything is written", line[:3000], "ERR invalidProtocol 0", g[:300])
                continue
            if g.startswith("OK "):
                data = bytes.fromhex("".join(c for c in g[3:].split(",") if c != "-"))
                scan_lines.append(f"scan {p} {hexs(data)}")
                scan_meta.append((line, p, data))
        verdicts = C.run_sharded(C.run_lean, scan_lines)
        for sl, (line, p, data), vd in zip(scan_lines, scan_meta, verdicts):
            ctx.evaluations += 1
            ctx.count("scan:" + vd.split(" ")[0])
            if vd != "OK":
                ctx.violate("the encoder's output does not conform to the requested protocol: " + vd, line[:3000], "OK", sl[:2000])
                continue
            pp = dict_parity_problem(data)
            if pp:
                ctx.violate("stack discipline: " + pp, line[:3000], "pairs", sl[:600])
                continue
            # cross-check the Lean scanner with pickletools on the same bytes
            try:
                ops = list(pickletools.genops(data))
                maxp = max(o.proto for o, _, _ in ops)
                ok = maxp <= p and ops[-1][0].name == "STOP" and (ops[0][0].name == "PROTO") == (p >= 2)
            except (UnicodeDecodeError, ValueError) as e:
                if isinstance(e, ValueError) and ("invalid literal for int" in str(e) or "could not convert string to float" in str(e)):
                    ctx.violate("argument layout: the text argument of a numeric opcode is not a number (" + str(e)[:80] + ")", line[:3000],
                                "a decimal / float literal", sl[:600])
                    continue
                # pickletools decodes / escape-decodes text arguments for display (ASCII, UTF-8, backslashes in GLOBAL
                # names); byte strings that are not text are legal pickle content (py2 str); K3 covers invalid UTF-8
                ctx.count("pickletools:text-argument-not-displayable")
                continue
            except Exception as e:  # noqa
                ok = False
            if not ok:
                ctx.disagree(sl[:2000], "pickletools rejects", vd, "Lean scanner vs pickletools.genops")
        self.scan_reflect(ctx)
        # every pickle an Encoder writes is a whole pickle of the requested protocol - also the second, third one of the same Encoder
        vs = self.values(ctx, ctx.scale(120, 2000))
        cases = [(rng.randint(0, 5), rng.random() < 0.5, "-", rng.choice(vs), v) for v in vs]
        second_encode_tie(ctx, cases, "encoder-reuse")
        for i in range(0, len(lines), max(1, len(lines) // 8)):
            ctx.sample(lines[i][:300] + " -> " + go[i][:200])

    def scan_reflect(self, ctx):
        """Go types no value token describes (structs incl. field-less ones, typed maps / slices / arrays, pointers,
        named types): whatever the implementation writes for them at protocol p is scanned with the same table."""
        import pickletools
        rng = ctx.rng
        n = ctx.scale(2500, 40000)
        base = ctx.seed * 5000011
        lines = [f"encr {base + i} {rng.randint(0, 5)} {rng.randint(0, 1)}" for i in range(n)]
        # directed: every leaf type in every kind of typed container ([]T, [3]T, map[string]T, *T, []*T, struct{F T; S []T}, (*T)(nil), []*T{nil, nil}) x protocols
        lines += [f"encr {-(k + 1)} {p} {rng.randint(0, 1)}" for k in range(DIRECTED_REFLECT) for p in range(6)]
        go = C.run_sharded(C.run_go, lines)
        scan_lines, scan_meta = [], []
        for line, g in zip(lines, go):
            ctx.evaluations += 1
            if " => PANIC" in g:
                ctx.violate("Encode panicked (whatever was written before is no pickle)", line + "   value: " + g.split(" => ")[0][:1200],
                            "one whole pickle or an error", g.split(" => ", 1)[1][:300])
            if " => OK " not in g:
                continue
            desc, res = g.split(" => ", 1)
            p = int(line.split(" ")[2])
            data = bytes.fromhex("".join(c for c in res[3:].split(",") if c != "-"))
            scan_lines.append(f"scan {p} {hexs(data)}")
            scan_meta.append((line, desc))
        for sl, (line, desc), vd in zip(scan_lines, scan_meta, C.run_sharded(C.run_lean, scan_lines)):
            ctx.evaluations += 1
            ctx.nontrivial(line)
            ctx.count("scan-reflect:" + vd.split(" ")[0])
            if vd != "OK":
                ctx.violate("the encoder's output for a Go value does not conform to the requested protocol: " + vd,
                            line + "   value: " + desc[:1200], "OK", sl[:1500])
                continue
            raw = bytes.fromhex(sl.split(" ")[2]) if sl.split(" ")[2] != "-" else b""
            pp = dict_parity_problem(raw)
            if pp:
                ctx.violate("stack discipline: " + pp, line + "   value: " + desc[:1200], "pairs", sl[:600])
                continue
            try:
                list(pickletools.genops(raw))
            except ValueError as e:
                if "invalid literal for int" in str(e) or "could not convert string to float" in str(e):
                    ctx.violate("argument layout: the text argument of a numeric opcode is not a number (" + str(e)[:80] + ")",
                                line + "   value: " + desc[:1200], "a decimal / float literal", sl[:600])
            except Exception:   # noqa  (display limits of pickletools: not this check's subject)
                pass


# ------------------------------------------------------------------------------------------- C13

class C13:
    prop = "C13"
    lean_module = "Ogorek.Props.C13"
    theorems = ["Ogorek.C13_seq_err_left", "Ogorek.C13_seq_ok", "Ogorek.C13_seq_prefix", "Ogorek.C13_fail", "Ogorek.C13_nofault",
                "Ogorek.C13_buffering", "Ogorek.C13_facts"]
    trusted_base = TB_COMMON
    level_text = ("Lean theorems over the encoder's output algebra (chunks written + error): sequencing stops at the first error and never turns "
                  "an error into success (C13_seq_err_left, C13_seq_ok), writes are never reordered or continued after an error "
                  "(C13_seq_prefix), a destination failing at its k-th Write yields exactly k Write calls and that error (C13_fail), a fault "
                  "beyond the last write changes nothing (C13_nofault), the bytes delivered do not depend on chunk grouping (C13_buffering); "
                  "that the code never discards an error result is a fact regenerated from the source by go/ast (C13_facts). By construction "
                  "the model cannot ignore an error, so the weight is on the tie: every write index of every value is failed on the "
                  "implementation and compared with the model.")
    level_note = ("trusted: Lean kernel + standard axioms; the encoder model's chunk structure (one chunk per emit*; exact agreement of chunk lists "
                  "is required); the go/ast extractor's notion of 'error-returning call used as a statement or blanked'")
    technique = "Lean 4 proof over the encoder's write/error algebra + fault injection at every Write index on the implementation + go/ast fact (no dropped error)"
    rule = ("values of the C03 domain (deep nesting, Dicts, Calls, Refs, formatted writes) x protocols 0..5 x every write index k from "
            "1 to (number of writes + 1); the k-th Write fails with a sentinel error; observed: returned error, number of Write calls; "
            "and the same value through three differently buffering writers; distinct = distinct (protocol, su, value, k)")
    assumptions = []

    def run(self, ctx):
        rng = ctx.rng
        vals = []
        for _ in range(ctx.scale(250, 5000)):
            g = V.ValueGen(rng, pydict=rng.random() < 0.5, su=rng.random() < 0.5, canonical=rng.random() < 0.7, maxdepth=rng.choice([2, 3, 4]))
            v = g.value()
            vals.append(v)     # with several map / Dict entries the write order is arbitrary: no tie then, the property itself is checked
        base_lines = []
        for v in vals:
            p, su = rng.randint(0, 5), rng.randint(0, 1)
            base_lines.append((p, su, "-", v, f"enc {p} {su} - {V.render(v, sort=False)}"))
        # payloads longer than any internal scratch buffer (several hundred bytes to > 64 KiB), in every string-like type
        for n in (511, 512, 513, 600, 1025, 4097, 70000):
            for kind in "SYBA":
                v = ("l", [("I", 1), (kind, bytes([97 + (n + i) % 26 for i in range(n)])), ("I", 2)])
                for p in ((0, 1, 2, 3, 4, 5) if n <= 1025 else (1, 4)):
                    su = rng.randint(0, 1)
                    base_lines.append((p, su, "-", v, f"enc {p} {su} - {V.render(v, sort=False)}"))
        # application objects written as persistent references (every hook kind), alone and inside containers
        x1, x2 = ("X", 1), ("X", 2)
        for v in (x1, ("l", [x1, ("I", 5), x2]), ("t", [x1, x1]), ("d", [(("S", b"k"), x1)]), ("m", [(x1, ("I", 1))]),
                  ("c", b"m", b"n", [x1, ("S", b"arg")]), ("l", [("t", [("d", [(("I", 1), x1)])]), x2]), ("R", ("t", [x1]))):
            for rh in ("S", "T", "E", "N"):
                for p in range(6):
                    su = rng.randint(0, 1)
                    base_lines.append((p, su, rh, v, f"enc {p} {su} {rh} {V.render(v, sort=False)}"))
        base_go = C.run_sharded(C.run_go, [b[4] for b in base_lines])
        lines, meta = [], []
        multi_of = {}
        for (p, su, rh, v, bl), bg in zip(base_lines, base_go):
            if bg.startswith("OK "):
                n = len(bg[3:].split(","))
            elif bg.startswith("ERR ") and V.max_entries(v) <= 1:
                n = int(bg.split(" ")[2])
            else:
                continue
            ks = range(1, n + 2) if (n <= 40 or ctx.thorough) else sorted(set([1, 2, n - 1, n, n + 1] + [rng.randint(1, n) for _ in range(20)]))
            first = len(lines)
            for k in ks:
                lines.append(f"encf {p} {su} {k} {V.render(v, sort=False)}" if rh == "-" else f"encfh {p} {su} {rh} {k} {V.render(v, sort=False)}")
                meta.append((n, k, bg))
            if rh == "-":
                lines.append(f"encw {p} {su} {V.render(v, sort=False)}")
                meta.append((n, None, bg))
            for j in range(first, len(lines)):
                multi_of[j] = V.max_entries(v) > 1
        go = C.run_sharded(C.run_go, lines)
        lean_lines = [l for l in lines if l.startswith("encf")]
        lean = iter(C.run_sharded(C.run_lean, lean_lines))
        for idx, (line, (n, k, bg), g) in enumerate(zip(lines, meta, go)):
            ctx.evaluations += 1
            ctx.nontrivial(line)
            multi = multi_of.get(idx, False)
            if k is None:
                ctx.count("buffering:" + g.split(" ")[0])
                if (g.startswith("DIFF") and not multi) or g == "PANIC":
                    ctx.violate("the bytes written depend on how the Writer buffers", line[:3000], "SAME", g)
                continue
            l = next(lean)
            if multi:
                ctx.count("fault:multi-entry(no tie)")
            else:
                ctx.tie(line[:3000], g, l)
            ctx.count("fault@" + ("within" if k <= n else "beyond"))
            if "PANIC" in g:
                ctx.violate("Encode panicked with a failing Writer", line[:3000], "error", g)
            elif k <= n:
                if g != f"{k} 1 -":
                    ctx.violate("a failing Write did not surface as Encode's error, or writes continued after it", line[:3000], f"{k} 1 -", g)
            else:
                f = g.split(" ")
                if f[1] != "0":
                    ctx.violate("injected error reported although no Write failed", line[:3000], "no injected error", g)
        self.run_reflect(ctx)
        self.run_reuse(ctx, base_lines, base_go)
        for i in range(0, len(lines), max(1, len(lines) // 8)):
            ctx.sample(lines[i][:300] + " -> " + go[i][:100])

    def run_reuse(self, ctx, base_lines, base_go):
        """One Encoder used again after a call in which a Write failed: with a Writer that works, the second call must write
        exactly the pickle (nothing left over from the failed call)."""
        rng = ctx.rng
        lines = []
        for (p, su, rh, v, bl), bg in zip(base_lines, base_go):
            if rh != "-" or not bg.startswith("OK ") or V.max_entries(v) > 1:     # several map entries: the write order is arbitrary
                continue
            n = len(bg[3:].split(","))
            for k in sorted(set([1, 2, n] + [rng.randint(1, n) for _ in range(3)])):
                lines.append(f"encre {p} {su} {k} {V.render(v, sort=False)}")
        lines = lines[: ctx.scale(4000, 60000)]
        for line, g in zip(lines, C.run_sharded(C.run_go, lines)):
            ctx.evaluations += 1
            ctx.count("reuse:" + g.split(" ")[0])
            if g != "SAME":
                ctx.violate("an Encoder used again after a failed Write does not write the pickle (no Write failed in this call)",
                            line[:3000], "SAME (the bytes a fresh Encoder writes)", g[:600])

    def run_reflect(self, ctx):
        """The same fault injection over reflect-generated Go types (structs with several tagged fields, embedded
        structs, typed maps and slices, pointers): values no GoVal token describes."""
        rng = ctx.rng
        n = ctx.scale(700, 12000)
        base = ctx.seed * 7000003
        blines = [f"encr {base + i} {rng.randint(0, 5)} {rng.randint(0, 1)}" for i in range(n)]
        bgo = C.run_sharded(C.run_go, blines)
        lines, meta = [], []
        for bl, bg in zip(blines, bgo):
            if " => OK " not in bg:
                continue        # an encoder error: with maps / tag maps the number of writes before it is order-dependent
            desc, res = bg.split(" => ", 1)
            nw = len(res[3:].split(","))
            f = bl.split(" ")
            multi = "rmap(" in desc or "=" in desc
            ks = range(1, nw + 2) if (nw <= 30 or ctx.thorough) else sorted(set([1, 2, nw - 1, nw, nw + 1] + [rng.randint(1, nw) for _ in range(12)]))
            for k in ks:
                lines.append(f"encrf {f[1]} {f[2]} {f[3]} {k}")
                meta.append((nw, k, multi, f"encrf {f[2]} {f[3]} {k} {desc}"))
        go = C.run_sharded(C.run_go, lines)
        lean = C.run_sharded(C.run_lean, [m[3] for m in meta])
        for line, (nw, k, multi, ml), g, l in zip(lines, meta, go, lean):
            ctx.evaluations += 1
            ctx.nontrivial(line)
            ctx.count("reflect-fault@" + ("within" if k <= nw else "beyond") + (":tagged" if "=" in ml else ""))
            if not multi:
                ctx.tie(ml[:3000], g, l)
            if "PANIC" in g:
                ctx.violate("Encode panicked with a failing Writer", line + "   value: " + ml[:1500], "error", g)
            elif k <= nw:
                if g != f"{k} 1 -":
                    ctx.violate("a failing Write did not surface as Encode's error, or writes continued after it",
                                line + "   value: " + ml[:1500], f"{k} 1 -", g)
            elif g.split(" ")[1] != "0":
                ctx.violate("injected error reported although no Write failed", line + "   value: " + ml[:1500], "no injected error", g)


# ------------------------------------------------------------------------------------------- C15

def dict_parity_problem(data):
    """DICT and SETITEMS take key / value PAIRS from above the topmost MARK: an odd number of items there is a malformed pickle
    (CPython: "odd number of items for DICT").  Walks the opcodes with pickletools' own stack signatures."""
    import pickletools
    stack = []
    try:
        for op, arg, pos in pickletools.genops(data):
            before, after = op.stack_before, op.stack_after
            if pickletools.markobject in before:
                n = 0
                while stack and stack[-1] != "M":
                    stack.pop()
                    n += 1
                if not stack:
                    return f"{op.name} at {pos}: no MARK"
                stack.pop()
                if op.name in ("DICT", "SETITEMS") and n % 2:
                    return f"{op.name} at {pos}: {n} items above the MARK (key without value)"
                for _ in range(before.index(pickletools.markobject)):
                    if stack:
                        stack.pop()
            else:
                for _ in before:
                    if stack:
                        stack.pop()
            for a in after:
                stack.append("M" if a is pickletools.markobject else "x")
    except Exception:   # noqa  (display limits of pickletools: not this function's subject)
        return None
    return None


DIRECTED_REFLECT = 50 * 8 * 3      # (leaf types of the harness generator, rounded up) x container kinds x repetitions with different content


class C15:
    prop = "C15"
    lean_module = "Ogorek.Props.C15"
    theorems = ["Ogorek.enc_no_panic", "Ogorek.C15_total", "Ogorek.C15_kind", "Ogorek.C15_nil_and_arrays"]
    trusted_base = TB_COMMON + ["the reflect package as modelled: kinds, Elem of nil pointers/interfaces is the invalid Value, unexported "
                                "fields are reachable only through their struct (the harness describes each generated value to the model)"]
    level_text = ("Lean theorems over a reflect-level value universe (every kind, named types, arrays/slices of any element, maps with any key "
                  "type, structs with exported / unexported / embedded / tagged fields, pointer chains, nil pointers and interfaces): the "
                  "encoder never reaches a panic outcome — in particular the placeholder for unexported content is never consulted and "
                  "byte arrays by value are copied (C15_total, by mutual structural induction; enc_no_panic for the plain universe); a value "
                  "of an unsupported kind is answered with TypeError naming that kind (C15_kind); nil pointers/interfaces encode as None "
                  "(C15_nil_and_arrays). Tie: types built with reflect.StructOf/ArrayOf/SliceOf/MapOf/PointerTo to depth 4 plus hand-written "
                  "ones, filled with random data, are encoded by the real package (recovering panics) and described to the model, which "
                  "must give the same chunks / error kind.")
    level_note = "trusted: Lean kernel + standard axioms; the reflect-level encoder model; reflect's own behaviour"
    technique = "Lean 4 proof (mutual structural induction over a reflect-value universe) + differential correspondence on reflect-generated types"
    rule = ("values of Go types generated with reflect (StructOf with exported / unexported / tagged fields, ArrayOf, SliceOf, MapOf with "
            "string / int / [2]byte / any keys, PointerTo, interface) over all basic kinds incl. chan, func, complex, uintptr, "
            "unsafe.Pointer, named string / byte / int types, og-rek's own types, nil pointers and pointer chains, byte arrays by value, "
            "hand-written structs with embedded and tagged-unexported fields; depth <= 4; zero and random data; x protocols 0..5 x "
            "StrictUnicode; distinct = distinct (seed, protocol, su)")
    assumptions = ["acyclic values"]

    def run(self, ctx):
        rng = ctx.rng
        n = ctx.scale(6000, 120000)
        base = ctx.seed * 1000003
        lines = [f"encr {base + i} {rng.randint(0, 5)} {rng.randint(0, 1)}" for i in range(n)]
        # directed: every leaf type in every kind of typed container ([]T, [3]T, map[string]T, *T, []*T, struct{F T; S []T}, (*T)(nil), []*T{nil, nil}) x protocols
        lines += [f"encr {-(k + 1)} {p} {rng.randint(0, 1)}" for k in range(DIRECTED_REFLECT) for p in range(6)]
        go = C.run_sharded(C.run_go, lines)
        mlines = []
        for line, g in zip(lines, go):
            f = line.split(" ")
            desc = g.split(" => ")[0] if " => " in g else "inv"
            mlines.append(f"encr {f[2]} {f[3]} {desc}")
        lean = C.run_sharded(C.run_lean, mlines)
        for line, ml, g, l in zip(lines, mlines, go, lean):
            ctx.evaluations += 1
            ctx.nontrivial(line)
            if g.startswith("HARNESS-PANIC"):
                ctx.count("harness:generator-failed")
                continue
            if " => " not in g:
                ctx.violate("harness failure / crash while encoding a generated value", line, "an outcome", g[:300])
                continue
            desc, res = g.split(" => ", 1)
            multi = "rmap(" in desc or "=" in desc      # map iteration / tag-map iteration order is arbitrary
            gi = res
            if res.startswith("ERR "):
                gi = res + " x"            # the model prints the number of chunks written; not compared
            ctx.tie(ml[:3000], _encr_norm(gi), _encr_norm(l), project=enc_project if multi else None)
            ctx.count("outcome:" + " ".join(res.split(" ")[:2])[:40] if not res.startswith("OK") else "outcome:OK")
            for kind in ("uns:", "st(", "rmap(", "barr:", "ptr(", "inv", "seq(", "tup(", "zero"):
                if kind in desc:
                    ctx.count("has:" + kind)
            if res.startswith("PANIC"):
                ctx.violate("Encode panicked on a generated value", line + "   value: " + desc[:1500], "nil or an error", res[:300])
            if res.startswith("ERR typeError:"):
                k = res.split(":", 1)[1]
                if f"uns:{k}" not in desc:
                    ctx.violate("TypeError names a kind that does not occur in the value", line + "   value: " + desc[:1500], "a kind present in the value", res)
            if res.startswith("OK") and "uns:" in desc and "=" not in desc:
                # every described position is reached by the encoder (unexported fields are described as `zero`, never filled; values with
                # pickle-tagged struct fields are left to the model: untagged fields of such structs are skipped)
                ctx.violate("Encode returned nil for a value that holds an unsupported kind (chan / func / complex / uintptr / unsafe.Pointer)",
                            line + "   value: " + desc[:1500], "a TypeError", res[:300])
            if res.startswith("ERR other"):
                ctx.violate("Encode returned an undocumented error for a generated value", line + "   value: " + desc[:1500], "nil, TypeError or a documented limitation", res)
        for i in range(0, len(lines), max(1, len(lines) // 8)):
            ctx.sample(lines[i] + " -> " + go[i][:300])


def _encr_norm(ans):
    f = ans.split(" ")
    if f[0] == "ERR":
        return " ".join(f[:2])
    return ans
