"""Properties that involve CPython: C01 (encoder meaning), C02 (CPython pickles), C06 (programs), C09 (dict opcodes)."""
import os
import re

from . import common as C
from . import programs as P
from . import pyside
from . import values as V
from .decprops import CFGS, TB_COMMON, dec_class, enc_project, enc_tie, float_text_instances, hexs, own_corpus, run_both
from .dictprops import ORACLE
from .encprops import is_valid_utf8

TB_PY = TB_COMMON + ["CPython 3.11.7 (pickle._Unpickler and the C unpickler, classes / calls / persistent ids kept symbolic, "
                     "_codecs.encode, bytearray and bytes executed) as the meaning of 'what Python loads'; /verif/pyoracle"]


def to_py_text(go_text, su):
    """Project a Go-side rendering onto Python values: ints lose their Go type, maps and Dicts are dicts,
    py2 str is `Y` only where the decoder keeps it apart (StrictUnicode)."""
    v = V.parse(go_text)
    return V.render(_to_py(v))


def _to_py(v):
    k = v[0]
    if k in ("I", "L", "U"):
        return ("J", v[1])
    if k in ("l", "t"):
        return (k, [_to_py(x) for x in v[1]])
    if k in ("m", "d"):
        return ("d", [(_to_py(a), _to_py(b)) for a, b in v[1]])
    if k == "c":
        return ("c", v[1], v[2], [_to_py(x) for x in v[3]])
    if k == "R":
        return ("R", _to_py(v[1]))
    if k == "D" and V.is_nan_bits(v[1]):
        return ("D", 0x7ff8000000000000)
    return v


def y_to_s(text):
    """StrictUnicode off: py2 str is decoded into string."""
    return " ".join(("S" + t[1:]) if t[:1] == "Y" else t for t in text.split(" "))


def norm_py(text, su):
    t = to_py_text(text, su)
    return t if su else V.render(V.parse(y_to_s(t)))


def key_obj(v):
    return ORACLE.parse_key(V.render(v).split())[0]


def equiv(a, b, keyeq=None):
    keyeq = keyeq or ORACLE.py2eq
    """Structural equivalence of two Python-value trees where dict keys are matched by (py2-aware) Python
    equality — og-rek's Dict keeps the last key object of a class, Python's dict the first."""
    ka, kb = a[0], b[0]
    if ka in ("l", "t") and ka == kb:
        return len(a[1]) == len(b[1]) and all(equiv(x, y, keyeq) for x, y in zip(a[1], b[1]))
    if ka == "d" and kb == "d":
        if len(a[1]) != len(b[1]):
            return False
        rest = list(b[1])
        for k1, v1 in a[1]:
            hit = None
            for i, (k2, v2) in enumerate(rest):
                try:
                    if (V.render(k1) == V.render(k2) or keyeq(key_obj(k1), key_obj(k2))) and equiv(v1, v2, keyeq):
                        hit = i
                        break
                except Exception:  # noqa
                    continue
            if hit is None:
                return False
            rest.pop(hit)
        return True
    if ka == "c" and kb == "c":
        return a[1:3] == b[1:3] and len(a[3]) == len(b[3]) and all(equiv(x, y, keyeq) for x, y in zip(a[3], b[3]))
    if ka == "R" and kb == "R":
        return equiv(a[1], b[1], keyeq)
    return V.render(a) == V.render(b)


SURR = re.compile(rb"\\u[dD][89a-fA-F][0-9a-fA-F]{2}")


def alias_sensitive(lines):
    """K1 classifier: the value-semantics machine (the code) and the list-by-reference machine differ."""
    ref = C.run_sharded(C.run_lean, [l.replace("dec ", "decref ", 1) for l in lines])
    val = C.run_sharded(C.run_lean, lines)
    return [strip_consumed(a) != strip_consumed(b) for a, b in zip(val, ref)], val


def strip_consumed(ans):
    return re.sub(r"^(OK .*) \d+$", r"\1", ans)


# ---------------------------------------------------------------------- the model of CPython's pickler (C02_pickler)

def py_token(o):
    """A Python object of the basic types in the driver's value syntax."""
    import struct
    if o is None:
        return "N"
    if o is True:
        return "T"
    if o is False:
        return "F"
    if isinstance(o, int):
        return f"I{o}"
    if isinstance(o, float):
        return "D" + struct.pack(">d", o).hex()
    if isinstance(o, str):
        return "S" + o.encode("utf-8", "surrogatepass").hex()
    if isinstance(o, bytes):
        return "B" + o.hex()
    if isinstance(o, bytearray):
        return "A" + bytes(o).hex()
    if isinstance(o, list):
        return "l( " + "".join(py_token(x) + " " for x in o) + ")"
    if isinstance(o, tuple):
        return "t( " + "".join(py_token(x) + " " for x in o) + ")"
    if isinstance(o, dict):
        return "d( " + "".join(py_token(k) + " " + py_token(v) + " " for k, v in o.items()) + ")"
    raise TypeError(type(o))


def py_token_ids(o, ids):
    """The same with identities: a str / bytes / bytearray leaf is written c( C<"id">.<number> leaf ), the number standing for id(o)."""
    def leaf(t):
        k = ids.setdefault(id(o), len(ids))
        return "c( C" + b"id".hex() + "." + str(k).encode().hex() + " " + t + " )"
    if isinstance(o, str):
        return leaf("S" + o.encode("utf-8", "surrogatepass").hex())
    if isinstance(o, bytes):
        return leaf("B" + o.hex())
    if isinstance(o, bytearray):
        return leaf("A" + bytes(o).hex())
    if isinstance(o, list):
        return "l( " + "".join(py_token_ids(x, ids) + " " for x in o) + ")"
    if isinstance(o, tuple):
        return "t( " + "".join(py_token_ids(x, ids) + " " for x in o) + ")"
    if isinstance(o, dict):
        return "d( " + "".join(py_token_ids(k, ids) + " " + py_token_ids(v, ids) + " " for k, v in o.items()) + ")"
    return py_token(o)


RESERVED_TEXT = {"latin1", "builtins", "bytearray", "__builtin__", "bytes", "_codecs", "encode"}


def containers_are_tree(o, seen):
    """No container occurs twice (strings and bytes may), and no text that CPython itself holds as one of the interned
    constants the pickler writes (so that identities in the model are the identities in CPython)."""
    if isinstance(o, (list, dict)) or (isinstance(o, tuple) and o):
        if id(o) in seen:
            return False
        seen.add(id(o))
    if isinstance(o, str) and o in RESERVED_TEXT:
        return False
    if isinstance(o, (list, tuple)):
        return all(containers_are_tree(x, seen) for x in o)
    if isinstance(o, dict):
        return all(containers_are_tree(k, seen) and containers_are_tree(v, seen) for k, v in o.items())
    return True


def outside_pickler_model_shared(o, p):
    if isinstance(o, (bytes, bytearray)):
        return False
    if isinstance(o, (list, tuple)):
        return any(outside_pickler_model_shared(x, p) for x in o)
    if isinstance(o, dict):
        return any(outside_pickler_model_shared(k, p) or outside_pickler_model_shared(v, p) for k, v in o.items())
    return outside_pickler_model(o, p)


def interned_char_clash(o, p):
    """CPython keeps ONE object per one-character Latin-1 string.  Below protocol 3 a bytes / bytearray object of one byte is written
    through a temporary str(obj, 'latin1') - that very object - so the pickler finds it in its memo when the same character occurred
    before as a str or as the content of another one-byte object.  The model knows objects by the ids the case text gives them and
    cannot see this temporary; such objects are left out of the byte-for-byte comparison (they are still decoded and compared)."""
    if p >= 3:
        return False
    chars, ids = {}, set()

    def walk(x):
        if isinstance(x, str) and len(x) == 1 and ord(x) < 256:
            if ("s", x) not in ids:
                ids.add(("s", x))
                chars[ord(x)] = chars.get(ord(x), 0) + 1
        elif isinstance(x, (bytes, bytearray)) and len(x) == 1:
            if id(x) not in ids:
                ids.add(id(x))
                chars[x[0]] = chars.get(x[0], 0) + 1
        elif isinstance(x, (list, tuple)):
            for y in x:
                walk(y)
        elif isinstance(x, dict):
            for k, v in x.items():
                walk(k)
                walk(v)
    walk(o)
    return any(n >= 2 for n in chars.values())


def shared_objects(rng, n):
    objs = pyside.rand_objects(rng, n, share=0.3)
    k, d = "key" + str(rng.randint(0, 9)), b"payload\xff"
    objs += [[{"a": 1, "b": 2}, {"a": 3, "b": 4}], [b"ab", b"c\xe9", b""], [bytearray(b"ab"), bytearray(b"cd"), bytearray()],
             [bytearray(b"ab"), b"xy", bytearray(b"")], [k, k, (k, k), {k: k}], ["a", "a", "bb"], ["", "", b"", b""],
             [{k: d, "n": i} for i in range(300)], [b"x" * 300, b"x" * 300], [bytearray(b"q" * 70000)], [b"\xff" * 256],
             ["x" * 300] * 3 + [b"y" * 3] * 3, {i: k for i in range(1001)}, [d] * 1001, (d, (d, [d, {d: d}])),
             [bytes([i]) for i in range(256)], [bytearray([i, 255 - i]) for i in range(40)], b"", bytearray(), [b"", bytearray()]]
    # objects fetched again long after they were memoized: memo indices beyond one byte (LONG_BINGET / LONG_BINPUT); the driver is
    # quadratic in the number of memoized objects, so a few thousand is the limit for a run measured in minutes
    for m in ((300, 700) if n < 1000 else (300, 700, 3000)):
        late = ["s%d" % i for i in range(m)]
        objs.append(late + [late[m - 1], late[0], late[256], late[255], late[m // 2]])
    lb = [bytes([i % 256, i // 256]) + b"x" for i in range(400)]
    objs.append([lb, lb[399], lb[257], {lb[300]: lb[1]}][1:] + lb)
    return objs


def is_tree(o, seen):
    """No object the pickler memoizes occurs twice (the precondition of the pickler model: it never writes a GET)."""
    if isinstance(o, (str, bytes, bytearray, list, dict)) or (isinstance(o, tuple) and o):
        if id(o) in seen:
            return False
        seen.add(id(o))
    if isinstance(o, (list, tuple)):
        return all(is_tree(x, seen) for x in o)
    if isinstance(o, dict):
        return all(is_tree(k, seen) and is_tree(v, seen) for k, v in o.items())
    return True


def outside_pickler_model(o, p):
    """What the model declares unmodelled: bytes below protocol 3 / bytearray below 5 (written through a memoized global),
    lone surrogates in protocol-0 text, integers that need LONG4."""
    if isinstance(o, bytes):
        return p < 3
    if isinstance(o, bytearray):
        return p < 5
    if isinstance(o, str):
        return p == 0 and any(0xD800 <= ord(ch) <= 0xDFFF for ch in o)
    if isinstance(o, bool) or o is None or isinstance(o, float):
        return False
    if isinstance(o, int):
        return p >= 2 and not (-2 ** 31 <= o < 2 ** 31) and (o.bit_length() >> 3) + 1 > 255 and not (o < 0 and o == -(1 << (8 * 255 - 1)))
    if isinstance(o, (list, tuple)):
        return any(outside_pickler_model(x, p) for x in o)
    if isinstance(o, dict):
        return any(outside_pickler_model(k, p) or outside_pickler_model(v, p) for k, v in o.items())
    return True


def strip_frames(data):
    import pickletools
    out, last = bytearray(), 0
    for op, _, pos in pickletools.genops(data):
        if op.name == "FRAME":
            out += data[last:pos]
            last = pos + 9
    out += data[last:]
    return bytes(out)


def tree_objects(rng, n):
    import pickle   # noqa: F401
    objs = []
    for _ in range(n):
        objs.append(pyside.ObjGen(rng, share=0.0).obj())
    objs += [list(range(1000)), list(range(1001)), list(range(999)), {i: i for i in range(1000)}, {i: -i for i in range(999)},
             {i: str(i) + "v" for i in range(1001)}, {i: i for i in range(2000)}, [str(i) + "x" for i in range(300)],
             [[i, (i, str(i) + "t")] for i in range(1002)], {(i, i + 1): [i] for i in range(1000)},
             1e16, 1e15, 123456789012345678.0, 1e-5, 1e-4, 0.1, 5e-324, 1.7976931348623157e308, -0.0, float("inf"), float("-inf"),
             "a\n\r\x00\x1a\\\u00e9\u20ac\U0001f600", "\\u0041", "x" * 255, "y" * 256, "\u00e9" * 128, b"z" * 255, b"w" * 256,
             [2 ** 31, -2 ** 31, -2 ** 31 - 1, 2 ** 63, -128, -129, 2 ** 2038, -2 ** 2039, 2 ** 2039 - 1, 255, 256, 65535, 65536, -1, -32768,
              -32769, 2 ** 31 - 1, 127, 128, -2 ** 63, -2 ** 63 - 1, 2 ** 64, 32767, 32768, -2 ** 15, -2 ** 7, -2 ** 23],
             (1,), (1, 2), (1, 2, 3), (1, 2, 3, 4), ((), [()], {(): ()}), [[[[[[]]]]]], {"k": {"k": {"k": {}}}},
             bytearray(b"ab"), [bytearray(range(256)), b"\x00\xff"], {1: 1.0, "1": b"1", (1,): None, 2 ** 70: [True, False]}]
    return objs


def pickler_tie(ctx, objs, shared=False):
    """Ogorek/CPickle.lean (the model of CPython's pickler that theorem C02_pickler is about) against the real `pickle.dumps`,
    byte for byte, on tree-shaped objects at every protocol; and, where the theorem's decidable hypothesis holds, its claim on the
    implementation: Decode of these bytes succeeds, consumes them all and returns the documented value."""
    import pickle
    import pickletools
    lines, meta = [], []
    cmd = "cpks" if shared else "cpk"
    tag = "pickler-model(memo read)" if shared else "pickler-model"
    for o in objs:
        if not (containers_are_tree(o, set()) if shared else is_tree(o, set())):
            ctx.count(tag + ":object-with-shared-containers(skipped)" if shared else tag + ":object-with-sharing(skipped)")
            continue
        t = py_token_ids(o, {}) if shared else py_token(o)
        for p in range(6):
            real = pickle.dumps(o, p)
            lines.append(f"{cmd} 0 {p} {t}")
            meta.append((o, p, strip_frames(real), real))
            nfr = sum(1 for op, _, _ in pickletools.genops(real) if op.name == "FRAME")
            if p >= 4 and nfr <= 1 and len(real) < 60000:
                lines.append(f"{cmd} 1 {p} {t}")
                meta.append((o, p, real, real))
            # the pure-Python pickler (it writes the last batch of a list / dict differently, and at protocol 0 memoizes a copy of
            # an escaped string), and - for the memo-reading model - pickletools.optimize of the C pickler's output
            realp = pyside.pickle_py(o, p)
            lines.append(f"{cmd} P {p} {t}")
            meta.append((o, p, strip_frames(realp), realp))
            if shared:
                realo = pickletools.optimize(real)
                lines.append(f"{cmd} O {p} {t}")
                meta.append((o, p, strip_frames(realo), realo))
    ans = C.run_sharded(C.run_lean, lines)
    dec_lines, dec_meta = [], []
    for line, (o, p, want, real), a in zip(lines, meta, ans):
        ctx.evaluations += 1
        ctx.traces += 1
        if a == "UNMODELLED":
            if (outside_pickler_model_shared if shared else outside_pickler_model)(o, p):
                ctx.count(tag + ":declared-unmodelled")
                ctx.unmodelled += 1
            else:
                ctx.disagree(line[:3000], "pickle.dumps: " + hexs(want[:400]), a, "pickler model")
            continue
        if not a.startswith("OK "):
            ctx.disagree(line[:3000], "pickle.dumps: " + hexs(want[:400]), a[:300], "pickler model")
            continue
        hx, flags = a[3:].split(" ")
        if shared and bytes.fromhex(hx) != want and interned_char_clash(o, p):
            ctx.count(tag + ":declared-unmodelled(one-character str object shared with a one-byte bytes object's temporary)")
            ctx.unmodelled += 1
            continue
        if bytes.fromhex(hx) != want:
            ctx.disagree(line[:3000], "pickle.dumps: " + hexs(want[:1000]), "model: " + hx[:2000], "pickler model")
            continue
        ctx.exact_agree += 1
        variant = {"0": "C", "1": "C-framed", "P": "py", "O": "optimize"}[line.split(" ")[1]]
        ctx.count(f"{tag}:same-bytes:{variant}:proto{p}")
        if variant == "C-framed":
            continue
        for pd in (False, True):
            # every hypothesis of C02_pickler_dec / C02_pickler_shared_dec, evaluated by the driver: keys (per mode) and, at protocol 0,
            # the float-text round trip of each float of the object
            covered = flags[int(pd)] == "1" and flags[-1] == "1"
            cfg = ("1" if pd else "0") + ctx.rng.choice("01")
            dec_lines.append(f"dec {cfg} - {hexs(real)}")
            dec_meta.append((o, p, pd, covered, real, flags[-1]))
    go, lean = run_both(dec_lines)
    for line, (o, p, pd, covered, real, fflag), g, l in zip(dec_lines, dec_meta, go, lean):
        ctx.evaluations += 1
        ctx.tie(line[:4000], g, l)
        ctx.nontrivial((line[4:6], real))
        thm = "pickler-theorem(memo read)" if shared else "pickler-theorem"
        if not covered:
            ctx.count(thm + ":outside-hypotheses(" + ("protocol-0 float text: a NaN, whose text carries no payload" if p == 0 and _has_float(o) and fflag == "0" else
                                                                "tuple / big-int key in map mode" if not pd else "keys") + ")")
            continue
        ctx.count(thm + ":covered")
        want = pyside.render_expected(pyside.table(o, pd))
        if not g.startswith("OK "):
            ctx.violate("Decode failed on a CPython pickle that theorem C02_pickler covers", line[:3000], "OK " + want[:300], g[:300])
            continue
        body, consumed = g[3:].rsplit(" ", 1)
        if int(consumed) != len(real):
            ctx.violate("Decode did not consume the whole pickle", line[:3000], len(real), consumed)
        got = pyside.intagnostic(body)
        if got != want:
            ctx.violate("decoded value differs from the documented value for the pickled object (C02_pickler)", line[:3000],
                        want[:1200], got[:1200])


def py2_str_tie(ctx):
    """Theorem C02_py2_str: the model of what Python 2's picklers write for a str object (py2StrPickle) against the real
    pickle / cPickle of Python 2.7 where it can be run, byte for byte; and the theorem's claim on the implementation: Decode of those
    bytes returns the byte string (ByteString with StrictUnicode, string without) and consumes them all."""
    import subprocess
    rng = ctx.rng
    pay = [b"", b"a", b"abc", b"'", b'"', b"\\", b"\n", b"a\nb", b"\x00", b"\xff", b"\xc3\xa9", b"it's", b'say "hi"', b"'\"", b"\t\r\n", b"\x7f\x80",
           b"x" * 255, b"y" * 256, b"z" * 300, b"q" * 70000, bytes(range(256))]
    pay += [V.rand_bytes(rng, maxchunks=5) for _ in range(ctx.scale(60, 1500))]
    prog = ("import sys, pickle, cPickle\n"
            "for l in sys.stdin:\n"
            "    s = l.strip().decode('hex')\n"
            "    sys.stdout.write(' '.join(m.dumps(s, p).encode('hex') for m in (pickle, cPickle) for p in (0, 1, 2)) + '\\n')\n")
    real = None
    try:
        r = subprocess.run(["python2", "-c", prog], input="".join(x.hex() + "\n" for x in pay).encode(), capture_output=True,
                           env=dict(os.environ, PYENV_VERSION="2.7.18"), timeout=600)
        out = r.stdout.decode().split("\n")[:-1]
        if r.returncode == 0 and len(out) == len(pay):
            real = [[bytes.fromhex(h) for h in l.split(" ")] for l in out]
    except (OSError, subprocess.TimeoutExpired):
        pass
    ctx.count("py2-str:" + ("python2-available" if real is not None else "python2-absent"))
    lines = [f"py2str {pr} {put} {hexs(x)}" for x in pay for put in ("0", "1", "-") for pr in (0, 1, 2)]
    ans = dict(zip(lines, C.run_sharded(C.run_lean, lines)))
    dec_lines, dec_meta = [], []
    for i, x in enumerate(pay):
        for pr in (0, 1, 2):
            model = {put: ans[f"py2str {pr} {put} {hexs(x)}"] for put in ("0", "1", "-")}
            if real is not None:
                for which, data, puts in (("pickle.py", real[i][pr], ("0",)), ("cPickle", real[i][3 + pr], ("1", "-"))):
                    ctx.evaluations += 1
                    ctx.traces += 1
                    if any(model[q] == "OK " + data.hex() for q in puts):
                        ctx.exact_agree += 1
                        ctx.count(f"py2-str:same-bytes:{which}:proto{pr}")
                    else:
                        ctx.disagree(f"py2str {pr} {puts[0]} {hexs(x)[:2000]}", f"python2 {which}: " + data.hex()[:2000], model[puts[0]][:2000],
                                     "model of Python 2's pickling of a str")
            for put in ("0", "1", "-"):
                if model[put].startswith("OK "):
                    cfg = rng.choice(CFGS)
                    dec_lines.append(f"dec {cfg} - {model[put][3:]}")
                    dec_meta.append((x, cfg, len(model[put][3:]) // 2))
    # theorem C02_py2_bytearray: bytearray(text, 'latin-1') at protocols 1 and 2, with pickle.py's five PUTs and cPickle's two
    bas = [x for x in pay if len(x) <= 70000]
    realb = None
    if real is not None:
        progb = ("import sys, pickle, cPickle\n"
                 "for l in sys.stdin:\n"
                 "    s = bytearray(l.strip().decode('hex'))\n"
                 "    sys.stdout.write(' '.join(m.dumps(s, p).encode('hex') for m in (pickle, cPickle) for p in (0, 1, 2)) + '\\n')\n")
        try:
            r = subprocess.run(["python2", "-c", progb], input="".join(x.hex() + "\n" for x in bas).encode(), capture_output=True,
                               env=dict(os.environ, PYENV_VERSION="2.7.18"), timeout=600)
            out = r.stdout.decode().split("\n")[:-1]
            if r.returncode == 0 and len(out) == len(bas):
                realb = [[bytes.fromhex(h) for h in l.split(" ")] for l in out]
        except (OSError, subprocess.TimeoutExpired):
            pass
    PUTS = {"pickle.py": "0 1 2 3 4", "cPickle": "1 - - - 2"}
    blines = [f"py2ba {pr} {PUTS[w]} {hexs(x)}" for x in bas for w in PUTS for pr in (0, 1, 2)]
    bans = dict(zip(blines, C.run_sharded(C.run_lean, blines)))
    ba_dec, ba_meta = [], []
    for i, x in enumerate(bas):
        for wi, w in enumerate(PUTS):
            for pi, pr in enumerate((0, 1, 2)):
                a = bans[f"py2ba {pr} {PUTS[w]} {hexs(x)}"]
                if realb is not None:
                    ctx.evaluations += 1
                    ctx.traces += 1
                    if a == "OK " + realb[i][3 * wi + pi].hex():
                        ctx.exact_agree += 1
                        ctx.count(f"py2-bytearray:same-bytes:{w}:proto{pr}")
                    else:
                        ctx.disagree(f"py2ba {pr} {PUTS[w]} {hexs(x)[:2000]}", f"python2 {w}: " + realb[i][3 * wi + pi].hex()[:2000], a[:2000],
                                     "model of Python 2's pickling of a bytearray")
                if a.startswith("OK "):
                    cfg = rng.choice(CFGS)
                    ba_dec.append(f"dec {cfg} - {a[3:]}")
                    ba_meta.append((x, len(a[3:]) // 2))
    bgo, blean = run_both(ba_dec)
    for line, (x, n), g, l in zip(ba_dec, ba_meta, bgo, blean):
        ctx.evaluations += 1
        ctx.tie(line[:4000], g, l)
        ctx.count("py2-bytearray:theorem-instance")
        want = f"OK A{hexs(x)} {n}"
        if g != want and "TOOBIG" not in g:
            ctx.violate("Decode of what Python 2 writes for a bytearray is not that content (C02_py2_bytearray)", line[:3000], want[:600], g[:600])
    # theorem C02_py2_unicode: a unicode object - UNICODE line in Python 2's raw-unicode-escape at protocol 0, BINUNICODE above
    texts = ["", "a", "caf\u00e9", "\\", "a\nb", "\r\x00\x1a", "\u20ac", "\U0001f600", "\\u0041", "x" * 300, "\u00ff\u0100\uffff", "q\\\n\\"]
    texts += [pyside.rand_text(rng) for _ in range(ctx.scale(60, 1500))]
    realu = None
    if real is not None:
        progu = ("import sys, pickle, cPickle\n"
                 "for l in sys.stdin:\n"
                 "    s = l.strip().decode('hex').decode('utf-8')\n"
                 "    sys.stdout.write(' '.join(m.dumps(s, p).encode('hex') for m in (pickle, cPickle) for p in (0, 1, 2)) + '\\n')\n")
        try:
            r = subprocess.run(["python2", "-c", progu], input="".join(t.encode("utf-8").hex() + "\n" for t in texts).encode(), capture_output=True,
                               env=dict(os.environ, PYENV_VERSION="2.7.18"), timeout=600)
            out = r.stdout.decode().split("\n")[:-1]
            if r.returncode == 0 and len(out) == len(texts):
                realu = [[bytes.fromhex(h) for h in l.split(" ")] for l in out]
        except (OSError, subprocess.TimeoutExpired):
            pass
    ulines = [f"py2uni {pr} {put} {hexs(t.encode('utf-8'))}" for t in texts for put in ("0", "1", "-") for pr in (0, 1, 2)]
    uans = dict(zip(ulines, C.run_sharded(C.run_lean, ulines)))
    u_dec, u_meta = [], []
    for i, t in enumerate(texts):
        x = t.encode("utf-8")
        for pr in (0, 1, 2):
            model = {put: uans[f"py2uni {pr} {put} {hexs(x)}"] for put in ("0", "1", "-")}
            if realu is not None:
                for which, data, puts in (("pickle.py", realu[i][pr], ("0",)), ("cPickle", realu[i][3 + pr], ("1", "-"))):
                    ctx.evaluations += 1
                    ctx.traces += 1
                    if any(model[q] == "OK " + data.hex() for q in puts):
                        ctx.exact_agree += 1
                        ctx.count(f"py2-unicode:same-bytes:{which}:proto{pr}")
                    else:
                        ctx.disagree(f"py2uni {pr} {puts[0]} {hexs(x)[:2000]}", f"python2 {which}: " + data.hex()[:2000], model[puts[0]][:2000],
                                     "model of Python 2's pickling of a unicode object")
            for put in ("0", "-"):
                if model[put].startswith("OK "):
                    cfg = rng.choice(CFGS)
                    u_dec.append(f"dec {cfg} - {model[put][3:]}")
                    u_meta.append((x, len(model[put][3:]) // 2))
    ugo, ulean = run_both(u_dec)
    for line, (x, n), g, l in zip(u_dec, u_meta, ugo, ulean):
        ctx.evaluations += 1
        ctx.tie(line[:4000], g, l)
        ctx.count("py2-unicode:theorem-instance")
        want = f"OK S{hexs(x)} {n}"
        if g != want and "TOOBIG" not in g:
            ctx.violate("Decode of what Python 2 writes for a unicode object is not that text (C02_py2_unicode)", line[:3000], want[:600], g[:600])
    go, lean = run_both(dec_lines)
    for line, (x, cfg, n), g, l in zip(dec_lines, dec_meta, go, lean):
        ctx.evaluations += 1
        ctx.tie(line[:4000], g, l)
        ctx.count("py2-str:theorem-instance")
        want = f"OK {'Y' if cfg[1] == '1' else 'S'}{hexs(x)} {n}"
        if g != want and "TOOBIG" not in g:
            ctx.violate("Decode of what Python 2 writes for a str object is not that byte string (C02_py2_str)", line[:3000], want[:600], g[:600])


def _opnames_py(p):
    import pickletools
    try:
        return [op.name for op, _, _ in pickletools.genops(p)]
    except Exception:   # noqa
        return []


def _has_float(o):
    if isinstance(o, float):
        return True
    if isinstance(o, (list, tuple)):
        return any(_has_float(x) for x in o)
    if isinstance(o, dict):
        return any(_has_float(k) or _has_float(v) for k, v in o.items())
    return False



# ------------------------------------------------------------------------------------------- C02

class C02:
    prop = "C02"
    lean_module = "Ogorek.Props.C02Py2"
    theorems = ["Ogorek.C02_py2_str", "Ogorek.C02_py2_bytearray", "Ogorek.C02_py2_bytearray_p0", "Ogorek.C02_py2_unicode", "Ogorek.C19_UNICODE_py2",
                "Ogorek.py2Rue_inv", "Ogorek.py2Rue_no_lf", "Ogorek.py2_bytearray_core", "Ogorek.parses_py2StrBody", "Ogorek.C19_STRING_py2repr", "Ogorek.C02_pickler", "Ogorek.C02_pickler_framed", "Ogorek.C02_pickler_bin", "Ogorek.C02_pickler_dec", "Ogorek.C02_pickler_shared_dec",
                "Ogorek.pkOK_of_bf", "Ogorek.pyFloatTextOK_of_b", "Ogorek.C02_pickler_shared",
                "Ogorek.C02_pickler_shared_unframed", "Ogorek.pk_val", "Ogorek.sk_val", "Ogorek.MemoInv.put", "Ogorek.runs_get",
                "Ogorek.saveBytesS_ok", "Ogorek.saveBytearrayS_ok", "Ogorek.runs_listGroups",
                "Ogorek.runs_dictGroups", "Ogorek.batchList_groups", "Ogorek.batchDict_groups", "Ogorek.assignAll_batch",
                "Ogorek.cpRue_inv", "Ogorek.cpRue_no_lf", "Ogorek.long1Width_fits", "Ogorek.pkOK_of_b",
                "Ogorek.C02_memo_keys", "Ogorek.C02_K1_witness", "Ogorek.C19_LONG1", "Ogorek.C19_counted", "Ogorek.C02_bytes_forms"]
    trusted_base = TB_PY + ["Ogorek/CPickle.lean: a hand-written model of CPython's C pickler on tree-shaped objects of the basic types "
                            "(opcode choice, memo numbering, batches of 1000, one-frame framing), compared byte for byte with "
                            "pickle.dumps on every run"]
    level_text = ("Lean theorem C02_pickler (and _framed, _bin): for EVERY Python object built from None, bool, int, float, str, bytes, "
                  "bytearray, tuple, list and dict, nested to any depth and of any size, in which no memoized object occurs twice, ALL "
                  "protocols 0-5 and all four decoder configurations, from any decoder state, with or without a PersistentLoad hook: if "
                  "pickle.dumps(obj, p) is within the pickler model (cpDumps: the opcode CPython's save_* picks for each value and "
                  "protocol, a PUT / BINPUT / LONG_BINPUT / MEMOIZE with the running index after every str, bytes, bytearray, tuple, "
                  "list and dict, lists and dicts created empty and filled by APPEND(S) / SETITEM(S) in batches of 1000 exactly as "
                  "batch_list_exact / batch_dict_exact do - including the empty MARK SETITEMS after a dict whose size is a multiple of "
                  "1000 -, PROTO and one FRAME), then Decode of exactly these bytes succeeds, consumes all of them and returns the "
                  "documented Go value goOf obj (int64 / *big.Int as the opcode dictates, string, Bytes, []byte, Tuple, []any, map / "
                  "Dict by mode with the entries in order). Proof: mutual structural induction over the object (pk_val) in a run "
                  "framework with preconditions and a representation relation with LOCALITY (RepG: a decoded value refers only to "
                  "heap objects allocated after a given index), which is what keeps the keys and values already decoded valid while "
                  "SETITEM(S) updates the dict under construction in place (runs_dictGroups, assignAll_batch); the batch loops are "
                  "decomposed into groups (batchList_groups, batchDict_groups). Also proved, not assumed: og-rek's raw-unicode-escape "
                  "reading inverts CPython's protocol-0 writing of text with its extra escapes (cpRue_inv, cpRue_no_lf), and the "
                  "least LONG1 width holds the number (long1Width_fits). Hypotheses: the keys of each dict acceptable to the decoder's "
                  "table and pairwise different for it (keysOK as in C03: with builtin maps no tuple / *big.Int key), bytearrays < 4 "
                  "GiB; at protocol 0 only, ParseFloat reads Python's repr of each float back (PyFloatTextOK: not proved for all floats). "
                  "Every one of these hypotheses is decidable and is evaluated for every compared case, at every protocol: pkOKb for the "
                  "keys, pyFloatsOKb for the protocol-0 float text (it runs the model's formatter and parser on each float; "
                  "C02_pickler_dec, C02_pickler_shared_dec via pkOK_of_bf) - the compared cases are instances of the theorem. "
                  "C02_pickler_shared (sk_val): the same for objects in which str, bytes and bytearray objects occur any number of "
                  "times - the pickler writes them once and fetches them with BINGET / LONG_BINGET / GET - and with bytes at "
                  "protocols 0-2 and bytearray at protocols 0-4, written as _codecs.encode(text, 'latin1') / bytes() / "
                  "bytearray(bytes) through globals (GLOBAL, or two strings and STACK_GLOBAL from protocol 4 on) and the string "
                  "'latin1', all memoized at first use and fetched later (model cpDumpsS, identities being part of the object); on a "
                  "Decoder with an empty memo (MEMOIZE numbers by the size of the memo: finding K7) Decode returns the documented "
                  "value. Every statement of the induction carries the memo invariant MemoInv - the decoder's memo holds exactly the "
                  "keys \"0\"..\"n-1\" and under each index the pickler may fetch again the value standing for what was memoized "
                  "there (MemoInv.put, runs_get) - and REDUCE of the interpreted calls is evaluated (saveBytesS_ok, "
                  "saveBytearrayS_ok). "
                  "All of it holds for the three picklers the property names: the theorems are stated for every value of two parameters "
                  "of the model - py (the pure-Python pickle._Pickler: it writes a last batch of one item with APPEND / SETITEM and no "
                  "empty batch, pyBatchLoop_groups; at protocol 0 CPython 3.11's version memoizes a COPY of a string it had to escape, so "
                  "a repeated such string is written again, strCopied) and mz (which objects are memoized at all: every one for the "
                  "picklers, only those fetched again for pickletools.optimize, which also renumbers - the model's running index does) - "
                  "and each of the three is compared byte for byte with the real one. "
                  "C02_py2_str: for EVERY byte string, what Python 2's two picklers write for a str object at protocols 0-2 (STRING with "
                  "repr / SHORT_BINSTRING / BINSTRING, PROTO at 2, the memo PUT with pickle.py's index 0, cPickle's index 1 or none; model "
                  "py2StrPickle, compared byte for byte with Python 2.7's pickle and cPickle where python2 can be run) decodes, from any "
                  "state, to that byte string - ByteString with StrictUnicode, string without. C02_py2_bytearray: likewise for bytearray objects as "
                  "Python 2 (and Python 3 before 3.8) writes them - bytearray(<text>, 'latin-1') through the "
                  "__builtin__ global, the text as BINUNICODE, the encoding name as a Python-2 str, TUPLE2 or MARK..TUPLE, REDUCE, with any "
                  "subset of the five memo PUTs (pickle.py writes all, cPickle two): Decode returns the []byte with that content "
                  "and at protocol 0 (C02_py2_bytearray_p0), where the text is a UNICODE line in Python 2's own raw-unicode-escape (backslash and LF as "
                  "\\u005c / \\u000a, the rest by the codec; model py2Rue, proved inverse to og-rek's reader: py2Rue_inv, py2Rue_no_lf, "
                  "C19_UNICODE_py2). C02_py2_unicode: a unicode object at protocols 0-2 likewise decodes to that text. "
                  "Per-form lemmas as before: one memo key space for all PUT / GET widths and MEMOIZE (C02_memo_keys), every LONG1 "
                  "width and counted payload (C19_LONG1, C19_counted), the bytes()/bytearray() and _codecs.encode / "
                  "bytearray(bytes) forms CPython emits below protocol 3/5 (C02_bytes_forms). PARTIAL: objects in which a CONTAINER "
                  "occurs twice (the pickler then fetches a tuple, list or dict from the memo): the list half of the statement is FALSE "
                  "for the code (C02_K1_witness: `[x, x]` with a non-empty list x decodes to `[x, []]`) - known finding K1; lone "
                  "surrogates at protocol 0 - known finding K4. These are "
                  "decided per run by decoding what the three real CPython picklers emit for generated objects in all four modes and "
                  "comparing with the documented table, the decoder model agreeing with the implementation on every case.")
    level_note = ("trusted: Lean kernel + standard axioms; decoder model; the pickler model (tied byte for byte to pickle.dumps each run); "
                  "CPython's picklers as the source of inputs and the object itself as oracle")
    technique = ("Lean 4 proof (structural induction over the Python object against a model of CPython's pickler; locality invariant "
                 "for in-place dict updates; K1 witness by evaluation) + byte-for-byte correspondence of the pickler model with "
                 "pickle.dumps + differential correspondence on real CPython pickles + documented-table oracle")
    rule = ("Python objects over {None, bool, int (|n| < 2^2039), float, str, bytes, bytearray, list, tuple, dict} incl. empty "
            "containers/payloads, DAG sharing of any sub-object, 2500-element containers (BATCHSIZE), LONG1 of many widths; pickled by "
            "the C pickler, pickle._Pickler and pickletools.optimize at protocols 0-5; decoded in 4 modes; plus tree-shaped objects "
            "(lists / dicts of 999, 1000, 1001, 2000 entries, integer / float / text edge values) on which the pickler model must "
            "reproduce pickle.dumps byte for byte at every protocol and the theorem's claim is checked on the implementation; "
            "distinct = distinct (mode, pickle)")
    assumptions = ["dict keys are not NaN (Python itself treats NaN keys by identity)"]

    def run(self, ctx):
        rng = ctx.rng
        objs = pyside.rand_objects(rng, ctx.scale(220, 5000))
        objs += ["a" * 65537, b"b" * 70001, bytearray(b"c" * 65600), ["\u20ac" * 30000, b"d" * 66000, ("e" * 65536,)]]   # > 64 KiB payloads
        objs += ["\u00c3\u00a9", "na\u00c3\u00afve", ["\u00e2\u0082\u00ac", "\u00c2\u00a0"], {"\u00c3\u00a9": "\u00f0\u009f\u0098\u0080"}]   # Latin-1 text whose raw bytes are valid UTF-8
        objs += [{float("nan"): 1, float("nan"): 2}, {(float("nan"), "a"): 1, (float("nan"), "a"): 2, 1.5: 3}, [float("nan"), float("nan")]]   # distinct NaN objects: distinct keys
        objs += [2 ** 1016, -2 ** 1016, 2 ** 2038, b"", bytearray(), [b"", bytearray(b"")], {(): 1}, {(1, (2, "a")): [1]},
                 "\ud800", ["a\udfffb"], {1: {2: {3: []}}}, [[]] * 2]
        # payloads between one reader buffer (4 KiB) and the 64 KiB pre-allocation cap, alone and many in a row (each starts at another
        # offset of the reader's window), of every counted kind
        objs += [b"f" * 4096, bytes(range(256)) * 17, bytearray(bytes(range(255, -1, -1)) * 20), "g" * 5000, "\u00e9" * 3000,
                 [bytes([65 + i]) * 300 for i in range(20)], [bytearray([97 + i]) * 700 for i in range(12)], ["h%d" % i * 150 for i in range(30)],
                 {"k": b"N." * 3000, b"i" * 1000: ("j" * 4095, b"k" * 4097)}, [bytes(range(256)) * 120, b"l" * 60000, "m" * 40000]]
        # long tuples (64, 100, 300, 1000+ items) that are NOT the last thing decoded: nested, shared, followed by further values
        t100, t64 = tuple(range(1000, 1100)), tuple("s%d" % i for i in range(64))
        objs += [{"head": t100, "tail": ["x", "y"], "again": t100}, [t64, 1, 2, t64], [tuple(range(65)), [tuple(range(300))], {"k": tuple(range(64))}, "after"],
                 (tuple(range(1001)), "after", (tuple(range(63)), tuple(range(64)), 5)), [tuple([i]) * 70 for i in range(5)]]
        # keys that are equal modulo 2^64 (or 2^63) and nothing else: a negative int next to the long 2^64 + n, 2^63 next to -2^63
        objs += [{-1: "a", 2 ** 64 - 1: "b"}, {-5: 1, 2 ** 64 - 5: 2, -2 ** 63: 3, 2 ** 63: 4, 2 ** 64 - 2 ** 63: 5}, {0: "z", 2 ** 64: "w", -2 ** 64: "v"},
                 {(-1, "k"): 1, (2 ** 64 - 1, "k"): 2}, {2 ** 63 - 1: 1, -2 ** 63 - 1: 2, 2 ** 65 - 1: 3}]
        late = ["s%d" % i for i in range(300)]
        objs.append(late + [late[299], late[0], late[256]])          # a GET with a two-byte memo index
        x = [1, 2]
        objs.append([x, x])
        d = {"k": 1}
        objs.append((d, d, [d]))
        lines, meta = [], []
        for obj in objs:
            variants = pyside.pickle_variants(obj, rng, n=None if ctx.thorough else 5)
            want = {}
            for pd in (False, True):
                want[pd] = pyside.render_expected(pyside.table(obj, pd))
            tk = pyside.has_tuple_key(obj)
            for data in variants:
                for cfg in (CFGS if ctx.thorough else [rng.choice(CFGS), rng.choice(CFGS)]):
                    lines.append(f"dec {cfg} - {hexs(data)}")
                    meta.append((cfg, data, want[cfg[0] == "1"], tk))
        go = C.run_sharded(C.run_go, lines)
        sens, lean = alias_sensitive(lines)
        # the Lean model of CPython's unpickler must read CPython's own pickles as CPython does
        datas = list(dict.fromkeys(m[1] for m in meta))
        pvm_tie(ctx, datas, C.run_sharded(C.run_py, [f"load {hexs(d)}" for d in datas]))
        for line, (cfg, data, want, tk), g, l, k1 in zip(lines, meta, go, lean, sens):
            ctx.evaluations += 1
            ctx.nontrivial((cfg, data))
            if k1:
                ctx.count("alias-sensitive(K1)")
                ctx.traces += 1      # under K1 the slice headers may or may not share storage: not compared
            else:
                ctx.tie(line[:4000], g, l)
            ctx.count("proto:" + (str(data[1]) if data[:1] == b"\x80" else "0/1") + ":" + dec_class(g))
            if "PANIC" in g or g.startswith("CRASH"):
                ctx.violate("Decode panicked on a CPython pickle", line[:3000], "a value", g[:300])
                continue
            if tk and cfg[0] == "0":
                if not g.startswith("ERR other"):
                    ctx.violate("map mode must report an error for dicts keyed by tuples", line[:3000], "ERR other", g[:300])
                continue
            if "TOOBIG" in g:
                continue
            if not g.startswith("OK "):
                known = None
                if SURR.search(data) and data[:1] != b"\x80":
                    known = "K4"
                ctx.violate("Decode failed on a pickle produced by CPython", line[:3000], "OK " + want[:300], g[:300], known=known)
                continue
            body, consumed = g[3:].rsplit(" ", 1)
            if int(consumed) != len(data):
                ctx.violate("Decode did not consume the whole pickle", line[:3000], len(data), consumed)
            got = pyside.intagnostic(body)
            if got != want:
                ctx.violate("decoded value differs from the documented table for the pickled object", line[:3000], want[:1200], got[:1200],
                            known="K1" if k1 else None)
        pickler_tie(ctx, tree_objects(rng, ctx.scale(150, 3000)))
        pickler_tie(ctx, shared_objects(rng, ctx.scale(150, 3000)), shared=True)
        py2_str_tie(ctx)
        for i in range(0, len(lines), max(1, len(lines) // 8)):
            ctx.sample(lines[i][:200] + " -> " + go[i][:200])


# ------------------------------------------------------------------------------------------- C06

REDUCED = [b"]", b"}", b"(", b"K\x00", b"K\x01", b"a", b"e", b"s", b"q\x00", b"q\x01", b"h\x00", b"h\x01", b"2", b"0", b"\x85", b"\x86", b"t"]


_NAN = re.compile(r"D[7f]ff(?!0{13})[0-9a-f]{13}")


def pvm_tie(ctx, datas, oracle_answers):
    """The Lean model of CPython's unpickler (Ogorek/Pvm.lean) against the real one on the same bytes: same object, same
    number of bytes consumed, an exception exactly when CPython raises. Inputs the model declines are counted."""
    lean = C.run_sharded(C.run_lean, [f"pvm {hexs(d)}" for d in datas])
    for d, o, l in zip(datas, oracle_answers, lean):
        if o == "TOOBIG" or "#cycle" in o and l == "FUEL":
            continue
        ctx.count("pvm-model:" + l.split(" ")[0])
        oo = "EXC" if o.startswith("EXC") else o
        # the text "nan" is the platform's quiet NaN for CPython and Go's NaN (another payload) for the shared float reader
        ctx.tie(f"pvm {hexs(d)[:3000]}", _NAN.sub("Dnan", oo), _NAN.sub("Dnan", l),
                what="Lean model of CPython's unpickler vs CPython (pickle._Unpickler)")


def numeric_edge_dict_programs():
    """Every ordered pair of numeric keys around the edges of int64 / uint64 / the 53-bit float mantissa, in every integer and float
    form, as a two-entry dict built by DICT, SETITEM and SETITEMS: equal pairs must become one entry (last value wins), unequal
    ones two - whichever form comes first."""
    import struct as _struct
    out = []

    def fbits(x):
        return P.BINFLOAT_bits(_struct.unpack(">Q", _struct.pack(">d", float(x)))[0])
    edge = []
    for n in (-2 ** 63, 2 ** 63, 2 ** 63 - 1, -2 ** 63 - 1, -(2 ** 53 + 1), 2 ** 53 + 1, 2 ** 53, -2 ** 53, 3 * 2 ** 62, 2 ** 64, 2 ** 64 - 2 ** 11,
              2 ** 64 - 1, -(2 ** 62 + 1), 2 ** 100, 2 ** 1023):
        edge += [P.LONG1(n), P.INT(n)]
        if float(n) == n:
            edge.append(fbits(n))
    edge += [fbits(2.0 ** 63), fbits(-2.0 ** 63), fbits(2.0 ** 53), fbits(9007199254740993.0), fbits(-9007199254740993.0)]
    edge = list(dict.fromkeys(edge))
    for a in edge:
        for b in edge:
            out += [b"(" + a + b"K\x01" + b + b"K\x02d.", b"}" + a + b"K\x01s" + b + b"K\x02s.", b"}(" + a + b"K\x01" + b + b"K\x02u."]
    return out


def long_line_programs():
    """Text opcodes whose newline-terminated argument spans one, two, three and more 4 KiB reader buffers."""
    out = []
    for n in (4090, 4095, 4096, 4097, 8190, 8192, 8193, 9000, 12289, 20000, 70000):
        out += [b"V" + b"a" * n + b"\n.", b"S'" + b"b" * n + b"'\n.", b"P" + b"c" * n + b"\n.",
                b"cmod\n" + b"N" * n + b"\n.", b"c" + b"m" * n + b"\nname\n.", b"(V" + b"\\u20ac" * (n // 6) + b"\nV" + b"d" * n + b"\nt."]
    out += [b"I" + b"1" * 4200 + b"\n.", b"L" + b"7" * 4250 + b"L\n.", b"F" + b"0" * 9000 + b"1.5\n.", b"}p" + b"0" * 9000 + b"1\ng1\n."]
    return out


def short_programs(rng, maxlen, sample=None):
    import itertools
    out = []
    for n in range(1, maxlen + 1):
        combos = itertools.product(REDUCED, repeat=n)
        for c in combos:
            if sample is not None and n >= 4 and rng.random() > sample:
                continue
            out.append(b"".join(c) + b".")
    return out


def sharing_programs():
    """A container is created, remembered (PUT in any width, MEMOIZE, or DUP), filled by one of the
    incremental opcodes before and/or after being remembered, fetched again, and both references returned."""
    out = []
    remember = [(P.BINPUT(0), P.BINGET(0)), (P.PUT(0), P.GET(0)), (P.LONG_BINPUT(0), P.LONG_BINGET(0)), (P.MEMOIZE, P.BINGET(0)),
                (P.BINPUT(7), P.LONG_BINGET(7)), (P.PUT(300), P.LONG_BINGET(300)), (P.DUP, None)]
    item = [P.BININT1(1), P.BININT1(2), P.BININT1(3), P.BININT1(4)]
    for kind in ("list", "dict"):
        new = [P.EMPTY_LIST, P.MARK + P.LIST] if kind == "list" else [P.EMPTY_DICT, P.MARK + P.DICT]
        def fill(n, batch):
            if n == 0:
                return [b""] + ([P.MARK + (P.APPENDS if kind == "list" else P.SETITEMS)] if batch else [])
            if kind == "list":
                xs = b"".join(item[:n])
                return [P.MARK + xs + P.APPENDS] if batch else [b"".join(i + P.APPEND for i in item[:n])]
            kv = [item[i] + item[(i + 1) % 4] for i in range(n)]
            return [P.MARK + b"".join(kv) + P.SETITEMS] if batch else [b"".join(x + P.SETITEM for x in kv)]
        for mk in new:
            for put, get in remember:
                for nb in (0, 1, 2):
                    for na in (0, 1, 2, 3):
                        for bb in (False, True):
                            for ba in (False, True):
                                for before in fill(nb, bb):
                                    for after in fill(na, ba):
                                        if get is None:      # DUP: two references on the stack
                                            out.append(mk + before + put + after + P.TUPLE2 + P.STOP)
                                            out.append(mk + before + put + P.POP + after + P.DUP + P.TUPLE2 + P.STOP)
                                        else:
                                            out.append(mk + before + put + after + get + P.TUPLE2 + P.STOP)
                                            out.append(mk + before + put + P.POP + get + after + get + P.TUPLE2 + P.STOP)
    return list(dict.fromkeys(out))


class C06:
    prop = "C06"
    lean_module = "Ogorek.Props.C06Py2"
    theorems = ["Ogorek.C06_py2_str_agree", "Ogorek.C06_py2_str_pvm", "Ogorek.C06_py2_unicode_agree", "Ogorek.C06_py2_unicode_pvm",
                "Ogorek.py2_leaf_pvm_core", "Ogorek.pruns_put_any", "Ogorek.C06_pickler_agree", "Ogorek.C06_pickler_agree_bin", "Ogorek.C06_pickler_agree_dec", "Ogorek.pyOKp_of_bf", "Ogorek.pkOK_of_bf",
                "Ogorek.pyFloatTextOK_of_b", "Ogorek.pyOKp_of_b", "Ogorek.C06_pickler_pvm", "Ogorek.C02_pickler_shared", "Ogorek.psk_val", "Ogorek.sk_val",
                "Ogorek.pruns_listGroups", "Ogorek.pruns_dictGroups", "Ogorek.PMemoInv.put", "Ogorek.pruns_get", "Ogorek.pyAssignAll_repG",
                "Ogorek.C01_C03_agree", "Ogorek.C02_memo_keys", "Ogorek.C06_dup_same", "Ogorek.C06_get_same", "Ogorek.C06_dict_shared",
                "Ogorek.C06_K1_witness", "Ogorek.C06_ref_appends_shared"]
    trusted_base = TB_PY + ["Ogorek/Pvm.lean as a model of CPython's pickle._Unpickler (hand-written from pickle.py; compared with the real CPython on "
                            "every generated program of this check; shared opcode-argument readers, so canonical text arguments only)"]
    level_text = ("Lean theorems: the memo keys of all PUT/GET widths and MEMOIZE form one key space (C02_memo_keys); DUP and GET push the very "
                  "value that is on the stack / in the memo — for dicts, which live in the heap, the same object that later SETITEM(S) "
                  "extend (C06_dup_same, C06_get_same); in the list-by-reference machine (the decoder with K1 repaired) an APPEND through "
                  "one reference is seen through every other (C06_ref_appends_shared) while in the code it is not (C06_K1_witness) — "
                  "known finding K1. On the programs the encoder itself writes the statement is a theorem: og-rek's decoder and the Lean model "
                  "of CPython's unpickler both accept exactly those bytes and return the value / its documented Python counterpart "
                  "(C01_C03_agree, from C03_roundtrip and C01_pvm_table). And on the programs CPython's own pickler writes: theorem "
                  "C06_pickler_agree - for every object of the basic types with tree-shaped containers (str / bytes / bytearray objects "
                  "may repeat and are then fetched from the memo), every protocol 0-5 and decoder configuration, the bytes of the model "
                  "of pickle.dumps (cpDumpsFramedS: opcode choice, PUT / MEMOIZE and BINGET / GET, batches of 1000, the REDUCE forms of "
                  "bytes / bytearray through memoized globals, PROTO and FRAME; compared byte for byte with the real pickle.dumps in C02) "
                  "are accepted by Decode on a new Decoder AND by the model of CPython's unpickler, both consume all of them, and they "
                  "return the same object: goOf obj on the Go side, pyOf obj (lists, dicts, bytearrays as heap objects with that "
                  "content) on the Python side. The Python half (C06_pickler_pvm, by the induction psk_val) is a second development "
                  "on the Python machine: runs with preconditions over the metastack, a representation relation with locality for "
                  "lists AND dicts (both are filled in place there: pruns_listGroups, pruns_dictGroups, pyAssignAll_repG), bytearrays "
                  "exempt from locality because a fetched one may be older than its container, and the memo invariant PMemoInv with "
                  "PMemoInv.put / pruns_get. Hypotheses: what each side demands of dict keys (og-rek: acceptable to the table and "
                  "pairwise different for it; CPython: hashable, at most one NaN-holding key), valid UTF-8 text, at protocol 0 the "
                  "float-text hypothesis (ParseFloat reads Python's repr back: not proved in general). ALL of these are decided by evaluation "
                  "(C06_pickler_agree_dec: pkOKb, pyOKb and - at protocol 0 - pyFloatsOKb, which runs the model's formatter and parser on "
                  "each float of the object), and the check computes them for every real pickle it takes as a program, so those cases are "
                  "instances of the theorem at every protocol 0-5. And on what PYTHON 2 writes for a str object (STRING / SHORT_BINSTRING / BINSTRING, "
                  "PROTO, any memo PUT) and for a unicode object (UNICODE in Python 2's raw-unicode-escape / BINUNICODE): C06_py2_str_agree, "
                  "C06_py2_unicode_agree - both unpicklers accept the bytes, consume all of them and return that byte string / text "
                  "(the Python machine, like the oracle, keeps a Python-2 str as a value of its own). PARTIAL: no simulation theorem between the two machines on "
                  "arbitrary programs (K1 and K6 make them differ where lists / NaN objects are shared); there the statement is decided "
                  "per run against the real CPython unpickler on generated and exhaustively enumerated programs (K1 runs being exactly "
                  "those on which the value- and reference-list machines of the model differ), and the Lean model of CPython's "
                  "unpickler is compared with the real one on the same programs.")
    level_note = "trusted: Lean kernel + standard axioms; decoder model (both list semantics); CPython's pure-Python unpickler as reference"
    technique = ("Lean 4 proof (both unpicklers on every encoder output and on every output of the model of CPython's pickler; machine "
                 "lemmas, K1 witness) + differential correspondence against "
                 "CPython's unpickler - and of the Lean model of that unpickler against it - on typed-grammar and exhaustive short programs")
    rule = ("programs from a typed grammar over an abstract stack of value kinds (every opcode variant og-rek supports, PUT/GET in all "
            "widths, MEMOIZE, DUP, POP, incremental APPEND(S)/SETITEM(S), PROTO/FRAME anywhere, py2-style STRING/UNICODE text forms), "
            "plus all programs of <= 4 (quick, sampled at 4) / <= 5 (thorough) opcodes over a 17-opcode reduced alphabet, plus what "
            "pickle.dumps writes at protocols 0-5 for objects with tree-shaped containers and repeated str / bytes / bytearray "
            "objects (the programs of C06_pickler_agree); x 4 modes; "
            "Decode must succeed whenever CPython does and denote the same value; distinct = distinct (mode, program)")
    assumptions = ["acyclic results", "canonical argument formatting (no whitespace in INT, no octal escapes in STRING)"]

    def run(self, ctx):
        rng = ctx.rng
        progs = own_corpus("C06") + sharing_programs() + long_line_programs() + short_programs(rng, ctx.scale(4, 5), sample=ctx.scale(0.25, 0.2))
        # calls of the classes picklers name; the three callables og-rek interprets (_codecs.encode, bytes, bytearray) only in the
        # shapes picklers write (the typed grammar has them) plus two K8 shapes
        progs += numeric_edge_dict_programs()
        progs += [q for q in P.well_known_call_programs(tuple_args_only=True)
                  if not any(x in q for x in (b"_codecs", b"codecs\n", b"bytes\n", b"bytearray\n", b"\x05bytes", b"\tbytearray", b"\x06codecs", b"\x07_codecs"))]
        progs += [b"\x80\x03cbuiltins\nbytearray\n(]tR.", b"\x80\x02c__builtin__\nbytearray\n(K\x03tR."]
        # py2 strings as Python's repr writes them: both quote kinds, the delimiter as last character, backslashes at the end
        for t in (b"'", b'"', b"\"'", b"'\"", b"a'", b'a"', b"it's \"x\"'", b"\\", b"a\\", b"\\'", b"'\\", b"''", b'""', b"x'y\"z'"):
            r = repr(t)[1:].encode()
            progs += [b"S" + r + b"\n.", b"(S" + r + b"\nI1\nt.", b"S\"" + t.replace(b"\\", b"\\\\").replace(b'"', b'\\"') + b"\"\n."]
        # payloads beyond the 64 KiB pre-allocation cap in every 4- / 8-byte length form
        for n in (65536, 65537, 70000):
            pay = bytes((i * 7 + 3) % 251 for i in range(n - 1)) + b"."
            progs += [b"T" + n.to_bytes(4, "little") + pay + b".", b"B" + n.to_bytes(4, "little") + pay + b".",
                      b"\x96" + n.to_bytes(8, "little") + pay + b".", b"X" + n.to_bytes(4, "little") + b"u" * n + b"."]
        progs += P.batch_programs()
        progs += [b"F" + t + b"\n." for t in (b"1e0000000005", b"1e+0000000000000000005", b"1e-0000000000400", b"1000000e0000000005", b"1e000000000",
                                                b"1e00000000000000000000000000000000000000308")]
        # what CPython's pickler writes for objects with tree-shaped containers (the programs of theorem C06_pickler_agree)
        import pickle
        pk_objs = []
        for o in shared_objects(rng, ctx.scale(40, 600)) + tree_objects(rng, ctx.scale(20, 300)):
            if containers_are_tree(o, set()) and len(repr(o)) < 30000:
                for pr in (range(6) if ctx.thorough else rng.sample(range(6), 2)):
                    d = pickle.dumps(o, pr)
                    if len(d) < 40000:
                        progs.append(d)
                        pk_objs.append((o, pr, d))
        # what Python 2.7's two picklers write (protocols 0-2: STRING / BINSTRING for str, LONG / LONG1, memo fetches for repeated
        # constants, bytearray(text, 'latin-1')), where a python2 is installed; CPython 3 loads them and is the oracle as for any program
        p2 = pyside.py2_pickles(rng, ctx.scale(80, 1500))
        ctx.count("python2-pickles:" + ("python2-absent" if p2 is None else "used"), 1 if p2 is None else len(p2))
        progs += [d for d in (p2 or []) if len(d) < 40000]
        progs += [P.py2_bytearray_pickle(b, pr, c) for b in (b"", b"a", b"h\xe9llo\xff", b"x" * 300) for pr in (0, 1, 2) for c in (False, True)]
        # struct-typed keys whose payload is a tuple (the ZODB shape of a persistent id: (oid, class)), a call with arguments, nested
        # references - assigned TWICE, by each of the three dict opcodes: the second assignment compares the key with itself
        for key in (b"K\x01K\x02\x86Q", b"U\x03oidcm\nC\n\x86Q", b"K\x01\x85QQ", b"cm\nf\n(K\x01K\x02tR", b"K\x01K\x02\x86Q\x85", b"K\x07\x85\x85Q"):
            progs += [b"}" + key + b"K\x05s" + key + b"K\x06s.", b"}(" + key + b"K\x05" + key + b"K\x06u.", b"(" + key + b"K\x05" + key + b"K\x06d.",
                      b"}" + key + b"q\x00K\x05sh\x00K\x06s.", b"}(" + key + b"K\x05K\x09K\x08" + key + b"K\x06u."]
        # a long that is memoized and used as a key directly and through the memo: one object, one key - in both modes
        for big in (b"\x8a\x09\x00\x00\x00\x00\x00\x00\x00\x00\x01", b"L18446744073709551617L\n", b"\x8a\x01\x05", b"I36893488147419103232\n", b"L5L\n"):
            progs += [b"}" + big + b"q\x00K\x01sh\x00K\x02s.", b"}(" + big + b"q\x00K\x01h\x00K\x02u.", b"(" + big + b"q\x00K\x01h\x00K\x02d.",
                      b"}q\x05" + big + b"q\x00K\x01s0h\x05h\x00K\x02s.", b"]" + big + b"q\x00a}h\x00K\x01sh\x00K\x02s\x86."]
        nan = b"G\x7f\xf8\x00\x00\x00\x00\x00\x00"     # one NaN object used as a key twice (K6), and two NaN objects (no finding)
        progs += [b"}" + nan + b"q\x00K\x01sh\x00K\x02s.", b"(" + nan + b"q\x00K\x01h\x00K\x02d.", b"}" + nan + b"2K\x01sK\x02s.",
                  b"}" + nan + b"q\x00\x85K\x01sh\x00\x85K\x02s.", b"}" + nan + b"K\x01s" + nan + b"K\x02s."]
        for _ in range(ctx.scale(2500, 60000)):
            g = P.ProgGen(rng, wellformed=True, maxops=rng.choice([6, 12, 25, 50]), colliding=0.05, persid=0.04,
                          allow_unhashable_keys=0.0, special_calls=False)
            progs.append(g.gen())
        progs = list(dict.fromkeys(progs))
        py = C.run_sharded(C.run_py, [f"load {hexs(p)}" for p in progs])
        pvm_tie(ctx, progs, py)
        # which of the real pickles are instances of theorem C06_pickler_agree_bin: the model of the pickler writes exactly these bytes
        # and the decidable hypotheses (keys acceptable to both sides, valid UTF-8 text) hold - flags computed by the Lean driver
        pka = C.run_sharded(C.run_lean, [f"cpks {'1' if pr >= 4 else '0'} {pr} {py_token_ids(o, {})}" for o, pr, d in pk_objs])
        for (o, pr, d), a in zip(pk_objs, pka):
            if a.startswith("OK ") and bytes.fromhex(a[3:].split(" ")[0]) == d:
                fl = a[3:].split(" ")[1]
                ctx.count("pickler-agree-theorem:" + ("instance(PyDict mode)" if fl[1] == "1" and fl[2] == "1" and fl[3] == "1"
                                                      else "outside-hypotheses"))
                if pr == 0 and _has_float(o):
                    ctx.count("pickler-agree-theorem:protocol-0 floats:" + ("text hypothesis holds" if fl[3] == "1" else "text hypothesis does not hold (NaN: the text carries no payload)"))
            else:
                ctx.count("pickler-agree-theorem:bytes-not-the-model's(" + ("multi-frame" if pr >= 4 and len(d) > 60000 else
                                                                              "interned one-character str" if interned_char_clash(o, pr) else
                                                                              "?" + a[:12]) + ")")
                if not (pr >= 4 and len(d) > 60000) and not interned_char_clash(o, pr) and not outside_pickler_model_shared(o, pr):
                    ctx.disagree(f"cpks {pr} {py_token_ids(o, {})[:3000]}", "pickle.dumps: " + hexs(d[:1000]), a[:2000], "pickler model")
        lines, meta = [], []
        for p, o in zip(progs, py):
            ctx.count("cpython:" + o.split(" ")[0])
            if not o.startswith("OK ") or "#cycle" in o:
                continue
            for cfg in CFGS:
                lines.append(f"dec {cfg} - {hexs(p)}")
                meta.append((cfg, p, o))
        go = C.run_sharded(C.run_go, lines)
        sens, lean = alias_sensitive(lines)
        pyd_result = {}
        for (cfg, p, o), g in zip(meta, go):
            if cfg[0] == "1":
                pyd_result[(p, cfg[1])] = g
        for line, (cfg, p, o), g, l, k1 in zip(lines, meta, go, lean, sens):
            ctx.evaluations += 1
            ctx.nontrivial((cfg, p))
            if k1:
                ctx.count("alias-sensitive(K1)")
                ctx.traces += 1
            else:
                ctx.tie(line[:4000], g, l)
            su = cfg[1] == "1"
            want_t = _to_py(V.parse(o[3:].rsplit(" ", 1)[0]))
            if not su:
                want_t = V.parse(y_to_s(V.render(want_t)))
            if "PANIC" in g or g.startswith("CRASH"):
                ctx.violate("Decode panicked", line[:3000], "a value", g[:300])
                continue
            if "TOOBIG" in g:
                continue
            if not g.startswith("OK "):
                if cfg[0] == "0" and g == "ERR other" and pyd_result.get((p, cfg[1]), "").startswith("OK "):
                    # the documented exception: default map mode reports an error as soon as a key is assigned that a
                    # Go map cannot hold (the same program succeeds in PyDict mode, whose result is judged on its own line)
                    ctx.count("map-mode:key-rejected")
                    continue
                # K8: bytearray(...) called with an argument no pickler writes (an int, a list of ints): CPython evaluates it, og-rek
                # (and its model) answer with an error
                k8 = b"bytearray\n" in p or b"\tbytearray" in p
                k8 = k8 and g == "ERR other" and l == "ERR other" and o.startswith("OK ") and " A" in " " + o[3:]
                ctx.violate("Decode failed where CPython's unpickler succeeds", line[:3000], "OK " + V.render(want_t)[:300], g[:300],
                            known="K1" if k1 else "K8" if k8 else None)
                continue
            got_t = V.parse(norm_py(g[3:].rsplit(" ", 1)[0], su))
            ok = equiv(want_t, got_t) if cfg[0] == "1" else (V.render(want_t) == V.render(got_t) or equiv(want_t, got_t))
            if not ok:
                pr = pyd_result.get((p, cfg[1]), "")
                if cfg[0] == "0" and pr.startswith("OK ") and "TOOBIG" not in pr:
                    # builtin maps follow Go key identity (int64 1, float64 1, True are three keys): C09's subject
                    gp = V.parse(norm_py(pr[3:].rsplit(" ", 1)[0], su))
                    if equiv(want_t, gp) or (not su and equiv(V.parse(y_to_s(V.render(want_t))), gp)):
                        ctx.count("map-mode:go-key-identity")
                        continue
                known = "K1" if k1 else None
                if known is None and any(x in p for x in (b"S", b"T", b"U")):
                    # Python-2 strs among the dict keys: CPython 3 (the oracle keeps them as a type of their own) never merges such a key
                    # with the unicode / bytes key of the same content; og-rek's documented rule does (C07: "a Python-2 byte string equals
                    # both the str and the bytes of the same content"; without StrictUnicode it IS the text).  Judge by the reference
                    # dictionary that applies that rule.
                    o_r = C.run_py([f"{'loadr' if su else 'loadr0'} {hexs(p)}"])[0]
                    if o_r.startswith("OK "):
                        want_r = _to_py(V.parse(o_r[3:].rsplit(" ", 1)[0]))
                        if not su:
                            want_r = V.parse(y_to_s(V.render(want_r)))
                        if equiv(want_r, got_t):
                            ctx.count("py2-str dict key merged with the unicode / bytes key of the same content (documented rule, C07)")
                            continue
                if known is None and (b"nan" in p.lower() or b"\x7f\xf8" in p or b"\xff\xf8" in p or b"\x7f\xf0" in p):
                    # K6: equal to what Python builds when dict keys are compared by == alone (a NaN object reused as a key)?
                    o_n = C.run_py([f"{'loadrn' if su else 'loadr0n'} {hexs(p)}"])[0]
                    if o_n.startswith("OK "):
                        want_n = _to_py(V.parse(o_n[3:].rsplit(" ", 1)[0]))
                        if not su:
                            want_n = V.parse(y_to_s(V.render(want_n)))
                        if equiv(want_n, got_t):
                            known = "K6"
                ctx.violate("Decode result does not denote the value CPython's unpickler builds", line[:3000], V.render(want_t)[:1200],
                            V.render(got_t)[:1200], known=known)
        for i in range(0, len(lines), max(1, len(lines) // 8)):
            ctx.sample(lines[i][:200] + " -> " + go[i][:200])

    @staticmethod
    def _map_rejects(t):
        from .encprops import go_map_rejects
        return go_map_rejects(t)


# ------------------------------------------------------------------------------------------- C09

class C09:
    prop = "C09"
    lean_module = "Ogorek.Props.C09Py"
    theorems = ["Ogorek.C09_python_dict", "Ogorek.C09_python_dict_step", "Ogorek.C09_setitem_python", "Ogorek.keyConv_eq", "Ogorek.pyEq_trans",
                "Ogorek.pyEq_symm", "Ogorek.C09_setitem_dict", "Ogorek.C09_setitem_map", "Ogorek.C09_dictSet_classes", "Ogorek.C09_map_identity",
                "Ogorek.C17_assign_present", "Ogorek.C08_inv_step"]
    trusted_base = TB_PY + ["py2 str vs unicode vs bytes collisions follow og-rek's documented rule (= Python 2 on ASCII, Python 3 with encoding='bytes')"]
    level_text = ("Lean theorems: in PyDict mode every key assignment by SETITEM (and each pair of DICT/SETITEMS, which iterate it) is "
                  "`dictSetSpec` — drop every entry equal under Python equality, add the new one (C09_setitem_dict, C09_dictSet_classes, "
                  "with C07 for the equality and C08_inv_step for the no-two-equal-keys invariant) — and this IS Python's dict: against "
                  "the Lean model of CPython's dict (`pyDictSet`: the entry with an equal key keeps its key and takes the new value) "
                  "og-rek's Dict has, after ANY sequence of assignments of keys both sides can hold without a py2 string (None, bool, int64, "
                  "*big.Int, float, str, bytes, Class, tuples / calls / persistent references of these), the same number of entries and "
                  "the same answer to every lookup (C09_python_dict, by induction over the history from C09_python_dict_step; "
                  "C09_setitem_python for the two machines' SETITEM); it rests on `equal` = Python's `==` on those keys (keyConv_eq) and on "
                  "`==` being symmetric and transitive there (pyEq_symm, pyEq_trans, from the exact-value theorem C07_exact_num); in default mode the assignment is the builtin "
                  "map's, under Go key identity: int64 1, float64 1, true and two distinct *big.Int 1 are four keys, NaN never collides, "
                  "+0/-0 collide (C09_setitem_map, C09_map_identity), and a key a Go map cannot hold yields an error, never a dropped "
                  "entry (C17_*, C17_assign_present). Tie: dict-building programs with colliding keys, nesting and memo re-entry are "
                  "decoded in 4 modes and compared with the model and, in PyDict mode, with a reference dictionary using CPython's == "
                  "(py2-aware), matching entries up to the key representative (Python keeps the first key, og-rek the last).")
    level_note = "trusted: Lean kernel + standard axioms; decoder and Dict models; CPython == inside the reference dictionary"
    technique = ("Lean 4 proof (og-rek's Dict assignment refines a Lean model of Python's dict for every history: equality transfer, "
                 "symmetry / transitivity, lookup and length lemmas) + differential correspondence + CPython-equality reference dictionary")
    rule = ("dict-building programs mixing DICT / EMPTY_DICT+SETITEM / SETITEMS with repeated and colliding keys (1, 1.0, True, 1L, +-0, NaN, "
            "'a' unicode / py2 / bytes, tuples of these, big and boundary integers), nested dicts, dicts fetched again from the memo and "
            "extended; x PyDict x StrictUnicode; distinct = distinct (mode, program)")
    assumptions = ["programs holding a unicode, a py2 str and a bytes of the same content at once are outside (no single CPython builds them)"]

    def programs(self, ctx):
        rng = ctx.rng
        out = own_corpus("C09")
        keys = [P.COLLIDING_LEAVES[i](None) for i in range(len(P.COLLIDING_LEAVES))]
        for _ in range(ctx.scale(1500, 30000)):
            n = rng.randint(1, 7)
            ks = [rng.choice(keys) for _ in range(n)]
            if rng.random() < 0.3:
                ks = [k if rng.random() < 0.7 else (b"(" + k + rng.choice(keys) + b"t") for k in ks]
            style = rng.choice(["dict", "setitem", "setitems", "mixed", "memo"])
            vals = [b"K" + bytes([10 + i]) for i in range(n)]
            if style == "dict":
                p = b"(" + b"".join(k + v for k, v in zip(ks, vals)) + b"d."
            elif style == "setitem":
                p = b"}" + b"".join(k + v + b"s" for k, v in zip(ks, vals)) + b"."
            elif style == "setitems":
                p = b"}(" + b"".join(k + v for k, v in zip(ks, vals)) + b"u."
            elif style == "mixed":
                h = n // 2
                p = b"(" + b"".join(k + v for k, v in zip(ks[:h], vals[:h])) + b"d" + \
                    b"".join(k + v + b"s" for k, v in zip(ks[h:h + 1], vals[h:h + 1])) + \
                    b"(" + b"".join(k + v for k, v in zip(ks[h + 1:], vals[h + 1:])) + b"u."
            else:
                h = n // 2
                p = b"}q\x00(" + b"".join(k + v for k, v in zip(ks[:h], vals[:h])) + b"u0h\x00" + \
                    b"".join(k + v + b"s" for k, v in zip(ks[h:], vals[h:])) + b"h\x00\x86."
            out.append(p)
        out += [p for p in sharing_programs() if p[:1] in (b"}", b"(") and b"d" in p[:3] or p[:1] == b"}"]
        out += numeric_edge_dict_programs()
        out += P.nested_tuple_key_programs()
        # one NaN float OBJECT used as a key more than once (through the memo / DUP; bare, in one shared tuple, in two
        # tuples): CPython compares "identical or equal", so these collapse there — known finding K6
        nan = b"G\x7f\xf8\x00\x00\x00\x00\x00\x00"
        for nk in (nan, b"FNaN\n", b"G\x7f\xf8\x00\x00\x00\x00\x00\x01"):
            out += [b"}" + nk + b"q\x00K\x01sh\x00K\x02s.", b"(" + nk + b"q\x00K\x01h\x00K\x02d.",
                    b"}(" + nk + b"K\x01tq\x00K\x01sh\x00K\x02s.", b"}" + nk + b"q\x00\x85K\x01sh\x00\x85K\x02s.",
                    b"}" + nk + b"2K\x01sK\x02s.", b"}(" + nk + b"q\x00K\x01h\x00K\x02K\x05K\x03u.",
                    b"}" + nk + b"K\x01s" + nk + b"K\x02s."]       # last: two distinct NaN objects - two entries everywhere
        # a LONG object that is memoized and then used as a key directly AND through the memo (in a builtin map a *big.Int key is a
        # pointer: one object is one key), by each dict opcode, in one dict and in a dict reached again through the memo
        for big in (b"\x8a\x09\x00\x00\x00\x00\x00\x00\x00\x00\x01", b"L18446744073709551617L\n", b"\x8a\x01\x05", b"I36893488147419103232\n", b"L5L\n"):
            out += [b"}" + big + b"q\x00K\x01sh\x00K\x02s.", b"}(" + big + b"q\x00K\x01h\x00K\x02u.", b"(" + big + b"q\x00K\x01h\x00K\x02d.",
                    b"}q\x05" + big + b"q\x00K\x01s0h\x05h\x00K\x02s.", b"]" + big + b"q\x00a}h\x00K\x01sh\x00K\x02s\x86.",
                    b"}" + big + b"2K\x01sK\x02s.", b"}(" + big + b"q\x00K\x01" + big + b"K\x02h\x00K\x03u."]
        # struct-typed keys whose payload is a tuple, assigned twice (the second assignment compares the key with an equal one)
        for key in (b"K\x01K\x02\x86Q", b"U\x03oidcm\nC\n\x86Q", b"K\x01\x85QQ", b"cm\nf\n(K\x01K\x02tR", b"K\x01K\x02\x86Q\x85"):
            out += [b"}" + key + b"K\x05s" + key + b"K\x06s.", b"}(" + key + b"K\x05" + key + b"K\x06u.", b"(" + key + b"K\x05" + key + b"K\x06d."]
        # a key no Go map can hold right after an acceptable key of the same Go type, in one batch: an error, never a panic
        for bad in (b"]Q", b"(I1\nI2\ntQ", b"}Q", b"]QQ"):
            for good in (b"I1\nQ", b"Va\nQ"):
                out += [b"}(" + good + b"N" + bad + b"Nu.", b"(" + good + b"N" + bad + b"Nd.", b"}q\x00(" + good + b"N" + bad + b"Nuh\x00.",
                        b"}" + good + b"Ns" + bad + b"Ns.", b"}(" + good + b"NK\x02QN" + bad + b"N" + good + b"Nu."]
        for _ in range(ctx.scale(500, 10000)):
            out.append(P.ProgGen(rng, wellformed=True, colliding=0.7, maxops=rng.choice([10, 25, 40]), allow_unhashable_keys=0.02,
                                 special_calls=False).gen())
        return list(dict.fromkeys(out))

    @staticmethod
    def three_way(p):
        """unicode, py2 str and bytes of one content together: outside the statement."""
        return (b"X\x01\x00\x00\x00a" in p or b"Va\n" in p) and (b"U\x01a" in p or b"S'a'" in p) and b"C\x01a" in p

    def run(self, ctx):
        rng = ctx.rng
        progs = [p for p in self.programs(ctx) if not self.three_way(p)]
        py1 = C.run_sharded(C.run_py, [f"loadr {hexs(p)}" for p in progs])      # StrictUnicode: py2 str kept apart
        py0 = C.run_sharded(C.run_py, [f"loadr0 {hexs(p)}" for p in progs])     # py2 str taken for text
        lines, meta = [], []
        for p, o1, o0 in zip(progs, py1, py0):
            for cfg in CFGS:
                lines.append(f"dec {cfg} - {hexs(p)}")
                meta.append((cfg, p, o1 if cfg[1] == "1" else o0))
        # keys that mix unicode, bytes and py2 str of one content (no Python dict can be compared with): og-rek's own rule - an
        # assignment replaces EVERY entry whose key equals the new key - is what the model implements; model against implementation
        for p in P.bytestring_tuple_key_programs():
            for cfg in CFGS:
                lines.append(f"dec {cfg} - {hexs(p)}")
                meta.append((cfg, p, "TIE-ONLY"))
        go = C.run_sharded(C.run_go, lines)
        sens, lean = alias_sensitive(lines)
        for line, (cfg, p, o), g, l, k1 in zip(lines, meta, go, lean, sens):
            ctx.evaluations += 1
            ctx.nontrivial((cfg, p))
            if k1:
                ctx.count("alias-sensitive(K1)")
                ctx.traces += 1
            else:
                ctx.tie(line[:4000], g, l)
            ctx.count(f"mode{cfg}:{dec_class(g)}:py={o.split(' ')[0]}")
            if "PANIC" in g or g.startswith("CRASH"):
                ctx.violate("Decode panicked", line[:3000], "value or error", g[:300])
                continue
            if cfg[0] != "1" or not o.startswith("OK ") or "#cycle" in o or "TOOBIG" in g or k1:
                continue
            su = cfg[1] == "1"
            want_t = _to_py(V.parse(o[3:].rsplit(" ", 1)[0]))
            if not g.startswith("OK "):
                ctx.violate("PyDict mode failed on a dict program CPython loads", line[:3000], V.render(want_t)[:400], g[:300])
                continue
            got_t = V.parse(to_py_text(g[3:].rsplit(" ", 1)[0], su))
            if not su:
                want_t = V.parse(y_to_s(V.render(want_t)))
            if not equiv(want_t, got_t, ORACLE.py2eq if su else ORACLE.py3eq):
                # K6: does the result equal what Python builds when keys are compared by == alone (no "is" shortcut)?
                o_n = C.run_py([f"{'loadrn' if su else 'loadr0n'} {hexs(p)}"])[0]
                known = None
                if o_n.startswith("OK "):
                    want_n = _to_py(V.parse(o_n[3:].rsplit(" ", 1)[0]))
                    if not su:
                        want_n = V.parse(y_to_s(V.render(want_n)))
                    if equiv(want_n, got_t, ORACLE.py2eq if su else ORACLE.py3eq):
                        known = "K6"
                ctx.violate("PyDict mode built a dict that differs (entry count / key classes / final values) from Python's", line[:3000],
                            V.render(want_t)[:1000], V.render(got_t)[:1000], known=known)
        for i in range(0, len(lines), max(1, len(lines) // 8)):
            ctx.sample(lines[i][:200] + " -> " + go[i][:200])


# ------------------------------------------------------------------------------------------- C01

def denote(v, p, su):
    """The documented Go -> Python table (encoding direction) as Python-value text tree."""
    k = v[0]
    if k in ("N", "Nil"):
        return ("N",)
    if k in ("T", "F"):
        return v
    if k in ("I", "U", "L"):
        return ("J", v[1])
    if k == "D":
        return ("D", 0x7ff8000000000000) if V.is_nan_bits(v[1]) else v
    if k == "S":
        return ("S", v[1]) if (su or p >= 3) else ("Y", v[1])
    if k in ("Y", "B", "A"):
        return v
    if k in ("l", "t"):
        return (k, [denote(x, p, su) for x in v[1]])
    if k in ("m", "d"):
        return ("d", [(denote(a, p, su), denote(b, p, su)) for a, b in v[1]])
    if k == "C":
        return v
    if k == "c":
        return ("c", v[1], v[2], [denote(x, p, su) for x in v[3]])
    if k == "R":
        if p == 0:
            return ("R", ("S", v[1][1]))      # PERSID carries text
        return ("R", denote(v[1], p, su))
    if k == "X":
        return ("d", [(denote(("S", b"N"), p, su), ("J", v[1]))])
    raise ValueError(k)


def k3_applies(v, p, su):
    """A Go string that is not valid UTF-8 is routed to a unicode opcode, or a class name / persistent id is not text."""
    def walk(x):
        k = x[0]
        if k == "S" and (su or p >= 3) and not is_valid_utf8(x[1]):
            return True
        if k in ("C", "c") and not (is_valid_utf8(x[1]) and is_valid_utf8(x[2])):
            return True
        if k == "X" and False:
            return False
        if k in ("l", "t"):
            return any(walk(y) for y in x[1])
        if k in ("m", "d"):
            return any(walk(a) or walk(b) for a, b in x[1])
        if k == "c":
            return any(walk(y) for y in x[3])
        if k == "R":
            return walk(x[1])
        return False
    return walk(v)


def persid_not_ascii(v, p):
    if p != 0:
        return False
    return V.contains(v, lambda x: x[0] == "R" and x[1][0] == "S" and any(b > 127 for b in x[1][1]))


class C01:
    prop = "C01"
    lean_module = "Ogorek.Props.C03Dec"
    theorems = ["Ogorek.C01_pvm_table", "Ogorek.C01_pvm_table_dec", "Ogorek.FloatsOK_of_b", "Ogorek.C01_pvm_table_bin", "Ogorek.C01_pvm_table_reflect", "Ogorek.C01_pvm_table_hook", "Ogorek.C01_C03_agree", "Ogorek.pt_val", "Ogorek.pyAssignAll_rep", "Ogorek.pyUtf8Valid_of_valid",
                "Ogorek.C01_K3_pvm", "Ogorek.C01_K5_pvm", "Ogorek.C01_int_forms", "Ogorek.C01_bytes_latin1", "Ogorek.C03_int",
                "Ogorek.C12_reject", "Ogorek.C01_K3_witness"]
    trusted_base = TB_PY + ["Ogorek/Pvm.lean as a model of CPython's pickle._Unpickler with classes and persistent ids kept symbolic: hand-written "
                            "from pickle.py, compared with the real CPython on every run (on the encoder's output for every generated value, and "
                            "on the canonical programs of C06); it shares the opcode-argument readers with the decoder model, so only "
                            "canonically formatted text arguments are modelled, and declines (UNMODELLED) frames that end inside the input, "
                            "BUILD/INST/OBJ/NEWOBJ, exotic codec names and NaN keys met twice",
                            "dict keys of the generated values are pairwise unequal under Python == (otherwise Python itself merges them)"]
    level_text = ("Lean theorem C01_pvm_table, for ALL Go values of the documented table (nil/None, bool, every integer type incl. uint64 and "
                  "*big.Int, float, string, ByteString, Bytes, []byte, slices, Tuples, builtin maps, Dicts, Class, Call, Ref, application "
                  "structs, nested to any depth), ALL protocols 0-5 and both StrictUnicode settings: if Encode returns no error, the Lean "
                  "model of CPython's unpickler loads exactly the bytes written without raising, consumes all of them, and returns the "
                  "Python value `tableP c v` of the documented type table (numbers, text, payloads, key/value association under Python "
                  "equality, nesting) - by mutual structural induction over the value (pt_val), on top of the parse lemmas of the round "
                  "trip (both protocol-0 text codecs proved inverse), the latin-1 lemmas for Bytes below protocol 3 and a lemma that the "
                  "machine's assignment sequence builds the table's dict (pyAssignAll_rep). Hypotheses = what CPython demands and og-rek does "
                  "not check: unicode text is valid UTF-8 (finding K3; C01_K3_pvm shows the machine raises without it), a protocol-0 "
                  "persistent id is ASCII (finding K5; C01_K5_pvm), dict keys hashable in Python with at most one NaN-holding key, a Call "
                  "does not name _codecs.encode / bytes / bytearray, payloads < 2^31/2^32 bytes, and at protocol 0 FloatTextOK (as C03; decidable per float - C01_pvm_table_dec with floatsOKb - "
                  "and evaluated for every float of this run's protocol-0 cases). "
                  "Tie: the implementation's bytes must be the encoder model's; the real CPython loads them and must return the "
                  "documented value; and the Lean machine must agree with the real CPython on those same bytes.")
    level_note = ("trusted: Lean kernel + standard axioms; encoder model; the Lean model of CPython's unpickler (validated against CPython each "
                  "run); CPython's unpickler as the meaning of the bytes")
    technique = ("Lean 4 proof (a model of CPython's unpickler; structural induction over Go values: encoder output runs on that machine to the "
                 "documented Python value) + differential correspondence of emitted bytes + real CPython load of the implementation's "
                 "output against the documented table and against the Lean machine")
    rule = ("Go values of the documented table over the adversarial alphabet (both quotes, backslash, LF, CR, NUL, 0x1a, 0x7f-0xff, U+0100, "
            "U+2028, U+FFFD, astral runes, invalid UTF-8), ints of every width at +-2^k+d incl. uint64 above 2^63 and big.Int, every float "
            "class, lengths 0/1/255/256/65536, nesting to depth 4, maps/Dicts with Python-distinct keys, Calls, Refs, application "
            "structs; x protocols 0..5 x StrictUnicode; distinct = distinct (protocol, su, value)")
    assumptions = ["payload lengths < 2^32"]

    def values(self, ctx, n):
        rng = ctx.rng
        out = []
        for sz in (0, 1, 255, 256, 65536):
            out += [("S", b"a" * sz), ("Y", b"\xff" * sz), ("B", b"\x80" * sz), ("A", b"\x00" * sz)]
        out += [("S", c) for c in V.ADV_CHUNKS] + [("Y", c) for c in V.ADV_CHUNKS] + [("B", c) for c in V.ADV_CHUNKS]
        out += [("D", b) for b in V.SPECIAL_FLOATS] + [("I", i) for i in V.INT_LATTICE if -2 ** 63 <= i < 2 ** 63][::7]
        out += [("U", 2 ** 63), ("U", 2 ** 64 - 1), ("L", 2 ** 70), ("L", -2 ** 70 - 1), ("X", 3), ("R", ("S", b"oid")), ("R", ("t", [("I", 1)]))]
        out += [v for v in V.edge_string_values() if v[0] != "R"]
        out += [("raw", "V0:9223372036854775808", ("U", 2 ** 63)), ("raw", "V0:18446744073709551615", ("U", 2 ** 64 - 1)),
                ("l", [("raw", "V0:9223372036854775809", ("U", 2 ** 63 + 1)), ("raw", "V32:4294967295", ("I", 2 ** 32 - 1))])]
        # containers of exactly / around a thousand items (picklers batch at 1000)
        for n in (999, 1000, 1001, 2000):
            out += [("l", [("I", i % 7) for i in range(n)]), ("t", [("I", i % 5) for i in range(n)])]
        for _ in range(n):
            g = V.ValueGen(rng, pydict=True, su=True, canonical=False, maxdepth=rng.choice([1, 2, 3, 4]), allow_user=True)
            v = g.value()
            out.append(self.python_distinct(v))
        return out

    def python_distinct(self, v):
        """Drop map/dict entries whose keys Python would merge (equal under ==)."""
        k = v[0]
        if k in ("l", "t"):
            return (k, [self.python_distinct(x) for x in v[1]])
        if k in ("m", "d"):
            seen, kvs = set(), []
            for a, b in v[1]:
                try:
                    kid = V.py_key_id(a)
                except ValueError:
                    continue
                if kid is None or kid in seen:
                    continue
                seen.add(kid)
                kvs.append((self.python_distinct(a), self.python_distinct(b)))
            return (k, kvs)
        if k == "c":
            return ("c", v[1], v[2], [self.python_distinct(x) for x in v[3]])
        if k == "R":
            return ("R", self.python_distinct(v[1]))
        return v

    def run(self, ctx):
        rng = ctx.rng
        lines, meta = [], []
        for v in self.values(ctx, ctx.scale(900, 20000)):
            for p in (range(6) if ctx.thorough or rng.random() < 0.2 else [rng.randint(0, 5), rng.choice([0, 2])]):
                su = rng.randint(0, 1)
                vr = V.with_relatives(rng, v) if rng.random() < 0.4 else v     # int8..uint64, float32, pointers, nil
                lines.append(f"enc {p} {su} - {V.render_raw(vr)}")
                meta.append((p, su, V.strip_raw(vr)))
        go, lean = run_both(lines)
        float_text_instances(ctx, [(m[0], ln) for m, ln in zip(meta, lines)])
        load_lines, load_meta = [], []
        for line, (p, su, v), g, l in zip(lines, meta, go, lean):
            ctx.evaluations += 1
            ctx.nontrivial(line)
            enc_tie(ctx, line[:4000], g, l, v)
            ctx.count(f"p{p}:{g.split(' ')[0]}")
            if g.startswith("OK "):
                data = bytes.fromhex("".join(c for c in g[3:].split(",") if c != "-"))
                load_lines.append(f"load {hexs(data)}")
                load_meta.append((line, p, su, v, data))
            elif "PANIC" in g:
                ctx.violate("Encode panicked", line[:3000], "bytes or error", g[:300])
        loaded = C.run_sharded(C.run_py, load_lines)
        pvm_tie(ctx, [m[4] for m in load_meta], loaded)
        for ll, (line, p, su, v, data), o in zip(load_lines, load_meta, loaded):
            ctx.evaluations += 1
            if o == "TOOBIG":
                continue
            if not o.startswith("OK "):
                known = None
                if k3_applies(v, p, bool(su)):
                    known = "K3"
                elif persid_not_ascii(v, p):
                    known = "K5"
                ctx.violate("CPython's unpickler cannot load the encoder's output", line[:3000], "loads without error", o + "  <- " + ll[:600], known=known)
                continue
            body, consumed = o[3:].rsplit(" ", 1)
            if int(consumed) != len(data):
                ctx.violate("CPython stops before the end of the encoder's output", line[:3000], len(data), consumed)
            want = V.render(denote(v, p, bool(su)))
            got = V.render(_to_py(V.parse(body)))
            if got != want:
                ctx.violate("the Python object loaded from the encoder's output is not the documented value", line[:3000], want[:1200], got[:1200],
                            known="K3" if k3_applies(v, p, bool(su)) else None)
        self.reflect_tie(ctx)
        for i in range(0, len(lines), max(1, len(lines) // 8)):
            ctx.sample(lines[i][:300] + " -> " + go[i][:200])

    def reflect_tie(self, ctx):
        """Structs, typed slices / arrays / maps and pointers (values no GoVal token describes): many different Go types
        encoded one after another by each harness process; the bytes must be the model's for the described value
        (what they mean to Python then follows from the model's agreement with CPython on the GoVal domain)."""
        rng = ctx.rng
        n = ctx.scale(2500, 40000)
        base = ctx.seed * 9000011
        lines = [f"encr {base + i} {rng.randint(0, 5)} {rng.randint(0, 1)}" for i in range(n)]
        go = C.run_sharded(C.run_go, lines)
        mlines = []
        for line, g in zip(lines, go):
            f = line.split(" ")
            mlines.append(f"encr {f[2]} {f[3]} {g.split(' => ')[0] if ' => ' in g else 'inv'}")
        lean = C.run_sharded(C.run_lean, mlines)
        for line, ml, g, l in zip(lines, mlines, go, lean):
            ctx.evaluations += 1
            if " => " not in g:
                ctx.count("reflect:generator-failed")
                continue
            desc, res = g.split(" => ", 1)
            multi = "rmap(" in desc or "=" in desc
            gi = res + " x" if res.startswith("ERR ") else res
            ctx.count("reflect:" + ("tagged-struct" if "=" in desc else "struct" if "st(" in desc else "other"))
            norm = lambda a: " ".join(a.split(" ")[:2]) if a.startswith("ERR") else a     # noqa: E731
            ctx.tie(ml[:3000], norm(gi), norm(l), project=enc_project if multi else None)
