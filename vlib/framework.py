"""Check driver: proof obligations + model/implementation correspondence + failing-input search."""
import collections
import json
import os
import random
import sys
import time
import traceback

from . import common as C


class Ctx:
    def __init__(self, prop, tier, seed):
        self.prop = prop
        self.tier = tier
        self.seed = seed
        self.rng = random.Random(f"{prop}-{seed}")
        self.evaluations = 0
        self.traces = 0                # cases compared model vs implementation
        self.exact_agree = 0
        self.unmodelled = 0
        self.distinct = set()          # hashes of distinct non-trivial cases
        self.dist = collections.Counter()
        self.samples = []
        self.disagreements = []        # model vs impl under the property's projection
        self.violations = []           # property fails on the implementation (direct oracle)
        self.known_hits = collections.OrderedDict()
        self.notes = []
        self.exhaustive = False

    @property
    def thorough(self):
        return self.tier == "thorough"

    def scale(self, quick, thorough):
        return thorough if self.thorough else quick

    def count(self, key, n=1):
        self.dist[key] += n

    def sample(self, s, cap=12):
        if len(self.samples) < cap:
            self.samples.append(s if len(s) < 600 else s[:600] + "…")

    def nontrivial(self, case):
        self.distinct.add(hash(case))

    def disagree(self, case, go, lean, what="correspondence"):
        self.disagreements.append({"tie": what, "case": case[:4000], "impl": go[:2000], "model": lean[:2000]})

    def violate(self, what, case, expected, observed, known=None):
        v = {"what": what, "case": case[:8000], "expected": str(expected)[:2000], "observed": str(observed)[:2000]}
        if known:
            self.known_hits.setdefault(known, v)
        else:
            self.violations.append(v)

    # compare one model answer with one implementation answer
    def tie(self, case, go, lean, project=None, what="correspondence"):
        self.traces += 1
        if "UNMODELLED" in lean or "TOOBIG" in lean or "TOOBIG" in go:
            self.unmodelled += 1
            return True
        if go == lean:
            self.exact_agree += 1
            return True
        if project is not None and project(go) == project(lean):
            return True
        if go.startswith("SKIP") and lean.startswith("SKIP"):
            return True            # both sides decline the case (cyclic / too big); the reason text is not compared
        if case.startswith("dech") and go.startswith("ERR") and " ; " in go and " ; " in lean and \
                go.split(" ; ", 1)[0] == lean.split(" ; ", 1)[0] and _top_level(go.split(" ; ", 1)[1]) == _top_level(lean.split(" ; ", 1)[1]):
            # the same error after the same number of PersistentLoad calls: the hook arguments are rendered AFTER the run, and a
            # container among them may have been partly filled by the instruction that failed (SETITEMS assigns pair by pair in the
            # code, all or nothing in the model) - what containers hold after a failed Decode is no property's subject
            self.count("hook-log after a failed Decode: error and call count compared")
            return True
        if self._alias_sensitive(case, lean):
            self.count("alias-sensitive(K1): not compared")
            return True
        self.disagree(case, go, lean, what)
        return False

    def _alias_sensitive(self, case, lean):
        """Finding K1 territory: the model's two machines (lists by value = the code's slice headers, lists by reference)
        bracket what Go does when DUP / the memo copied a slice header — appends through the copies may or may not share the
        backing array.  Where the two machines give different answers the implementation is compared with neither."""
        for cmd, ref in (("dec ", "decref "), ("dech ", "dechref ")):
            if case.startswith(cmd):
                body = case[len(cmd):].split("   ")[0]
                try:
                    again, r = C.run_lean([cmd + body, ref + body])
                except Exception:
                    return False
                # callers may pass a shortened case text: only a text that reproduces the model's answer is the case itself
                return again == lean and r != lean
        if case.startswith("reenc "):
            # decode -> re-encode -> decode of a program whose FIRST decode is in that territory: what is re-encoded is then one of
            # several values; the re-encoding itself is compared wherever the first decode is not alias-sensitive
            f = case.split("   ")[0].split(" ")
            if len(f) == 3:
                try:
                    again, a, r = C.run_lean([case.split("   ")[0], f"dec {f[1]} - {f[2]}", f"decref {f[1]} - {f[2]}"])
                except Exception:
                    return False
                return again == lean and a != r
        return False


def _top_level(rendered):
    """Number of top-level values in a space-separated rendering (tokens ending in `(` open, `)` closes)."""
    depth = n = 0
    for t in rendered.split():
        if t == ")":
            depth -= 1
        else:
            if depth == 0:
                n += 1
            if t.endswith("("):
                depth += 1
    return n


def run_check(check, tier, seed, replay=None):
    t0 = time.time()
    prop = check.prop
    ctx = Ctx(prop, tier, seed)
    obligations = []       # (name, ok, detail)
    try:
        failures = C.build_all([check.lean_module])
    except C.BuildFailure as e:
        print(f"BUILD FAILURE: {e.what}\n{e.output[-3000:]}")
        path = C.write_replay(prop, {"property": prop, "broken": "build", "what": e.what, "output": e.output[-6000:]})
        # the model/harness cannot even be built against the current tree: the property is not shown to hold
        _finish(check, ctx, obligations + [("build", False, e.what)], t0, extra_fail=("build: " + e.what, path))
        return 1
    proof_broken = []
    for mod, out in failures:
        proof_broken.append((mod, out))
    # fact obligations + theorems
    thms = list(check.theorems)
    if not proof_broken:
        axioms, problems = C.audit_axioms(check.lean_module, thms)
        for t in thms:
            ok = t in axioms and all(a in C.ALLOWED_AXIOMS for a in axioms[t])
            obligations.append((t, ok, "axioms: " + ", ".join(axioms.get(t, ["?"])) if t in axioms else "missing"))
        for p in problems:
            proof_broken.append((check.lean_module, p))
        hits = C.scan_forbidden(C.lean_sources())
        obligations.append(("no sorry/admit/axiom/native_decide/bv_decide/implemented_by/unsafe in the Lean sources", not hits, "; ".join(hits[:5])))
        if hits:
            proof_broken.append(("forbidden constructs", "\n".join(hits)))
        if ctx.thorough:
            ok, out = C.leanchecker(check.lean_module)
            obligations.append((f"leanchecker {check.lean_module}", ok, out.strip()[-300:]))
            if not ok:
                proof_broken.append(("leanchecker", out))
    else:
        for t in thms:
            obligations.append((t, False, "module does not build"))
    ctx.axioms = {t: d for t, _, d in obligations}

    try:
        if replay:
            check.replay(ctx, replay)
        else:
            check.run(ctx)
    except Exception:
        tb = traceback.format_exc()
        print(tb)
        ctx.disagreements.append({"tie": "harness", "case": "exception in check", "impl": tb[-1500:], "model": ""})

    return _finish(check, ctx, obligations, t0, proof_broken=proof_broken)


def _finish(check, ctx, obligations, t0, proof_broken=(), extra_fail=None):
    prop = check.prop
    known = C.load_known_findings().get(prop, {})
    rc = 0
    lines = []
    # known findings re-confirmed
    unlisted = []
    for key, v in ctx.known_hits.items():
        if key in known:
            lines.append(f"KNOWN-FINDING: property={prop} {key}: {known[key]}")
        else:
            v = dict(v, what=f"{v['what']} [{key}]")
            unlisted.append(v)
    violations = list(ctx.violations) + unlisted
    replay_path = None
    if violations:
        v = violations[0]
        replay_path = C.write_replay(prop, {"property": prop, "tier": ctx.tier, "seed": ctx.seed, "violation": v,
                                            "more": violations[1:10], "replay": f"./check {prop} --replay <this file>"})
        lines.append(f"VIOLATION property={prop} replay={replay_path}")
        rc = 1
    elif proof_broken or ctx.disagreements or extra_fail:
        what = {}
        if proof_broken:
            what["broken_proof_obligations"] = [{"where": m, "output": o[-3000:]} for m, o in proof_broken]
        if ctx.disagreements:
            what["broken_correspondence"] = ctx.disagreements[:20]
        if extra_fail:
            what["build"] = extra_fail[0]
        replay_path = C.write_replay(prop, {"property": prop, "tier": ctx.tier, "seed": ctx.seed,
                                            "no_failing_input_found": True, **what,
                                            "searched": dict(ctx.dist)})
        lines.append(f"VIOLATION property={prop} replay={replay_path} no-failing-input-found")
        rc = 1
    n_obl = len(obligations)
    n_ok = sum(1 for _, ok, _ in obligations if ok)
    coverage = {
        "obligations": max(n_obl, 1),
        "discharged": n_ok,
        "obligation_list": [{"name": n, "discharged": ok, "detail": d} for n, ok, d in obligations],
        "checker_cmd": f"cd /verif/lean && lake build {check.lean_module} && lake env lean <audit: #print axioms of each theorem>"
                       + (" && lake env leanchecker " + check.lean_module if ctx.thorough else ""),
        "trusted_base": check.trusted_base,
        "traces_validated_against_impl": ctx.traces,
        "exact_agreement": ctx.exact_agree,
        "unmodelled": ctx.unmodelled,
        "evaluations": ctx.evaluations,
        "distinct_nontrivial": len(ctx.distinct),
        "rule": check.rule,
        "distribution": dict(ctx.dist.most_common(60)),
        "samples": ctx.samples or ["(no cases run)"],
        "correspondence_disagreements": len(ctx.disagreements),
        "known_findings_reconfirmed": [k for k in ctx.known_hits if k in known],
        "exhaustive": ctx.exhaustive,
        "notes": ctx.notes,
    }
    wall = time.time() - t0
    C.write_evidence(prop, ctx.tier, ctx.seed, coverage, check.assumptions, wall, len(violations))
    for l in lines:
        print(l)
    print(f"{prop} {ctx.tier}: obligations {n_ok}/{n_obl}, traces {ctx.traces} (exact {ctx.exact_agree}, unmodelled {ctx.unmodelled}), "
          f"evaluations {ctx.evaluations}, disagreements {len(ctx.disagreements)}, violations {len(violations)}, {wall:.1f}s")
    if ctx.disagreements[:3]:
        print(json.dumps(ctx.disagreements[:3], indent=1)[:3000])
    if violations[:2]:
        print(json.dumps(violations[:2], indent=1)[:3000])
    sys.stdout.flush()
    return rc
