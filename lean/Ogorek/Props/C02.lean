import Ogorek.Props.C19
import Ogorek.WF
import Ogorek.Lemmas.Latin1

/-!
  C02 — Decoder yields the documented Go value for every CPython-produced pickle.
-/
namespace Ogorek

/-- **C02 (memo key space).** The three PUT and the three GET encodings of memo index `k` name the
    same memo slot, the one MEMOIZE numbers `k` when `k` entries exist (`strconv.Itoa`). -/
theorem C02_memo_keys (k : Nat) (t : Bytes) :
    (k < 256 → parseInsn (113 :: UInt8.ofNat k :: t) = .ok (.put (memoKey k), t)) ∧
    (parseInsn (112 :: (natDigits k ++ 10 :: t)) = .ok (.put (memoKey k), t)) ∧
    (k < 2 ^ 32 → parseInsn (114 :: (natLE 4 k ++ t)) = .ok (.put (memoKey k), t)) ∧
    (k < 256 → parseInsn (104 :: UInt8.ofNat k :: t) = .ok (.get (memoKey k), t)) ∧
    (parseInsn (103 :: (natDigits k ++ 10 :: t)) = .ok (.get (memoKey k), t)) ∧
    (k < 2 ^ 32 → parseInsn (106 :: (natLE 4 k ++ t)) = .ok (.get (memoKey k), t)) := by
  have hnl : (10 : UInt8) ∉ natDigits k := natDigits_no k 10 (by decide)
  refine ⟨?_, ?_, ?_, ?_, ?_, ?_⟩
  · intro h
    have : (UInt8.ofNat k).toNat = k := by simp [UInt8.toNat_ofNat']; omega
    simp [parseInsn, Rd.bind, readByte, parseArg_113, Rd.map, Rd.pure, this]
  · simp [parseInsn, Rd.bind, readByte, parseArg_112, Rd.map, Rd.pure, readLine_line _ _ hnl, memoKey]
  · intro h
    simp [parseInsn, Rd.bind, readByte, parseArg_114, Rd.map, Rd.pure, readFull_exact 4 _ t (natLE_length 4 k),
      leNat_natLE_of_lt (show k < 256 ^ 4 by omega)]
  · intro h
    have : (UInt8.ofNat k).toNat = k := by simp [UInt8.toNat_ofNat']; omega
    simp [parseInsn, Rd.bind, readByte, parseArg_104, Rd.map, Rd.pure, this]
  · simp [parseInsn, Rd.bind, readByte, parseArg_103, Rd.map, Rd.pure, readLine_line _ _ hnl, memoKey]
  · intro h
    simp [parseInsn, Rd.bind, readByte, parseArg_106, Rd.map, Rd.pure, readFull_exact 4 _ t (natLE_length 4 k),
      leNat_natLE_of_lt (show k < 256 ^ 4 by omega)]

/-- **C02 (bytes forms).** What CPython writes for bytes / bytearray where the protocol has no opcode
    for them: `_codecs.encode(text, 'latin1')`, `bytearray(bytes)`, and the empty `bytes()` /
    `bytearray()` (repair F2) are turned into Bytes / []byte. -/
theorem C02_bytes_forms (proto : Nat) (d : Bytes) :
    handleCall proto (sb "_codecs") (sb "encode") [.str (latin1ToUtf8 d), .str (sb "latin1")] = some (.ok (.bytes d)) ∧
    handleCall proto (sb "_codecs") (sb "encode") [.str (latin1ToUtf8 d), .bytestr (sb "latin1")] = some (.ok (.bytes d)) ∧
    handleCall proto (pybuiltinModule proto) (sb "bytes") [] = some (.ok (.bytes [])) ∧
    handleCall proto (pybuiltinModule proto) (sb "bytearray") [] = some (.ok (.bytearray [])) ∧
    handleCall proto (pybuiltinModule proto) (sb "bytearray") [.bytes d] = some (.ok (.bytearray d)) := by
  refine ⟨?_, ?_, ?_, ?_, ?_⟩
  · simp [handleCall, stringEQ, decodeLatin1Bytes_latin1]
  · simp [handleCall, stringEQ, decodeLatin1Bytes_latin1]
  · have hne : ¬ (pybuiltinModule proto == sb "_codecs") = true := by
      unfold pybuiltinModule; split <;> decide
    simp [handleCall, hne]
  · have hne : ¬ (pybuiltinModule proto == sb "_codecs") = true := by
      unfold pybuiltinModule; split <;> decide
    have hne2 : ¬ (sb "bytearray" == sb "bytes") = true := by decide
    simp [handleCall, hne, hne2]
  · have hne : ¬ (pybuiltinModule proto == sb "_codecs") = true := by
      unfold pybuiltinModule; split <;> decide
    have hne2 : ¬ (sb "bytearray" == sb "bytes") = true := by decide
    simp [handleCall, hne, hne2]

/-- `pickle.dumps([x, x], 2)` with `x = [1, 2]`:  `]q\x00(]q\x01(K\x01K\x02eh\x01e.` -/
def k1Pickle : Bytes := [0x80, 2, 93, 113, 0, 40, 93, 113, 1, 40, 75, 1, 75, 2, 101, 104, 1, 101, 46]

theorem natDigits_small : natDigits 0 = [48] ∧ natDigits 1 = [49] := by
  constructor <;> (rw [natDigits]; simp [digitByte])

/-- **C02 / K1 witness.** The shared list comes back as `[[1, 2], []]`: the memo kept the slice
    header of the still-empty list. With lists by reference (K1 repaired) it is `[[1, 2], [1, 2]]`. -/
theorem C02_K1_witness (c : Cfg) :
    (decode (goCfg c) none {} k1Pickle).1 = .ok (.list [.list [.int 1, .int 2], .list []]) ∧
    (let r := decode (refCfg c) none {} k1Pickle
     r.1.toOption.map (resolveV r.2.1.heap 3) = some (.list [.list [.int 1, .int 2], .list [.int 1, .int 2]])) := by
  constructor
  · simp [k1Pickle, decode, decodeLoop, readByte, parseArg_128, parseArg_93, parseArg_113, parseArg_40, parseArg_75, parseArg_101,
      parseArg_104, parseArg_46, Rd.map, Rd.bind, Rd.pure, exec, goCfg, mkList, push, memoPut, memoGet, memoKey, natDigits_small,
      splitAtMark, isMark, listAppend, userOK, popUser, pop, bind, Except.bind, pure, Except.pure, List.lookup]
  · simp [k1Pickle, decode, decodeLoop, readByte, parseArg_128, parseArg_93, parseArg_113, parseArg_40, parseArg_75, parseArg_101,
      parseArg_104, parseArg_46, Rd.map, Rd.bind, Rd.pure, exec, refCfg, mkList, allocObj, heapSet, push, memoPut, memoGet, memoKey,
      natDigits_small, splitAtMark, isMark, listAppend, userOK, popUser, pop, bind, Except.bind, pure, Except.pure, List.lookup,
      Except.toOption, resolveV]

end Ogorek
