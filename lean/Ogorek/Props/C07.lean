import Ogorek.Dict
import Ogorek.Lemmas.Num

/-!
  C07 — Dict key lookup follows Python equality exactly and deterministically.

  * `C07_exact_num` : on numbers, `equal` is equality of exact mathematical values — bool, every
    int/uint width, `*big.Int`, float and complex (real and imaginary part) — written down
    independently as `exactEq` on `ExactVal`;
  * `C07_symm`      : `equal a b = equal b a`;
  * `C07_hash`      : `equal a b → hash a = hash b`, for every hash function and seed (the hash is
    a function of `hashTree`, which agrees on equal keys);
  * `C07_strings`   : str ≠ bytes, ByteString equals both.
-/
namespace Ogorek

/-! ### exact values (the specification) -/

/-- The exact value of a real number as Python sees it: an integer, a non-integral finite
    float or an infinity (identified by its bits), or NaN. -/
inductive ExactReal where
  | int (z : Int)
  | flt (bits : F64)
  | nan
  deriving DecidableEq

def exactOfFloat (f : F64) : ExactReal :=
  if f.isNaN then .nan else if f.isInteger then .int f.toInt else .flt f

/-- Exact value of a number: real and imaginary part. -/
def exactVal : Num → ExactReal × ExactReal
  | .bool b => (.int (bint b), .int 0)
  | .int i => (.int i, .int 0)
  | .uint u => (.int u, .int 0)
  | .big i => (.int i, .int 0)
  | .float f => (exactOfFloat f, .int 0)
  | .complex re im => (exactOfFloat re, exactOfFloat im)

/-- Equality of exact reals: NaN equals nothing. -/
def exactRealEq : ExactReal → ExactReal → Bool
  | .int a, .int b => a == b
  | .flt a, .flt b => a == b
  | _, _ => false

/-- Python's `==` on numbers. -/
def exactEq (x y : ExactReal × ExactReal) : Bool := exactRealEq x.1 y.1 && exactRealEq x.2 y.2

/-- Range invariants of the Go representations. -/
def NumWF : Num → Prop
  | .int i => inInt64 i = true
  | .uint u => u < 2 ^ 64
  | _ => True

/-! ### float facts -/

theorem F64.eq_iff (a b : F64) :
    F64.eq a b = true ↔ (a.isNaN = false ∧ b.isNaN = false ∧ (a = b ∨ (a.isZero = true ∧ b.isZero = true))) := by
  unfold F64.eq
  simp only [Bool.and_eq_true, Bool.not_eq_true', Bool.or_eq_true, beq_iff_eq]
  constructor
  · rintro ⟨⟨h1, h2⟩, h3⟩; exact ⟨h1, h2, h3⟩
  · rintro ⟨h1, h2, h3⟩; exact ⟨⟨h1, h2⟩, h3⟩

theorem F64.isZero_facts (f : F64) (h : f.isZero = true) :
    f.isNaN = false ∧ f.isInteger = true ∧ f.toInt = 0 := by
  unfold F64.isZero at h
  simp only [Bool.and_eq_true, beq_iff_eq] at h
  obtain ⟨he, hf⟩ := h
  refine ⟨?_, ?_, ?_⟩
  · simp [F64.isNaN, he]
  · simp [F64.isInteger, F64.isFinite, he, F64.exp2, F64.mant, hf]
  · simp [F64.toInt, F64.exp2, F64.mant, he, hf]

theorem exactOfFloat_eq_of_eq {a b : F64} (h : F64.eq a b = true) : exactOfFloat a = exactOfFloat b ∧ exactOfFloat a ≠ .nan := by
  rw [F64.eq_iff] at h
  obtain ⟨ha, hb, h⟩ := h
  rcases h with rfl | ⟨za, zb⟩
  · refine ⟨rfl, ?_⟩
    unfold exactOfFloat; simp [ha]; split <;> simp
  · obtain ⟨_, ia, ta⟩ := F64.isZero_facts a za
    obtain ⟨_, ib, tb⟩ := F64.isZero_facts b zb
    simp [exactOfFloat, ha, hb, ia, ib, ta, tb]


/-! ### an integral float is determined by its integer value -/

theorem F64.toNat_decomp (f : F64) :
    f.toNat = (f.toNat / 2 ^ 63) * 2 ^ 63 + f.expField * 2 ^ 52 + f.fracField ∧ f.toNat / 2 ^ 63 < 2 := by
  have h := f.toNat_lt
  unfold F64.expField F64.fracField
  constructor <;> omega

/-- `|f| · 2^1075 = mant · 2^expField` for an integral float with non-zero exponent field. -/
def F64.absInt (f : F64) : Nat :=
  if f.exp2 ≥ 0 then f.mant * 2 ^ f.exp2.toNat else f.mant / 2 ^ (-(f.exp2)).toNat

theorem F64.toInt_eq (f : F64) : f.toInt = if f.signBit then -(f.absInt : Int) else (f.absInt : Int) := by
  unfold F64.toInt F64.absInt; rfl

theorem F64.integral_scaled (f : F64) (hi : f.isInteger = true) (hE : f.expField ≠ 0) :
    f.absInt * 2 ^ 1075 = f.mant * 2 ^ f.expField := by
  have hE2 : f.expField < 2048 := by unfold F64.expField; omega
  have hexp : f.exp2 = (f.expField : Int) - 1075 := by simp [F64.exp2, hE]
  unfold F64.isInteger at hi
  simp only [Bool.and_eq_true, Bool.or_eq_true, decide_eq_true_eq, beq_iff_eq] at hi
  unfold F64.absInt
  by_cases hge : f.exp2 ≥ 0
  · simp only [hge, if_true]
    have : f.exp2.toNat + 1075 = f.expField := by omega
    rw [Nat.mul_assoc, ← Nat.pow_add, this]
  · simp only [hge, if_false]
    have hdiv : f.mant % 2 ^ (-(f.exp2)).toNat = 0 := by
      rcases hi.2 with h | h
      · exact absurd h hge
      · exact h
    have hk : (-(f.exp2)).toNat + f.expField = 1075 := by omega
    have hm : f.mant / 2 ^ (-(f.exp2)).toNat * 2 ^ (-(f.exp2)).toNat = f.mant := Nat.div_mul_cancel (Nat.dvd_of_mod_eq_zero hdiv)
    calc f.mant / 2 ^ (-(f.exp2)).toNat * 2 ^ 1075
        = f.mant / 2 ^ (-(f.exp2)).toNat * (2 ^ (-(f.exp2)).toNat * 2 ^ f.expField) := by rw [← Nat.pow_add, hk]
      _ = f.mant * 2 ^ f.expField := by rw [← Nat.mul_assoc, hm]

theorem F64.integral_zero_exp (f : F64) (hi : f.isInteger = true) (hE : f.expField = 0) : f.absInt = 0 ∧ f.fracField = 0 := by
  have hF : f.fracField < 2 ^ 52 := by unfold F64.fracField; omega
  unfold F64.isInteger at hi
  simp only [Bool.and_eq_true, Bool.or_eq_true, decide_eq_true_eq, beq_iff_eq] at hi
  have hexp : f.exp2 = -1074 := by simp [F64.exp2, hE]
  have hm : f.mant = f.fracField := by simp [F64.mant, hE]
  have hlt : f.fracField < 2 ^ 1074 := Nat.lt_of_lt_of_le hF (Nat.pow_le_pow_right (by decide) (by decide))
  rcases hi.2 with h | h
  · rw [hexp] at h; omega
  · rw [hexp, hm] at h
    have h0 : f.fracField = 0 := by
      have : (-(-1074 : Int)).toNat = 1074 := by decide
      rw [this, Nat.mod_eq_of_lt hlt] at h
      exact h
    refine ⟨?_, h0⟩
    unfold F64.absInt
    simp [hexp, hm, h0]

/-- Two integral floats with the same non-zero magnitude have the same exponent and fraction. -/
theorem F64.integral_inj (a b : F64) (ha : a.isInteger = true) (hb : b.isInteger = true)
    (hv : a.absInt = b.absInt) (hnz : a.absInt ≠ 0) : a.expField = b.expField ∧ a.fracField = b.fracField := by
  have hEa : a.expField ≠ 0 := fun h => hnz (F64.integral_zero_exp a ha h).1
  have hEb : b.expField ≠ 0 := fun h => (hv ▸ hnz) (F64.integral_zero_exp b hb h).1
  have sa := F64.integral_scaled a ha hEa
  have sb := F64.integral_scaled b hb hEb
  rw [hv] at sa
  have heq : a.mant * 2 ^ a.expField = b.mant * 2 ^ b.expField := by rw [← sa, ← sb]
  have hFa : a.fracField < 2 ^ 52 := by unfold F64.fracField; omega
  have hFb : b.fracField < 2 ^ 52 := by unfold F64.fracField; omega
  have hma : a.mant = 2 ^ 52 + a.fracField := by simp [F64.mant, hEa]
  have hmb : b.mant = 2 ^ 52 + b.fracField := by simp [F64.mant, hEb]
  have key : ∀ (m1 m2 e1 e2 : Nat), 2 ^ 52 ≤ m1 → m1 < 2 ^ 53 → 2 ^ 52 ≤ m2 → m1 * 2 ^ e1 = m2 * 2 ^ e2 → ¬ e1 < e2 := by
    intro m1 m2 e1 e2 h1 h2 h3 h4 hlt
    have : m1 * 2 ^ e1 < 2 ^ 53 * 2 ^ e1 := Nat.mul_lt_mul_of_pos_right h2 (Nat.pow_pos (by decide))
    have h5 : 2 ^ 53 * 2 ^ e1 ≤ 2 ^ 52 * 2 ^ e2 := by
      rw [← Nat.pow_add, ← Nat.pow_add]
      exact Nat.pow_le_pow_right (by decide) (by omega)
    have h6 : 2 ^ 52 * 2 ^ e2 ≤ m2 * 2 ^ e2 := Nat.mul_le_mul_right _ h3
    omega
  have hE : a.expField = b.expField := by
    have n1 := key a.mant b.mant a.expField b.expField (by omega) (by omega) (by omega) heq
    have n2 := key b.mant a.mant b.expField a.expField (by omega) (by omega) (by omega) heq.symm
    omega
  refine ⟨hE, ?_⟩
  rw [hE] at heq
  have := Nat.eq_of_mul_eq_mul_right (Nat.pow_pos (by decide : 0 < 2)) heq
  omega

theorem F64.ext_fields (a b : F64) (hs : a.signBit = b.signBit) (he : a.expField = b.expField)
    (hf : a.fracField = b.fracField) : a = b := by
  obtain ⟨da, la⟩ := F64.toNat_decomp a
  obtain ⟨db, lb⟩ := F64.toNat_decomp b
  have hsn : a.toNat / 2 ^ 63 = b.toNat / 2 ^ 63 := by
    unfold F64.signBit at hs
    have : (a.toNat / 2 ^ 63 == 1) = (b.toNat / 2 ^ 63 == 1) := hs
    by_cases h1 : a.toNat / 2 ^ 63 = 1
    · simp [h1] at this; omega
    · have : ¬ b.toNat / 2 ^ 63 = 1 := by
        intro h2; simp [h1, h2] at this
      omega
  apply UInt64.toNat_inj.mp
  omega

/-- Integral floats with the same integer value are the same float, up to the sign of zero. -/
theorem F64.integral_same (a b : F64) (ha : a.isInteger = true) (hb : b.isInteger = true)
    (hv : a.toInt = b.toInt) : a = b ∨ (a.isZero = true ∧ b.isZero = true) := by
  rw [F64.toInt_eq, F64.toInt_eq] at hv
  by_cases hz : a.absInt = 0
  · have hzb : b.absInt = 0 := by
      rw [hz] at hv
      split at hv <;> split at hv <;> omega
    right
    have za : a.expField = 0 := by
      apply Classical.byContradiction; intro hE
      have := F64.integral_scaled a ha hE
      rw [hz] at this
      have hm : 2 ^ 52 ≤ a.mant := by simp [F64.mant, hE]
      have : a.mant * 2 ^ a.expField ≠ 0 := Nat.mul_ne_zero (by omega) (Nat.pos_iff_ne_zero.mp (Nat.pow_pos (by decide)))
      omega
    have zb : b.expField = 0 := by
      apply Classical.byContradiction; intro hE
      have := F64.integral_scaled b hb hE
      rw [hzb] at this
      have hm : 2 ^ 52 ≤ b.mant := by simp [F64.mant, hE]
      have : b.mant * 2 ^ b.expField ≠ 0 := Nat.mul_ne_zero (by omega) (Nat.pos_iff_ne_zero.mp (Nat.pow_pos (by decide)))
      omega
    exact ⟨by simp [F64.isZero, za, (F64.integral_zero_exp a ha za).2], by simp [F64.isZero, zb, (F64.integral_zero_exp b hb zb).2]⟩
  · left
    have hs : a.signBit = b.signBit ∧ a.absInt = b.absInt := by
      cases hsa : a.signBit <;> cases hsb : b.signBit <;> rw [hsa, hsb] at hv <;>
        simp only [if_true, if_false, Bool.false_eq_true] at hv
      · exact ⟨rfl, by omega⟩
      · exfalso; omega
      · exfalso; omega
      · exact ⟨rfl, by omega⟩
    obtain ⟨he, hf⟩ := F64.integral_inj a b ha hb hs.2 hz
    exact F64.ext_fields a b hs.1 he hf


/-! ### `big.Int.Float64` reporting Exact -/

theorem F64.ofParts_fields (sgn : Bool) (E F : Nat) (hE : E < 2048) (hF : F < 2 ^ 52) :
    (F64.ofParts sgn E F).signBit = sgn ∧ (F64.ofParts sgn E F).expField = E ∧ (F64.ofParts sgn E F).fracField = F := by
  have hlt : (if sgn then 2 ^ 63 else 0) + E * 2 ^ 52 + F < 2 ^ 64 := by
    cases sgn <;> simp <;> omega
  have htn : (F64.ofParts sgn E F).toNat = (if sgn then 2 ^ 63 else 0) + E * 2 ^ 52 + F := by
    unfold F64.ofParts
    rw [UInt64.toNat_ofNat']
    exact Nat.mod_eq_of_lt hlt
  unfold F64.signBit F64.expField F64.fracField
  rw [htn]
  cases sgn <;> simp <;> omega

theorem log2_bounds (n : Nat) (hn : n ≠ 0) : 2 ^ Nat.log2 n ≤ n ∧ n < 2 ^ (Nat.log2 n + 1) :=
  ⟨(Nat.le_log2 hn).mp (Nat.le_refl _), (Nat.log2_lt hn).mp (Nat.lt_succ_self _)⟩

/-- Soundness: what `ofIntExact?` returns is an integral float of exactly that value. -/
theorem F64.ofIntExact_sound (i : Int) (f : F64) (h : F64.ofIntExact? i = some f) :
    f.isInteger = true ∧ f.toInt = i := by
  unfold F64.ofIntExact? at h
  split at h
  · rename_i h0
    simp at h0 h
    subst h0; subst h
    have z := F64.isZero_facts 0 (by simp [F64.isZero, F64.expField, F64.fracField])
    exact ⟨z.2.1, z.2.2⟩
  · rename_i h0
    simp at h0
    have hn : i.natAbs ≠ 0 := by omega
    obtain ⟨lb, ub⟩ := log2_bounds i.natAbs hn
    dsimp only at h
    generalize hk : Nat.log2 i.natAbs = k at h lb ub
    split at h
    · simp at h
    · rename_i hk1
      split at h
      · -- k ≤ 52
        rename_i hk52
        simp at h
        have hFr : i.natAbs * 2 ^ (52 - k) - 2 ^ 52 < 2 ^ 52 := by
          have : i.natAbs * 2 ^ (52 - k) < 2 ^ (k + 1) * 2 ^ (52 - k) := Nat.mul_lt_mul_of_pos_right ub (Nat.pow_pos (by decide))
          rw [← Nat.pow_add, show k + 1 + (52 - k) = 53 by omega] at this
          omega
        have hge : 2 ^ 52 ≤ i.natAbs * 2 ^ (52 - k) := by
          have : 2 ^ k * 2 ^ (52 - k) ≤ i.natAbs * 2 ^ (52 - k) := Nat.mul_le_mul_right _ lb
          rw [← Nat.pow_add, show k + (52 - k) = 52 by omega] at this
          exact this
        obtain ⟨fs, fe, ff⟩ := F64.ofParts_fields (decide (i < 0)) (k + 1023) (i.natAbs * 2 ^ (52 - k) - 2 ^ 52) (by omega) hFr
        rw [h] at fs fe ff
        have hE0 : f.expField ≠ 0 := by omega
        have hm : f.mant = i.natAbs * 2 ^ (52 - k) := by simp [F64.mant, hE0, ff]; omega
        have he : f.exp2 = (k : Int) - 52 := by simp [F64.exp2, hE0, fe]; omega
        have hneg : (-(f.exp2)).toNat = 52 - k := by omega
        constructor
        · simp only [F64.isInteger, F64.isFinite, Bool.and_eq_true, Bool.or_eq_true, decide_eq_true_eq, beq_iff_eq, bne_iff_ne]
          refine ⟨by omega, Or.inr ?_⟩
          rw [hneg, hm]; exact Nat.mul_mod_left _ _
        · rw [F64.toInt_eq, fs]
          have habs : f.absInt = i.natAbs := by
            unfold F64.absInt
            by_cases hz : f.exp2 ≥ 0
            · have : k = 52 := by omega
              subst this
              simp [hz, hm] 
              have : f.exp2.toNat = 0 := by omega
              simp [this]
            · simp only [hz, if_false, hneg, hm]
              exact Nat.mul_div_cancel _ (Nat.pow_pos (by decide))
          rw [habs]
          by_cases hlt : i < 0 <;> simp [hlt] <;> omega
      · rename_i hk52
        split at h
        · rename_i hdiv
          simp at hdiv h
          have hq : i.natAbs / 2 ^ (k - 52) * 2 ^ (k - 52) = i.natAbs := Nat.div_mul_cancel (Nat.dvd_of_mod_eq_zero hdiv)
          have hqlb : 2 ^ 52 ≤ i.natAbs / 2 ^ (k - 52) := by
            apply (Nat.le_div_iff_mul_le (Nat.pow_pos (by decide))).mpr
            rw [← Nat.pow_add, show 52 + (k - 52) = k by omega]; exact lb
          have hqub : i.natAbs / 2 ^ (k - 52) < 2 ^ 53 := by
            apply Nat.div_lt_of_lt_mul
            rw [← Nat.pow_add, show k - 52 + 53 = k + 1 by omega]; exact ub
          obtain ⟨fs, fe, ff⟩ := F64.ofParts_fields (decide (i < 0)) (k + 1023) (i.natAbs / 2 ^ (k - 52) - 2 ^ 52) (by omega) (by omega)
          rw [h] at fs fe ff
          have hE0 : f.expField ≠ 0 := by omega
          have hm : f.mant = i.natAbs / 2 ^ (k - 52) := by simp [F64.mant, hE0, ff]; omega
          have he : f.exp2 = (k : Int) - 52 := by simp [F64.exp2, hE0, fe]; omega
          have hpos : f.exp2 ≥ 0 := by omega
          have htn : f.exp2.toNat = k - 52 := by omega
          constructor
          · simp only [F64.isInteger, F64.isFinite, Bool.and_eq_true, Bool.or_eq_true, decide_eq_true_eq, bne_iff_ne]
            exact ⟨by omega, Or.inl hpos⟩
          · rw [F64.toInt_eq, fs]
            have habs : f.absInt = i.natAbs := by
              unfold F64.absInt
              simp only [hpos, if_true, htn, hm, hq]
            rw [habs]
            by_cases hlt : i < 0 <;> simp [hlt] <;> omega
        · simp at h


theorem F64.integral_not_nan (a : F64) (ha : a.isInteger = true) : a.isNaN = false := by
  unfold F64.isInteger F64.isFinite at ha
  simp only [Bool.and_eq_true, bne_iff_ne] at ha
  simp [F64.isNaN, ha.1]

theorem F64.eq_self_of_integral (a : F64) (ha : a.isInteger = true) : F64.eq a a = true := by
  rw [F64.eq_iff]; exact ⟨F64.integral_not_nan a ha, F64.integral_not_nan a ha, Or.inl rfl⟩

/-- Completeness: every integral float is found. -/
theorem F64.ofIntExact_complete (a : F64) (ha : a.isInteger = true) :
    ∃ f, F64.ofIntExact? a.toInt = some f ∧ F64.eq a f = true := by
  by_cases hz : a.absInt = 0
  · -- value zero
    have hi : a.toInt = 0 := by rw [F64.toInt_eq, hz]; split <;> simp
    refine ⟨0, by simp [F64.ofIntExact?, hi], ?_⟩
    have hE : a.expField = 0 := by
      apply Classical.byContradiction; intro hE
      have := F64.integral_scaled a ha hE
      rw [hz] at this
      have hm : 2 ^ 52 ≤ a.mant := by simp [F64.mant, hE]
      have : a.mant * 2 ^ a.expField ≠ 0 := Nat.mul_ne_zero (by omega) (Nat.pos_iff_ne_zero.mp (Nat.pow_pos (by decide)))
      omega
    have hF := (F64.integral_zero_exp a ha hE).2
    rw [F64.eq_iff]
    refine ⟨F64.integral_not_nan a ha, by simp [F64.isNaN, F64.expField], Or.inr ⟨by simp [F64.isZero, hE, hF], by simp [F64.isZero, F64.expField, F64.fracField]⟩⟩
  · have hE : a.expField ≠ 0 := fun h => hz (F64.integral_zero_exp a ha h).1
    have hsc := F64.integral_scaled a ha hE
    have hFlt : a.fracField < 2 ^ 52 := by unfold F64.fracField; omega
    have hm : a.mant = 2 ^ 52 + a.fracField := by simp [F64.mant, hE]
    have hfin : a.expField ≠ 2047 := by
      unfold F64.isInteger F64.isFinite at ha
      simp only [Bool.and_eq_true, bne_iff_ne] at ha
      exact ha.1
    have hElt : a.expField < 2048 := by unfold F64.expField; omega
    -- the integer and its absolute value
    have hnat : a.toInt.natAbs = a.absInt := by rw [F64.toInt_eq]; split <;> simp
    have hi0 : a.toInt ≠ 0 := by
      intro h; rw [h] at hnat; simp at hnat; exact hz hnat.symm
    have hneg : decide (a.toInt < 0) = a.signBit := by
      rw [F64.toInt_eq]
      cases a.signBit <;> simp <;> omega
    -- bounds of n
    have hlb : 2 ^ (52 + a.expField) ≤ a.absInt * 2 ^ 1075 := by
      rw [hsc, Nat.pow_add]; exact Nat.mul_le_mul_right _ (by omega)
    have hub : a.absInt * 2 ^ 1075 < 2 ^ (53 + a.expField) := by
      rw [hsc, Nat.pow_add]; exact Nat.mul_lt_mul_of_pos_right (by omega) (Nat.pow_pos (by decide))
    have hE1023 : 1023 ≤ a.expField := by
      apply Classical.byContradiction; intro hlt
      have : 2 ^ (53 + a.expField) ≤ 2 ^ 1075 := Nat.pow_le_pow_right (by decide) (by omega)
      have : a.absInt * 2 ^ 1075 < 1 * 2 ^ 1075 := by omega
      have := Nat.lt_of_mul_lt_mul_right this
      omega
    have hk : Nat.log2 a.absInt = a.expField - 1023 := by
      have h1 : 2 ^ (a.expField - 1023) ≤ a.absInt := by
        have : 2 ^ (a.expField - 1023) * 2 ^ 1075 ≤ a.absInt * 2 ^ 1075 := by
          rw [← Nat.pow_add, show a.expField - 1023 + 1075 = 52 + a.expField by omega]; exact hlb
        exact Nat.le_of_mul_le_mul_right this (Nat.pow_pos (by decide))
      have h2 : a.absInt < 2 ^ (a.expField - 1023 + 1) := by
        have : a.absInt * 2 ^ 1075 < 2 ^ (a.expField - 1023 + 1) * 2 ^ 1075 := by
          rw [← Nat.pow_add, show a.expField - 1023 + 1 + 1075 = 53 + a.expField by omega]; exact hub
        exact Nat.lt_of_mul_lt_mul_right this
      have l1 := (Nat.le_log2 hz).mpr h1
      have l2 := (Nat.log2_lt hz).mpr h2
      omega
    -- evaluate ofIntExact?
    unfold F64.ofIntExact?
    have hb0 : (a.toInt == 0) = false := by simp [hi0]
    simp only [hb0, hnat, hk, hneg]
    have hk1 : ¬ a.expField - 1023 > 1023 := by omega
    simp only [Bool.false_eq_true, if_false, hk1]
    have hEk : a.expField - 1023 + 1023 = a.expField := by omega
    by_cases hk52 : a.expField - 1023 ≤ 52
    · simp only [hk52, if_true, hEk]
      have hmant : a.mant = a.absInt * 2 ^ (52 - (a.expField - 1023)) := by
        have e1 : a.absInt * 2 ^ (52 - (a.expField - 1023)) * 2 ^ a.expField = a.absInt * 2 ^ 1075 := by
          rw [Nat.mul_assoc, ← Nat.pow_add, show 52 - (a.expField - 1023) + a.expField = 1075 by omega]
        have : a.mant * 2 ^ a.expField = a.absInt * 2 ^ (52 - (a.expField - 1023)) * 2 ^ a.expField := by rw [e1, hsc]
        exact Nat.eq_of_mul_eq_mul_right (Nat.pow_pos (by decide)) this
      have hfr : a.absInt * 2 ^ (52 - (a.expField - 1023)) - 2 ^ 52 = a.fracField := by omega
      rw [hfr]
      obtain ⟨fs, fe, ff⟩ := F64.ofParts_fields a.signBit a.expField a.fracField hElt hFlt
      have : F64.ofParts a.signBit a.expField a.fracField = a := F64.ext_fields _ _ fs fe ff
      exact ⟨_, rfl, by rw [this]; exact F64.eq_self_of_integral a ha⟩
    · simp only [hk52, if_false]
      have hn : a.absInt = a.mant * 2 ^ (a.expField - 1023 - 52) := by
        have e1 : a.mant * 2 ^ (a.expField - 1023 - 52) * 2 ^ 1075 = a.mant * 2 ^ a.expField := by
          rw [Nat.mul_assoc, ← Nat.pow_add, show a.expField - 1023 - 52 + 1075 = a.expField by omega]
        have : a.absInt * 2 ^ 1075 = a.mant * 2 ^ (a.expField - 1023 - 52) * 2 ^ 1075 := by rw [e1, hsc]
        exact Nat.eq_of_mul_eq_mul_right (Nat.pow_pos (by decide)) this
      have hmod : a.absInt % 2 ^ (a.expField - 1023 - 52) = 0 := by rw [hn]; exact Nat.mul_mod_left _ _
      have hdiv : a.absInt / 2 ^ (a.expField - 1023 - 52) = a.mant := by
        rw [hn]; exact Nat.mul_div_cancel _ (Nat.pow_pos (by decide))
      simp only [hmod, beq_self_eq_true, if_true, hEk, hdiv]
      have hfr : a.mant - 2 ^ 52 = a.fracField := by omega
      rw [hfr]
      obtain ⟨fs, fe, ff⟩ := F64.ofParts_fields a.signBit a.expField a.fracField hElt hFlt
      have : F64.ofParts a.signBit a.expField a.fracField = a := F64.ext_fields _ _ fs fe ff
      exact ⟨_, rfl, by rw [this]; exact F64.eq_self_of_integral a ha⟩


/-! ### the matrix entries against the specification -/

theorem exactOfFloat_int {f : F64} (h : f.isInteger = true) : exactOfFloat f = .int f.toInt := by
  simp [exactOfFloat, F64.integral_not_nan f h, h]

theorem exactOfFloat_nonint {f : F64} (h : f.isInteger = false) : ∀ z, exactOfFloat f ≠ .int z := by
  intro z; unfold exactOfFloat; split <;> simp [h]

/-- L1: IEEE `==` is equality of exact values. -/
theorem F64.eq_exact (a b : F64) : F64.eq a b = exactRealEq (exactOfFloat a) (exactOfFloat b) := by
  cases h : F64.eq a b with
  | true =>
    obtain ⟨h1, h2⟩ := exactOfFloat_eq_of_eq h
    rw [← h1]
    cases he : exactOfFloat a <;> simp_all [exactRealEq]
  | false =>
    apply Eq.symm
    apply Bool.eq_false_iff.mpr
    intro hx
    have hne : F64.eq a b ≠ true := by simp [h]
    apply hne
    cases ha : exactOfFloat a with
    | nan => rw [ha] at hx; simp [exactRealEq] at hx
    | int x =>
      cases hb : exactOfFloat b with
      | nan => rw [ha, hb] at hx; simp [exactRealEq] at hx
      | flt y => rw [ha, hb] at hx; simp [exactRealEq] at hx
      | int y =>
        rw [ha, hb] at hx; simp [exactRealEq] at hx
        have ia : a.isInteger = true := by
          cases hh : a.isInteger with
          | true => rfl
          | false => exact absurd ha (exactOfFloat_nonint hh x)
        have ib : b.isInteger = true := by
          cases hh : b.isInteger with
          | true => rfl
          | false => exact absurd hb (exactOfFloat_nonint hh y)
        rw [exactOfFloat_int ia] at ha
        rw [exactOfFloat_int ib] at hb
        simp at ha hb
        rw [F64.eq_iff]
        exact ⟨F64.integral_not_nan a ia, F64.integral_not_nan b ib, F64.integral_same a b ia ib (by omega)⟩
    | flt x =>
      cases hb : exactOfFloat b with
      | nan => rw [ha, hb] at hx; simp [exactRealEq] at hx
      | int y => rw [ha, hb] at hx; simp [exactRealEq] at hx
      | flt y =>
        rw [ha, hb] at hx; simp [exactRealEq] at hx
        subst hx
        have hax : a = x := by
          unfold exactOfFloat at ha; split at ha; simp at ha; split at ha <;> simp at ha; exact ha
        have hbx : b = x := by
          unfold exactOfFloat at hb; split at hb; simp at hb; split at hb <;> simp at hb; exact hb
        have hnan : a.isNaN = false := by
          unfold exactOfFloat at ha; split at ha; simp at ha; rename_i hn; simpa using hn
        rw [F64.eq_iff, hax, hbx] at *
        exact ⟨hnan, hnan, Or.inl rfl⟩

theorem exactOfFloat_zero : exactOfFloat 0 = .int 0 := by
  have z := F64.isZero_facts 0 (by simp [F64.isZero, F64.expField, F64.fracField])
  rw [exactOfFloat_int z.2.1, z.2.2]

theorem exactRealEq_comm (x y : ExactReal) : exactRealEq x y = exactRealEq y x := by
  cases x <;> cases y <;> simp [exactRealEq]
  · exact Bool.beq_comm
  · exact Bool.beq_comm

/-- L2: int64 against float. -/
theorem eqIntFloat_exact (a : Int) (f : F64) (ha : inInt64 a = true) :
    eqIntFloat a f = exactRealEq (.int a) (exactOfFloat f) := by
  rw [inInt64_iff] at ha
  unfold eqIntFloat
  cases hi : f.isInteger with
  | true =>
    rw [exactOfFloat_int hi]
    simp only [exactRealEq, Bool.true_and]
    by_cases he : a = f.toInt
    · have h1 : minInt64 ≤ f.toInt := by unfold minInt64; omega
      have h2 : f.toInt ≤ maxInt64 := by unfold maxInt64; omega
      simp [h1, h2, he]
    · simp [he]
  | false =>
    have : exactRealEq (.int a) (exactOfFloat f) = false := by
      cases h : exactOfFloat f with
      | int z => exact absurd h (exactOfFloat_nonint hi z)
      | _ => simp [exactRealEq]
    simp [this]

/-- L3: uint64 against float. -/
theorem eqUintFloat_exact (u : Nat) (f : F64) (hu : u < 2 ^ 64) :
    eqUintFloat u f = exactRealEq (.int u) (exactOfFloat f) := by
  unfold eqUintFloat
  cases hi : f.isInteger with
  | true =>
    rw [exactOfFloat_int hi]
    simp only [exactRealEq, Bool.true_and]
    by_cases he : (u : Int) = f.toInt
    · rw [← he]; simp; omega
    · simp [he]
  | false =>
    have : exactRealEq (.int u) (exactOfFloat f) = false := by
      cases h : exactOfFloat f with
      | int z => exact absurd h (exactOfFloat_nonint hi z)
      | _ => simp [exactRealEq]
    simp [this]

/-- L4: float against `*big.Int`. -/
theorem eqFloatBig_exact (f : F64) (b : Int) : eqFloatBig f b = exactRealEq (exactOfFloat f) (.int b) := by
  unfold eqFloatBig
  cases hi : f.isInteger with
  | true =>
    rw [exactOfFloat_int hi]
    simp only [exactRealEq]
    by_cases he : f.toInt = b
    · subst he
      obtain ⟨g, hg, hge⟩ := F64.ofIntExact_complete f hi
      simp [hg, hge]
    · have hbeq : (f.toInt == b) = false := by simp [he]
      rw [hbeq]
      split
      · rename_i bf hbf
        obtain ⟨ib, tb⟩ := F64.ofIntExact_sound b bf hbf
        cases hq : F64.eq f bf with
        | false => simp
        | true =>
          exfalso
          rw [F64.eq_exact, exactOfFloat_int hi, exactOfFloat_int ib] at hq
          simp [exactRealEq] at hq
          omega
      · simp
  | false =>
    have hx : exactRealEq (exactOfFloat f) (.int b) = false := by
      cases h : exactOfFloat f with
      | int z => exact absurd h (exactOfFloat_nonint hi z)
      | _ => simp [exactRealEq]
    rw [hx]
    split
    · rename_i bf hbf
      obtain ⟨ib, tb⟩ := F64.ofIntExact_sound b bf hbf
      cases hq : F64.eq f bf with
      | false => rfl
      | true =>
        exfalso
        rw [F64.eq_exact, exactOfFloat_int ib] at hq
        cases h : exactOfFloat f with
        | int z => exact absurd h (exactOfFloat_nonint hi z)
        | flt _ => rw [h] at hq; simp [exactRealEq] at hq
        | nan => rw [h] at hq; simp [exactRealEq] at hq
    · rfl


/-! ### the theorems -/

theorem inInt64_bint (b : Bool) : inInt64 (bint b) = true := by
  cases b <;> decide

@[simp] theorem ere_int (a b : Int) : exactRealEq (.int a) (.int b) = (a == b) := rfl

theorem eqIntUint_exact (a : Int) (u : Nat) : eqIntUint a u = exactRealEq (.int a) (.int u) := by
  unfold eqIntUint
  rw [ere_int]
  by_cases h : a ≥ 0
  · have : (a.toNat == u) = (a == (u : Int)) := by
      cases h1 : a.toNat == u <;> cases h2 : a == (u : Int) <;> simp at h1 h2 <;> first | rfl | omega
    simp [h, this]
  · have : (a == (u : Int)) = false := by simp; omega
    simp [h, this]

theorem eqIntBig_exact (a b : Int) (ha : inInt64 a = true) : eqIntBig a b = exactRealEq (.int a) (.int b) := by
  unfold eqIntBig
  rw [ere_int]
  by_cases h : a = b
  · subst h; simp [ha]
  · simp [h]

theorem eqUintBig_exact (u : Nat) (b : Int) (hu : u < 2 ^ 64) : eqUintBig u b = exactRealEq (.int u) (.int b) := by
  unfold eqUintBig
  rw [ere_int]
  by_cases h : (u : Int) = b
  · rw [← h]; simp; omega
  · simp [h]

/-- **C07 (exact, numbers).** For all numeric Go representations — bool, int8…int64, uint8…uint64
    (range invariants `NumWF`), `*big.Int`, float32/64, complex64/128 — `equal` is equality of
    the exact mathematical values: no rounding, NaN equal to nothing, +0 = −0. -/
theorem C07_exact_num (x y : Num) (hx : NumWF x) (hy : NumWF y) :
    numEq x y = exactEq (exactVal x) (exactVal y) := by
  have z0 := exactOfFloat_zero
  have hb := inInt64_bint
  have natbeq : ∀ a b : Nat, (a == b) = ((a : Int) == (b : Int)) := by
    intro a b; cases h1 : a == b <;> cases h2 : (a : Int) == (b : Int) <;> simp at h1 h2 <;> first | rfl | omega
  cases x <;> cases y <;>
    simp only [numEq, exactVal, exactEq, eqIntInt, eqIntComplex, eqUintComplex, eqUintUint, eqFloatFloat, eqFloatComplex,
      eqComplexComplex, eqComplexBig, eqBigBig, NumWF] at *
  all_goals try simp only [eqIntFloat_exact _ _ (hb _)]
  all_goals try simp only [eqIntFloat_exact _ _ hx]
  all_goals try simp only [eqIntFloat_exact _ _ hy]
  all_goals try simp only [eqUintFloat_exact _ _ hx]
  all_goals try simp only [eqUintFloat_exact _ _ hy]
  all_goals try simp only [eqIntBig_exact _ _ (hb _)]
  all_goals try simp only [eqIntBig_exact _ _ hx]
  all_goals try simp only [eqIntBig_exact _ _ hy]
  all_goals try simp only [eqUintBig_exact _ _ hx]
  all_goals try simp only [eqUintBig_exact _ _ hy]
  all_goals try simp only [eqFloatBig_exact]
  all_goals try simp only [F64.eq_exact]
  all_goals try simp only [eqIntUint_exact]
  all_goals try simp only [natbeq]
  all_goals try simp only [z0]
  all_goals try simp only [ere_int, beq_self_eq_true, Bool.and_true]
  all_goals try rfl
  all_goals try (simp only [exactRealEq_comm, Bool.and_comm, Bool.beq_comm]; done)


theorem F64.eq_comm (a b : F64) : F64.eq a b = F64.eq b a := by
  rw [F64.eq_exact, F64.eq_exact, exactRealEq_comm]

theorem numEq_symm (x y : Num) : numEq x y = numEq y x := by
  cases x <;> cases y <;> simp only [numEq, eqIntInt, eqUintUint, eqFloatFloat, eqComplexComplex, eqBigBig]
  all_goals try rfl
  all_goals try exact Bool.beq_comm
  · exact F64.eq_comm _ _
  · rw [F64.eq_comm, F64.eq_comm (a := _) (b := _)]; congr 1; exact F64.eq_comm _ _

theorem strEq_symm (ka : Nat) (a : Bytes) (kb : Nat) (b : Bytes) : strEq ka a kb b = strEq kb b ka a := by
  unfold strEq
  have h1 : (b == a) = (a == b) := Bool.beq_comm
  have h2 : (kb == ka) = (ka == kb) := Bool.beq_comm
  rw [h1, h2]
  cases ka == kb <;> cases ka == 1 <;> cases kb == 1 <;> rfl


mutual
/-- **C07 (symmetry).** `equal a b = equal b a` for all values. -/
theorem C07_symm : ∀ a b : GoVal, goEqual a b = goEqual b a
  | .tuple xs, b => by
    cases b <;> simp only [goEqual, strKind?, numOf?]
    case tuple ys => exact goEqualList_symm xs ys
    case list ys => exact goEqualList_symm xs ys
  | .list xs, b => by
    cases b <;> simp only [goEqual, strKind?, numOf?]
    case tuple ys => exact goEqualList_symm xs ys
    case list ys => exact goEqualList_symm xs ys
  | .call m n args, b => by
    cases b <;> simp only [goEqual, strKind?, numOf?]
    case call m' n' args' =>
      rw [goEqualList_symm args args', Bool.beq_comm (a := m), Bool.beq_comm (a := n)]
  | .ref p, b => by
    cases b <;> simp only [goEqual, strKind?, numOf?]
    case ref q => exact C07_symm p q
  | .mark, b => by cases b <;> simp [goEqual, strKind?, numOf?]
  | .none, b => by cases b <;> simp [goEqual, strKind?, numOf?]
  | .nil, b => by cases b <;> simp [goEqual, strKind?, numOf?]
  | .cycle, b => by cases b <;> simp [goEqual, strKind?, numOf?]
  | .bool x, b => by cases b <;> simp [goEqual, strKind?, numOf?, numEq_symm]
  | .int x, b => by cases b <;> simp [goEqual, strKind?, numOf?, numEq_symm]
  | .uint x, b => by cases b <;> simp [goEqual, strKind?, numOf?, numEq_symm]
  | .big _ x, b => by cases b <;> simp [goEqual, strKind?, numOf?, numEq_symm]
  | .float x, b => by cases b <;> simp [goEqual, strKind?, numOf?, numEq_symm]
  | .complex x y, b => by cases b <;> simp [goEqual, strKind?, numOf?, numEq_symm]
  | .str x, b => by cases b <;> simp [goEqual, strKind?, numOf?, strEq_symm]
  | .bytestr x, b => by cases b <;> simp [goEqual, strKind?, numOf?, strEq_symm]
  | .bytes x, b => by cases b <;> simp [goEqual, strKind?, numOf?, strEq_symm]
  | .bytearray x, b => by cases b <;> simp [goEqual, strKind?, numOf?] <;> exact Bool.beq_comm
  | .map x, b => by cases b <;> simp [goEqual, strKind?, numOf?]
  | .dict x, b => by cases b <;> simp [goEqual, strKind?, numOf?]
  | .href x, b => by cases b <;> simp [goEqual, strKind?, numOf?] <;> exact Bool.beq_comm
  | .cls m n, b => by
    cases b <;> simp [goEqual, strKind?, numOf?]
    rename_i m' n'
    rw [Bool.beq_comm (a := m), Bool.beq_comm (a := n)]
  | .user x, b => by cases b <;> simp [goEqual, strKind?, numOf?] <;> exact Bool.beq_comm
theorem goEqualList_symm : ∀ xs ys : List GoVal, goEqualList xs ys = goEqualList ys xs
  | [], [] => rfl
  | [], _ :: _ => by simp [goEqualList]
  | _ :: _, [] => by simp [goEqualList]
  | x :: xs, y :: ys => by
    simp only [goEqualList]
    rw [C07_symm x y, goEqualList_symm xs ys]
end


/-! ### hash agrees on equal keys -/

/-- The bytes hashed for an integer value (whatever Go type carries it). -/
def intHashBytes (z : Int) : Bytes :=
  if inInt64 z then be8 (ofSigned 64 z)
  else if decide (0 ≤ z) && decide (z < 2 ^ 64) then be8 z.toNat
  else match F64.ofIntExact? z with
    | some f => hashFloatBytes f
    | none => sb "bigInt" ++ natBytesBE z.natAbs

def hashExactReal : ExactReal → Bytes
  | .int z => intHashBytes z
  | .flt f => be8 f.toNat
  | .nan => []

/-- The bytes `hash` feeds to maphash for a number. -/
def numLeaf : Num → Bytes
  | .bool b => be8 (ofSigned 64 (bint b))
  | .int i => be8 (ofSigned 64 i)
  | .uint u => be8 u
  | .float f => hashFloatBytes f
  | .complex re im => hashFloatBytes re ++ (if F64.eq im 0 then [] else hashFloatBytes im)
  | .big b => intHashBytes b

theorem hashTree_num (v : GoVal) (x : Num) (h : numOf? v = some x) : hashTree v = some (.leaf (numLeaf x)) := by
  cases v <;> simp [numOf?] at h <;> subst h <;> simp [hashTree, numLeaf, hashInt, hashUint]
  case big id b =>
    unfold hashBig intHashBytes hashInt hashUint
    repeat' split
    all_goals simp_all

theorem ofSigned_nonneg (z : Int) (h0 : 0 ≤ z) (h1 : z < 2 ^ 64) : ofSigned 64 z = z.toNat := by
  unfold ofSigned
  rw [Int.emod_eq_of_lt h0 (by omega)]

/-- Lemma A: the float hash is a function of the exact value. -/
theorem hashFloatBytes_exact (f : F64) (hn : f.isNaN = false) : hashFloatBytes f = hashExactReal (exactOfFloat f) := by
  cases hi : f.isInteger with
  | false =>
    have : exactOfFloat f = .flt f := by simp [exactOfFloat, hn, hi]
    rw [this]
    simp [hashFloatBytes, hi, hashExactReal]
  | true =>
    rw [exactOfFloat_int hi]
    simp only [hashExactReal, intHashBytes, hashFloatBytes, hi, Bool.true_and]
    by_cases h1 : inInt64 f.toInt = true
    · have := (inInt64_iff _).mp h1
      have e1 : decide (minInt64 ≤ f.toInt) = true := decide_eq_true (by unfold minInt64; omega)
      have e2 : decide (f.toInt ≤ maxInt64) = true := decide_eq_true (by unfold maxInt64; omega)
      simp [h1, e1, e2]
    · have hnot : ¬ (minInt64 ≤ f.toInt ∧ f.toInt ≤ maxInt64) := by
        intro hh; apply h1; rw [inInt64_iff]; unfold minInt64 maxInt64 at hh; omega
      have e12 : (decide (minInt64 ≤ f.toInt) && decide (f.toInt ≤ maxInt64)) = false := by
        simp only [Bool.and_eq_false_iff, decide_eq_false_iff_not]; omega
      have h1' : inInt64 f.toInt = false := by simpa using h1
      simp only [e12, h1', Bool.false_eq_true, if_false]
      by_cases h2 : (0 ≤ f.toInt ∧ f.toInt < 2 ^ 64)
      · have h63 : (9223372036854775808 : Int) ≤ f.toInt := by unfold minInt64 maxInt64 at hnot; omega
        have h64 : f.toInt < (18446744073709551616 : Int) := by omega
        simp [h2.1, h63, h64]
      · have e4 : (decide (0 ≤ f.toInt) && decide (f.toInt < 2 ^ 64)) = false := by
          simp only [Bool.and_eq_false_iff, decide_eq_false_iff_not]; omega
        have e5 : (decide ((2 : Int) ^ 63 ≤ f.toInt) && decide (f.toInt < 2 ^ 64)) = false := by
          simp only [Bool.and_eq_false_iff, decide_eq_false_iff_not]
          by_cases h0 : 0 ≤ f.toInt
          · right; omega
          · left; omega
        simp only [e4, e5, Bool.false_eq_true, if_false]
        obtain ⟨g, hg, hge⟩ := F64.ofIntExact_complete f hi
        rw [hg]
        -- g is f (the value is not zero)
        obtain ⟨ig, tg⟩ := F64.ofIntExact_sound _ g hg
        have hfg : f = g := by
          rcases F64.integral_same f g hi ig tg.symm with h | ⟨zf, _⟩
          · exact h
          · exfalso
            have := (F64.isZero_facts f zf).2.2
            apply h1; rw [this]; decide
        rw [← hfg]
        simp only [hashFloatBytes, hi, Bool.true_and, e12, e5, Bool.false_eq_true, if_false]


theorem exactRealEq_true {a b : ExactReal} (h : exactRealEq a b = true) : a = b ∧ a ≠ .nan := by
  cases a <;> cases b <;> simp [exactRealEq] at h <;> simp [h]

/-- The bytes hashed for a number are a function of its exact value. -/
def hashExact (v : ExactReal × ExactReal) : Bytes :=
  hashExactReal v.1 ++ (if v.2 = .int 0 then [] else hashExactReal v.2)

theorem eq_zero_iff_exact (f : F64) : F64.eq f 0 = true ↔ exactOfFloat f = .int 0 := by
  rw [F64.eq_exact, exactOfFloat_zero]
  constructor
  · intro h; exact (exactRealEq_true h).1
  · intro h; rw [h]; rfl

theorem numLeaf_exact (x : Num) (hx : NumWF x) (hn : (exactVal x).1 ≠ .nan) (hn2 : (exactVal x).2 ≠ .nan) :
    numLeaf x = hashExact (exactVal x) := by
  cases x <;> simp only [numLeaf, exactVal, hashExact, if_true, List.append_nil, NumWF] at *
  case bool b => simp [hashExactReal, intHashBytes, inInt64_bint]
  case int i => simp [hashExactReal, intHashBytes, hx]
  case big b => rfl
  case uint u =>
    unfold hashExactReal intHashBytes
    by_cases h : inInt64 (u : Int) = true
    · have := (inInt64_iff _).mp h
      simp [h, ofSigned_nonneg (u : Int) (by omega) (by omega)]
    · have h' : inInt64 (u : Int) = false := by simpa using h
      have h1 : (0 : Int) ≤ u := by omega
      have h2 : (u : Int) < 2 ^ 64 := by omega
      have e : (decide ((0 : Int) ≤ u) && decide ((u : Int) < 2 ^ 64)) = true := by
        simp only [Bool.and_eq_true, decide_eq_true_eq]; exact ⟨h1, h2⟩
      simp only [h', e, Bool.false_eq_true, if_false, if_true, Int.toNat_natCast]
  case float f =>
    have : f.isNaN = false := by
      cases hh : f.isNaN with
      | false => rfl
      | true => exfalso; apply hn; simp [exactOfFloat, hh]
    exact hashFloatBytes_exact f this
  case complex re im =>
    have h1 : re.isNaN = false := by
      cases hh : re.isNaN with
      | false => rfl
      | true => exfalso; apply hn; simp [exactOfFloat, hh]
    have h2 : im.isNaN = false := by
      cases hh : im.isNaN with
      | false => rfl
      | true => exfalso; apply hn2; simp [exactOfFloat, hh]
    rw [hashFloatBytes_exact re h1, hashFloatBytes_exact im h2]
    by_cases hz : F64.eq im 0 = true
    · simp [hz, (eq_zero_iff_exact im).mp hz]
    · have : ¬ exactOfFloat im = .int 0 := fun h => hz ((eq_zero_iff_exact im).mpr h)
      simp [hz, this]

/-- **C07 (hash, numbers).** Equal numbers feed the same bytes to the hash. -/
theorem C07_hash_num (x y : Num) (hx : NumWF x) (hy : NumWF y) (h : numEq x y = true) : numLeaf x = numLeaf y := by
  rw [C07_exact_num x y hx hy] at h
  unfold exactEq at h
  simp only [Bool.and_eq_true] at h
  obtain ⟨e1, n1⟩ := exactRealEq_true h.1
  obtain ⟨e2, n2⟩ := exactRealEq_true h.2
  rw [numLeaf_exact x hx n1 n2, numLeaf_exact y hy (e1 ▸ n1) (e2 ▸ n2)]
  unfold hashExact
  rw [e1, e2]


mutual
/-- Range invariants of Go integers inside a key. -/
def keyWF : GoVal → Bool
  | .int i => inInt64 i
  | .uint u => decide (u < 2 ^ 64)
  | .tuple xs => keyWFList xs
  | .call _ _ args => keyWFList args
  | .ref p => keyWF p
  | _ => true
def keyWFList : List GoVal → Bool
  | [] => true
  | x :: xs => keyWF x && keyWFList xs
end

theorem numWF_of_keyWF {v : GoVal} {x : Num} (h : numOf? v = some x) (hw : keyWF v = true) : NumWF x := by
  cases v <;> simp [numOf?] at h <;> subst h <;> simp_all [keyWF, NumWF]

theorem strKind_hash {v : GoVal} {k : Nat} {s : Bytes} (h : strKind? v = some (k, s)) : hashTree v = some (.leaf s) := by
  cases v <;> simp [strKind?] at h <;> obtain ⟨_, rfl⟩ := h <;> simp [hashTree]

theorem strKind_num_disjoint {v : GoVal} {k : Nat} {s : Bytes} (h : strKind? v = some (k, s)) : numOf? v = none := by
  cases v <;> simp [strKind?] at h <;> simp [numOf?]

/-- Numbers: a numeric key equal to `b` forces `b` numeric and the leaves agree. -/
theorem num_case (a b : GoVal) {x : Num} (hx : numOf? a = some x) (wa : keyWF a = true) (wb : keyWF b = true)
    (he : goEqual a b = true) : hashTree a = hashTree b := by
  have hsa : strKind? a = none := by cases a <;> simp [numOf?] at hx <;> simp [strKind?]
  have hge : goEqual a b = (match strKind? a, strKind? b with
      | some (ka, x), some (kb, y) => strEq ka x kb y
      | some _, none => false
      | none, some _ => false
      | none, none =>
        match numOf? a, numOf? b with
        | some x, some y => numEq x y
        | some _, none => false
        | none, some _ => false
        | none, none => false) := by
    cases a <;> simp [numOf?] at hx <;> simp only [goEqual] <;> (cases b <;> simp [strKind?, numOf?])
  rw [hge, hsa] at he
  cases hsb : strKind? b with
  | some p => rw [hsb] at he; simp at he
  | none =>
    rw [hsb, hx] at he
    cases hy : numOf? b with
    | none => rw [hy] at he; simp at he
    | some y =>
      rw [hy] at he
      simp only at he
      rw [hashTree_num a x hx, hashTree_num b y hy,
        C07_hash_num x y (numWF_of_keyWF hx wa) (numWF_of_keyWF hy wb) he]

mutual
/-- **C07 (hash).** Equal keys have equal hash trees — hence equal hashes for every hash function
    and every seed (`hash = HTree.eval H ∘ hashTree`): a key is always found in the bucket it was
    stored in, whatever the seed. -/
theorem C07_hash : ∀ a b : GoVal, keyWF a = true → keyWF b = true → goEqual a b = true →
    hashable a = true → hashable b = true → hashTree a = hashTree b
  | .tuple xs, b, wa, wb, he, ha, hb => by
    cases b <;> simp only [goEqual, strKind?, numOf?] at he <;> try (simp at he; done)
    case tuple ys =>
      simp only [keyWF] at wa wb
      simp only [hashable, hashTree, Option.isSome_map] at ha hb
      simp only [hashTree]
      rw [C07_hashList xs ys wa wb he ha hb]
    case list ys => simp [hashable, hashTree] at hb
  | .list xs, b, _, _, _, ha, _ => by simp [hashable, hashTree] at ha
  | .call m n args, b, wa, wb, he, ha, hb => by
    cases b <;> simp only [goEqual, strKind?, numOf?] at he <;> try (simp at he; done)
    case call m' n' args' =>
      simp only [Bool.and_eq_true, beq_iff_eq] at he
      obtain ⟨⟨rfl, rfl⟩, hl⟩ := he
      simp only [keyWF] at wa wb
      simp only [hashable, hashTree, Option.isSome_map] at ha hb
      simp only [hashTree]
      rw [C07_hashList args args' wa wb hl ha hb]
  | .ref p, b, wa, wb, he, ha, hb => by
    cases b <;> simp only [goEqual, strKind?, numOf?] at he <;> try (simp at he; done)
    case ref q =>
      simp only [keyWF] at wa wb
      simp only [hashable, hashTree, Option.isSome_map] at ha hb
      simp only [hashTree]
      rw [C07_hash p q wa wb he ha hb]
  | .mark, b, _, _, he, _, _ => by cases b <;> simp [goEqual, strKind?, numOf?] at he <;> rfl
  | .none, b, _, _, he, _, _ => by cases b <;> simp [goEqual, strKind?, numOf?] at he <;> rfl
  | .nil, b, _, _, he, _, _ => by cases b <;> simp [goEqual, strKind?, numOf?] at he
  | .cycle, b, _, _, he, _, _ => by cases b <;> simp [goEqual, strKind?, numOf?] at he
  | .map _, b, _, _, _, ha, _ => by simp [hashable, hashTree] at ha
  | .dict _, b, _, _, _, ha, _ => by simp [hashable, hashTree] at ha
  | .href _, b, _, _, _, ha, _ => by simp [hashable, hashTree] at ha
  | .bytearray _, b, _, _, _, ha, _ => by simp [hashable, hashTree] at ha
  | .cls m n, b, _, _, he, _, _ => by
    cases b <;> simp [goEqual, strKind?, numOf?] at he
    obtain ⟨rfl, rfl⟩ := he; rfl
  | .user x, b, _, _, he, _, _ => by
    cases b <;> simp [goEqual, strKind?, numOf?] at he
    subst he; rfl
  | .str s, b, _, _, he, _, _ => by
    cases b <;> simp [goEqual, strKind?, numOf?, strEq] at he <;> simp [hashTree, he]
  | .bytestr s, b, _, _, he, _, _ => by
    cases b <;> simp [goEqual, strKind?, numOf?, strEq] at he <;> simp [hashTree, he]
  | .bytes s, b, _, _, he, _, _ => by
    cases b <;> simp [goEqual, strKind?, numOf?, strEq] at he <;> simp [hashTree, he]
  | .bool x, b, wa, wb, he, _, _ => num_case (.bool x) b rfl wa wb he
  | .int x, b, wa, wb, he, _, _ => num_case (.int x) b rfl wa wb he
  | .uint x, b, wa, wb, he, _, _ => num_case (.uint x) b rfl wa wb he
  | .big i x, b, wa, wb, he, _, _ => num_case (.big i x) b rfl wa wb he
  | .float x, b, wa, wb, he, _, _ => num_case (.float x) b rfl wa wb he
  | .complex x y, b, wa, wb, he, _, _ => num_case (.complex x y) b rfl wa wb he
theorem C07_hashList : ∀ xs ys : List GoVal, keyWFList xs = true → keyWFList ys = true → goEqualList xs ys = true →
    (hashTreeList xs).isSome = true → (hashTreeList ys).isSome = true → hashTreeList xs = hashTreeList ys
  | [], [], _, _, _, _, _ => rfl
  | [], _ :: _, _, _, he, _, _ => by simp [goEqualList] at he
  | _ :: _, [], _, _, he, _, _ => by simp [goEqualList] at he
  | x :: xs, y :: ys, wa, wb, he, ha, hb => by
    simp only [keyWFList, Bool.and_eq_true] at wa wb
    simp only [goEqualList, Bool.and_eq_true] at he
    simp only [hashTreeList] at ha hb ⊢
    cases hx : hashTree x with
    | none => simp [hx] at ha
    | some tx =>
      cases hy : hashTree y with
      | none => simp [hy] at hb
      | some ty =>
        cases hxs : hashTreeList xs with
        | none => simp [hx, hxs] at ha
        | some txs =>
          cases hys : hashTreeList ys with
          | none => simp [hy, hys] at hb
          | some tys =>
            have h1 := C07_hash x y wa.1 wb.1 he.1 (by simp [hashable, hx]) (by simp [hashable, hy])
            have h2 := C07_hashList xs ys wa.2 wb.2 he.2 (by simp [hxs]) (by simp [hys])
            rw [hx, hy] at h1
            rw [hxs, hys] at h2
            simp at h1 h2
            simp [h1, h2]
end


/-- The hash for a concrete hash function `H` (maphash with some seed); `none` = panic. -/
def hashM (H : Bytes → UInt64) (v : GoVal) : Option UInt64 := (hashTree v).map (HTree.eval H)

/-- **C07 (hash, every seed).** -/
theorem C07_hash_any_seed (H : Bytes → UInt64) (a b : GoVal) (wa : keyWF a = true) (wb : keyWF b = true)
    (he : goEqual a b = true) (ha : hashable a = true) (hb : hashable b = true) : hashM H a = hashM H b := by
  unfold hashM; rw [C07_hash a b wa wb he ha hb]

/-- **C07 (strings).** str and bytes differ even with the same content; a Python-2 byte string
    equals both the str and the bytes of the same content; none of them equals a number. -/
theorem C07_strings (x y : Bytes) :
    goEqual (.str x) (.bytes y) = false ∧ goEqual (.bytes x) (.str y) = false ∧
    goEqual (.bytestr x) (.str y) = (x == y) ∧ goEqual (.bytestr x) (.bytes y) = (x == y) ∧
    goEqual (.str x) (.bytestr y) = (x == y) ∧ goEqual (.bytes x) (.bytestr y) = (x == y) ∧
    goEqual (.str x) (.str y) = (x == y) ∧ goEqual (.bytes x) (.bytes y) = (x == y) ∧
    (∀ i, goEqual (.str x) (.int i) = false) := by
  simp [goEqual, strKind?, numOf?, strEq]

/-- **C07 (lookup).** A Dict holding exactly `a` finds it under `b` iff `equal b a` — for every
    choice the table may make among equal entries; no seed appears in the answer. -/
theorem C07_lookup (pick : Entries → Nat) (a v b : GoVal) :
    tableGet pick [(a, v)] b = if goEqual b a then some v else none := by
  unfold tableGet matching
  by_cases h : goEqual b a = true
  · simp [h, List.filter, Nat.mod_one]
  · have h' : goEqual b a = false := by simpa using h
    simp [h', List.filter]

/-- Tuples compare element-wise. -/
theorem C07_tuple (xs ys : List GoVal) : goEqual (.tuple xs) (.tuple ys) = goEqualList xs ys := by
  simp [goEqual]

end Ogorek
