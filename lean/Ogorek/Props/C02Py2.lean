import Ogorek.Props.C19U
import Ogorek.Props.C02Pk
import Ogorek.Props.C06Dec
import Ogorek.Lemmas.Py2RueInv

/-!
  C02 — what Python 2's picklers write for a `str` (byte string) object, at the three protocols Python 2 has: the STRING line with
  `repr` at protocol 0, SHORT_BINSTRING / BINSTRING at protocols 1 and 2, followed by the memo PUT that `pickle.py` (index 0) and
  `cPickle` (index 1, or none for an object nothing else refers to) write.  Decode returns the byte string — a `ByteString`
  with StrictUnicode, a Go string without — for EVERY content, from any decoder state.
-/
namespace Ogorek

/-- The pickle of a Python-2 str: `put` is the memo index the pickler writes, if it writes one. -/
def py2StrBody (p : Nat) (s : Bytes) : Bytes :=
  if p = 0 then 83 :: (py2repr s ++ [10])
  else if s.length < 256 then 85 :: UInt8.ofNat s.length :: s
  else 84 :: (natLE 4 s.length ++ s)

def py2StrPickle (p : Nat) (put : Option Nat) (s : Bytes) : Bytes :=
  (if p ≥ 2 then [0x80, UInt8.ofNat p] else []) ++
    (py2StrBody p s ++ (match put with | some n => cpPut p n | none => [])) ++ [46]

theorem parses_py2StrBody (p : Nat) (s : Bytes) (hlen : s.length < 2 ^ 32) : Parses (py2StrBody p s) [.pushByteString s] := by
  apply Parses.single rfl
  intro t
  unfold py2StrBody
  by_cases h0 : p = 0
  · simp only [h0, if_true]
    have e : (83 :: (py2repr s ++ [10])) ++ t = 83 :: (py2repr s ++ 10 :: t) := by simp
    rw [e]
    exact C19_STRING_py2repr s t
  · simp only [h0, if_false]
    by_cases hs : s.length < 256
    · simp only [hs, if_true]
      have := (C19_counted s t).2.1 hs
      simpa using this
    · simp only [hs, if_false]
      have := (C19_counted s t).1 hlen
      simpa using this

/-- **C02 (Python 2's str).** -/
theorem C02_py2_str (cfg : Cfg) (hook : Hook) (p : Nat) (hp : p ≤ 2) (put : Option Nat) (s : Bytes) (hlen : s.length < 2 ^ 32)
    (st0 : DState) :
    ∃ st', decode (goCfg cfg) hook st0 (py2StrPickle p put s) =
      (.ok (if cfg.su then .bytestr s else .str s), st', []) := by
  obtain ⟨his, hph, hrh⟩ := header_runs (goCfg cfg) hook p (by omega) [] (Or.inl rfl)
  let sta : DState := { st0 with stack := [], proto := 0 }
  let st1 : DState := { sta with proto := if p ≥ 2 then p else sta.proto }
  have hpo : ProtoOK (ecfg p) st1 := by
    simp only [ProtoOK, pybuiltinModule, pybuiltinModuleE, ecfg, st1, sta]
    by_cases h2 : p ≥ 2
    · have : ((p : Int) ≤ 2) ↔ (p ≤ 2) := by omega
      simp [h2, this]
    · have h1 : (p : Int) ≤ 2 := by omega
      simp [h2, h1]
  -- the string, then the PUT (if any)
  have hstr : RunsP (goCfg cfg) hook (ecfg p) (py2StrBody p s) (fun _ => True)
      (fun st st' => st' = push st (if cfg.su then .bytestr s else .str s)) :=
    RunsP.one (parses_py2StrBody p s hlen) fun pos st _ _ =>
      ⟨push st (if cfg.su then .bytestr s else .str s), by simp only [exec, goCfg] <;> rfl, rfl, rfl⟩
  have hput : RunsP (goCfg cfg) hook (ecfg p) (match put with | some n => cpPut p n | none => []) TopUser
      (fun st st' => st'.stack = st.stack ∧ st'.heap = st.heap) := by
    cases put with
    | none => exact RunsP.weaken RunsP.nil (fun _ h => h) (fun st st' _ _ e => by subst e; exact ⟨rfl, rfl⟩)
    | some n => exact runs_put p n
  have hboth := RunsP.seq hstr hput (fun st st1 _ _ e => by
    subst e
    refine ⟨_, st.stack, rfl, ?_⟩
    split <;> rfl)
  obtain ⟨is, hpar, hrun⟩ := hboth
  obtain ⟨st2, e2, _, stm, _, hq1, hq2, _⟩ := hrun (0 + his.length) st1 hpo trivial
  have hall : runFrom (goCfg cfg) hook 0 (his ++ is) sta = .ok st2 := by
    rw [runFrom_append (goCfg cfg) hook his is 0 sta st1 (hrh 0 sta)]
    exact e2
  have hs2 : st2.stack = (if cfg.su then .bytestr s else .str s) :: st1.stack := by
    rw [hq2, hq1]; rfl
  have hnm : isMark (if cfg.su then GoVal.bytestr s else GoVal.str s) = false := by split <;> rfl
  have hdec := decode_of_run (goCfg cfg) hook st0 st2 _ (his ++ is) _ st1.stack (Parses.append hph hpar) hall hs2 hnm
  refine ⟨{ st2 with stack := st1.stack }, ?_⟩
  unfold py2StrPickle
  simpa using hdec

/-- What `pickle.dumps('a\'b\xff', 0)` of Python 2.7 writes, byte for byte, is an instance (and evaluates to the value). -/
example : py2StrPickle 0 (some 0) [97, 39, 98, 0xff] = sb "S\"a'b\\xff\"\np0\n." := by decide +kernel

end Ogorek

namespace Ogorek

/-! ### a bytearray as Python 2 (and Python 3 before 3.8) writes it: `bytearray(<text>, 'latin-1')`, binary protocols 1 and 2 -/

/-- Replace the `k` topmost stack entries by `v`. -/
def dropPush (k : Nat) (v : GoVal) (s : List GoVal) : List GoVal := v :: s.drop k

section steps
variable {mc : MCfg} {hook : Hook} {c : ECfg}

/-- Sequencing of runs whose effect is a function of the stack alone (and which leave the heap alone). -/
theorem RunsP.seqStack {b1 b2 : Bytes} {P1 P2 : DState → Prop} {f g : List GoVal → List GoVal}
    (h1 : RunsP mc hook c b1 P1 (fun st st' => st'.stack = f st.stack))
    (h2 : RunsP mc hook c b2 P2 (fun st st' => st'.stack = g st.stack))
    (hmid : ∀ st st1, P1 st → st1.stack = f st.stack → P2 st1) :
    RunsP mc hook c (b1 ++ b2) P1 (fun st st' => st'.stack = g (f st.stack)) := by
  refine RunsP.weaken (RunsP.seq h1 h2 (fun st st1 hp _ q => hmid st st1 hp q)) (fun _ h => h) ?_
  intro st st2 _ _ ⟨st1, _, q1, q2⟩
  rw [q2, q1]

theorem runsPush (bs : Bytes) (i : Insn) (v : GoVal) (hp : Parses bs [i])
    (he : ∀ pos st, exec mc hook i pos st = .ok (push st v)) :
    RunsP mc hook c bs (fun _ => True) (fun st st' => st'.stack = dropPush 0 v st.stack) :=
  RunsP.one hp fun pos st _ _ => ⟨push st v, he pos st, rfl, rfl⟩

theorem runsPutStack (p n : Nat) :
    RunsP mc hook (ecfg p) (cpPut p n) TopUser (fun st st' => st'.stack = id st.stack) :=
  RunsP.weaken (runs_put p n) (fun _ h => h) (fun _ _ _ _ q => q.1)

theorem runsTuple2 (a b : GoVal) (ha : isMark a = false) (hb : isMark b = false) :
    RunsP mc hook c [0x86] (fun st => ∃ rest, st.stack = b :: a :: rest)
      (fun st st' => st'.stack = dropPush 2 (GoVal.tuple [a, b]) st.stack) := by
  refine RunsP.one (parses_op 0x86 (.tupleN 2) rfl parseArg_134) ?_
  intro pos st _ ⟨rest, hs⟩
  refine ⟨{ st with stack := .tuple [a, b] :: rest }, ?_, rfl, by simp [hs, dropPush]⟩
  have hl : ¬ (rest.length + 1 + 1 < 2) := by omega
  simp [exec, hs, userOKAll, userOK_nm ha, userOK_nm hb, hl, bind, Except.bind, pure, Except.pure]

theorem runsTupleMark2 (a b : GoVal) (ha : isMark a = false) (hb : isMark b = false) :
    RunsP mc hook c [116] (fun st => ∃ rest, st.stack = b :: a :: GoVal.mark :: rest)
      (fun st st' => st'.stack = dropPush 3 (GoVal.tuple [a, b]) st.stack) := by
  refine RunsP.one (parses_op 116 .tuple rfl parseArg_116) ?_
  intro pos st _ ⟨rest, hs⟩
  refine ⟨{ st with stack := .tuple [a, b] :: rest }, ?_, rfl, by simp [hs, dropPush]⟩
  have h3 : splitAtMark (b :: a :: GoVal.mark :: rest) = some ([b, a], rest) := by
    rw [splitAtMark]; simp only [hb]; rw [splitAtMark]; simp only [ha]; rw [splitAtMark]; simp [isMark]
  simp [exec, hs, h3]

end steps

/-- The memo PUTs of the five objects the pickler saves (the global, the text, `'latin-1'`, the argument tuple, the result): `pickle.py`
    writes all five (indices 0-4), `cPickle` the first and the last (indices 1, 2) — any choice is covered. -/
structure Py2Puts where
  g : Option Nat
  t : Option Nat
  l : Option Nat
  a : Option Nat
  r : Option Nat

def optPut (p : Nat) : Option Nat → Bytes
  | some n => cpPut p n
  | none => []

/-- The pickle of `bytearray(d)` without PROTO and STOP; `tb` is the UNICODE / BINUNICODE instruction carrying the content as text. -/
def py2BytearrayBodyG (p : Nat) (pu : Py2Puts) (tb : Bytes) : Bytes :=
  ((99 :: sb "__builtin__" ++ [10] ++ sb "bytearray" ++ [10]) ++ optPut p pu.g) ++
  ((if p ≥ 2 then [] else [40]) ++
   (tb ++ optPut p pu.t) ++
   (py2StrBody p (sb "latin-1") ++ optPut p pu.l) ++
   ([if p ≥ 2 then 0x86 else 116] ++ optPut p pu.a)) ++
  ([82] ++ optPut p pu.r)

def py2BytearrayPickleG (p : Nat) (pu : Py2Puts) (tb : Bytes) : Bytes :=
  (if p ≥ 2 then [0x80, UInt8.ofNat p] else []) ++ py2BytearrayBodyG p pu tb ++ [46]

/-- Protocols 1 and 2: the text travels as BINUNICODE. -/
def py2BytearrayPickle (p : Nat) (pu : Py2Puts) (d : Bytes) : Bytes :=
  py2BytearrayPickleG p pu (88 :: (natLE 4 (latin1ToUtf8 d).length ++ latin1ToUtf8 d))

/-- Protocol 0: the text travels as a UNICODE line in Python 2's raw-unicode-escape (`none`: never, for Latin-1 text - evaluated). -/
def py2BytearrayPickle0 (pu : Py2Puts) (d : Bytes) : Option Bytes :=
  (py2Rue (latin1ToUtf8 d)).map fun u => py2BytearrayPickleG 0 pu (86 :: (u ++ [10]))

section
variable {mc : MCfg} {hook : Hook}

theorem runsOptPut (p : Nat) (o : Option Nat) :
    RunsP mc hook (ecfg p) (optPut p o) TopUser (fun st st' => st'.stack = id st.stack) := by
  cases o with
  | none => exact RunsP.weaken RunsP.nil (fun _ h => h) (fun st st' _ _ e => by subst e; rfl)
  | some n => exact runsPutStack p n

end

/-- The core: whatever instruction `tb` pushes the content as text. -/
theorem py2_bytearray_core (cfg : Cfg) (hook : Hook) (p : Nat) (hp2 : p ≤ 2) (pu : Py2Puts) (d tb : Bytes)
    (htext : RunsP (goCfg cfg) hook (ecfg p) tb (fun _ => True)
      (fun st st' => st'.stack = dropPush 0 (GoVal.str (latin1ToUtf8 d)) st.stack)) (st0 : DState) :
    ∃ st', decode (goCfg cfg) hook st0 (py2BytearrayPickleG p pu tb) = (.ok (.bytearray d), st', []) := by
  obtain ⟨his, hph, hrh⟩ := header_runs (goCfg cfg) hook p (by omega) [] (Or.inl rfl)
  let sta : DState := { st0 with stack := [], proto := 0 }
  let st1 : DState := { sta with proto := if p ≥ 2 then p else sta.proto }
  have hpo : ProtoOK (ecfg p) st1 := by
    simp only [ProtoOK, pybuiltinModule, pybuiltinModuleE, ecfg, st1, sta]
    by_cases h2 : p ≥ 2
    · have : ((p : Int) ≤ 2) ↔ (p ≤ 2) := by omega
      simp [h2, this]
    · have h1 : (p : Int) ≤ 2 := by omega
      simp [h2, h1]
  let L : GoVal := if cfg.su then .bytestr (sb "latin-1") else .str (sb "latin-1")
  have hLm : isMark L = false := by simp only [L]; split <;> rfl
  let T : GoVal := .str (latin1ToUtf8 d)
  let G : GoVal := .cls (sb "__builtin__") (sb "bytearray")
  -- the pieces
  have hglobal : RunsP (goCfg cfg) hook (ecfg p) (99 :: sb "__builtin__" ++ [10] ++ sb "bytearray" ++ [10]) (fun _ => True)
      (fun st st' => st'.stack = dropPush 0 G st.stack) :=
    runsPush _ _ G (parses_global _ _ (by decide) (by decide)) (fun _ _ => rfl)
  have hlat : RunsP (goCfg cfg) hook (ecfg p) (py2StrBody p (sb "latin-1")) (fun _ => True)
      (fun st st' => st'.stack = dropPush 0 L st.stack) :=
    runsPush _ _ L (parses_py2StrBody p _ (by decide)) (fun _ _ => by simp only [exec, goCfg, L] <;> rfl)
  -- global (+ put)
  have s1 := RunsP.seqStack hglobal (runsOptPut (mc := goCfg cfg) (hook := hook) p pu.g) (fun st st1 _ e => ⟨G, st.stack, by simpa [dropPush] using e, rfl⟩)
  -- the argument tuple (+ puts), on a stack whose top is G
  have hargs : RunsP (goCfg cfg) hook (ecfg p)
      ((if p ≥ 2 then [] else [40]) ++
        (tb ++ optPut p pu.t) ++
        (py2StrBody p (sb "latin-1") ++ optPut p pu.l) ++
        ([if p ≥ 2 then 0x86 else 116] ++ optPut p pu.a)) (fun _ => True)
      (fun st st' => st'.stack = .tuple [T, L] :: st.stack) := by
    have ht := RunsP.seqStack htext (runsOptPut (mc := goCfg cfg) (hook := hook) p pu.t) (fun st st1 _ e => ⟨T, st.stack, by simpa [dropPush] using e, rfl⟩)
    have hl := RunsP.seqStack hlat (runsOptPut (mc := goCfg cfg) (hook := hook) p pu.l) (fun st st1 _ e => ⟨L, st.stack, by simpa [dropPush] using e, hLm⟩)
    have htl := RunsP.seqStack ht hl (fun _ _ _ _ => trivial)
    by_cases h2 : p ≥ 2
    · simp only [h2, if_true, List.nil_append]
      have htup := runsTuple2 (mc := goCfg cfg) (hook := hook) (c := ecfg p) T L rfl hLm
      have htp := RunsP.seqStack htup (runsOptPut (mc := goCfg cfg) (hook := hook) p pu.a)
        (fun st st1 h e => by
          obtain ⟨rest, hs⟩ := h
          exact ⟨.tuple [T, L], rest, by simp [e, hs, dropPush], rfl⟩)
      have hall := RunsP.seqStack (f := fun s => dropPush 0 L (dropPush 0 T s)) htl htp (fun st st1 _ e => ⟨st.stack, by simpa [dropPush] using e⟩)
      refine RunsP.weaken hall (fun _ h => h) ?_
      intro st st' _ _ q
      simpa [List.append_assoc, dropPush] using q
    · simp only [h2, if_false]
      have hmark : RunsP (goCfg cfg) hook (ecfg p) [40] (fun _ => True) (fun st st' => st'.stack = dropPush 0 GoVal.mark st.stack) :=
        runsPush _ _ .mark (parses_op 40 .mark rfl parseArg_40) (fun _ _ => rfl)
      have htup := runsTupleMark2 (mc := goCfg cfg) (hook := hook) (c := ecfg p) T L rfl hLm
      have htp := RunsP.seqStack htup (runsOptPut (mc := goCfg cfg) (hook := hook) p pu.a)
        (fun st st1 h e => by
          obtain ⟨rest, hs⟩ := h
          exact ⟨.tuple [T, L], rest, by simp [e, hs, dropPush], rfl⟩)
      have hm := RunsP.seqStack (g := fun s => dropPush 0 L (dropPush 0 T s)) hmark htl (fun _ _ _ _ => trivial)
      have hall := RunsP.seqStack (f := fun s => dropPush 0 L (dropPush 0 T (dropPush 0 GoVal.mark s))) hm htp (fun st st1 _ e => ⟨st.stack, by simpa [dropPush] using e⟩)
      refine RunsP.weaken hall (fun _ h => h) ?_
      intro st st' _ _ q
      simpa [List.append_assoc, dropPush] using q
  -- REDUCE (+ put)
  have hred : RunsP (goCfg cfg) hook (ecfg p) [82] (fun st => ∃ rest, st.stack = .tuple [T, L] :: G :: rest)
      (fun st st' => st'.stack = dropPush 2 (.bytearray d) st.stack) := by
    refine RunsP.one (parses_op 82 .reduce rfl parseArg_82) ?_
    intro pos st hpo' ⟨rest, hs⟩
    refine ⟨{ st with stack := .bytearray d :: rest }, ?_, rfl, by simp [hs, dropPush]⟩
    have hmod : pybuiltinModule st.proto = sb "__builtin__" := by
      rw [protoOK_mod hpo']; unfold pybuiltinModuleE
      have : ((p : Int) ≤ 2) := by omega
      simp [this]
    have hLeq : stringEQ L "latin-1" = true := by simp only [L]; split <;> decide
    have hne : ¬ (sb "__builtin__" == sb "_codecs") = true := by decide
    have hne2 : ¬ (sb "bytearray" == sb "bytes") = true := by decide
    have hcall : handleCall st.proto (sb "__builtin__") (sb "bytearray") [T, L] = some (.ok (.bytearray d)) := by
      simp [handleCall, hmod, hne, hne2, hLeq, T, decodeLatin1Bytes_latin1]
    simp [exec, hs, xpop, G, hcall, bind, Except.bind, pure, Except.pure, push]
  have hrp := RunsP.seqStack hred (runsOptPut (mc := goCfg cfg) (hook := hook) p pu.r)
    (fun st st1 h e => by
      obtain ⟨rest, hs⟩ := h
      exact ⟨.bytearray d, rest, by simp [e, hs, dropPush], rfl⟩)
  have h12 := RunsP.seqStack (f := fun s => dropPush 0 G s) (g := fun s => GoVal.tuple [T, L] :: s) s1 hargs (fun _ _ _ _ => trivial)
  have hall := RunsP.seqStack (f := fun s => GoVal.tuple [T, L] :: dropPush 0 G s) h12 hrp (fun st st1 _ e => ⟨st.stack, by simpa [dropPush] using e⟩)
  obtain ⟨is, hpar, hrun⟩ := hall
  obtain ⟨st2, e2, _, hq⟩ := hrun (0 + his.length) st1 hpo trivial
  have hrunall : runFrom (goCfg cfg) hook 0 (his ++ is) sta = .ok st2 := by
    rw [runFrom_append (goCfg cfg) hook his is 0 sta st1 (hrh 0 sta)]
    exact e2
  have hs2 : st2.stack = .bytearray d :: st1.stack := by simpa [dropPush] using hq
  have hdec := decode_of_run (goCfg cfg) hook st0 st2 _ (his ++ is) _ st1.stack (Parses.append hph hpar) hrunall hs2 rfl
  refine ⟨{ st2 with stack := st1.stack }, ?_⟩
  unfold py2BytearrayPickleG py2BytearrayBodyG
  simpa [List.append_assoc] using hdec

/-- **C02 (Python 2's bytearray, protocols 1 and 2).**  For EVERY content `d` (its text below 4 GiB), whichever of the five memo PUTs
    are written and with whatever indices, and both StrictUnicode settings (the encoding name `'latin-1'` is a Python-2 str: a
    `ByteString` or a Go string), from any decoder state: Decode returns the `[]byte` with that content. -/
theorem C02_py2_bytearray (cfg : Cfg) (hook : Hook) (p : Nat) (_hp1 : 1 ≤ p) (hp2 : p ≤ 2) (pu : Py2Puts) (d : Bytes)
    (hlen : (latin1ToUtf8 d).length < 2 ^ 32) (st0 : DState) :
    ∃ st', decode (goCfg cfg) hook st0 (py2BytearrayPickle p pu d) = (.ok (.bytearray d), st', []) := by
  refine py2_bytearray_core cfg hook p hp2 pu d _ ?_ st0
  refine runsPush _ (.pushStr (latin1ToUtf8 d)) _ (Parses.single rfl fun t => ?_) (fun _ _ => rfl)
  have := (C19_counted (latin1ToUtf8 d) t).2.2.1 hlen
  simpa using this

/-- **C19 (UNICODE as Python 2's picklers write it).** -/
theorem C19_UNICODE_py2 (s u t : Bytes) (h : py2Rue s = some u) :
    parseInsn (86 :: (u ++ 10 :: t)) = .ok (.pushStr s, t) := by
  have hinv := py2Rue_inv s u h
  have hlf := py2Rue_no_lf s u h
  simp only [parseInsn, Rd.bind, readByte, parseArg_86, Rd.mapE, readLine_line _ _ hlf, parseUnicodeArg, hinv, Rd.pure]

/-- **C02 (Python 2's bytearray, protocol 0).**  The content travels as a UNICODE line in Python 2's own raw-unicode-escape. -/
theorem C02_py2_bytearray_p0 (cfg : Cfg) (hook : Hook) (pu : Py2Puts) (d bs : Bytes)
    (h : py2BytearrayPickle0 pu d = some bs) (st0 : DState) :
    ∃ st', decode (goCfg cfg) hook st0 bs = (.ok (.bytearray d), st', []) := by
  unfold py2BytearrayPickle0 at h
  cases hu : py2Rue (latin1ToUtf8 d) with
  | none => simp [hu] at h
  | some u =>
    simp only [hu, Option.map_some, Option.some.injEq] at h
    subst h
    refine py2_bytearray_core cfg hook 0 (by omega) pu d _ ?_ st0
    refine runsPush _ (.pushStr (latin1ToUtf8 d)) _ (Parses.single rfl fun t => ?_) (fun _ _ => rfl)
    have := C19_UNICODE_py2 (latin1ToUtf8 d) u t hu
    simpa using this

/-- **C02 (Python 2's unicode).**  A unicode object: UNICODE line (protocol 0) or BINUNICODE, the memo PUT, STOP. -/
def py2UnicodePickle (p : Nat) (put : Option Nat) (s : Bytes) : Option Bytes :=
  (if p = 0 then (py2Rue s).map fun u => 86 :: (u ++ [10]) else some (88 :: (natLE 4 s.length ++ s))).map fun tb =>
    (if p ≥ 2 then [0x80, UInt8.ofNat p] else []) ++ (tb ++ optPut p put) ++ [46]

theorem C02_py2_unicode (cfg : Cfg) (hook : Hook) (p : Nat) (hp : p ≤ 2) (put : Option Nat) (s bs : Bytes) (hlen : s.length < 2 ^ 32)
    (h : py2UnicodePickle p put s = some bs) (st0 : DState) :
    ∃ st', decode (goCfg cfg) hook st0 bs = (.ok (.str s), st', []) := by
  obtain ⟨his, hph, hrh⟩ := header_runs (goCfg cfg) hook p (by omega) [] (Or.inl rfl)
  let sta : DState := { st0 with stack := [], proto := 0 }
  let st1 : DState := { sta with proto := if p ≥ 2 then p else sta.proto }
  have hpo : ProtoOK (ecfg p) st1 := by
    simp only [ProtoOK, pybuiltinModule, pybuiltinModuleE, ecfg, st1, sta]
    by_cases h2 : p ≥ 2
    · have : ((p : Int) ≤ 2) ↔ (p ≤ 2) := by omega
      simp [h2, this]
    · have h1 : (p : Int) ≤ 2 := by omega
      simp [h2, h1]
  -- the text instruction, whichever form
  obtain ⟨tb, htb, hbs⟩ : ∃ tb, (if p = 0 then (py2Rue s).map fun u => 86 :: (u ++ [10]) else some (88 :: (natLE 4 s.length ++ s))) = some tb ∧
      bs = (if p ≥ 2 then [0x80, UInt8.ofNat p] else []) ++ (tb ++ optPut p put) ++ [46] := by
    unfold py2UnicodePickle at h
    cases hx : (if p = 0 then (py2Rue s).map fun u => 86 :: (u ++ [10]) else some (88 :: (natLE 4 s.length ++ s))) with
    | none => simp [hx] at h
    | some tb => simp only [hx, Option.map_some, Option.some.injEq] at h; exact ⟨tb, rfl, h.symm⟩
  have htext : RunsP (goCfg cfg) hook (ecfg p) tb (fun _ => True) (fun st st' => st'.stack = dropPush 0 (GoVal.str s) st.stack) := by
    refine runsPush _ (.pushStr s) _ (Parses.single rfl fun t => ?_) (fun _ _ => rfl)
    by_cases h0 : p = 0
    · simp only [h0, if_true] at htb
      cases hu : py2Rue s with
      | none => simp [hu] at htb
      | some u =>
        simp only [hu, Option.map_some, Option.some.injEq] at htb
        subst htb
        have := C19_UNICODE_py2 s u t hu
        simpa using this
    · simp only [h0, if_false, Option.some.injEq] at htb
      subst htb
      have := (C19_counted s t).2.2.1 hlen
      simpa using this
  have hboth := RunsP.seqStack htext (runsOptPut (mc := goCfg cfg) (hook := hook) p put)
    (fun st st1 _ e => ⟨.str s, st.stack, by simpa [dropPush] using e, rfl⟩)
  obtain ⟨is, hpar, hrun⟩ := hboth
  obtain ⟨st2, e2, _, hq⟩ := hrun (0 + his.length) st1 hpo trivial
  have hrunall : runFrom (goCfg cfg) hook 0 (his ++ is) sta = .ok st2 := by
    rw [runFrom_append (goCfg cfg) hook his is 0 sta st1 (hrh 0 sta)]
    exact e2
  have hs2 : st2.stack = .str s :: st1.stack := by simpa [dropPush] using hq
  have hdec := decode_of_run (goCfg cfg) hook st0 st2 _ (his ++ is) _ st1.stack (Parses.append hph hpar) hrunall hs2 rfl
  refine ⟨{ st2 with stack := st1.stack }, ?_⟩
  rw [hbs]
  simpa [List.append_assoc] using hdec

/-- `pickle.dumps(bytearray(b'h\xe9llo'), 2)` of Python 2.7's pickle.py, byte for byte, is an instance. -/
example : py2BytearrayPickle 2 ⟨some 0, some 1, some 2, some 3, some 4⟩ [104, 0xe9, 108, 108, 111] =
    [0x80, 2] ++ sb "c__builtin__\nbytearray\nq" ++ [0] ++ [88, 6, 0, 0, 0, 104, 0xc3, 0xa9, 108, 108, 111, 113, 1, 85, 7] ++ sb "latin-1" ++
      [113, 2, 0x86, 113, 3, 82, 113, 4, 46] := by
  decide +kernel

end Ogorek
