import Ogorek.Lemmas.RoundTripN
import Ogorek.Props.C03

/-!
  C03, second half — a value that is not canonical comes back as its documented normal form.
-/
namespace Ogorek

/-- **C03 (normal form, protocols 0–5).** For every value `v` whose normal form `norm v` is canonical — so `v` may hold,
    at any depth and also as keys of maps and Dicts, unsigned integers (uint8…uint64) and pointers to application structs,
    which `Decode` never produces — every protocol 0..5, both StrictUnicode and both PyDict settings, from any decoder state:
    if `Encode` returns no error, `Decode` of exactly the bytes written succeeds, consumes all of them and returns a value
    that represents `norm v`: a uint64 comes back as the int64 of the same value, or as a `*big.Int` when it exceeds
    2^63-1; the struct comes back as the map / Dict of its fields; everything canonical comes back as itself
    (`norm` is the identity there — this theorem contains `C03_roundtrip`).  Hypotheses as in `C03_roundtrip`. -/
theorem C03_normal_form (ip : IsPrint) (hip : ip 10 = false) (c : ECfg) (cfg : Cfg) (v : GoVal)
    (hp0 : 0 ≤ c.proto) (hp5 : c.proto ≤ 5) (hsu : cfg.su = c.su)
    (hc : canon cfg true (norm v) = true) (hf : FloatsOK c (floatsOf v)) (he : (encodeTop ip c none v).err = none) (st0 : DState) :
    ∃ r st', decode (goCfg cfg) none st0 (flat (encodeTop ip c none v)) = (.ok r, st', []) ∧
      Rep (goCfg cfg) GoVal.ref st'.heap r (norm v) := by
  have hrange : (0 ≤ c.proto ∧ c.proto ≤ 5) := ⟨hp0, hp5⟩
  have hdr_err : (if c.proto ≥ 2 then emit [0x80, UInt8.ofNat c.proto.toNat] else Out.nil).err = none := by
    split <;> rfl
  have etop : encodeTop ip c none v =
      (if c.proto ≥ 2 then emit [0x80, UInt8.ofNat c.proto.toNat] else Out.nil) +> enc ip c v +> emit [46] := by
    simp [encodeTop, hrange]
  rw [etop] at he ⊢
  obtain ⟨h12, _⟩ := seq_err_none he
  obtain ⟨_, hev⟩ := seq_err_none h12
  obtain ⟨is, hpar, hrun⟩ := rtn_val (mc := goCfg cfg) (hook := none) (ρ := GoVal.ref) (rk := true) ip ⟨fun _ => rfl, fun _ => rfl⟩ (fun _ _ => rfl) hip hsu rfl v hc hf hev
  rw [flat_seq _ _ h12, flat_seq _ _ hdr_err, flat_emit]
  unfold decode
  by_cases h2 : c.proto ≥ 2
  · -- PROTO header first
    simp only [h2, if_true, flat_emit]
    have hpb : (UInt8.ofNat c.proto.toNat).toNat = c.proto.toNat := by simp [UInt8.toNat_ofNat']; omega
    let st1 : DState := { st0 with stack := [], proto := c.proto.toNat }
    have hpo : ProtoOK c st1 := by
      simp only [ProtoOK, pybuiltinModule, pybuiltinModuleE, st1]
      have : (c.proto.toNat ≤ 2) ↔ (c.proto ≤ 2) := by omega
      simp [this]
    obtain ⟨st2, e2, _, r, hs2, hrep⟩ := hrun 1 st1 hpo
    let F := ([0x80, UInt8.ofNat c.proto.toNat] ++ flat (enc ip c v) ++ [46]).length
    have hfuel := decodeLoop_fuel (goCfg cfg) none
      (([0x80, UInt8.ofNat c.proto.toNat] ++ flat (enc ip c v) ++ [46]).length + 1)
      ((F + 1 + is.length) + 1) 0 { st0 with stack := [], proto := 0 }
      ([0x80, UInt8.ofNat c.proto.toNat] ++ flat (enc ip c v) ++ [46]) (by omega)
      (by simp [F]; omega)
    rw [hfuel]
    have hstep := decodeLoop_step (goCfg cfg) none (F + 1 + is.length) 0 { st0 with stack := [], proto := 0 } st1 0x80
      (UInt8.ofNat c.proto.toNat :: (flat (enc ip c v) ++ [46])) (flat (enc ip c v) ++ [46]) (.proto c.proto.toNat)
      (by simp [parseArg_128, Rd.map, Rd.bind, readByte, Rd.pure, hpb]) rfl
      (by
        have : c.proto.toNat ≤ 5 := by omega
        simp [exec, this, st1])
    have e0 : ([0x80, UInt8.ofNat c.proto.toNat] ++ flat (enc ip c v) ++ [46]) =
        0x80 :: (UInt8.ofNat c.proto.toNat :: (flat (enc ip c v) ++ [46])) := by simp
    rw [e0, hstep, decodeLoop_run (goCfg cfg) none is (flat (enc ip c v)) (0 + 1) st1 st2 [46] (F + 1) hpar e2]
    rw [decodeLoop_stop (goCfg cfg) none F _ st2 r st1.stack [] hs2 hrep.not_mark]
    exact ⟨r, _, rfl, hrep⟩
  · -- protocols 0 and 1: no header
    simp only [h2, if_false, flat, Out.nil, List.flatten_nil, List.nil_append]
    have hpo : ProtoOK c { st0 with stack := [], proto := 0 } := by
      simp only [ProtoOK, pybuiltinModule, pybuiltinModuleE]
      have : c.proto ≤ 2 := by omega
      simp [this]
    obtain ⟨st2, e2, _, r, hs2, hrep⟩ := hrun 0 _ hpo
    let F := ((enc ip c v).chunks.flatten ++ [46]).length
    have hfuel := decodeLoop_fuel (goCfg cfg) none
      (((enc ip c v).chunks.flatten ++ [46]).length + 1) ((F + 1) + is.length) 0 { st0 with stack := [], proto := 0 }
      ((enc ip c v).chunks.flatten ++ [46]) (by omega)
      (by simp [F]; omega)
    rw [hfuel]
    have hrun' := decodeLoop_run (goCfg cfg) none is (flat (enc ip c v)) 0 _ st2 [46] (F + 1) hpar e2
    simp only [flat] at hrun'
    rw [hrun', decodeLoop_stop (goCfg cfg) none F _ st2 r [] [] hs2 hrep.not_mark]
    exact ⟨r, _, rfl, hrep⟩


/-- `norm` leaves the values `Decode` itself produces alone; e.g. a nested canonical value. -/
example : norm (.list [.dict [(.int 1, .str (sb "a"))], .tuple [.big 7 5, .none]]) = .list [.dict [(.int 1, .str (sb "a"))], .tuple [.big 7 5, .none]] := by
  simp [norm, normList, normPairs]

/-- Non-vacuity: a list holding uint64 values on both sides of 2^63, an application struct, and a Dict keyed by a uint meets the
    hypothesis (PyDict on), and its normal form is what the documentation says. -/
example : canon { pyDict := true, su := true } true
    (norm (.list [.uint 5, .uint (2 ^ 64 - 1), .user 7, .dict [(.uint 3, .str (sb "x"))]])) = true := by decide

example : norm (.list [.uint 5, .uint (2 ^ 64 - 1), .user 7]) =
    .list [.int 5, .big 0 (2 ^ 64 - 1), .map [(.str (sb "N"), .int 7)]] := by
  simp [norm, normList, maxInt64]

end Ogorek
