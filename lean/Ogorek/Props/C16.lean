import Ogorek.Lemmas.WFLemmas
import Ogorek.Lemmas.NoPanic

/-!
  C16 — Results contain only documented types, consistent with the decoder mode.

  `Inv` (Ogorek/WF.lean): every stack entry is the mark or a well-formed value, the memo, the
  heap containers and the arguments handed to `PersistentLoad` hold well-formed values only
  (no mark, no undocumented constructor, ByteString only with StrictUnicode, heap containers
  of the kind the PyDict setting asks for).
-/
namespace Ogorek

/-- The application's `PersistentLoad` returns application objects. -/
def HookOK (c : Cfg) (hook : Hook) : Prop :=
  ∀ load, hook = some load → ∀ i r v, load i r = .replace v → ∀ hl, wfVal c true hl v = true

/-- Integer instructions carry int64 values (a fact about the parse layer, `parseArg_insnOK`). -/
def InsnOK : Insn → Prop
  | .pushInt i => inInt64 i = true
  | _ => True

theorem leNat_lt : ∀ b : Bytes, leNat b < 256 ^ b.length
  | [] => by simp [leNat]
  | x :: xs => by
    have := leNat_lt xs
    have hx := x.toNat_lt
    simp only [leNat, List.length_cons, Nat.pow_succ]
    omega

theorem readFull_length {n : Nat} {inp b r : Bytes} (h : readFull n inp = .ok (b, r)) : b.length = n := by
  unfold readFull at h
  split at h
  · simp at h; obtain ⟨rfl, _⟩ := h; simp [List.length_take]; omega
  · split at h <;> simp at h

theorem parseIntArg_ok {l : Bytes} {i : Insn} (h : parseIntArg l = .ok i) : InsnOK i := by
  unfold parseIntArg at h
  repeat' split at h
  all_goals simp at h
  all_goals subst h
  all_goals simp [InsnOK]
  all_goals assumption

/-- Everything reader `r` returns satisfies `P`. -/
def RdP (P : α → Prop) (r : Rd α) : Prop := ∀ inp a rest, r inp = .ok (a, rest) → P a

theorem RdP.pure {P : α → Prop} {a : α} (h : P a) : RdP P (Rd.pure a) := by
  intro inp a' rest h'; simp [Rd.pure] at h'; rw [← h'.1]; exact h
theorem RdP.ite {P : α → Prop} {c : Prop} [Decidable c] {a b : Rd α} (ha : RdP P a) (hb : RdP P b) :
    RdP P (if c then a else b) := by split <;> assumption
theorem RdP.bind {P : β → Prop} {r : Rd α} {s : α → Rd β} (hs : ∀ a, RdP P (s a)) : RdP P (r.bind s) := by
  intro inp b rest h
  unfold Rd.bind at h
  split at h
  · exact hs _ _ _ _ h
  · simp at h
theorem RdP.bindQ {P : β → Prop} {Q : α → Prop} {r : Rd α} {s : α → Rd β} (hr : RdP Q r)
    (hs : ∀ a, Q a → RdP P (s a)) : RdP P (r.bind s) := by
  intro inp b rest h
  unfold Rd.bind at h
  split at h
  · rename_i a r1 h1
    exact hs a (hr _ _ _ h1) _ _ _ h
  · simp at h
theorem RdP.map {P : β → Prop} {r : Rd α} {f : α → β} (hf : ∀ a, P (f a)) : RdP P (r.map f) :=
  RdP.bind fun a => RdP.pure (hf a)
theorem RdP.mapQ {P : β → Prop} {Q : α → Prop} {r : Rd α} {f : α → β} (hr : RdP Q r)
    (hf : ∀ a, Q a → P (f a)) : RdP P (r.map f) :=
  RdP.bindQ hr fun a ha => RdP.pure (hf a ha)
theorem RdP.mapE {P : β → Prop} {r : Rd α} {f : α → Except DErr β} (hf : ∀ a b, f a = .ok b → P b) :
    RdP P (r.mapE f) := by
  apply RdP.bind
  intro a
  cases hfa : f a with
  | ok b => exact RdP.pure (hf a b hfa)
  | error e => intro inp b rest h; simp [Rd.fail] at h

theorem rdp_readFull (n : Nat) : RdP (fun b => b.length = n) (readFull n) :=
  fun _ _ _ h => readFull_length h

theorem parseFloatArg_ok {l : Bytes} {i : Insn} (h : parseFloatArg l = .ok i) : InsnOK i := by
  unfold parseFloatArg at h; split at h <;> simp at h; subst h; trivial
theorem parseLongArg_ok {l : Bytes} {i : Insn} (h : parseLongArg l = .ok i) : InsnOK i := by
  unfold parseLongArg at h
  repeat' split at h
  all_goals simp at h
  subst h; trivial
theorem parseUnicodeArg_ok {l : Bytes} {i : Insn} (h : parseUnicodeArg l = .ok i) : InsnOK i := by
  unfold parseUnicodeArg at h; split at h <;> simp at h; subst h; trivial
theorem parseStringInsn_ok {l : Bytes} {i : Insn} (h : Insn.pushByteString <$> parseStringArg l = .ok i) :
    InsnOK i := by
  cases hs : parseStringArg l with
  | error e => rw [hs] at h; simp [Functor.map, Except.map] at h
  | ok s => rw [hs] at h; simp [Functor.map, Except.map] at h; subst h; trivial

theorem binint_ok (a : Bytes) (hl : a.length = 4) : InsnOK (.pushInt (toSigned 32 (leNat a))) := by
  have := leNat_lt a
  rw [hl] at this
  simp only [InsnOK, inInt64_iff, toSigned]
  split <;> omega

theorem binint2_ok (a : Bytes) (hl : a.length = 2) : InsnOK (.pushInt (leNat a)) := by
  have := leNat_lt a
  rw [hl] at this
  simp only [InsnOK, inInt64_iff]
  omega

theorem binint1_ok (a : UInt8) : InsnOK (.pushInt a.toNat) := by
  have := a.toNat_lt
  simp only [InsnOK, inInt64_iff]
  omega

/-- Everything the parse layer produces for the integer opcodes fits int64. -/
theorem parseArg_insnOK (key : UInt8) : RdP InsnOK (parseArg key) := by
  unfold parseArg
  repeat' first
    | apply RdP.ite
    | exact RdP.pure trivial
    | exact RdP.mapE fun _ _ => parseFloatArg_ok
    | exact RdP.mapE fun _ _ => parseIntArg_ok
    | exact RdP.mapE fun _ _ => parseLongArg_ok
    | exact RdP.mapE fun _ _ => parseUnicodeArg_ok
    | exact RdP.mapE fun _ _ => parseStringInsn_ok
    | exact RdP.mapQ (rdp_readFull 4) binint_ok
    | exact RdP.mapQ (rdp_readFull 2) binint2_ok
    | exact RdP.map binint1_ok
    | exact RdP.map fun _ => trivial
    | exact RdP.bind fun _ => RdP.map fun _ => trivial


/-! ### the step preserves the invariant -/

theorem handleCall_wf {c : Cfg} {u : Bool} {hl proto : Nat} {m n : Bytes} {args : List GoVal} {v : GoVal}
    (h : handleCall proto m n args = some (.ok v)) : wfVal c u hl v = true := by
  unfold handleCall at h
  repeat' split at h
  all_goals simp at h
  all_goals subst h
  all_goals simp [wfVal]

theorem handleRef_inv {mc : MCfg} {hook : Hook} {st st' : DState} {r : GoVal}
    (hh : HookOK mc.cfg hook) (hinv : Inv mc hook.isSome st)
    (hr : wfVal mc.cfg hook.isSome st.heap.length r = true)
    (h : handleRef hook st r = .ok st') : Inv mc hook.isSome st' := by
  unfold handleRef at h
  split at h
  · simp at h; subst h
    exact hinv.push _ (wfItem_of_wfVal hr)
  · rename_i load
    dsimp only at h
    have hinv' : Inv mc (some load).isSome { st with calls := r :: st.calls } := by
      refine ⟨hinv.stack, hinv.memo, hinv.heap, ?_⟩
      intro x hx
      simp at hx
      rcases hx with rfl | hx
      · exact hr
      · exact hinv.calls x hx
    split at h
    · rename_i v hv
      simp at h; subst h
      exact hinv'.push _ (wfItem_of_wfVal (hh load rfl _ _ _ hv _))
    · simp at h; subst h
      exact hinv'.push _ (wfItem_of_wfVal hr)
    · simp at h

theorem userOK_ok {v : GoVal} (h : userOK v = .ok ()) : isMark v = false := by
  unfold userOK at h
  split at h
  · simp at h
  · rename_i hv
    cases v <;> simp_all [isMark]

theorem userOKAll_ok : ∀ {vs : List GoVal}, userOKAll vs = .ok () → ∀ v ∈ vs, isMark v = false
  | [], _, v, hv => by simp at hv
  | x :: xs, h, v, hv => by
    simp only [userOKAll] at h
    cases hx : userOK x with
    | error e => rw [hx] at h; simp [bind, Except.bind] at h
    | ok u =>
      rw [hx] at h
      simp [bind, Except.bind] at h
      simp at hv
      rcases hv with rfl | hv
      · exact userOK_ok hx
      · exact userOKAll_ok h v hv

theorem listAppend_inv {mc : MCfg} {u : Bool} {st st' : DState} {l l' : GoVal} {items : List GoVal}
    (hinv : Inv mc u st) (hl : wfVal mc.cfg u st.heap.length l = true)
    (hi : ∀ x ∈ items, wfVal mc.cfg u st.heap.length x = true)
    (h : listAppend st l items = some (st', l')) :
    Inv mc u st' ∧ st'.heap.length = st.heap.length ∧ st'.stack = st.stack ∧
      wfVal mc.cfg u st.heap.length l' = true := by
  unfold listAppend at h
  split at h
  · rename_i xs
    simp at h
    obtain ⟨rfl, rfl⟩ := h
    refine ⟨hinv, rfl, rfl, ?_⟩
    simp only [wfVal_list, List.all_append, Bool.and_eq_true, List.all_eq_true] at hl ⊢
    exact ⟨hl, hi⟩
  · rename_i id
    split at h
    · rename_i o ho
      split at h
      · rename_i hk
        simp at h
        obtain ⟨rfl, rfl⟩ := h
        have hw := heap_get_wf hinv ho
        refine ⟨hinv.heapSet id _ ?_, by simp [heapSet], rfl, hl⟩
        unfold wfObj at hw ⊢
        simp only [Bool.and_eq_true, List.all_eq_true, List.all_append] at hw ⊢
        exact ⟨⟨hw.1.1, hw.1.2⟩, hw.2, hi⟩
      · simp at h
    · simp at h
  · simp at h

theorem Inv.withNbig {mc : MCfg} {u : Bool} {st : DState} (hinv : Inv mc u st) (n : Nat) :
    Inv mc u { st with nbig := n } := ⟨hinv.stack, hinv.memo, hinv.heap, hinv.calls⟩

theorem Inv.withProto {mc : MCfg} {u : Bool} {st : DState} (hinv : Inv mc u st) (n : Nat) :
    Inv mc u { st with proto := n } := ⟨hinv.stack, hinv.memo, hinv.heap, hinv.calls⟩

theorem Inv.memoPut {mc : MCfg} {u : Bool} {st : DState} (hinv : Inv mc u st) (key : Bytes) (v : GoVal)
    (hv : wfVal mc.cfg u st.heap.length v = true) : Inv mc u (memoPut st key v) := by
  refine ⟨hinv.stack, ?_, hinv.heap, hinv.calls⟩
  intro kv hkv
  simp [Ogorek.memoPut] at hkv
  rcases hkv with rfl | hkv
  · exact hv
  · exact hinv.memo kv hkv.1

theorem lookup_mem {k : Bytes} {v : GoVal} : ∀ {l : List (Bytes × GoVal)}, l.lookup k = some v → (k, v) ∈ l
  | [], h => by simp [List.lookup] at h
  | (k', v') :: l, h => by
    simp only [List.lookup] at h
    split at h
    · rename_i heq
      simp at h heq
      simp [h, heq]
    · exact List.mem_cons_of_mem _ (lookup_mem h)

/-- **C16 (step).** One instruction preserves the invariant. -/
theorem C16_step_preserves (mc : MCfg) (hook : Hook) (i : Insn) (pos : Nat) (st st' : DState)
    (hi : InsnOK i) (hh : HookOK mc.cfg hook) (hinv : Inv mc hook.isSome st)
    (h : exec mc hook i pos st = .ok st') : Inv mc hook.isSome st' := by
  cases i <;> simp only [exec] at h
  case mark => simp at h; subst h; exact hinv.push _ (by simp [wfItem, isMark])
  case stop => simp at h; subst h; exact hinv
  case pop =>
    cases hp : pop st with
    | error e => rw [hp] at h; simp [bind, Except.bind] at h
    | ok q =>
      rw [hp] at h; simp [bind, Except.bind, pure, Except.pure] at h; subst h
      unfold pop at hp
      split at hp
      · simp at hp
      · rename_i v s hs
        simp at hp; rw [← hp]
        exact hinv.withStack s fun x hx => hinv.stack x (by rw [hs]; simp [hx])
  case popMark => simp at h
  case dup =>
    split at h
    · simp at h
    · rename_i v s hs
      simp at h; subst h
      exact hinv.push v (hinv.stack v (by rw [hs]; simp))
  case pushFloat => simp at h; subst h; exact hinv.push _ (by simp [wfItem, wfVal])
  case pushBool => simp at h; subst h; exact hinv.push _ (by simp [wfItem, wfVal])
  case pushInt => simp at h; subst h; exact hinv.push _ (by simp [wfItem, wfVal]; exact Or.inr hi)
  case pushBig => simp at h; subst h; exact (hinv.withNbig _).push _ (by simp [wfItem, wfVal])
  case pushNone => simp at h; subst h; exact hinv.push _ (by simp [wfItem, wfVal])
  case pushByteString =>
    simp at h; subst h
    apply hinv.push
    split <;> simp_all [wfItem, wfVal]
  case pushStr => simp at h; subst h; exact hinv.push _ (by simp [wfItem, wfVal])
  case pushBytes => simp at h; subst h; exact hinv.push _ (by simp [wfItem, wfVal])
  case pushBytearray => simp at h; subst h; exact hinv.push _ (by simp [wfItem, wfVal])
  case global => simp at h; subst h; exact hinv.push _ (by simp [wfItem, wfVal])
  case emptyTuple => simp at h; subst h; exact hinv.push _ (by simp [wfItem, wfVal])
  case build => simp at h
  case inst => simp at h
  case obj => simp at h
  case frame => simp at h; subst h; exact hinv
  case nextBuffer => simp at h
  case readonlyBuffer => simp at h
  case unknown => simp at h
  case proto =>
    split at h
    · simp at h; subst h; exact hinv.withProto _
    · simp at h
  case persid => exact handleRef_inv hh hinv (by simp [wfVal]) h
  case binpersid =>
    cases hp : popUser st with
    | error e => rw [hp] at h; simp [bind, Except.bind] at h
    | ok q =>
      obtain ⟨pid, st1⟩ := q
      rw [hp] at h; simp only [bind, Except.bind] at h
      unfold popUser pop at hp
      split at hp
      · simp [bind, Except.bind] at hp
      · rename_i v s hs
        simp only [bind, Except.bind] at hp
        cases hu : userOK v with
        | error e => rw [hu] at hp; simp at hp
        | ok u =>
          rw [hu] at hp; simp [pure, Except.pure] at hp
          obtain ⟨rfl, rfl⟩ := hp
          have hv := wfVal_of_wfItem (hinv.stack v (by rw [hs]; simp)) (userOK_ok hu)
          exact handleRef_inv hh (hinv.withStack s fun x hx => hinv.stack x (by rw [hs]; simp [hx])) (by simpa using hv) h
  case get =>
    split at h
    · rename_i v hv
      simp at h; subst h
      unfold memoGet at hv
      exact hinv.push v (wfItem_of_wfVal (hinv.memo _ (lookup_mem hv)))
    · simp at h
  case put =>
    split at h
    · simp at h
    · rename_i v s hs
      cases hu : userOK v with
      | error e => rw [hu] at h; simp [bind, Except.bind] at h
      | ok u =>
        rw [hu] at h; simp [bind, Except.bind, pure, Except.pure] at h; subst h
        exact hinv.memoPut _ v (wfVal_of_wfItem (hinv.stack v (by rw [hs]; simp)) (userOK_ok hu))
  case memoize =>
    split at h
    · simp at h
    · rename_i v s hs
      cases hu : userOK v with
      | error e => rw [hu] at h; simp [bind, Except.bind] at h
      | ok u =>
        rw [hu] at h; simp [bind, Except.bind, pure, Except.pure] at h; subst h
        exact hinv.memoPut _ v (wfVal_of_wfItem (hinv.stack v (by rw [hs]; simp)) (userOK_ok hu))
  case tuple =>
    split at h
    · simp at h
    · rename_i above below hs
      simp at h; subst h
      obtain ⟨h1, h2⟩ := splitAtMark_spec _ _ _ hs
      apply hinv.withStack
      intro x hx
      simp at hx
      rcases hx with rfl | hx
      · apply wfItem_of_wfVal
        simp only [wfVal_tuple, List.all_eq_true, List.mem_reverse]
        intro y hy
        exact wfVal_of_wfItem (hinv.stack y (h1 y hy).2) (h1 y hy).1
      · exact hinv.stack x (h2 x hx)
  case tupleN n =>
    split at h
    · simp at h
    · cases hu : userOKAll (List.take n st.stack).reverse with
      | error e => rw [hu] at h; simp [bind, Except.bind] at h
      | ok u =>
        rw [hu] at h; simp [bind, Except.bind, pure, Except.pure] at h; subst h
        apply hinv.withStack
        intro x hx
        simp at hx
        rcases hx with rfl | hx
        · apply wfItem_of_wfVal
          simp only [wfVal_tuple, List.all_eq_true, List.mem_reverse]
          intro y hy
          exact wfVal_of_wfItem (hinv.stack y (List.mem_of_mem_take hy)) (userOKAll_ok hu y (by simpa using hy))
        · exact hinv.stack x (List.mem_of_mem_drop hx)
  case stackGlobal =>
    split at h
    · simp at h
    · rename_i hlen
      obtain ⟨a, b, s, hs⟩ := two_of_len hlen
      rw [xpop_of_cons hs] at h
      simp only [bind, Except.bind] at h
      rw [xpop_of_cons (st := { st with stack := b :: s }) rfl] at h
      simp only at h
      split at h
      · simp [pure, Except.pure] at h; subst h
        exact (hinv.withStack s fun x hx => hinv.stack x (by rw [hs]; simp [hx])).push _ (by simp [wfItem, wfVal])
      · simp at h
  case reduce =>
    split at h
    · simp at h
    · rename_i hlen
      obtain ⟨a, b, s, hs⟩ := two_of_len hlen
      rw [xpop_of_cons hs] at h
      simp only [bind, Except.bind] at h
      rw [xpop_of_cons (st := { st with stack := b :: s }) rfl] at h
      simp only at h
      have hinv2 := hinv.withStack s fun x hx => hinv.stack x (by rw [hs]; simp [hx])
      split at h
      · rename_i args m n
        have hargs : wfVal mc.cfg hook.isSome st.heap.length (.tuple args) = true :=
          wfVal_of_wfItem (hinv.stack _ (by rw [hs]; simp)) rfl
        split at h
        · rename_i r hr
          cases r with
          | error e => simp at h
          | ok v =>
            simp [pure, Except.pure] at h; subst h
            exact hinv2.push _ (wfItem_of_wfVal (handleCall_wf hr))
        · simp [pure, Except.pure] at h; subst h
          exact hinv2.push _ (wfItem_of_wfVal (by simpa using hargs))
      · simp at h
  case emptyDict =>
    simp at h; subst h
    obtain ⟨hi1, hw, _, hst⟩ := hinv.alloc { kind := dictKind mc.cfg } (by simp [wfObj])
    exact hi1.push _ (wfItem_of_wfVal hw)
  case emptyList =>
    simp at h; subst h
    unfold mkList
    split
    · rename_i hlr
      obtain ⟨hi1, hw, _, hst⟩ := hinv.alloc { kind := .list, xs := [] } (by simp [wfObj, hlr])
      exact hi1.push _ (wfItem_of_wfVal hw)
    · exact hinv.push _ (by simp [wfItem])
  case list =>
    split at h
    · simp at h
    · rename_i above below hs
      simp at h; subst h
      obtain ⟨h1, h2⟩ := splitAtMark_spec _ _ _ hs
      have habove : ∀ y ∈ above.reverse, wfVal mc.cfg hook.isSome st.heap.length y = true := by
        intro y hy
        have hy' : y ∈ above := by simpa using hy
        exact wfVal_of_wfItem (hinv.stack y (h1 y hy').2) (h1 y hy').1
      unfold mkList
      split
      · rename_i hlr
        obtain ⟨hi1, hw, hl1, hst⟩ := hinv.alloc { kind := .list, xs := above.reverse } (by
          simp only [wfObj, hlr, Bool.and_eq_true, List.all_eq_true]
          refine ⟨⟨by simp, by simp⟩, fun y hy => wfVal_mono _ _ (by omega) _ (habove y hy)⟩)
        apply hi1.withStack
        intro x hx
        simp at hx
        rcases hx with rfl | hx
        · exact wfItem_of_wfVal hw
        · exact wfItem_mono _ _ (by omega) _ (hinv.stack x (h2 x hx))
      · apply hinv.withStack
        intro x hx
        simp at hx
        rcases hx with rfl | hx
        · exact wfItem_of_wfVal (by simpa [wfVal_list, List.all_eq_true] using habove)
        · exact hinv.stack x (h2 x hx)
  case dict =>
    split at h
    · simp at h
    · rename_i above below hs
      obtain ⟨h1, h2⟩ := splitAtMark_spec _ _ _ hs
      split at h
      · simp at h
      · split at h
        · rename_i es hes
          simp at h; subst h
          have hes' : ∀ kv ∈ es, wfVal mc.cfg hook.isSome st.heap.length kv.1 = true ∧
              wfVal mc.cfg hook.isSome st.heap.length kv.2 = true := by
            intro kv hkv
            rcases assignAll_mem _ _ _ _ hes kv hkv with hm | ⟨hk, hv⟩
            · simp at hm
            · have hk' : kv.1 ∈ above := by simpa using hk
              have hv' : kv.2 ∈ above := by simpa using hv
              exact ⟨wfVal_of_wfItem (hinv.stack _ (h1 _ hk').2) (h1 _ hk').1,
                     wfVal_of_wfItem (hinv.stack _ (h1 _ hv').2) (h1 _ hv').1⟩
          obtain ⟨hi1, hw, hl1, hst⟩ := hinv.alloc { kind := dictKind mc.cfg, kvs := es } (by
            simp only [wfObj, Bool.and_eq_true, List.all_eq_true]
            refine ⟨⟨by simp, fun kv hkv => ⟨wfVal_mono _ _ (by omega) _ (hes' kv hkv).1,
              wfVal_mono _ _ (by omega) _ (hes' kv hkv).2⟩⟩, by simp⟩)
          apply hi1.withStack
          intro x hx
          simp at hx
          rcases hx with rfl | hx
          · exact wfItem_of_wfVal hw
          · exact wfItem_mono _ _ (by omega) _ (hinv.stack x (h2 x hx))
        · simp at h
  case append =>
    split at h
    · simp at h
    · rename_i hlen
      obtain ⟨a, b, s, hs⟩ := two_of_len hlen
      rw [xpop_of_cons hs] at h
      simp only [bind, Except.bind] at h
      cases hu : userOK a with
      | error e => rw [hu] at h; simp at h
      | ok u =>
        rw [hu] at h
        simp only at h
        have ha := wfVal_of_wfItem (hinv.stack a (by rw [hs]; simp)) (userOK_ok hu)
        have hinv2 := hinv.withStack (b :: s) fun x hx => hinv.stack x (by rw [hs]; simp at hx ⊢; exact Or.inr hx)
        split at h
        · rename_i st1 l' hla
          simp [pure, Except.pure] at h; subst h
          have hb : isMark b = false := by
            unfold listAppend at hla
            cases b <;> simp_all [isMark]
          have hbw := wfVal_of_wfItem (hinv.stack b (by rw [hs]; simp)) hb
          obtain ⟨hi1, hl1, hst1, hw⟩ := listAppend_inv hinv2 hbw (by intro x hx; simp at hx; subst hx; exact ha) hla
          apply hi1.withStack
          intro x hx
          simp at hx
          rw [hl1]
          rcases hx with rfl | hx
          · exact wfItem_of_wfVal hw
          · exact hinv.stack x (by rw [hs]; simp [hx])
        · simp at h
  case appends =>
    split at h
    · simp at h
    · rename_i above below hs
      obtain ⟨h1, h2⟩ := splitAtMark_spec _ _ _ hs
      split at h
      · simp at h
      · rename_i l below' 
        split at h
        · rename_i st1 l' hla
          simp at h; subst h
          have hb : isMark l = false := by
            unfold listAppend at hla
            cases l <;> simp_all [isMark]
          have hlw := wfVal_of_wfItem (hinv.stack l (h2 l (by simp))) hb
          have habove : ∀ y ∈ above.reverse, wfVal mc.cfg hook.isSome st.heap.length y = true := by
            intro y hy
            have hy' : y ∈ above := by simpa using hy
            exact wfVal_of_wfItem (hinv.stack y (h1 y hy').2) (h1 y hy').1
          obtain ⟨hi1, hl1, hst1, hw⟩ := listAppend_inv hinv hlw habove hla
          apply hi1.withStack
          intro x hx
          simp at hx
          rw [hl1]
          rcases hx with rfl | hx
          · exact wfItem_of_wfVal hw
          · exact hinv.stack x (h2 x (by simp [hx]))
        · simp at h
  case setitem =>
    split at h
    · simp at h
    · rename_i hlen
      obtain ⟨a, b, c, s, hs⟩ := three_of_len hlen
      rw [xpop_of_cons hs] at h
      simp only [bind, Except.bind] at h
      rw [xpop_of_cons (st := { st with stack := b :: c :: s }) rfl] at h
      simp only at h
      cases hub : userOK b with
      | error e => rw [hub] at h; simp at h
      | ok u1 =>
        rw [hub] at h; simp only at h
        cases hua : userOK a with
        | error e => rw [hua] at h; simp at h
        | ok u2 =>
          rw [hua] at h; simp only at h
          have ha := wfVal_of_wfItem (hinv.stack a (by rw [hs]; simp)) (userOK_ok hua)
          have hb := wfVal_of_wfItem (hinv.stack b (by rw [hs]; simp)) (userOK_ok hub)
          have hinv2 := hinv.withStack (c :: s) fun x hx => hinv.stack x (by rw [hs]; simp at hx ⊢; exact Or.inr (Or.inr hx))
          split at h
          · simp at h
          · rename_i id rest hstk
            split at h
            · rename_i o ho
              split at h
              · simp at h
              · split at h
                · rename_i es hes
                  simp [pure, Except.pure] at h; subst h
                  have hw := heap_get_wf hinv2 ho
                  apply hinv2.heapSet
                  unfold wfObj at hw ⊢
                  simp only [Bool.and_eq_true, List.all_eq_true] at hw ⊢
                  refine ⟨⟨hw.1.1, ?_⟩, hw.2⟩
                  intro kv hkv
                  rcases tryAssign_mem hes hkv with hm | rfl
                  · exact hw.1.2 kv hm
                  · exact ⟨hb, ha⟩
                · simp at h
            · simp at h
          · simp at h
  case setitems =>
    split at h
    · simp at h
    · rename_i above below hs
      obtain ⟨h1, h2⟩ := splitAtMark_spec _ _ _ hs
      split at h
      · simp at h
      · rename_i l below'
        split at h
        · simp at h
        · split at h
          · rename_i id
            split at h
            · rename_i o ho
              split at h
              · simp at h
              · split at h
                · rename_i es hes
                  simp at h; subst h
                  have hw := heap_get_wf hinv ho
                  have hi1 : Inv mc hook.isSome (heapSet st id { o with kvs := es }) := by
                    apply hinv.heapSet
                    unfold wfObj at hw ⊢
                    simp only [Bool.and_eq_true, List.all_eq_true] at hw ⊢
                    refine ⟨⟨hw.1.1, ?_⟩, hw.2⟩
                    intro kv hkv
                    rcases assignAll_mem _ _ _ _ hes kv hkv with hm | ⟨hk, hv⟩
                    · exact hw.1.2 kv hm
                    · have hk' : kv.1 ∈ above := by simpa using hk
                      have hv' : kv.2 ∈ above := by simpa using hv
                      exact ⟨wfVal_of_wfItem (hinv.stack _ (h1 _ hk').2) (h1 _ hk').1,
                             wfVal_of_wfItem (hinv.stack _ (h1 _ hv').2) (h1 _ hv').1⟩
                  apply hi1.withStack
                  intro x hx
                  have hl : (heapSet st id { o with kvs := es }).heap.length = st.heap.length := by simp [heapSet]
                  rw [hl]
                  exact hinv.stack x (h2 x hx)
                · simp at h
            · simp at h
          · simp at h


/-! ### the loop, the result, the hook arguments -/

theorem popUser_inv {mc : MCfg} {u : Bool} {st st' : DState} {v : GoVal} (hinv : Inv mc u st)
    (h : popUser st = .ok (v, st')) : Inv mc u st' ∧ wfVal mc.cfg u st'.heap.length v = true := by
  unfold popUser pop at h
  split at h
  · simp [bind, Except.bind] at h
  · rename_i x s hs
    simp only [bind, Except.bind] at h
    cases hu : userOK x with
    | error e => rw [hu] at h; simp at h
    | ok u' =>
      rw [hu] at h; simp [pure, Except.pure] at h
      obtain ⟨rfl, rfl⟩ := h
      exact ⟨hinv.withStack s fun y hy => hinv.stack y (by rw [hs]; simp [hy]),
             wfVal_of_wfItem (hinv.stack x (by rw [hs]; simp)) (userOK_ok hu)⟩

theorem decodeLoop_inv (mc : MCfg) (hook : Hook) (hh : HookOK mc.cfg hook) :
    ∀ (fuel insn : Nat) (st : DState) (inp : Bytes) (v : GoVal) (st' : DState) (rest : Bytes),
      Inv mc hook.isSome st → decodeLoop mc hook fuel insn st inp = (.ok v, st', rest) →
      Inv mc hook.isSome st' ∧ wfVal mc.cfg hook.isSome st'.heap.length v = true := by
  intro fuel
  induction fuel with
  | zero => intro insn st inp v st' rest _ h; simp [decodeLoop] at h
  | succ fuel ih =>
    intro insn st inp v st' rest hinv h
    unfold decodeLoop at h
    cases inp with
    | nil => simp [readByte] at h
    | cons key r =>
      simp only [readByte] at h
      cases hp : parseArg key r with
      | error e => rw [hp] at h; simp at h
      | ok p =>
        obtain ⟨i, rest1⟩ := p
        rw [hp] at h
        have hi := parseArg_insnOK key _ _ _ hp
        cases i
        case stop =>
          simp only at h
          split at h
          · rename_i v1 st1 hpu
            simp at h
            obtain ⟨rfl, rfl, _⟩ := h
            exact popUser_inv hinv hpu
          · simp at h
        all_goals
          simp only at h
          split at h
          · rename_i st1 hex
            exact ih _ _ _ _ _ _ (C16_step_preserves mc hook _ _ _ _ hi hh hinv hex) h
          · simp at h

/-- **C16 (result).** After a successful `Decode` from a state satisfying the invariant
    (the fresh decoder does), the result is a well-formed value — in particular not the mark and
    not containing it — and the invariant holds again, so it holds across a stream of pickles. -/
theorem C16_result_wf (mc : MCfg) (hook : Hook) (hh : HookOK mc.cfg hook) (st : DState) (inp : Bytes)
    (v : GoVal) (st' : DState) (rest : Bytes) (hinv : Inv mc hook.isSome st)
    (h : decode mc hook st inp = (.ok v, st', rest)) :
    Inv mc hook.isSome st' ∧ wfVal mc.cfg hook.isSome st'.heap.length v = true := by
  unfold decode at h
  exact decodeLoop_inv mc hook hh _ _ _ _ _ _ _
    ((hinv.withStack [] (by simp)).withProto 0) h

/-- The fresh decoder satisfies the invariant. -/
theorem Inv.init (mc : MCfg) (u : Bool) : Inv mc u {} :=
  ⟨by simp, by simp, by simp, by simp⟩

/-- **C16 (hook arguments).** Every Ref handed to `PersistentLoad` holds a well-formed id. -/
theorem C16_hook_args_wf (mc : MCfg) (hook : Hook) (hh : HookOK mc.cfg hook) (inp : Bytes)
    (v : GoVal) (st' : DState) (rest : Bytes) (h : decode mc hook {} inp = (.ok v, st', rest)) :
    ∀ r ∈ st'.calls, wfVal mc.cfg hook.isSome st'.heap.length r = true :=
  (C16_result_wf mc hook hh {} inp v st' rest (Inv.init mc _) h).1.calls


/-! ### resolved results -/

theorem wfResList_of_forall {c : Cfg} {u : Bool} : ∀ {xs : List GoVal}, (∀ x ∈ xs, wfRes c u x = true) →
    wfResList c u xs = true
  | [], _ => by simp [wfResList]
  | x :: xs, h => by
    simp only [wfResList, Bool.and_eq_true]
    exact ⟨h x (by simp), wfResList_of_forall fun y hy => h y (by simp [hy])⟩

theorem wfResPairs_of_forall {c : Cfg} {u : Bool} : ∀ {kvs : List (GoVal × GoVal)},
    (∀ kv ∈ kvs, wfRes c u kv.1 = true ∧ wfRes c u kv.2 = true) → wfResPairs c u kvs = true
  | [], _ => by simp [wfResPairs]
  | (k, v) :: r, h => by
    simp only [wfResPairs, Bool.and_eq_true]
    exact ⟨⟨(h (k, v) (by simp)).1, (h (k, v) (by simp)).2⟩,
           wfResPairs_of_forall fun y hy => h y (by simp [hy])⟩

/-- **C16 (resolved).** Following heap references to any depth, what a successful Go `Decode`
    returns consists of documented types only: ByteString only with StrictUnicode, Dict only
    with PyDict, builtin maps only without, application objects only with a hook, never the mark. -/
theorem C16_resolved (c : Cfg) (u : Bool) (st : DState) (hinv : Inv (goCfg c) u st) :
    ∀ (fuel : Nat) (v : GoVal), wfVal c u st.heap.length v = true → wfRes c u (resolveV st.heap fuel v) = true := by
  intro fuel
  induction fuel with
  | zero => intro v _; simp [resolveV, wfRes]
  | succ f ih =>
    intro v hv
    cases v <;> simp only [resolveV]
    case list xs =>
      simp only [wfRes]
      apply wfResList_of_forall
      intro x hx
      obtain ⟨y, hy, rfl⟩ := List.mem_map.mp hx
      simp only [wfVal_list, List.all_eq_true] at hv
      exact ih y (hv y hy)
    case tuple xs =>
      simp only [wfRes]
      apply wfResList_of_forall
      intro x hx
      obtain ⟨y, hy, rfl⟩ := List.mem_map.mp hx
      simp only [wfVal_tuple, List.all_eq_true] at hv
      exact ih y (hv y hy)
    case call m n xs =>
      simp only [wfRes]
      apply wfResList_of_forall
      intro x hx
      obtain ⟨y, hy, rfl⟩ := List.mem_map.mp hx
      simp only [wfVal_call, List.all_eq_true] at hv
      exact ih y (hv y hy)
    case ref p =>
      simp only [wfRes]
      simp only [wfVal_ref] at hv
      exact ih p hv
    case href id =>
      split
      · simp [wfRes]
      · rename_i o ho
        have hw := heap_get_wf hinv ho
        unfold wfObj at hw
        simp only [Bool.and_eq_true, List.all_eq_true, goCfg, Bool.and_false, Bool.or_false] at hw
        obtain ⟨⟨hk, hkv⟩, hxs⟩ := hw
        have hpairs : wfResPairs c u (o.kvs.map fun kv => (resolveV st.heap f kv.1, resolveV st.heap f kv.2)) = true := by
          apply wfResPairs_of_forall
          intro kv hkv'
          obtain ⟨y, hy, rfl⟩ := List.mem_map.mp hkv'
          exact ⟨ih _ (hkv y hy).1, ih _ (hkv y hy).2⟩
        split
        · rename_i hkind
          rw [hkind] at hk
          simp [dictKind] at hk
          split at hk <;> simp at hk
        · rename_i hkind
          rw [hkind] at hk
          have hpd : c.pyDict = true := by
            simpa [dictKind] using hk
          simp [wfRes, hpd, hpairs]
        · rename_i hkind
          rw [hkind] at hk
          have hpd : c.pyDict = false := by
            simpa [dictKind] using hk
          simp [wfRes, hpd, hpairs]
    all_goals simp_all [wfRes, wfVal]

end Ogorek
