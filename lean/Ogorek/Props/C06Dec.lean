import Ogorek.Props.C06Pk

/-!
  The protocol-0 float-text hypothesis made decidable.

  At protocol 0 a float travels as decimal text (`repr` on the Python side, `%g` on the Go side); that the decoder's
  float parser reads the text back as the same float64 is the shortest-round-trip property of the two formatters,
  which is not proved here.  It IS a closed computation for each given float: `pyFloatTextOKb f` / `floatTextOKb f`
  run the model's formatter and parser on `f` and compare.  With them every hypothesis of the theorems about
  CPython's pickler is a Boolean the correspondence run evaluates for each of its cases, at every protocol 0-5:
  the cases it explores are then instances of the theorems, not merely inputs on which model and implementation agree.
-/
namespace Ogorek

/-- `PyFloatTextOK`, evaluated. -/
def pyFloatTextOKb (f : F64) : Bool :=
  (match F64.parse (pyFloatRepr f) with
   | .ok g => g == f
   | _ => false) && !(pyFloatRepr f).contains 10

theorem pyFloatTextOK_of_b (f : F64) (h : pyFloatTextOKb f = true) : PyFloatTextOK f := by
  unfold pyFloatTextOKb at h
  simp only [Bool.and_eq_true, Bool.not_eq_true', List.contains_eq_mem, decide_eq_false_iff_not] at h
  refine ⟨?_, h.2⟩
  unfold parseFloatArg
  cases hp : F64.parse (pyFloatRepr f) with
  | ok g =>
    rw [hp] at h
    have hg : g = f := by simpa using h.1
    simp [hg]
  | range => rw [hp] at h; simp at h
  | «syntax» => rw [hp] at h; simp at h
  | unmodelled => rw [hp] at h; simp at h

/-- `FloatTextOK` (the Go side's `%g`), evaluated. -/
def floatTextOKb (f : F64) : Bool :=
  match F64.parse (F64.fmtG f) with
  | .ok g => g == f
  | _ => false

theorem floatTextOK_of_b (f : F64) (h : floatTextOKb f = true) : FloatTextOK f := by
  unfold floatTextOKb at h
  unfold FloatTextOK parseFloatArg
  cases hp : F64.parse (F64.fmtG f) with
  | ok g =>
    rw [hp] at h
    have hg : g = f := by simpa using h
    simp [hg]
  | range => rw [hp] at h; simp at h
  | «syntax» => rw [hp] at h; simp at h
  | unmodelled => rw [hp] at h; simp at h

mutual
/-- Every float of the object passes `pyFloatTextOKb`. -/
def pyFloatsOKb : PyObj → Bool
  | .none => true
  | .bool _ => true
  | .int _ => true
  | .float f => pyFloatTextOKb f
  | .str _ => true
  | .bytes _ => true
  | .bytearray _ => true
  | .tuple xs => pyFloatsOKbList xs
  | .list xs => pyFloatsOKbList xs
  | .dict kvs => pyFloatsOKbPairs kvs
def pyFloatsOKbList : List PyObj → Bool
  | [] => true
  | x :: xs => pyFloatsOKb x && pyFloatsOKbList xs
def pyFloatsOKbPairs : List (PyObj × PyObj) → Bool
  | [] => true
  | (k, v) :: r => pyFloatsOKb k && pyFloatsOKb v && pyFloatsOKbPairs r
end

mutual
theorem pkOK_of_bf (cfg : Cfg) (p : Nat) : (v : PyObj) → pkOKb cfg v = true → (p ≥ 1 ∨ pyFloatsOKb v = true) → pkOK cfg p v
  | .none, _, _ | .bool _, _, _ | .int _, _, _ | .str _, _, _ | .bytes _, _, _ => by simp [pkOK]
  | .float f, _, hf => by
    simp only [pkOK]
    rcases hf with hp | hf
    · exact Or.inl hp
    · exact Or.inr (pyFloatTextOK_of_b f (by simpa [pyFloatsOKb] using hf))
  | .bytearray s, h, _ => by simpa [pkOK, pkOKb] using h
  | .tuple xs, h, hf => by
    simp only [pkOK]
    exact pkOKList_of_bf cfg p xs (by simpa [pkOKb] using h) (hf.imp id (by simp [pyFloatsOKb]))
  | .list xs, h, hf => by
    simp only [pkOK]
    exact pkOKList_of_bf cfg p xs (by simpa [pkOKb] using h) (hf.imp id (by simp [pyFloatsOKb]))
  | .dict kvs, h, hf => by
    simp only [pkOKb, Bool.and_eq_true] at h
    simp only [pkOK]
    exact ⟨pkOKPairs_of_bf cfg p kvs h.1 (hf.imp id (by simp [pyFloatsOKb])), h.2⟩
theorem pkOKList_of_bf (cfg : Cfg) (p : Nat) : (xs : List PyObj) → pkOKbList cfg xs = true → (p ≥ 1 ∨ pyFloatsOKbList xs = true) →
    pkOKList cfg p xs
  | [], _, _ => by simp [pkOKList]
  | x :: xs, h, hf => by
    simp only [pkOKbList, Bool.and_eq_true] at h
    simp only [pkOKList]
    have hf1 : p ≥ 1 ∨ pyFloatsOKb x = true := hf.imp id (fun q => by simp only [pyFloatsOKbList, Bool.and_eq_true] at q; exact q.1)
    have hf2 : p ≥ 1 ∨ pyFloatsOKbList xs = true := hf.imp id (fun q => by simp only [pyFloatsOKbList, Bool.and_eq_true] at q; exact q.2)
    exact ⟨pkOK_of_bf cfg p x h.1 hf1, pkOKList_of_bf cfg p xs h.2 hf2⟩
theorem pkOKPairs_of_bf (cfg : Cfg) (p : Nat) : (kvs : List (PyObj × PyObj)) → pkOKbPairs cfg kvs = true →
    (p ≥ 1 ∨ pyFloatsOKbPairs kvs = true) → pkOKPairs cfg p kvs
  | [], _, _ => by simp [pkOKPairs]
  | (k, v) :: r, h, hf => by
    simp only [pkOKbPairs, Bool.and_eq_true] at h
    simp only [pkOKPairs]
    have hf1 : p ≥ 1 ∨ pyFloatsOKb k = true := hf.imp id (fun q => by simp only [pyFloatsOKbPairs, Bool.and_eq_true] at q; exact q.1.1)
    have hf2 : p ≥ 1 ∨ pyFloatsOKb v = true := hf.imp id (fun q => by simp only [pyFloatsOKbPairs, Bool.and_eq_true] at q; exact q.1.2)
    have hf3 : p ≥ 1 ∨ pyFloatsOKbPairs r = true := hf.imp id (fun q => by simp only [pyFloatsOKbPairs, Bool.and_eq_true] at q; exact q.2)
    exact ⟨pkOK_of_bf cfg p k h.1.1 hf1, pkOK_of_bf cfg p v h.1.2 hf2, pkOKPairs_of_bf cfg p r h.2 hf3⟩
end

mutual
theorem pyOKp_of_bf (p : Nat) : (v : PyObj) → pyOKb v = true → (p ≥ 1 ∨ pyFloatsOKb v = true) → pyOKp p v
  | .none, _, _ | .bool _, _, _ | .int _, _, _ | .bytes _, _, _ => by simp [pyOKp]
  | .float f, _, hf => by
    simp only [pyOKp]
    rcases hf with hp | hf
    · exact Or.inl hp
    · exact Or.inr (pyFloatTextOK_of_b f (by simpa [pyFloatsOKb] using hf))
  | .str s, h, _ => by simpa [pyOKp, pyOKb] using h
  | .bytearray s, h, _ => by simpa [pyOKp, pyOKb] using h
  | .tuple xs, h, hf => by
    simp only [pyOKp]
    exact pyOKpList_of_bf p xs (by simpa [pyOKb] using h) (hf.imp id (by simp [pyFloatsOKb]))
  | .list xs, h, hf => by
    simp only [pyOKp]
    exact pyOKpList_of_bf p xs (by simpa [pyOKb] using h) (hf.imp id (by simp [pyFloatsOKb]))
  | .dict kvs, h, hf => by
    simp only [pyOKb, Bool.and_eq_true, decide_eq_true_eq] at h
    simp only [pyOKp]
    exact ⟨pyOKpPairs_of_bf p kvs h.1.1 (hf.imp id (by simp [pyFloatsOKb])), h.1.2, h.2⟩
theorem pyOKpList_of_bf (p : Nat) : (xs : List PyObj) → pyOKbList xs = true → (p ≥ 1 ∨ pyFloatsOKbList xs = true) → pyOKpList p xs
  | [], _, _ => by simp [pyOKpList]
  | x :: xs, h, hf => by
    simp only [pyOKbList, Bool.and_eq_true] at h
    simp only [pyOKpList]
    have hf1 : p ≥ 1 ∨ pyFloatsOKb x = true := hf.imp id (fun q => by simp only [pyFloatsOKbList, Bool.and_eq_true] at q; exact q.1)
    have hf2 : p ≥ 1 ∨ pyFloatsOKbList xs = true := hf.imp id (fun q => by simp only [pyFloatsOKbList, Bool.and_eq_true] at q; exact q.2)
    exact ⟨pyOKp_of_bf p x h.1 hf1, pyOKpList_of_bf p xs h.2 hf2⟩
theorem pyOKpPairs_of_bf (p : Nat) : (kvs : List (PyObj × PyObj)) → pyOKbPairs kvs = true → (p ≥ 1 ∨ pyFloatsOKbPairs kvs = true) →
    pyOKpPairs p kvs
  | [], _, _ => by simp [pyOKpPairs]
  | (k, v) :: r, h, hf => by
    simp only [pyOKbPairs, Bool.and_eq_true] at h
    simp only [pyOKpPairs]
    have hf1 : p ≥ 1 ∨ pyFloatsOKb k = true := hf.imp id (fun q => by simp only [pyFloatsOKbPairs, Bool.and_eq_true] at q; exact q.1.1)
    have hf2 : p ≥ 1 ∨ pyFloatsOKb v = true := hf.imp id (fun q => by simp only [pyFloatsOKbPairs, Bool.and_eq_true] at q; exact q.1.2)
    have hf3 : p ≥ 1 ∨ pyFloatsOKbPairs r = true := hf.imp id (fun q => by simp only [pyFloatsOKbPairs, Bool.and_eq_true] at q; exact q.2)
    exact ⟨pyOKp_of_bf p k h.1.1 hf1, pyOKp_of_bf p v h.1.2 hf2, pyOKpPairs_of_bf p r h.2 hf3⟩
end

/-- **C02 on CPython's own pickles, every protocol 0-5, every hypothesis evaluated**: tree-shaped objects (`cpDumpsFramed`). -/
theorem C02_pickler_dec (cfg : Cfg) (hook : Hook) (py : Bool) (p : Nat) (hp5 : p ≤ 5) (v : PyObj) (bs : Bytes)
    (hok : pkOKb cfg v = true) (hfl : p ≥ 1 ∨ pyFloatsOKb v = true) (hd : cpDumpsFramed py p v = some bs) (st0 : DState) :
    ∃ r st', decode (goCfg cfg) hook st0 bs = (.ok r, st', []) ∧ Rep (goCfg cfg) GoVal.ref st'.heap r (goOf v) :=
  C02_pickler_framed cfg hook py p hp5 v bs (pkOK_of_bf cfg p v hok hfl) hd st0

/-- … objects whose str / bytes / bytearray objects repeat (memo reads), any of the three picklers. -/
theorem C02_pickler_shared_dec (cfg : Cfg) (hook : Hook) (mz : Option PKey → Bool) (py : Bool) (p : Nat) (hp5 : p ≤ 5) (v : PyObjS)
    (bs : Bytes) (hok : pkOKb cfg (erase v) = true) (hfl : p ≥ 1 ∨ pyFloatsOKb (erase v) = true)
    (hd : cpDumpsFramedS mz py p v = some bs) (st0 : DState) (hfresh : st0.memo = []) :
    ∃ r st', decode (goCfg cfg) hook st0 bs = (.ok r, st', []) ∧ Rep (goCfg cfg) GoVal.ref st'.heap r (goOf (erase v)) :=
  C02_pickler_shared cfg hook mz py p hp5 v bs (pkOK_of_bf cfg p _ hok hfl) hd st0 hfresh

/-- **C06 on CPython's own pickles, every protocol 0-5, every hypothesis evaluated**: both unpicklers accept the bytes, consume all
    of them and return the same object. -/
theorem C06_pickler_agree_dec (cfg : Cfg) (hook : Hook) (mz : Option PKey → Bool) (py : Bool) (p : Nat) (hp5 : p ≤ 5)
    (v : PyObjS) (bs : Bytes) (hgo : pkOKb cfg (erase v) = true) (hpy : pyOKb (erase v) = true)
    (hfl : p ≥ 1 ∨ pyFloatsOKb (erase v) = true)
    (hd : cpDumpsFramedS mz py p v = some bs) (hlen : bs.length < 2 ^ 63) (st0 : DState) (hfresh : st0.memo = []) :
    (∃ r st', decode (goCfg cfg) hook st0 bs = (.ok r, st', []) ∧ Rep (goCfg cfg) GoVal.ref st'.heap r (goOf (erase v))) ∧
    (∃ r st', pvmLoad bs = (.ok r, st', []) ∧ PRep st'.heap r (pyOf (erase v))) :=
  C06_pickler_agree cfg hook mz py p hp5 v bs (pkOK_of_bf cfg p _ hgo hfl) (pyOKp_of_bf p _ hpy hfl) hd hlen st0 hfresh

/-- Non-vacuity at protocol 0: floats of several magnitudes pass the evaluated text hypothesis. -/
example : pyFloatsOKb (.list [.float 0x3ff8000000000000, .float 0x3fb999999999999a, .float 0x7fefffffffffffff, .float 0x0000000000000001,
                              .float 0xc05edd3c07ee0b0b, .dict [(.float 0x4415af1d78b58c40, .float 0x7ff0000000000000)]]) = true := by
  decide +kernel

end Ogorek
