import Ogorek.Lemmas.RelocErr
import Ogorek.Props.C11Enc

/-!
  # C11 — a pickle decodes the same wherever it stands in a stream

  `C11_relocate`: take ANY pickle (any bytes) that decodes successfully on a fresh Decoder and contains no MEMOIZE opcode.
  Then on a Decoder that has already decoded other pickles — whatever heap, memo and id supply they left — `Decode`
  succeeds as well, consumes exactly the same bytes, and returns the same value up to the renaming `shiftV` of container
  references and `*big.Int` identities; the containers it built are the same, moved (`Reloc`), and nothing the earlier
  pickles built is touched.  `resolveV_reloc` turns that into: the unfolded result is the same.
  With `C11_stream` this gives the property for every stream of such pickles, not only those written by the encoder
  (`C11_encoded_stream`).  MEMOIZE is excluded because its key is "the next free index of the Decoder's memo", which earlier
  pickles advance: that is finding K7 (`C11_K7_witness`), and the reason the hypothesis cannot be dropped.
-/
namespace Ogorek

/-- Does the instruction sequence of the pickle (read syntactically, up to its STOP) hold a MEMOIZE? -/
def hasMemoize : Nat → Bytes → Bool
  | 0, _ => false
  | fuel + 1, inp =>
    match readByte inp with
    | .error _ => false
    | .ok (key, r) =>
      match parseArg key r with
      | .error _ => false
      | .ok (.stop, _) => false
      | .ok (i, rest) => i.isMemoize || hasMemoize fuel rest

section
variable {dh db : Nat} {H0 : List HObj}

theorem reloc_loop (mc : MCfg) : ∀ (fuel insn : Nat) (A B : DState) (inp : Bytes) (v : GoVal) (A' : DState) (rest : Bytes),
    Reloc dh db H0 A B → hasMemoize fuel inp = false →
    decodeLoop mc none fuel insn A inp = (.ok v, A', rest) →
    ∃ B', decodeLoop mc none fuel insn B inp = (.ok (shiftV dh db v), B', rest) ∧ Reloc dh db H0 A' B' := by
  intro fuel
  induction fuel with
  | zero => intro insn A B inp v A' rest _ _ h; simp [decodeLoop] at h
  | succ fuel ih =>
    intro insn A B inp v A' rest hr hm h
    unfold decodeLoop at h ⊢
    unfold hasMemoize at hm
    cases hrb : readByte inp with
    | error e => rw [hrb] at h; simp at h
    | ok kr =>
      obtain ⟨key, r⟩ := kr
      rw [hrb] at h hm
      simp only at h hm ⊢
      cases hp : parseArg key r with
      | error e => rw [hp] at h; simp at h
      | ok ir =>
        obtain ⟨i, rest'⟩ := ir
        rw [hp] at h hm
        by_cases hstop : i.isStop = true
        · -- STOP: the result is popped
          cases i <;> simp [Insn.isStop] at hstop
          simp only at h ⊢
          cases hA : A.stack with
          | nil => simp [popUser, Ogorek.pop, hA, bind, Except.bind] at h
          | cons x s =>
            have hs := hr.stack
            rw [hA] at hs
            simp only [shiftL] at hs
            simp only [popUser, Ogorek.pop, hA, hs, userOK_shift, bind, Except.bind, pure, Except.pure] at h ⊢
            cases hu : userOK x with
            | error e => rw [hu] at h; simp at h
            | ok u =>
              rw [hu] at h
              simp only at h ⊢
              simp only [Prod.mk.injEq, Except.ok.injEq] at h
              obtain ⟨rfl, rfl, rfl⟩ := h
              exact ⟨_, rfl, hr.setStack s⟩
        · simp only [Bool.not_eq_true] at hstop
          have hnm : i.isMemoize = false ∧ hasMemoize fuel rest' = false := by
            cases i <;> simp_all [Insn.isStop, Insn.isMemoize]
          cases he : exec mc none i (insn + 1) A with
          | error e =>
            exfalso
            cases i <;> simp [Insn.isStop] at hstop <;> simp only [he] at h <;> simp at h
          | ok A1 =>
            obtain ⟨B1, heB, hr1⟩ := reloc_step mc i (insn + 1) hr hnm.1 he
            have key : decodeLoop mc none fuel (insn + 1) A1 rest' = (.ok v, A', rest) := by
              cases i <;> simp [Insn.isStop] at hstop <;> simpa only [he] using h
            obtain ⟨B', hb, hrel⟩ := ih (insn + 1) A1 B1 rest' v A' rest hr1 hnm.2 key
            refine ⟨B', ?_, hrel⟩
            cases i <;> simp [Insn.isStop] at hstop <;> simp only [heB] <;> exact hb
end

/-- Does the instruction sequence hold a memo fetch (GET / BINGET / LONG_BINGET)? -/
def hasGet : Nat → Bytes → Bool
  | 0, _ => false
  | fuel + 1, inp =>
    match readByte inp with
    | .error _ => false
    | .ok (key, r) =>
      match parseArg key r with
      | .error _ => false
      | .ok (.stop, _) => false
      | .ok (i, rest) => i.isGet || hasGet fuel rest

section
variable {dh db : Nat} {H0 : List HObj}

/-- The error direction: a pickle without memo fetches and MEMOIZE that fails alone fails the same way anywhere. -/
theorem reloc_loop_err (mc : MCfg) : ∀ (fuel insn : Nat) (A B : DState) (inp : Bytes) (e : DErr) (A' : DState) (rest : Bytes),
    Reloc dh db H0 A B → hasMemoize fuel inp = false → hasGet fuel inp = false →
    decodeLoop mc none fuel insn A inp = (.error e, A', rest) →
    ∃ B', decodeLoop mc none fuel insn B inp = (.error e, B', rest) := by
  intro fuel
  induction fuel with
  | zero => intro insn A B inp e A' rest _ _ _ h; simp only [decodeLoop, Prod.mk.injEq] at h ⊢; exact ⟨B, h.1, rfl, h.2.2⟩
  | succ fuel ih =>
    intro insn A B inp e A' rest hr hm hgt h
    unfold decodeLoop at h ⊢
    unfold hasMemoize at hm
    unfold hasGet at hgt
    cases hrb : readByte inp with
    | error e0 =>
      rw [hrb] at h
      simp only [Prod.mk.injEq] at h ⊢
      exact ⟨B, h.1, rfl, h.2.2⟩
    | ok kr =>
      obtain ⟨key, r⟩ := kr
      rw [hrb] at h hm hgt
      simp only at h hm hgt ⊢
      cases hp : parseArg key r with
      | error e0 =>
        rw [hp] at h
        simp only [Prod.mk.injEq] at h ⊢
        exact ⟨B, h.1, rfl, h.2.2⟩
      | ok ir =>
        obtain ⟨i, rest'⟩ := ir
        rw [hp] at h hm hgt
        by_cases hstop : i.isStop = true
        · cases i <;> simp [Insn.isStop] at hstop
          simp only at h ⊢
          cases hA : A.stack with
          | nil =>
            have hs := hr.stack
            rw [hA] at hs
            simp only [shiftL] at hs
            simp only [popUser, Ogorek.pop, hA, hs, bind, Except.bind, Prod.mk.injEq] at h ⊢
            exact ⟨B, h.1, rfl, h.2.2⟩
          | cons x s =>
            have hs := hr.stack
            rw [hA] at hs
            simp only [shiftL] at hs
            simp only [popUser, Ogorek.pop, hA, hs, userOK_shift, bind, Except.bind, pure, Except.pure] at h ⊢
            cases hu : userOK x with
            | error e0 =>
              rw [hu] at h
              simp only [Prod.mk.injEq] at h ⊢
              exact ⟨B, h.1, rfl, h.2.2⟩
            | ok u => rw [hu] at h; simp at h
        · simp only [Bool.not_eq_true] at hstop
          have hnm : i.isMemoize = false ∧ hasMemoize fuel rest' = false := by
            cases i <;> simp_all [Insn.isStop, Insn.isMemoize]
          have hng : i.isGet = false ∧ hasGet fuel rest' = false := by
            cases i <;> simp_all [Insn.isStop, Insn.isGet]
          cases he : exec mc none i (insn + 1) A with
          | error e0 =>
            have heB := reloc_step_err mc i (insn + 1) hr hng.1 he
            have key : (Except.error e0, A, rest') = ((Except.error e, A', rest) : (M GoVal) × DState × Bytes) := by
              cases i <;> simp [Insn.isStop] at hstop <;> simpa only [he] using h
            simp only [Prod.mk.injEq] at key
            refine ⟨B, ?_⟩
            cases i <;> simp [Insn.isStop] at hstop <;> simp only [heB, key.1, key.2.2]
          | ok A1 =>
            obtain ⟨B1, heB, hr1⟩ := reloc_step mc i (insn + 1) hr hnm.1 he
            have key : decodeLoop mc none fuel (insn + 1) A1 rest' = (.error e, A', rest) := by
              cases i <;> simp [Insn.isStop] at hstop <;> simpa only [he] using h
            obtain ⟨B', hb⟩ := ih (insn + 1) A1 B1 rest' e A' rest hr1 hnm.2 hng.2 key
            refine ⟨B', ?_⟩
            cases i <;> simp [Insn.isStop] at hstop <;> simp only [heB] <;> exact hb
end

/-- **C11 (the error, too).** A pickle that uses neither MEMOIZE nor a memo fetch and FAILS on a fresh Decoder fails with the same
    error, after the same bytes, on a Decoder in any state. -/
theorem C11_relocate_err (mc : MCfg) (st : DState) (hn : 1 ≤ st.nbig) (p : Bytes) (e : DErr) (stA : DState) (rest : Bytes)
    (hm : hasMemoize (p.length + 1) p = false) (hg : hasGet (p.length + 1) p = false)
    (h : decode mc none {} p = (.error e, stA, rest)) :
    ∃ stB, decode mc none st p = (.error e, stB, rest) := by
  unfold decode at h ⊢
  refine reloc_loop_err (dh := st.heap.length) (db := st.nbig - 1) (H0 := st.heap) mc (p.length + 1) 0 _ _ p e stA rest ?_ hm hg h
  refine ⟨rfl, rfl, ⟨st.memo, by simp⟩, by simp, rfl, ?_⟩
  show st.nbig = 1 + (st.nbig - 1)
  omega

/-- **C11 (a pickle decodes the same wherever it stands).** -/
theorem C11_relocate (mc : MCfg) (st : DState) (hn : 1 ≤ st.nbig) (p : Bytes) (v : GoVal) (stA : DState) (rest : Bytes)
    (hm : hasMemoize (p.length + 1) p = false)
    (h : decode mc none {} p = (.ok v, stA, rest)) :
    ∃ stB, decode mc none st p = (.ok (shiftV st.heap.length (st.nbig - 1) v), stB, rest) ∧
      Reloc st.heap.length (st.nbig - 1) st.heap stA stB := by
  unfold decode at h ⊢
  refine reloc_loop mc (p.length + 1) 0 _ _ p v stA rest ?_ hm h
  refine ⟨rfl, rfl, ⟨st.memo, by simp⟩, by simp, rfl, ?_⟩
  show st.nbig = 1 + (st.nbig - 1)
  omega

/-- Unfolding the result: what the moved run returns unfolds to the moved unfolding — for a finite (acyclic) result,
    which holds no container reference any more, the very same value up to `*big.Int` identities. -/
theorem resolveV_reloc (dh db : Nat) (H0 HA : List HObj) (hdh : dh = H0.length) :
    ∀ (f : Nat) (v : GoVal), resolveV (H0 ++ HA.map (shiftO dh db)) f (shiftV dh db v) = shiftV dh db (resolveV HA f v)
  | 0, _ => by simp [resolveV, shiftV]
  | f + 1, v => by
    have ihl : ∀ xs : List GoVal, (shiftL dh db xs).map (resolveV (H0 ++ HA.map (shiftO dh db)) f) = shiftL dh db (xs.map (resolveV HA f)) := by
      intro xs
      induction xs with
      | nil => rfl
      | cons x xs ih => simp only [shiftL, List.map_cons, ih, resolveV_reloc dh db H0 HA hdh f x]
    have ihp : ∀ es : List (GoVal × GoVal), (shiftP dh db es).map (fun kv => (resolveV (H0 ++ HA.map (shiftO dh db)) f kv.1, resolveV (H0 ++ HA.map (shiftO dh db)) f kv.2))
        = shiftP dh db (es.map fun kv => (resolveV HA f kv.1, resolveV HA f kv.2)) := by
      intro es
      induction es with
      | nil => rfl
      | cons e es ih =>
        obtain ⟨a, b⟩ := e
        simp only [shiftP, List.map_cons, ih, resolveV_reloc dh db H0 HA hdh f a, resolveV_reloc dh db H0 HA hdh f b]
    cases v with
    | list xs => simp only [shiftV, resolveV, ihl]
    | tuple xs => simp only [shiftV, resolveV, ihl]
    | call m n xs => simp only [shiftV, resolveV, ihl]
    | ref q => simp only [shiftV, resolveV, resolveV_reloc dh db H0 HA hdh f q]
    | href id =>
      simp only [shiftV, resolveV]
      rw [hdh, List.getElem?_append_right (by omega)]
      simp only [Nat.add_sub_cancel, List.getElem?_map]
      cases hg : HA[id]? with
      | none => simp [shiftV]
      | some o =>
        simp only [Option.map_some, shiftO]
        cases o.kind <;> simp only [shiftV, ← hdh, ihl, ihp]
    | _ => simp [shiftV, resolveV]

/-- **C11 (stream of arbitrary MEMOIZE-free pickles).** If `p` decodes alone (on a fresh Decoder, consuming all of it), then on a
    Decoder in any state the stream `p ++ rest` yields first the same value (moved), and the following calls see exactly
    `rest`. -/
theorem C11_stream_any (mc : MCfg) (n : Nat) (st : DState) (hn : 1 ≤ st.nbig) (p rest : Bytes) (v : GoVal) (stA : DState)
    (hm : hasMemoize (p.length + 1) p = false)
    (h : decode mc none {} p = (.ok v, stA, [])) :
    ∃ stB, decodeStream mc none (n + 1) st (p ++ rest) =
        .ok (shiftV st.heap.length (st.nbig - 1) v) :: decodeStream mc none n stB rest ∧
      Reloc st.heap.length (st.nbig - 1) st.heap stA stB := by
  obtain ⟨stB, hb, hrel⟩ := C11_relocate mc st hn p v stA [] hm h
  exact ⟨stB, C11_stream mc none n st p rest _ stB hb, hrel⟩

/-- `"a"` memoized: SHORT_BINUNICODE, MEMOIZE, STOP. -/
def k7First : Bytes := [0x8c, 1, 97, 0x94, 46]
/-- `"b"` memoized, dropped, fetched again by index 0: SHORT_BINUNICODE, MEMOIZE, POP, BINGET 0, STOP.
    Alone this is `"b"` — what `pickle.loads` returns, and the pattern every protocol-4 pickler relies on. -/
def k7Second : Bytes := [0x8c, 1, 98, 0x94, 48, 104, 0, 46]

/-- **K7 witness.** With MEMOIZE the hypothesis of `C11_relocate` fails and so does its conclusion: the second pickle is `"b"`
    alone, but after the first pickle the same bytes return `"a"` — MEMOIZE stored `"b"` under index 1, BINGET 0 found the first
    pickle's entry. -/
theorem C11_K7_witness (c : Cfg) :
    (decode (goCfg c) none {} k7Second).1 = .ok (.str [98]) ∧
    decodeStream (goCfg c) none 2 {} (k7First ++ k7Second) = [.ok (.str [97]), .ok (.str [97])] ∧
    hasMemoize (k7Second.length + 1) k7Second = true := by
  refine ⟨?_, ?_, ?_⟩
  · simp [k7Second, decode, decodeLoop, readByte, parseArg_140, parseArg_148, parseArg_48, parseArg_104, parseArg_46,
      readCounted1, copyN, Rd.map, Rd.bind, Rd.pure, exec, goCfg, push, memoPut, memoGet, memoKey, natDigits_small,
      userOK, popUser, pop, bind, Except.bind, pure, Except.pure, List.lookup]
  · simp [k7First, k7Second, decodeStream, decode, decodeLoop, readByte, parseArg_140, parseArg_148, parseArg_48, parseArg_104, parseArg_46,
      readCounted1, copyN, Rd.map, Rd.bind, Rd.pure, exec, goCfg, push, memoPut, memoGet, memoKey, natDigits_small,
      userOK, popUser, pop, bind, Except.bind, pure, Except.pure, List.lookup]
  · simp [k7Second, hasMemoize, readByte, parseArg_140, parseArg_148, readCounted1, copyN, Rd.map, Rd.bind, Rd.pure, Insn.isMemoize]

/-- Non-vacuity: a pickle building a list, a dict and a tuple of them decodes alone and holds no MEMOIZE, so `C11_relocate`
    applies to it (`](K\x01e}\x86.`). -/
example : hasMemoize 9 [93, 40, 75, 1, 101, 125, 0x86, 46] = false ∧
    (decode (goCfg ⟨true, false⟩) none {} [93, 40, 75, 1, 101, 125, 0x86, 46]).1.toOption.isSome = true := by
  constructor
  · simp [hasMemoize, readByte, parseArg_93, parseArg_40, parseArg_75, parseArg_101, parseArg_125, parseArg_134, parseArg_46,
      Rd.map, Rd.bind, Rd.pure, Insn.isMemoize]
  · simp [decode, decodeLoop, readByte, parseArg_93, parseArg_40, parseArg_75, parseArg_101, parseArg_125, parseArg_134, parseArg_46,
      Rd.map, Rd.bind, Rd.pure, exec, goCfg, mkList, allocObj, push, splitAtMark, isMark, listAppend, userOK, userOKAll, popUser, pop,
      bind, Except.bind, pure, Except.pure, Except.toOption, dictKind]

end Ogorek
