import Ogorek.Lemmas.PkInd
import Ogorek.Props.C01Pvm
import Ogorek.Props.C02Pk

/-!
  C06 on the programs CPython's pickler writes: og-rek's decoder and (the model of) CPython's unpickler both
  accept them and return the same object — each in its own representation, `goOf obj` and `pyOf obj`.
-/
namespace Ogorek

/-- STOP after a straight-line run on the Python machine. -/
theorem pvm_of_run (st st' : PState) (pre : Bytes) (is : List Insn) (r : PyVal) (s : List PyVal)
    (hp : Parses pre is) (hnf : noFrame is = true) (hr : prunFrom is st = .ok st') (hs : st'.stack = r :: s) (F : Nat) :
    pvmLoop (F + 1 + is.length) st (pre ++ [46]) = (.ok r, { st' with stack := s }, []) := by
  rw [pvmLoop_run is pre st st' [46] (F + 1) hp hnf hr]
  exact pvmLoop_stop F st' r s [] hs

/-- The FRAME step of the load loop for a frame that reaches to the end of the input. -/
theorem pvmLoop_frame (f : Nat) (st : PState) (n : Nat) (rest : Bytes) (hin : st.inFrame = false)
    (h0 : 0 < n) (h63 : n ≤ 2 ^ 63 - 1) (hge : n ≥ rest.length) :
    pvmLoop (f + 1) st (0x95 :: (le8 n ++ rest)) = pvmLoop f { st with inFrame := true } rest := by
  rw [pvmLoop]
  have hpa : parseArg 0x95 (le8 n ++ rest) = .ok (.frame, rest) := by
    simp [parseArg_149, Rd.map, Rd.bind, Rd.pure, le8, readFull_exact 8 _ rest (natLE_length 8 _)]
  have htake : (le8 n ++ rest).take 8 = le8 n := by
    have : (le8 n).length = 8 := natLE_length 8 n
    rw [List.take_append_of_le_length (by omega), List.take_of_length_le (by omega)]
  have hle : leNat (le8 n) = n := leNat_natLE_of_lt (show n < 256 ^ 8 by omega)
  have hn0 : ¬ n = 0 := by omega
  have hgt : ¬ n > 2 ^ 63 - 1 := by omega
  simp only [readByte, hpa, frameStep, Insn.isFrame, if_true, htake, hle, hgt, if_false, hin, Bool.false_and, Bool.false_eq_true, hn0,
    hge, pexec]

/-- The core: header, optional frame, object, STOP — on the Python machine, from its initial state. -/
theorem pvm_cpickleS (mz : Option PKey → Bool) (py : Bool) (p : Nat) (hp5 : p ≤ 5) (v : PyObjS) (b : Bytes) (s' : PSt)
    (hok : pyOKp p (erase v)) (hsave : cpSaveS mz py p v ⟨0, []⟩ = some (b, s')) (framed : Bool) (hlen : (b ++ [46]).length ≤ 2 ^ 63 - 1) :
    ∃ r st', pvmLoad ((if p ≥ 2 then [0x80, UInt8.ofNat p] else []) ++
        ((if framed then 0x95 :: le8 (b ++ [46]).length else []) ++ (b ++ [46]))) = (.ok r, st', []) ∧
      PRep st'.heap r (pyOf (erase v)) := by
  obtain ⟨is, hpar, hnofr, hrun⟩ := psk_val (p := p) py v ⟨0, []⟩ b s' hok hsave
  have hislen := parses_length_le hpar
  have hpb : (UInt8.ofNat p).toNat = p := by simp [UInt8.toNat_ofNat']; omega
  -- the state after the header(s)
  let st1 : PState := { proto := if p ≥ 2 then p else 0, inFrame := framed }
  have hpo : PProtoOK (ecfg p) st1 := by
    simp only [PProtoOK, pyExecModule, pybuiltinModuleE, ecfg, st1]
    by_cases h2 : p ≥ 2
    · by_cases h3 : p < 3
      · have h1 : (p : Int) ≤ 2 := by omega
        simp [h2, h3, h1]
      · have h1 : ¬ (p : Int) ≤ 2 := by omega
        simp [h2, h3, h1]
    · have h1 : (p : Int) ≤ 2 := by omega
      simp [h2, h1]
  have hinv : PMemoInv p ⟨0, []⟩ st1 := by
    refine ⟨rfl, by simp, ?_, ?_⟩
    · intro k hk; simp [st1] at hk
    · intro k idx hk; simp at hk
  obtain ⟨st2, e2, _, _, r, hs2, _, hrep, _⟩ := hrun st1 hpo hinv
  refine ⟨r, { st2 with stack := st1.stack }, ?_, PRepG.toRep r _ hrep⟩
  -- the body, with any fuel that exceeds the input
  have hbody : ∀ fuel, (b ++ [46]).length < fuel → pvmLoop fuel st1 (b ++ [46]) = (.ok r, { st2 with stack := st1.stack }, []) := by
    intro fuel hf
    rw [pvmLoop_fuel fuel ((b ++ [46]).length + 1 + is.length) st1 (b ++ [46]) hf (by omega)]
    exact pvm_of_run st1 st2 b is r st1.stack hpar hnofr e2 hs2 (b ++ [46]).length
  -- the frame step, if any
  have hframe : ∀ (fuel : Nat) (st : PState), st.inFrame = false → { st with inFrame := framed } = st1 →
      ((if framed then 0x95 :: le8 (b ++ [46]).length else []) ++ (b ++ [46])).length < fuel →
      pvmLoop fuel st ((if framed then 0x95 :: le8 (b ++ [46]).length else []) ++ (b ++ [46])) =
        (.ok r, { st2 with stack := st1.stack }, []) := by
    intro fuel st hin hst hf
    cases hfr : framed with
    | false =>
      rw [hfr] at hf hst
      simp only [Bool.false_eq_true, if_false, List.nil_append] at hf ⊢
      have : st = st1 := by rw [← hst]; cases st; simp_all
      rw [this]
      exact hbody fuel hf
    | true =>
      rw [hfr] at hf hst
      simp only [if_true, List.cons_append] at hf ⊢
      obtain ⟨f, rfl⟩ : ∃ f, fuel = f + 1 := ⟨fuel - 1, by simp at hf; omega⟩
      have hfrm := pvmLoop_frame f st (b ++ ([46] : Bytes)).length (b ++ [46]) hin (by simp) hlen (Nat.le_refl _)
      rw [hfrm, hst]
      have hl8 : (le8 (b ++ [46]).length).length = 8 := natLE_length 8 _
      exact hbody f (by simp [hl8] at hf ⊢; omega)
  unfold pvmLoad
  by_cases h2 : p ≥ 2
  · simp only [h2, if_true]
    have e0 : ([0x80, UInt8.ofNat p] ++ ((if framed then 0x95 :: le8 (b ++ [46]).length else []) ++ (b ++ [46]))) =
        0x80 :: (UInt8.ofNat p :: ((if framed then 0x95 :: le8 (b ++ [46]).length else []) ++ (b ++ [46]))) := by simp
    rw [e0]
    have hstep := pvmLoop_step ((0x80 :: (UInt8.ofNat p :: ((if framed then 0x95 :: le8 (b ++ [46]).length else []) ++ (b ++ [46])))).length) {}
      { proto := p } 0x80
      (UInt8.ofNat p :: ((if framed then 0x95 :: le8 (b ++ [46]).length else []) ++ (b ++ [46])))
      ((if framed then 0x95 :: le8 (b ++ [46]).length else []) ++ (b ++ [46])) (.proto p)
      (by simp [parseArg_128, Rd.map, Rd.bind, readByte, Rd.pure, hpb]) rfl rfl
      (by simp [pexec, hp5])
    rw [hstep]
    exact hframe _ { proto := p } rfl (by simp [st1, h2]) (by simp only [List.length_cons]; omega)
  · simp only [h2, if_false, List.nil_append]
    exact hframe _ {} rfl (by simp [st1, h2]) (by omega)

/-- **C06 on CPython's own pickles (Python side).**  The model of CPython's unpickler loads what the model of CPython's
    pickler writes (`cpDumpsFramedS`: every protocol, memo PUTs and GETs, batches, the REDUCE forms of bytes / bytearray,
    one frame) back to the object: it raises nothing, consumes everything and returns `pyOf obj` — lists, dicts and
    bytearrays as heap objects with that content.  Hypotheses are what CPython itself demands: text is valid UTF-8, dict
    keys are hashable with at most one NaN-holding key per dict; at protocol 0 the float-text hypothesis. -/
theorem C06_pickler_pvm (mz : Option PKey → Bool) (py : Bool) (p : Nat) (hp5 : p ≤ 5) (v : PyObjS) (bs : Bytes)
    (hok : pyOKp p (erase v)) (hd : cpDumpsFramedS mz py p v = some bs) (hlen : bs.length < 2 ^ 63) :
    ∃ r st', pvmLoad bs = (.ok r, st', []) ∧ PRep st'.heap r (pyOf (erase v)) := by
  unfold cpDumpsFramedS cpDumpsBodyS at hd
  cases hs : cpSaveS mz py p v ⟨0, []⟩ with
  | none => simp [hs] at hd
  | some r0 =>
    obtain ⟨b, s'⟩ := r0
    simp only [hs, Option.map_some, Option.some.injEq] at hd
    subst hd
    have hl : (b ++ [46]).length ≤ 2 ^ 63 - 1 := by
      simp only [List.length_append] at hlen ⊢
      omega
    by_cases hf : 4 ≤ p ∧ 3 ≤ b.length
    · have := pvm_cpickleS mz py p hp5 v b s' hok hs true hl
      simpa [hf.1, hf.2] using this
    · have := pvm_cpickleS mz py p hp5 v b s' hok hs false hl
      simpa [hf] using this

/-- **C06 (the two machines agree on what CPython's pickler writes).**  For every object of the basic types with
    tree-shaped containers (str / bytes / bytearray objects may repeat), every protocol 0-5 and decoder configuration:
    the bytes CPython's pickler writes are accepted by og-rek's `Decode` on a new Decoder and by CPython's unpickler, both
    consume all of them, and they return the same object — `goOf obj` on the Go side (`Rep`), `pyOf obj` on the Python
    side (`PRep`).  Hypotheses: what each side demands of dict keys (`pkOK`: acceptable to og-rek's table and pairwise
    different for it; `pyOKp`: hashable in Python, at most one NaN key), valid UTF-8 text, bytearrays below 4 GiB, and at
    protocol 0 the float-text hypothesis. -/
theorem C06_pickler_agree (cfg : Cfg) (hook : Hook) (mz : Option PKey → Bool) (py : Bool) (p : Nat) (hp5 : p ≤ 5) (v : PyObjS) (bs : Bytes)
    (hgo : pkOK cfg p (erase v)) (hpy : pyOKp p (erase v)) (hd : cpDumpsFramedS mz py p v = some bs) (hlen : bs.length < 2 ^ 63)
    (st0 : DState) (hfresh : st0.memo = []) :
    (∃ r st', decode (goCfg cfg) hook st0 bs = (.ok r, st', []) ∧ Rep (goCfg cfg) GoVal.ref st'.heap r (goOf (erase v))) ∧
    (∃ r st', pvmLoad bs = (.ok r, st', []) ∧ PRep st'.heap r (pyOf (erase v))) :=
  ⟨C02_pickler_shared cfg hook mz py p hp5 v bs hgo hd st0 hfresh, C06_pickler_pvm mz py p hp5 v bs hpy hd hlen⟩

/-- **C06 on CPython's own pickles, binary protocols 1–5**: all hypotheses decidable (`pkOKb`, `pyOKb`) — they are evaluated for every
    case of the correspondence run. -/
theorem C06_pickler_agree_bin (cfg : Cfg) (hook : Hook) (mz : Option PKey → Bool) (py : Bool) (p : Nat) (hp1 : 1 ≤ p) (hp5 : p ≤ 5)
    (v : PyObjS) (bs : Bytes) (hgo : pkOKb cfg (erase v) = true) (hpy : pyOKb (erase v) = true)
    (hd : cpDumpsFramedS mz py p v = some bs) (hlen : bs.length < 2 ^ 63) (st0 : DState) (hfresh : st0.memo = []) :
    (∃ r st', decode (goCfg cfg) hook st0 bs = (.ok r, st', []) ∧ Rep (goCfg cfg) GoVal.ref st'.heap r (goOf (erase v))) ∧
    (∃ r st', pvmLoad bs = (.ok r, st', []) ∧ PRep st'.heap r (pyOf (erase v))) :=
  C06_pickler_agree cfg hook mz py p hp5 v bs (pkOK_of_b cfg p hp1 _ hgo) (pyOKp_of_b p hp1 _ hpy) hd hlen st0 hfresh

/-- Non-vacuity: two records sharing their key strings and a bytes object, a bytearray, a big int and a nested tuple key. -/
example : pyOKb (erase
    (.list [.dict [(.str 1 (sb "id"), .int 1), (.str 2 (sb "data"), .bytes 3 [1, 2, 255]), (.tuple [.int (2 ^ 70), .float 0x7ff8000000000000], .none)],
            .dict [(.str 1 (sb "id"), .int 2), (.str 2 (sb "data"), .bytes 3 [1, 2, 255])], .bytearray 4 [7], .bytes 5 []])) = true := by
  decide

end Ogorek
