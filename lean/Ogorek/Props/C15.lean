import Ogorek.Reflect

/-!
  C15 — Encode never panics: unsupported Go types yield an error.
-/
namespace Ogorek

def NoPanicOut (o : Out) : Prop := ∀ w, o.err ≠ some (.panic w)

theorem NoPanicOut.seq {a b : Out} (ha : NoPanicOut a) (hb : NoPanicOut b) : NoPanicOut (a +> b) := by
  intro w
  unfold Out.seq
  cases h : a.err with
  | some e => simpa [h] using ha w
  | none => exact hb w

theorem NoPanicOut.emit (bs : Bytes) : NoPanicOut (emit bs) := by intro w; simp [Ogorek.emit]
theorem NoPanicOut.nil : NoPanicOut Out.nil := by intro w; simp [Out.nil]
theorem NoPanicOut.fail {e : EncErr} (h : ∀ w, e ≠ .panic w) : NoPanicOut (failWith e) := by
  intro w; simp [failWith]; exact h w

theorem np_encodeBool (c : ECfg) (b : Bool) : NoPanicOut (encodeBool c b) := by
  unfold encodeBool; split <;> exact NoPanicOut.emit _
theorem np_encodeInt (c : ECfg) (i : Int) : NoPanicOut (encodeInt c i) := by
  unfold encodeInt; repeat' split
  all_goals exact NoPanicOut.emit _
theorem np_encodeUint (c : ECfg) (u : Nat) : NoPanicOut (encodeUint c u) := by
  unfold encodeUint; split
  · exact np_encodeInt _ _
  · exact NoPanicOut.emit _
theorem np_encodeFloat (c : ECfg) (f : F64) : NoPanicOut (encodeFloat c f) := by
  unfold encodeFloat; split <;> exact NoPanicOut.emit _
theorem np_encodeByteString (ip : IsPrint) (c : ECfg) (s : Bytes) : NoPanicOut (encodeByteString ip c s) := by
  unfold encodeByteString; split
  · apply NoPanicOut.seq
    · split <;> exact NoPanicOut.emit _
    · exact NoPanicOut.emit _
  · exact NoPanicOut.emit _
theorem np_encodeUnicode (c : ECfg) (s : Bytes) : NoPanicOut (encodeUnicode c s) := by
  unfold encodeUnicode; split
  · apply NoPanicOut.seq
    · split <;> exact NoPanicOut.emit _
    · exact NoPanicOut.emit _
  · split
    · exact NoPanicOut.emit _
    · exact NoPanicOut.fail (by intro w; simp)
theorem np_encodeString (ip : IsPrint) (c : ECfg) (s : Bytes) : NoPanicOut (encodeString ip c s) := by
  unfold encodeString; split
  · exact np_encodeUnicode _ _
  · exact np_encodeByteString _ _ _
theorem np_encodeClass (ip : IsPrint) (c : ECfg) (m n : Bytes) : NoPanicOut (encodeClass ip c m n) := by
  unfold encodeClass; split
  · exact (NoPanicOut.seq (NoPanicOut.seq (np_encodeString _ _ _) (np_encodeString _ _ _)) (NoPanicOut.emit _))
  · split
    · exact NoPanicOut.fail (by intro w; simp)
    · exact NoPanicOut.emit _
theorem np_encodeTupleOf (c : ECfg) (l : Nat) (items : Out) (h : NoPanicOut items) : NoPanicOut (encodeTupleOf c l items) := by
  unfold encodeTupleOf
  split
  · exact NoPanicOut.seq h (NoPanicOut.emit _)
  · split
    · exact NoPanicOut.emit _
    · exact NoPanicOut.seq (NoPanicOut.seq (NoPanicOut.emit _) h) (NoPanicOut.emit _)
theorem np_encodeBytes (ip : IsPrint) (c : ECfg) (s : Bytes) : NoPanicOut (encodeBytes ip c s) := by
  unfold encodeBytes; split
  · apply NoPanicOut.seq
    · split <;> exact NoPanicOut.emit _
    · exact NoPanicOut.emit _
  · exact NoPanicOut.seq (NoPanicOut.seq (np_encodeClass _ _ _ _)
      (np_encodeTupleOf _ _ _ (NoPanicOut.seq (np_encodeUnicode _ _) (np_encodeByteString _ _ _)))) (NoPanicOut.emit _)
theorem np_encodeByteArray (ip : IsPrint) (c : ECfg) (s : Bytes) : NoPanicOut (encodeByteArray ip c s) := by
  unfold encodeByteArray; split
  · exact NoPanicOut.seq (NoPanicOut.emit _) (NoPanicOut.emit _)
  · exact NoPanicOut.seq (NoPanicOut.seq (np_encodeClass _ _ _ _) (np_encodeTupleOf _ _ _ (np_encodeBytes _ _ _))) (NoPanicOut.emit _)

mutual
/-- The plain encoder never panics, on any value. -/
theorem enc_no_panic (ip : IsPrint) (c : ECfg) : ∀ v : GoVal, NoPanicOut (enc ip c v)
  | .nil | .none => by simp only [enc]; exact NoPanicOut.emit _
  | .bool b => by simp only [enc]; exact np_encodeBool _ _
  | .int i => by simp only [enc]; exact np_encodeInt _ _
  | .uint u => by simp only [enc]; exact np_encodeUint _ _
  | .big _ i => by simp only [enc, encodeLong]; exact NoPanicOut.emit _
  | .float f => by simp only [enc]; exact np_encodeFloat _ _
  | .complex _ _ => by simp only [enc]; exact NoPanicOut.fail (by intro w; simp)
  | .str s => by simp only [enc]; exact np_encodeString _ _ _
  | .bytestr s => by simp only [enc]; exact np_encodeByteString _ _ _
  | .bytes s => by simp only [enc]; exact np_encodeBytes _ _ _
  | .bytearray s => by simp only [enc]; exact np_encodeByteArray _ _ _
  | .cls m n => by simp only [enc]; exact np_encodeClass _ _ _ _
  | .user n => by
    simp only [enc]
    exact NoPanicOut.seq (NoPanicOut.seq (NoPanicOut.seq (NoPanicOut.emit _) (np_encodeString _ _ _)) (np_encodeInt _ _)) (NoPanicOut.emit _)
  | .mark => by simp only [enc]; exact NoPanicOut.seq (NoPanicOut.emit _) (NoPanicOut.emit _)
  | .href _ | .cycle => by simp only [enc]; exact NoPanicOut.fail (by intro w; simp)
  | .list xs => by
    simp only [enc]
    split
    · exact NoPanicOut.emit _
    · exact NoPanicOut.seq (NoPanicOut.seq (NoPanicOut.emit _) (encList_no_panic ip c xs)) (NoPanicOut.emit _)
  | .tuple xs => by simp only [enc]; exact np_encodeTupleOf _ _ _ (encList_no_panic ip c xs)
  | .call m n args => by
    simp only [enc]
    exact NoPanicOut.seq (NoPanicOut.seq (np_encodeClass _ _ _ _) (np_encodeTupleOf _ _ _ (encList_no_panic ip c args))) (NoPanicOut.emit _)
  | .ref p => by
    simp only [enc]
    split
    · split
      · split
        · exact NoPanicOut.fail (by intro w; simp)
        · exact NoPanicOut.emit _
      · exact NoPanicOut.fail (by intro w; simp)
    · exact NoPanicOut.seq (enc_no_panic ip c p) (NoPanicOut.emit _)
  | .map kvs => by
    simp only [enc]
    split
    · exact NoPanicOut.emit _
    · exact NoPanicOut.seq (NoPanicOut.seq (NoPanicOut.emit _) (encPairs_no_panic ip c kvs)) (NoPanicOut.emit _)
  | .dict kvs => by
    simp only [enc]
    split
    · exact NoPanicOut.emit _
    · exact NoPanicOut.seq (NoPanicOut.seq (NoPanicOut.emit _) (encPairs_no_panic ip c kvs)) (NoPanicOut.emit _)
theorem encList_no_panic (ip : IsPrint) (c : ECfg) : ∀ xs : List GoVal, NoPanicOut (encList ip c xs)
  | [] => by simp only [encList]; exact NoPanicOut.nil
  | x :: xs => by simp only [encList]; exact NoPanicOut.seq (enc_no_panic ip c x) (encList_no_panic ip c xs)
theorem encPairs_no_panic (ip : IsPrint) (c : ECfg) : ∀ kvs : List (GoVal × GoVal), NoPanicOut (encPairs ip c kvs)
  | [] => by simp only [encPairs]; exact NoPanicOut.nil
  | (k, v) :: r => by
    simp only [encPairs]
    exact NoPanicOut.seq (NoPanicOut.seq (enc_no_panic ip c k) (enc_no_panic ip c v)) (encPairs_no_panic ip c r)
end

mutual
/-- Well-formed reflect values: the placeholder for unexported content occurs only as the
    content of unexported fields (reflect gives no other way to reach it from an `any`). -/
def rwf : RVal → Bool
  | .zero => false
  | .seq xs => rwfList xs
  | .tuple xs => rwfList xs
  | .map kvs => rwfPairs kvs
  | .ptr v => rwf v
  | .strct fs => rwfFields fs
  | _ => true
def rwfList : List RVal → Bool
  | [] => true
  | x :: xs => rwf x && rwfList xs
def rwfPairs : List (RVal × RVal) → Bool
  | [] => true
  | (k, v) :: r => rwf k && rwf v && rwfPairs r
def rwfFields : List (Bytes × Bool × Option Bytes × RVal) → Bool
  | [] => true
  | (_, exported, _, v) :: r => (!exported || rwf v) && rwfFields r
end

mutual
/-- **C15 (total).** For every value of every generated type — channels, funcs, complex numbers, byte
    arrays held by value, nil pointers and interfaces, pointer chains, structs with unexported,
    embedded or tagged fields, maps with any key type — the encoder returns: it never panics. -/
theorem C15_total (ip : IsPrint) (c : ECfg) : ∀ v : RVal, rwf v = true → NoPanicOut (encR ip c v)
  | .val v, _ => by simp only [encR]; exact enc_no_panic ip c v
  | .unsupported k, _ => by simp only [encR]; exact NoPanicOut.fail (by intro w; simp)
  | .invalid, _ => by simp only [encR]; exact NoPanicOut.emit _
  | .zero, h => by simp [rwf] at h
  | .bytearr bs, _ => by simp only [encR]; exact np_encodeByteArray _ _ _
  | .ptr v, h => by simp only [rwf] at h; simp only [encR]; exact C15_total ip c v h
  | .seq xs, h => by
    simp only [rwf] at h; simp only [encR]
    split
    · exact NoPanicOut.emit _
    · exact NoPanicOut.seq (NoPanicOut.seq (NoPanicOut.emit _) (C15_totalList ip c xs h)) (NoPanicOut.emit _)
  | .tuple xs, h => by
    simp only [rwf] at h; simp only [encR]
    exact np_encodeTupleOf _ _ _ (C15_totalList ip c xs h)
  | .map kvs, h => by
    simp only [rwf] at h; simp only [encR]
    split
    · exact NoPanicOut.emit _
    · exact NoPanicOut.seq (NoPanicOut.seq (NoPanicOut.emit _) (C15_totalPairs ip c kvs h)) (NoPanicOut.emit _)
  | .strct fs, h => by
    simp only [rwf] at h; simp only [encR]
    exact NoPanicOut.seq (NoPanicOut.seq (NoPanicOut.emit _) (C15_totalFields ip c _ fs h)) (NoPanicOut.emit _)
theorem C15_totalList (ip : IsPrint) (c : ECfg) : ∀ xs : List RVal, rwfList xs = true → NoPanicOut (encRList ip c xs)
  | [], _ => by simp only [encRList]; exact NoPanicOut.nil
  | x :: xs, h => by
    simp only [rwfList, Bool.and_eq_true] at h; simp only [encRList]
    exact NoPanicOut.seq (C15_total ip c x h.1) (C15_totalList ip c xs h.2)
theorem C15_totalPairs (ip : IsPrint) (c : ECfg) : ∀ kvs : List (RVal × RVal), rwfPairs kvs = true → NoPanicOut (encRPairs ip c kvs)
  | [], _ => by simp only [encRPairs]; exact NoPanicOut.nil
  | (k, v) :: r, h => by
    simp only [rwfPairs, Bool.and_eq_true] at h; simp only [encRPairs]
    exact NoPanicOut.seq (NoPanicOut.seq (C15_total ip c k h.1.1) (C15_total ip c v h.1.2)) (C15_totalPairs ip c r h.2)
theorem C15_totalFields (ip : IsPrint) (c : ECfg) (tagged : Bool) :
    ∀ fs : List (Bytes × Bool × Option Bytes × RVal), rwfFields fs = true → NoPanicOut (encRFields ip c tagged fs)
  | [], _ => by simp only [encRFields]; exact NoPanicOut.nil
  | (name, exported, tag, v) :: r, h => by
    simp only [rwfFields, Bool.and_eq_true, Bool.or_eq_true, Bool.not_eq_true'] at h
    simp only [encRFields]
    apply NoPanicOut.seq _ (C15_totalFields ip c tagged r h.2)
    cases exported with
    | false => simp; exact NoPanicOut.nil
    | true =>
      have hv : rwf v = true := by simpa using h.1
      simp only [Bool.not_true, Bool.false_eq_true, if_false]
      split
      · split
        · exact NoPanicOut.seq (np_encodeString _ _ _) (C15_total ip c v hv)
        · exact NoPanicOut.nil
      · exact NoPanicOut.seq (np_encodeString _ _ _) (C15_total ip c v hv)
end

/-- **C15 (kind).** A value of an unsupported kind is answered with a `*TypeError` naming that kind. -/
theorem C15_kind (ip : IsPrint) (c : ECfg) (k : String) : encR ip c (.unsupported k) = ⟨[], some (.typeError k)⟩ := by
  simp [encR, failWith]

/-- A nil pointer or nil interface encodes as None; a byte array by value as a bytearray. -/
theorem C15_nil_and_arrays (ip : IsPrint) (c : ECfg) (bs : Bytes) :
    encR ip c .invalid = emit [78] ∧ encR ip c (.bytearr bs) = encodeByteArray ip c bs := by
  simp [encR]

end Ogorek
