import Ogorek.Props.C18
import Ogorek.Props.C03

/-! C18 — the inverse-hooks round trip (on top of the per-call theorems of `Props/C18.lean`). -/

namespace Ogorek

/-- **C03 with a PersistentLoad hook.** The round trip from any decoder state when the Decoder has a
    hook: every Ref the encoder wrote is handed to the hook and replaced by what it returns (`ρ`,
    `HookFor`: never the marker, never an error, the same answer whatever the call index).  `rk = false`:
    no Ref inside a map / Dict key (a hook may turn it into an object of another type). -/
theorem C03_roundtrip_hook (ip : IsPrint) (hip : ip 10 = false) (c : ECfg) (cfg : Cfg) (hook : Hook) (ρ : GoVal → GoVal)
    (hh : HookFor hook ρ) (v : GoVal)
    (hp0 : 0 ≤ c.proto) (hp5 : c.proto ≤ 5) (hsu : cfg.su = c.su)
    (hc : canon cfg false v = true) (hf : FloatsOK c (floatsOf v)) (he : (encodeTop ip c none v).err = none) (st0 : DState) :
    ∃ r st', decode (goCfg cfg) hook st0 (flat (encodeTop ip c none v)) = (.ok r, st', []) ∧
      Rep (goCfg cfg) ρ st'.heap r v := by
  have hrange : (0 ≤ c.proto ∧ c.proto ≤ 5) := ⟨hp0, hp5⟩
  have hdr_err : (if c.proto ≥ 2 then emit [0x80, UInt8.ofNat c.proto.toNat] else Out.nil).err = none := by
    split <;> rfl
  have etop : encodeTop ip c none v =
      (if c.proto ≥ 2 then emit [0x80, UInt8.ofNat c.proto.toNat] else Out.nil) +> enc ip c v +> emit [46] := by
    simp [encodeTop, hrange]
  rw [etop] at he ⊢
  obtain ⟨h12, _⟩ := seq_err_none he
  obtain ⟨_, hev⟩ := seq_err_none h12
  obtain ⟨is, hpar, hrun⟩ := rt_val (mc := goCfg cfg) (hook := hook) (ρ := ρ) (rk := false) ip hh (fun h => by cases h) hip hsu rfl v hc hf hev
  rw [flat_seq _ _ h12, flat_seq _ _ hdr_err, flat_emit]
  unfold decode
  by_cases h2 : c.proto ≥ 2
  · simp only [h2, if_true, flat_emit]
    have hpb : (UInt8.ofNat c.proto.toNat).toNat = c.proto.toNat := by simp [UInt8.toNat_ofNat']; omega
    let st1 : DState := { st0 with stack := [], proto := c.proto.toNat }
    have hpo : ProtoOK c st1 := by
      simp only [ProtoOK, pybuiltinModule, pybuiltinModuleE, st1]
      have : (c.proto.toNat ≤ 2) ↔ (c.proto ≤ 2) := by omega
      simp [this]
    obtain ⟨st2, e2, _, r, hs2, hrep⟩ := hrun 1 st1 hpo
    let F := ([0x80, UInt8.ofNat c.proto.toNat] ++ flat (enc ip c v) ++ [46]).length
    have hfuel := decodeLoop_fuel (goCfg cfg) hook
      (([0x80, UInt8.ofNat c.proto.toNat] ++ flat (enc ip c v) ++ [46]).length + 1)
      ((F + 1 + is.length) + 1) 0 { st0 with stack := [], proto := 0 }
      ([0x80, UInt8.ofNat c.proto.toNat] ++ flat (enc ip c v) ++ [46]) (by omega)
      (by simp [F]; omega)
    rw [hfuel]
    have hstep := decodeLoop_step (goCfg cfg) hook (F + 1 + is.length) 0 { st0 with stack := [], proto := 0 } st1 0x80
      (UInt8.ofNat c.proto.toNat :: (flat (enc ip c v) ++ [46])) (flat (enc ip c v) ++ [46]) (.proto c.proto.toNat)
      (by simp [parseArg_128, Rd.map, Rd.bind, readByte, Rd.pure, hpb]) rfl
      (by
        have : c.proto.toNat ≤ 5 := by omega
        simp [exec, this, st1])
    have e0 : ([0x80, UInt8.ofNat c.proto.toNat] ++ flat (enc ip c v) ++ [46]) =
        0x80 :: (UInt8.ofNat c.proto.toNat :: (flat (enc ip c v) ++ [46])) := by simp
    rw [e0, hstep, decodeLoop_run (goCfg cfg) hook is (flat (enc ip c v)) (0 + 1) st1 st2 [46] (F + 1) hpar e2]
    rw [decodeLoop_stop (goCfg cfg) hook F _ st2 r st1.stack [] hs2 hrep.not_mark]
    exact ⟨r, _, rfl, hrep⟩
  · simp only [h2, if_false, flat, Out.nil, List.flatten_nil, List.nil_append]
    have hpo : ProtoOK c { st0 with stack := [], proto := 0 } := by
      simp only [ProtoOK, pybuiltinModule, pybuiltinModuleE]
      have : c.proto ≤ 2 := by omega
      simp [this]
    obtain ⟨st2, e2, _, r, hs2, hrep⟩ := hrun 0 _ hpo
    let F := ((enc ip c v).chunks.flatten ++ [46]).length
    have hfuel := decodeLoop_fuel (goCfg cfg) hook
      (((enc ip c v).chunks.flatten ++ [46]).length + 1) ((F + 1) + is.length) 0 { st0 with stack := [], proto := 0 }
      ((enc ip c v).chunks.flatten ++ [46]) (by omega)
      (by simp [F]; omega)
    rw [hfuel]
    have hrun' := decodeLoop_run (goCfg cfg) hook is (flat (enc ip c v)) 0 _ st2 [46] (F + 1) hpar e2
    simp only [flat] at hrun'
    rw [hrun', decodeLoop_stop (goCfg cfg) hook F _ st2 r [] [] hs2 hrep.not_mark]
    exact ⟨r, _, rfl, hrep⟩

end Ogorek

namespace Ogorek

mutual
/-- `r` is the graph `v0` again: like `Rep`, and application object `n` is application object `n`. -/
def RepU (mc : MCfg) (ρ : GoVal → GoVal) (heap : List HObj) (r : GoVal) : GoVal → Prop
  | .user n => r = .user n
  | .list xs => ∃ rs, r = .list rs ∧ RepUList mc ρ heap rs xs
  | .tuple xs => ∃ rs, r = .tuple rs ∧ RepUList mc ρ heap rs xs
  | .call m n args => ∃ rs, r = .call m n rs ∧ RepUList mc ρ heap rs args
  | .map kvs => ∃ id es, r = .href id ∧ heap[id]? = some { kind := dictKind mc.cfg, kvs := es } ∧ RepUPairs mc ρ heap es kvs
  | .dict kvs => ∃ id es, r = .href id ∧ heap[id]? = some { kind := dictKind mc.cfg, kvs := es } ∧ RepUPairs mc ρ heap es kvs
  | v => Rep mc ρ heap r v
def RepUList (mc : MCfg) (ρ : GoVal → GoVal) (heap : List HObj) : List GoVal → List GoVal → Prop
  | [], [] => True
  | r :: rs, x :: xs => RepU mc ρ heap r x ∧ RepUList mc ρ heap rs xs
  | _, _ => False
def RepUPairs (mc : MCfg) (ρ : GoVal → GoVal) (heap : List HObj) : Entries → List (GoVal × GoVal) → Prop
  | [], [] => True
  | (rk, rv) :: es, (k, v) :: kvs => RepU mc ρ heap rk k ∧ RepU mc ρ heap rv v ∧ RepUPairs mc ρ heap es kvs
  | _, _ => False
end

mutual
/-- No application object inside. -/
def noUser : GoVal → Bool
  | .user _ => false
  | .list xs | .tuple xs => noUserList xs
  | .call _ _ args => noUserList args
  | .map kvs | .dict kvs => noUserPairs kvs
  | .ref p => noUser p
  | _ => true
def noUserList : List GoVal → Bool
  | [] => true
  | x :: xs => noUser x && noUserList xs
def noUserPairs : List (GoVal × GoVal) → Bool
  | [] => true
  | (k, v) :: r => noUser k && noUser v && noUserPairs r
end

mutual
theorem substRefs_noUser (g : Nat → Option GoVal) : (v : GoVal) → noUser v = true → substRefs g v = v
  | .user _, h => by simp [noUser] at h
  | .list xs, h => by simp only [noUser] at h; simp [substRefs, substRefsList_noUser g xs h]
  | .tuple xs, h => by simp only [noUser] at h; simp [substRefs, substRefsList_noUser g xs h]
  | .call m n args, h => by simp only [noUser] at h; simp [substRefs, substRefsList_noUser g args h]
  | .map kvs, h => by simp only [noUser] at h; simp [substRefs, substRefsPairs_noUser g kvs h]
  | .dict kvs, h => by simp only [noUser] at h; simp [substRefs, substRefsPairs_noUser g kvs h]
  | .ref p, h => by simp only [noUser] at h; simp [substRefs, substRefs_noUser g p h]
  | .none, _ | .nil, _ | .bool _, _ | .int _, _ | .uint _, _ | .big _ _, _ | .float _, _ | .complex _ _, _ | .str _, _
  | .bytestr _, _ | .bytes _, _ | .bytearray _, _ | .cls _ _, _ | .mark, _ | .href _, _ | .cycle, _ => by simp [substRefs]
theorem substRefsList_noUser (g : Nat → Option GoVal) : (xs : List GoVal) → noUserList xs = true → substRefsList g xs = xs
  | [], _ => rfl
  | x :: xs, h => by
    simp only [noUserList, Bool.and_eq_true] at h
    simp [substRefsList, substRefs_noUser g x h.1, substRefsList_noUser g xs h.2]
theorem substRefsPairs_noUser (g : Nat → Option GoVal) : (kvs : List (GoVal × GoVal)) → noUserPairs kvs = true →
    substRefsPairs g kvs = kvs
  | [], _ => rfl
  | (k, v) :: r, h => by
    simp only [noUserPairs, Bool.and_eq_true] at h
    simp [substRefsPairs, substRefs_noUser g k h.1.1, substRefs_noUser g v h.1.2, substRefsPairs_noUser g r h.2]
end

mutual
/-- Every application object of the graph is mapped to a persistent id, and no explicit Ref holds one. -/
def usersMapped (g : Nat → Option GoVal) : GoVal → Bool
  | .user n => (g n).isSome
  | .list xs | .tuple xs => usersMappedList g xs
  | .call _ _ args => usersMappedList g args
  | .map kvs | .dict kvs => usersMappedPairs g kvs
  | .ref p => noUser p
  | _ => true
def usersMappedList (g : Nat → Option GoVal) : List GoVal → Bool
  | [] => true
  | x :: xs => usersMapped g x && usersMappedList g xs
def usersMappedPairs (g : Nat → Option GoVal) : List (GoVal × GoVal) → Bool
  | [] => true
  | (k, v) :: r => usersMapped g k && usersMapped g v && usersMappedPairs g r
end

section inv
variable {mc : MCfg} {ρ : GoVal → GoVal} {g : Nat → Option GoVal}

mutual
theorem repU_of_rep (hstr : ∀ n pid, g n = some pid → ∃ s, pid = .str s)
    (hinv : ∀ n s, g n = some (.str s) → ρ (.str s) = .user n) {h : List HObj} {r : GoVal} :
    (v0 : GoVal) → usersMapped g v0 = true → Rep mc ρ h r (substRefs g v0) → RepU mc ρ h r v0
  | .user n, hm, hr => by
    simp only [usersMapped] at hm
    cases hg : g n with
    | none => rw [hg] at hm; simp at hm
    | some pid =>
      obtain ⟨s, rfl⟩ := hstr n pid hg
      simp only [substRefs, hg, Rep] at hr
      obtain ⟨p, rfl, _, hp⟩ := hr
      subst hp
      simp only [RepU]
      exact hinv n s hg
  | .list xs, hm, hr => by
    simp only [usersMapped] at hm
    simp only [substRefs, Rep] at hr
    obtain ⟨rs, rfl, hl⟩ := hr
    simp only [RepU]
    exact ⟨rs, rfl, repUList_of_rep hstr hinv xs hm hl⟩
  | .tuple xs, hm, hr => by
    simp only [usersMapped] at hm
    simp only [substRefs, Rep] at hr
    obtain ⟨rs, rfl, hl⟩ := hr
    simp only [RepU]
    exact ⟨rs, rfl, repUList_of_rep hstr hinv xs hm hl⟩
  | .call m n args, hm, hr => by
    simp only [usersMapped] at hm
    simp only [substRefs, Rep] at hr
    obtain ⟨rs, rfl, hl⟩ := hr
    simp only [RepU]
    exact ⟨rs, rfl, repUList_of_rep hstr hinv args hm hl⟩
  | .map kvs, hm, hr => by
    simp only [usersMapped] at hm
    simp only [substRefs, Rep] at hr
    obtain ⟨id, es, rfl, hg, hp⟩ := hr
    simp only [RepU]
    exact ⟨id, es, rfl, hg, repUPairs_of_rep hstr hinv kvs hm hp⟩
  | .dict kvs, hm, hr => by
    simp only [usersMapped] at hm
    simp only [substRefs, Rep] at hr
    obtain ⟨id, es, rfl, hg, hp⟩ := hr
    simp only [RepU]
    exact ⟨id, es, rfl, hg, repUPairs_of_rep hstr hinv kvs hm hp⟩
  | .ref p, hm, hr => by
    simp only [usersMapped] at hm
    simp only [substRefs, substRefs_noUser g p hm] at hr
    simpa only [RepU] using hr
  | .none, _, hr | .nil, _, hr | .bool _, _, hr | .int _, _, hr | .uint _, _, hr | .big _ _, _, hr | .float _, _, hr
  | .complex _ _, _, hr | .str _, _, hr | .bytestr _, _, hr | .bytes _, _, hr | .bytearray _, _, hr | .cls _ _, _, hr
  | .mark, _, hr | .href _, _, hr | .cycle, _, hr => by
    simpa only [RepU, substRefs] using hr
theorem repUList_of_rep (hstr : ∀ n pid, g n = some pid → ∃ s, pid = .str s)
    (hinv : ∀ n s, g n = some (.str s) → ρ (.str s) = .user n) {h : List HObj} : {rs : List GoVal} → (xs : List GoVal) →
    usersMappedList g xs = true → RepList mc ρ h rs (substRefsList g xs) → RepUList mc ρ h rs xs
  | [], [], _, _ => by simp [RepUList]
  | _ :: _, [], _, hr => by simp [substRefsList, RepList] at hr
  | [], _ :: _, _, hr => by simp [substRefsList, RepList] at hr
  | r :: rs, x :: xs, hm, hr => by
    simp only [usersMappedList, Bool.and_eq_true] at hm
    simp only [substRefsList, RepList] at hr
    simp only [RepUList]
    exact ⟨repU_of_rep hstr hinv x hm.1 hr.1, repUList_of_rep hstr hinv xs hm.2 hr.2⟩
theorem repUPairs_of_rep (hstr : ∀ n pid, g n = some pid → ∃ s, pid = .str s)
    (hinv : ∀ n s, g n = some (.str s) → ρ (.str s) = .user n) {h : List HObj} : {es : Entries} → (kvs : List (GoVal × GoVal)) →
    usersMappedPairs g kvs = true → RepPairs mc ρ h es (substRefsPairs g kvs) → RepUPairs mc ρ h es kvs
  | [], [], _, _ => by simp [RepUPairs]
  | _ :: _, [], _, hr => by simp [substRefsPairs, RepPairs] at hr
  | [], _ :: _, _, hr => by simp [substRefsPairs, RepPairs] at hr
  | (rk, rv) :: es, (k, v) :: kvs, hm, hr => by
    simp only [usersMappedPairs, Bool.and_eq_true] at hm
    simp only [substRefsPairs, RepPairs] at hr
    simp only [RepUPairs]
    exact ⟨repU_of_rep hstr hinv k hm.1.1 hr.1, repU_of_rep hstr hinv v hm.1.2 hr.2.1, repUPairs_of_rep hstr hinv kvs hm.2 hr.2.2⟩
end

end inv

/-- **C18 (inverse hooks restore the graph).** `Encode` with a `PersistentRef` that maps every application
    object of the graph to a string id, followed by `Decode` with a `PersistentLoad` that answers each of
    those ids with the object it came from (`hinv`; for other ids any answer allowed by `HookFor`), returns
    the graph again: the same application objects at the same places, everything else identical in type
    and content — at every protocol 0..5 (the protocol-0 limitation on ids shows as `Encode`'s error,
    excluded by `he`), for both modes, from any decoder state. -/
theorem C18_inverse_hooks (ip : IsPrint) (hip : ip 10 = false) (c : ECfg) (cfg : Cfg)
    (g : Nat → Option GoVal) (load : Nat → GoVal → LoadResult) (ρ : GoVal → GoVal)
    (hh : HookFor (some load) ρ)
    (hstr : ∀ n pid, g n = some pid → ∃ s, pid = .str s)
    (hinv : ∀ n s, g n = some (.str s) → ρ (.str s) = .user n)
    (v0 : GoVal) (hm : usersMapped g v0 = true)
    (hp0 : 0 ≤ c.proto) (hp5 : c.proto ≤ 5) (hsu : cfg.su = c.su)
    (hc : canon cfg false (substRefs g v0) = true) (hf : FloatsOK c (floatsOf (substRefs g v0)))
    (he : (encodeTop ip c (some g) v0).err = none) (st0 : DState) :
    ∃ r st', decode (goCfg cfg) (some load) st0 (flat (encodeTop ip c (some g) v0)) = (.ok r, st', []) ∧
      RepU (goCfg cfg) ρ st'.heap r v0 := by
  have e : encodeTop ip c (some g) v0 = encodeTop ip c none (substRefs g v0) := by
    simp [encodeTop]
  rw [e] at he ⊢
  obtain ⟨r, st', hdec, hrep⟩ := C03_roundtrip_hook ip hip c cfg (some load) ρ hh _ hp0 hp5 hsu hc hf he st0
  exact ⟨r, st', hdec, repU_of_rep hstr hinv v0 hm hrep⟩

end Ogorek

namespace Ogorek

/-- Non-vacuity: a PersistentRef mapping object 7 to the id "k7", the inverse PersistentLoad, and a graph
    `[obj7, (obj7, 1)]` meet the hypotheses of `C18_inverse_hooks`. -/
example :
    let g : Nat → Option GoVal := fun n => if n = 7 then some (.str (sb "k7")) else none
    let load : Nat → GoVal → LoadResult := fun _ r =>
      match r with
      | .ref (.str s) => if s = sb "k7" then .replace (.user 7) else .keep
      | _ => .keep
    let ρ : GoVal → GoVal := fun p =>
      match p with
      | .str s => if s = sb "k7" then .user 7 else .ref (.str s)
      | q => .ref q
    HookFor (some load) ρ ∧ (∀ n pid, g n = some pid → ∃ s, pid = .str s) ∧
      (∀ n s, g n = some (.str s) → ρ (.str s) = .user n) ∧
      usersMapped g (.list [.user 7, .tuple [.user 7, .int 1]]) = true ∧
      canon { pyDict := true, su := false } false (substRefs g (.list [.user 7, .tuple [.user 7, .int 1]])) = true := by
  intro g load ρ
  refine ⟨⟨?_, ?_⟩, ?_, ?_, by decide, by decide⟩
  · intro p
    cases p <;> simp only [ρ] <;> (try rfl)
    split <;> rfl
  · intro idx p
    cases p
    case str s =>
      simp only [load, ρ]
      split
      · exact Or.inl rfl
      · exact Or.inr ⟨rfl, rfl⟩
    all_goals exact Or.inr ⟨rfl, rfl⟩
  · intro n pid h
    simp only [g] at h
    split at h
    · exact ⟨_, (Option.some.inj h).symm⟩
    · cases h
  · intro n s h
    simp only [g] at h
    split at h
    · rename_i hn
      have hs : s = sb "k7" := by
        have := Option.some.inj h; cases this; rfl
      subst hn; subst hs
      simp [ρ]
    · cases h

end Ogorek
