import Ogorek.Props.C07

/-!
  C08 — Dict is a correct map under every history of Set, Del, Get and Iter.

  `gomap.Map` is modelled by an abstract table (a list of entries) whose `Delete` and `Get` act
  on *some* entry equal to the query, chosen by an arbitrary function `pick` (this is what a
  bucket search gives when `equal a b → hash a = hash b` holds — C07_hash — and nothing more).
  Every theorem is for every `pick`.
-/
namespace Ogorek

theorem matching_eraseIdx_length (es : Entries) (q : GoVal) (i : Nat) (e : GoVal × GoVal)
    (hi : es[i]? = some e) (hm : goEqual q e.1 = true) :
    (matching (es.eraseIdx i) q).length + 1 = (matching es q).length ∧
    (es.eraseIdx i).filter (fun e => !goEqual q e.1) = es.filter (fun e => !goEqual q e.1) := by
  induction es generalizing i with
  | nil => simp at hi
  | cons x xs ih =>
    cases i with
    | zero =>
      simp at hi; subst hi
      simp [matching, List.filter, hm]
    | succ i =>
      simp at hi
      obtain ⟨h1, h2⟩ := ih i hi
      simp only [List.eraseIdx_cons_succ, matching, List.filter] at h1 h2 ⊢
      cases hx : goEqual q x.1 <;> simp [hx] <;> first | exact ⟨by simpa [matching] using h1, h2⟩ | (constructor; (simp [matching] at h1; omega); exact h2)


/-- One `Delete`: either nothing matches and nothing changes, or one matching entry goes. -/
theorem tableDelete_spec (pick : Entries → Nat) (es : Entries) (q : GoVal) :
    (matching es q = [] ∧ tableDelete pick es q = es) ∨
    (∃ i e, es[i]? = some e ∧ goEqual q e.1 = true ∧ tableDelete pick es q = es.eraseIdx i) := by
  unfold tableDelete
  generalize hms : (List.range es.length).filter (fun i => match es[i]? with
    | some e => goEqual q e.1
    | none => false) = ms
  by_cases hempty : ms = []
  · left
    subst hempty
    constructor
    · -- no index matches, so no entry matches
      unfold matching
      apply List.filter_eq_nil_iff.mpr
      intro e he
      obtain ⟨i, hi, hie⟩ := List.getElem_of_mem he
      have hmem : i ∈ (List.range es.length).filter (fun i => match es[i]? with
          | some e => goEqual q e.1
          | none => false) → False := by rw [hms]; simp
      intro hq
      apply hmem
      simp only [List.mem_filter, List.mem_range]
      refine ⟨hi, ?_⟩
      rw [List.getElem?_eq_getElem hi, hie]; exact hq
    · simp
  · right
    have hlen : 0 < ms.length := List.length_pos_iff.mpr hempty
    have hne : ¬ ms.length = 0 := by omega
    simp only [hne, if_false]
    have hlt : pick es % ms.length < ms.length := Nat.mod_lt _ hlen
    rw [List.getElem?_eq_getElem hlt]
    simp only
    have hmem : ms[pick es % ms.length] ∈ ms := List.getElem_mem hlt
    generalize ms[pick es % ms.length] = i at hmem ⊢
    rw [← hms] at hmem
    simp only [List.mem_filter, List.mem_range] at hmem
    obtain ⟨hi, hq⟩ := hmem
    rw [List.getElem?_eq_getElem hi] at hq
    exact ⟨i, es[i], List.getElem?_eq_getElem hi, hq, rfl⟩

/-- **C08 (Del).** Whatever the table picks, `Del` removes exactly the entries equal to its argument
    (the loop terminates: each round removes one of them). -/
theorem dictDelLoop_spec (pick : Entries → Nat) : ∀ (fuel : Nat) (es : Entries) (q : GoVal),
    (matching es q).length < fuel → dictDelLoop pick fuel es q = es.filter (fun e => !goEqual q e.1) := by
  intro fuel
  induction fuel with
  | zero => intro es q h; omega
  | succ fuel ih =>
    intro es q hf
    unfold dictDelLoop
    simp only
    rcases tableDelete_spec pick es q with ⟨hnone, hsame⟩ | ⟨i, e, hi, hm, hdel⟩
    · rw [hsame]
      simp only [hnone, List.isEmpty_nil, if_true]
      -- nothing matches: the filter keeps everything
      unfold matching at hnone
      have := List.filter_eq_nil_iff.mp hnone
      apply Eq.symm
      apply List.filter_eq_self.mpr
      intro x hx
      have := this x hx
      simpa using this
    · rw [hdel]
      obtain ⟨hcount, hfilter⟩ := matching_eraseIdx_length es q i e hi hm
      split
      · rename_i hemp
        rw [← hfilter]
        have : matching (es.eraseIdx i) q = [] := List.isEmpty_iff.mp hemp
        unfold matching at this
        have h0 := List.filter_eq_nil_iff.mp this
        apply Eq.symm
        apply List.filter_eq_self.mpr
        intro x hx
        have := h0 x hx
        simpa using this
      · rw [ih _ _ (by omega), hfilter]

theorem matching_length_le (es : Entries) (q : GoVal) : (matching es q).length ≤ es.length := by
  unfold matching; exact List.length_filter_le _ _

/-- `Dict.Del` in closed form, for every `pick`. -/
theorem C08_del (pick : Entries → Nat) (es : Entries) (q : GoVal) :
    dictDel pick es q = es.filter (fun e => !goEqual q e.1) := by
  unfold dictDel
  exact dictDelLoop_spec pick _ _ _ (by have := matching_length_le es q; omega)

/-- **C08 (Set).** `Set` first removes every entry whose key equals its argument, then adds the new
    one — for every `pick` this is the pick-free `dictSetSpec` the decoder model uses. -/
theorem C08_set (pick : Entries → Nat) (es : Entries) (k v : GoVal) :
    dictSet pick es k v = dictSetSpec es k v := by
  unfold dictSet dictSetSpec
  rw [C08_del]

/-- After `Set k v` the only entry equal to `k` (from `k`'s side) is the new one. -/
theorem C08_set_del (es : Entries) (k v : GoVal) (e : GoVal × GoVal) (he : e ∈ dictSetSpec es k v)
    (hq : goEqual k e.1 = true) : e = (k, v) := by
  unfold dictSetSpec at he
  simp only [List.mem_append, List.mem_filter, List.mem_singleton] at he
  rcases he with ⟨_, h⟩ | h
  · simp [hq] at h
  · exact h

/-- After `Del k` no entry equal to `k` is left. -/
theorem C08_del_none (pick : Entries → Nat) (es : Entries) (k : GoVal) : matching (dictDel pick es k) k = [] := by
  rw [C08_del]
  unfold matching
  apply List.filter_eq_nil_iff.mpr
  intro e he
  simp only [List.mem_filter] at he
  simpa using he.2


/-! ### histories -/

inductive DictOp where
  | set (k v : GoVal)
  | del (k : GoVal)
  | get (k : GoVal)

/-- One operation on the table (Get does not change it). -/
def dictStep (pick : Entries → Nat) (es : Entries) : DictOp → Entries
  | .set k v => dictSet pick es k v
  | .del k => dictDel pick es k
  | .get _ => es

/-- No two stored keys are equal to each other. -/
def NoEqualKeys (es : Entries) : Prop := es.Pairwise fun x y => goEqual x.1 y.1 = false

theorem NoEqualKeys.filter {es : Entries} (h : NoEqualKeys es) (p : GoVal × GoVal → Bool) : NoEqualKeys (es.filter p) :=
  List.Pairwise.filter p h

/-- **C08 (invariant, one step).** -/
theorem C08_inv_step (pick : Entries → Nat) (es : Entries) (op : DictOp) (h : NoEqualKeys es) :
    NoEqualKeys (dictStep pick es op) := by
  cases op with
  | get k => exact h
  | del k => simp only [dictStep, C08_del]; exact h.filter _
  | set k v =>
    simp only [dictStep, C08_set, dictSetSpec]
    unfold NoEqualKeys
    rw [List.pairwise_append]
    refine ⟨h.filter _, by simp, ?_⟩
    intro x hx y hy
    simp only [List.mem_filter] at hx
    simp only [List.mem_singleton] at hy
    subst hy
    -- x was kept because k is not equal to it; equality is symmetric
    have : goEqual k x.1 = false := by simpa using hx.2
    rw [C07_symm]; exact this

/-- **C08 (invariant).** After any sequence of Set, Del and Get on an empty Dict — for every way the
    table resolves its choices — no two stored keys are equal to each other. -/
theorem C08_inv (pick : Entries → Nat) (ops : List DictOp) : NoEqualKeys (ops.foldl (dictStep pick) []) := by
  suffices ∀ es, NoEqualKeys es → NoEqualKeys (ops.foldl (dictStep pick) es) from this [] List.Pairwise.nil
  induction ops with
  | nil => intro es h; exact h
  | cons op ops ih => intro es h; exact ih _ (C08_inv_step pick es op h)

/-- **C08 (Len / Iter).** `Len` is the number of entries `Iter` yields; each entry once (the table
    *is* the list of entries). -/
theorem C08_len_iter (es : Entries) : es.length = (es.map id).length := by simp

/-- **C08 (Get, any).** `Get` returns the value of *an* entry whose key equals the query,
    and nothing if there is none. -/
theorem C08_get_any (pick : Entries → Nat) (es : Entries) (q : GoVal) :
    (matching es q = [] ∧ tableGet pick es q = none) ∨
    (∃ e ∈ es, goEqual q e.1 = true ∧ tableGet pick es q = some e.2) := by
  unfold tableGet
  by_cases hm : matching es q = []
  · left; simp [hm]
  · right
    have hlen : 0 < (matching es q).length := List.length_pos_iff.mpr hm
    have hne : ¬ (matching es q).length = 0 := by omega
    simp only [hne, if_false]
    have hlt : pick es % (matching es q).length < (matching es q).length := Nat.mod_lt _ hlen
    rw [List.getElem?_eq_getElem hlt]
    have hmem := List.getElem_mem hlt
    generalize (matching es q)[pick es % (matching es q).length] = e at hmem ⊢
    unfold matching at hmem
    simp only [List.mem_filter] at hmem
    exact ⟨e, hmem.1, hmem.2, rfl⟩

/-- If equality is transitive around the query (always, unless a ByteString meets both a `string`
    and a `Bytes` of the same content), at most one stored key equals it. -/
theorem C08_match_unique (es : Entries) (q : GoVal) (hinv : NoEqualKeys es)
    (htrans : ∀ e1 ∈ es, ∀ e2 ∈ es, goEqual q e1.1 = true → goEqual q e2.1 = true → goEqual e1.1 e2.1 = true) :
    (matching es q).length ≤ 1 := by
  unfold matching
  induction es with
  | nil => simp
  | cons x xs ih =>
    have hx := List.pairwise_cons.mp hinv
    have ih' := ih hx.2 (fun e1 h1 e2 h2 => htrans e1 (List.mem_cons_of_mem _ h1) e2 (List.mem_cons_of_mem _ h2))
    simp only [List.filter]
    cases hq : goEqual q x.1 with
    | false => simpa using ih'
    | true =>
      simp only [List.length_cons]
      have : xs.filter (fun e => goEqual q e.1) = [] := by
        apply List.filter_eq_nil_iff.mpr
        intro e he hqe
        have h1 := htrans x (by simp) e (List.mem_cons_of_mem _ he) hq hqe
        have h2 := hx.1 e he
        rw [h1] at h2; exact absurd h2 (by simp)
      rw [this]; simp

/-- **C08 (Get, most recent — partial).** Right after `Set k v`, a query equal to `k` and to no
    other stored key returns `v`, whatever the table picks. (With a ByteString query and both a
    `string` and a `Bytes` stored the answer is one of the candidates — finding K2.) -/
theorem C08_get_after_set (pick : Entries → Nat) (es : Entries) (k v q : GoVal) (hq : goEqual q k = true)
    (hother : ∀ e ∈ es, goEqual k e.1 = false → goEqual q e.1 = false) :
    tableGet pick (dictSetSpec es k v) q = some v := by
  rcases C08_get_any pick (dictSetSpec es k v) q with ⟨hnone, _⟩ | ⟨e, he, hm, hget⟩
  · exfalso
    unfold matching at hnone
    have := List.filter_eq_nil_iff.mp hnone (k, v) (by simp [dictSetSpec])
    simp [hq] at this
  · rw [hget]
    unfold dictSetSpec at he
    simp only [List.mem_append, List.mem_filter, List.mem_singleton] at he
    rcases he with ⟨hin, hk⟩ | rfl
    · have := hother e hin (by simpa using hk)
      rw [this] at hm; simp at hm
    · rfl

/-- **K2 witness.** With `"a"` set to 1 and `Bytes("a")` set to 2, `Get(ByteString("a"))` may return
    1 (a table that probes the older entry first) although 2 was set most recently: the full
    "most recently set" statement is false for the non-transitive ByteString. -/
theorem C08_K2_witness :
    let es := dictSetSpec (dictSetSpec [] (.str [97]) (.int 1)) (.bytes [97]) (.int 2)
    es.length = 2 ∧ tableGet (fun _ => 0) es (.bytestr [97]) = some (.int 1) ∧
    tableGet (fun _ => 1) es (.bytestr [97]) = some (.int 2) := by
  simp [dictSetSpec, tableGet, matching, goEqual, strKind?, numOf?, strEq]

end Ogorek
