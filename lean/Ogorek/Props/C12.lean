import Ogorek.Encoder
import Ogorek.Opcodes
import Ogorek.Generated.Facts
import Ogorek.Lemmas.ScanEnc
import Ogorek.Lemmas.FmtG

/-!
  C12 — Encoder uses only opcodes of the requested protocol and emits one framed pickle.
-/
namespace Ogorek

/-- **C12 (reject).** A protocol outside 0–5 is rejected before anything is written. -/
theorem C12_reject (ip : IsPrint) (c : ECfg) (g : RefHook) (v : GoVal) (h : ¬(0 ≤ c.proto ∧ c.proto ≤ 5)) :
    encodeTop ip c g v = ⟨[], some .invalidProtocol⟩ := by
  simp [encodeTop, h, failWith]

/-- The source's `highestProtocol` is the model's 5. -/
theorem C12_facts : Generated.highestProtocol = 5 := by decide

/-- **C12 (conformance, protocols 0–5).** For EVERY value (any nesting; application structs, unsigned
    ints, maps and Dicts with any keys included) whose payloads are below the 4 GiB of the 4-byte
    length forms, and every protocol p in 0..5: if `Encode` returns no error, its output, scanned with
    the independent opcode table of `Opcodes.lean`, is one framed pickle — it begins with `PROTO p`
    exactly when p ≥ 2 and contains no other PROTO, every opcode was introduced in a protocol ≤ p,
    the stack discipline holds at every opcode, and the single STOP at the very end finds exactly one
    object.  Only hypothesis besides sizes: LF is not printable in the IsPrint table (a regenerated fact,
    `C03_isprint_lf`). The text lines of protocol 0 are proved newline-free: both codecs' outputs
    (`pyquote_no_lf`, `rue_no_lf`) and the `%g` text of every float64 (`fmtG_no_lf`). -/
theorem C12_conforms (ip : IsPrint) (hip : ip 10 = false) (c : ECfg) (v : GoVal) (hp0 : 0 ≤ c.proto) (hp5 : c.proto ≤ 5)
    (hs : sizesOK v = true) (he : (encodeTop ip c none v).err = none) :
    conforms c.proto.toNat (flat (encodeTop ip c none v)) = .ok () := by
  have hf : FloatsLF c (floatsOf v) := fun f _ => Or.inr (fmtG_no_lf f)
  have hrange : (0 ≤ c.proto ∧ c.proto ≤ 5) := ⟨hp0, hp5⟩
  have hdr_err : (if c.proto ≥ 2 then emit [0x80, UInt8.ofNat c.proto.toNat] else Out.nil).err = none := by
    split <;> rfl
  have etop : encodeTop ip c none v =
      (if c.proto ≥ 2 then emit [0x80, UInt8.ofNat c.proto.toNat] else Out.nil) +> enc ip c v +> emit [46] := by
    simp [encodeTop, hrange]
  rw [etop] at he ⊢
  obtain ⟨h12, _⟩ := seq_err_none he
  obtain ⟨_, hev⟩ := seq_err_none h12
  obtain ⟨effs, hscan, heff⟩ := scans_val ip c hip hp0 v hs hf hev
  have hlen := Scans.length_le hscan
  rw [flat_seq _ _ h12, flat_seq _ _ hdr_err, flat_emit]
  unfold conforms scan
  have hstop : ∀ (f : Nat) (names : List String) (maxp : Nat) (firstp : Option Nat) (pcount : Nat),
      scanLoop (f + 1) [true] names maxp firstp pcount [46] =
        .ok (⟨("STOP" :: names).reverse, max maxp 0, firstp, pcount, 0⟩, []) := by
    intro f names maxp firstp pcount
    rw [scanLoop]
    rfl
  by_cases h2 : c.proto ≥ 2
  · simp only [h2, if_true, flat_emit]
    have hpb : (UInt8.ofNat c.proto.toNat).toNat = c.proto.toNat := by simp [UInt8.toNat_ofNat']; omega
    obtain ⟨names', maxp', hrun, hlo, hhi, _⟩ := scanLoop_run c.proto.toNat effs (flat (enc ip c v))
      ((flat (enc ip c v)).length - effs.length + 2 + 1) [] [true] ["PROTO"] 2 (some c.proto.toNat) 1 [46] hscan (heff [])
      (fun _ => trivial)
    have hfuel : ([0x80, UInt8.ofNat c.proto.toNat] ++ flat (enc ip c v) ++ [46]).length + 1 =
        (((flat (enc ip c v)).length - effs.length + 2 + 1) + effs.length) + 1 := by simp; omega
    rw [hfuel]
    have hstep : scanLoop ((((flat (enc ip c v)).length - effs.length + 2 + 1) + effs.length) + 1) [] [] 0 none 0
        ([0x80, UInt8.ofNat c.proto.toNat] ++ flat (enc ip c v) ++ [46]) =
        scanLoop (((flat (enc ip c v)).length - effs.length + 2 + 1) + effs.length) [] ["PROTO"] 2 (some c.proto.toNat) 1
          (flat (enc ip c v) ++ [46]) := by
      rw [scanLoop]
      have : scanOp ([0x80, UInt8.ofNat c.proto.toNat] ++ flat (enc ip c v) ++ [46]) =
          .ok ((⟨0x80, "PROTO", 2, .u1, .nop⟩, c.proto.toNat), flat (enc ip c v) ++ [46]) := by
        simp [scanOp, show opLookup 0x80 = some ⟨0x80, "PROTO", 2, .u1, .nop⟩ from rfl, skipArg, Rd.map, Rd.bind, readByte, Rd.pure, hpb]
      rw [this]
      simp [applyEff]
    rw [hstep, hrun, hstop]
    have hm : max maxp' 0 ≤ c.proto.toNat := by
      have : 2 ≤ c.proto.toNat := by omega
      omega
    have hm' : ¬ (max maxp' 0 > c.proto.toNat) := by omega
    have h2' : (c.proto.toNat ≥ 2) := by omega
    simp only [h2', decide_true, Bool.true_and, bne_self_eq_false, Bool.false_eq_true, if_false, List.isEmpty_nil, Bool.not_true,
      show ¬ (c.proto.toNat < 2) by omega, decide_false, Bool.false_and, show ¬ (1 > 1) by omega, hm']
  · simp only [h2, if_false, flat, Out.nil, List.flatten_nil, List.nil_append]
    have hscan' : Scans c.proto.toNat (enc ip c v).chunks.flatten effs := hscan
    obtain ⟨names', maxp', hrun, hlo, hhi, _⟩ := scanLoop_run c.proto.toNat effs (enc ip c v).chunks.flatten
      ((enc ip c v).chunks.flatten.length - effs.length + 1 + 1) [] [true] [] 0 none 0 [46] hscan' (heff [])
      (fun _ => trivial)
    have hlen' : effs.length ≤ (enc ip c v).chunks.flatten.length := hlen
    have hfuel : ((enc ip c v).chunks.flatten ++ [46]).length + 1 =
        ((enc ip c v).chunks.flatten.length - effs.length + 1 + 1) + effs.length := by
      simp only [List.length_append, List.length_cons, List.length_nil]; omega
    rw [hfuel, hrun, hstop]
    have hp : c.proto.toNat < 2 := by omega
    have hm' : ¬ (max maxp' 0 > c.proto.toNat) := by omega
    have h2' : ¬ (c.proto.toNat ≥ 2) := by omega
    simp only [h2', decide_false, Bool.false_and, Bool.false_eq_true, if_false, List.isEmpty_nil, Bool.not_true, hp, decide_true,
      Bool.true_and, bne_self_eq_false, show ¬ (0 > 1) by omega, hm']

/-- The same restricted to protocols 1–5 (kept under its earlier name). -/
theorem C12_conforms_bin (ip : IsPrint) (hip : ip 10 = false) (c : ECfg) (v : GoVal) (hp1 : 1 ≤ c.proto) (hp5 : c.proto ≤ 5)
    (hs : sizesOK v = true) (he : (encodeTop ip c none v).err = none) :
    conforms c.proto.toNat (flat (encodeTop ip c none v)) = .ok () :=
  C12_conforms ip hip c v (by omega) hp5 hs he

end Ogorek
