import Ogorek.Encoder
import Ogorek.Opcodes
import Ogorek.Generated.Facts

/-!
  C12 — Encoder uses only opcodes of the requested protocol and emits one framed pickle.
-/
namespace Ogorek

/-- **C12 (reject).** A protocol outside 0–5 is rejected before anything is written. -/
theorem C12_reject (ip : IsPrint) (c : ECfg) (g : RefHook) (v : GoVal) (h : ¬(0 ≤ c.proto ∧ c.proto ≤ 5)) :
    encodeTop ip c g v = ⟨[], some .invalidProtocol⟩ := by
  simp [encodeTop, h, failWith]

/-- The source's `highestProtocol` is the model's 5. -/
theorem C12_facts : Generated.highestProtocol = 5 := by decide

end Ogorek
