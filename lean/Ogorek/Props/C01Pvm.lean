import Ogorek.Lemmas.PvmForms2
import Ogorek.Lemmas.PvmDict
import Ogorek.Props.C01
import Ogorek.Props.C12
import Ogorek.Props.C03
import Ogorek.Props.C06

/-!
  # C01 — the encoder's output means the documented Python value under CPython's unpickler

  `C01_pvm_table`: for every Go value of the documented table (nested to any depth), every protocol 0–5 and both
  StrictUnicode settings, if `Encode` returns no error then the model of CPython's unpickler (`Ogorek/Pvm.lean`)
  loads exactly the bytes written, without error, consuming all of them, and the object it returns is the
  Python value the type table (`table`) assigns to the Go value.

  The hypotheses are what CPython itself demands of a pickle and og-rek does not check (each is a recorded
  finding or a documented limit): text written as unicode is valid UTF-8 (finding K3), a protocol-0 persistent
  id is ASCII (finding K5), dict keys are hashable Python values, a `Call` does not name one of the three
  callables CPython executes (`_codecs.encode`, `bytes`, `bytearray` — the encoder uses those itself), payloads
  fit their 4-byte length prefix, and at protocol 0 `FloatTextOK` (as in C03).  `C01_K3_pvm` and `C01_K5_pvm`
  show that the first two are needed: without them the machine raises.
-/
namespace Ogorek

mutual
/-- The Python value of the documented table, with the protocol-0 rule for persistent ids (the id line of
    PERSID is text). -/
def tableP (c : ECfg) : GoVal → PyVal
  | .nil => .none
  | .none => .none
  | .bool b => .bool b
  | .int i => .int i
  | .uint u => .int u
  | .big _ i => .int i
  | .float f => .float f
  | .str s => pyStrOf c s
  | .bytestr s => .str2 s
  | .bytes s => .bytes s
  | .bytearray s => .bytearray s
  | .list xs => .list (tablePList c xs)
  | .tuple xs => .tuple (tablePList c xs)
  | .map kvs => .dict (pyDictOf (tablePPairs c kvs))
  | .dict kvs => .dict (pyDictOf (tablePPairs c kvs))
  | .cls m n => .glob m n
  | .call m n args => .call (.glob m n) (tablePList c args)
  | .ref pid =>
    if c.proto = 0 then
      match pid with
      | .str s => .pers (.str s)
      | _ => .none
    else .pers (tableP c pid)
  | .user n => .dict [(pyStrOf c (sb "N"), .int n)]
  | .complex _ _ => .none
  | .mark => .none
  | .href _ => .none
  | .cycle => .none
def tablePList (c : ECfg) : List GoVal → List PyVal
  | [] => []
  | x :: xs => tableP c x :: tablePList c xs
def tablePPairs (c : ECfg) : List (GoVal × GoVal) → List (PyVal × PyVal)
  | [] => []
  | (k, v) :: r => (tableP c k, tableP c v) :: tablePPairs c r
end

theorem tablePList_length (c : ECfg) : (xs : List GoVal) → (tablePList c xs).length = xs.length
  | [] => rfl
  | _ :: xs => by simp [tablePList, tablePList_length c xs]

theorem tablePPairs_length (c : ECfg) : (kvs : List (GoVal × GoVal)) → (tablePPairs c kvs).length = kvs.length
  | [] => rfl
  | (_, _) :: r => by simp [tablePPairs, tablePPairs_length c r]

mutual
/-- What CPython demands of the value and the encoder does not check. -/
def pyWF (c : ECfg) : GoVal → Bool
  | .nil => true
  | .none => true
  | .bool _ => true
  | .int i => inInt64 i
  | .uint _ => true
  | .big _ _ => true
  | .float _ => true
  | .str s => strOK c s
  | .bytestr s => decide (s.length < 2 ^ 32)
  | .bytes s => decide (s.length < 2 ^ 31)
  | .bytearray s => decide (s.length < 2 ^ 31)
  | .list xs => pyWFList c xs
  | .tuple xs => pyWFList c xs
  | .map kvs => pyWFPairs c kvs && keysPyOK (tablePPairs c kvs)
  | .dict kvs => pyWFPairs c kvs && keysPyOK (tablePPairs c kvs)
  | .cls m n => nameOK m && nameOK n
  | .call m n args => nameOK m && nameOK n && !reservedCall m n && pyWFList c args
  | .ref pid =>
    if c.proto = 0 then
      match pid with
      | .str s => isAscii s
      | _ => true          -- the encoder itself refuses these at protocol 0
    else pyWF c pid
  | .user n => inInt64 n
  | .complex _ _ => false
  | .mark => false
  | .href _ => false
  | .cycle => false
def pyWFList (c : ECfg) : List GoVal → Bool
  | [] => true
  | x :: xs => pyWF c x && pyWFList c xs
def pyWFPairs (c : ECfg) : List (GoVal × GoVal) → Bool
  | [] => true
  | (k, v) :: r => pyWF c k && pyWF c v && pyWFPairs c r
end

section main
variable {c : ECfg} (ip : IsPrint)

theorem parses_uint_big (u : Nat) (h : ¬ ((u : Int) ≤ maxInt64)) : Parses (flat (emit (73 :: natDigits u ++ [10]))) [.pushBig u] := by
  apply Parses.single rfl
  intro t
  have e : flat (emit (73 :: natDigits u ++ [10])) ++ t = 73 :: (fmtInt (u : Int) ++ 10 :: t) := by
    have : fmtInt (u : Int) = natDigits u := by
      unfold fmtInt
      have : ¬ ((u : Int) < 0) := by omega
      simp [this]
    simp [flat_emit, this]
  rw [e]
  have hn : inInt64 (u : Int) = false := by
    unfold inInt64; simp; intro _; omega
  simp [parseInsn, Rd.bind, readByte, parseArg_73, Rd.mapE, readLine_line _ _ (fmtInt_no_lf _), parseIntArg_fmtInt, Rd.pure, hn]

theorem ppushes_uint (u : Nat) : PPushes c (flat (encodeUint c u)) (fun _ r => r = .int u) := by
  unfold encodeUint
  split
  · rename_i h
    exact ppushes_int (u : Int) (by unfold inInt64 minInt64; simp; exact h)
  · rename_i h
    exact PPushes.one (.int u) (parses_uint_big u h) (fun _ => rfl) (fun _ => rfl)

theorem PPushesN.nil : PPushesN c [] 0 (fun _ rs => rs = []) :=
  PRuns.weaken PRuns.nil fun st st' _ _ e => ⟨[], by simp [e], rfl, rfl⟩

mutual
theorem pt_val (hip : ip 10 = false) :
    (v : GoVal) → pyWF c v = true → FloatsOK c (floatsOf v) → (enc ip c v).err = none →
    PPushes c (flat (enc ip c v)) (fun h r => PRep h r (tableP c v))
  | .none, _, _, _ => by simpa [enc, tableP, PRep] using ppushes_none (c := c)
  | .nil, _, _, _ => by simpa [enc, tableP, PRep] using ppushes_none (c := c)
  | .bool b, _, _, _ => by simpa [enc, tableP, PRep] using ppushes_bool (c := c) b
  | .int i, hw, _, _ => by simpa [enc, tableP, PRep] using ppushes_int (c := c) i (by simpa [pyWF] using hw)
  | .uint u, _, _, _ => by simpa [enc, tableP, PRep] using ppushes_uint (c := c) u
  | .big _ i, _, _, _ => by simpa [enc, tableP, PRep] using ppushes_long (c := c) i
  | .float f, _, hf, _ => by simpa [enc, tableP, PRep] using ppushes_float (c := c) f (hf f (by simp [floatsOf]))
  | .str s, hw, _, he => by
    have := ppushes_string (c := c) ip hip s (by simpa [pyWF] using hw) (by simpa [enc] using he)
    simp only [enc]
    refine PRuns.weaken this ?_
    intro st st' _ _ ⟨r, hs, hr⟩
    refine ⟨r, hs, ?_⟩
    subst hr
    unfold tableP pyStrOf
    split <;> simp [PRep]
  | .bytestr s, hw, _, _ => by
    simpa [enc, tableP, PRep] using ppushes_bytestring (c := c) ip hip s (by simpa [pyWF] using hw)
  | .bytes s, hw, _, he => by
    simpa [enc, tableP, PRep] using ppushes_bytes (c := c) ip hip s (by simpa [pyWF] using hw) (by simpa [enc] using he)
  | .bytearray s, hw, _, he => by
    simpa [enc, tableP, PRep] using ppushes_bytearray (c := c) ip hip s (by simpa [pyWF] using hw) (by simpa [enc] using he)
  | .cls m n, hw, _, he => by
    simp only [pyWF, Bool.and_eq_true] at hw
    simpa [enc, tableP, PRep] using ppushes_class (c := c) ip hip m n hw.1 hw.2 (by simpa [enc] using he)
  | .list xs, hw, hf, he => by
    simp only [pyWF] at hw
    simp only [floatsOf] at hf
    simp only [enc] at he ⊢
    split
    · rename_i h
      have hx : xs = [] := List.length_eq_zero_iff.mp h.2
      subst hx
      rw [flat_emit]
      refine PRuns.one (parses_op 93 .emptyList rfl parseArg_93) fun st _ => ?_
      refine ⟨ppush { st with heap := st.heap ++ [.list []] } (.obj st.heap.length), ?_,
        ⟨rfl, rfl, rfl, [.list []], by simp [ppush]⟩, .obj st.heap.length, rfl, ?_⟩
      · simp [pexec, palloc]
      · simp only [tableP, tablePList, PRep]
        exact ⟨st.heap.length, [], rfl, by simp [ppush], by simp [PRepList]⟩
    · rename_i h
      simp only [h, if_false] at he
      obtain ⟨h12, _⟩ := seq_err_none he
      obtain ⟨_, h2⟩ := seq_err_none h12
      rw [flat_seq _ _ h12, flat_seq _ _ rfl, flat_emit, flat_emit]
      refine PRuns.marked (pt_list hip xs hw hf h2) (parses_op 108 .list rfl parseArg_108) ?_
      intro st st1 rs _ f1 hs _ hPL
      have hme : st1.metas = st.stack :: st.metas := f1.metas
      refine ⟨{ st1 with stack := .obj st1.heap.length :: st.stack, metas := st.metas, heap := st1.heap ++ [.list rs] }, ?_,
        f1.memo, f1.proto, rfl, ?_, .obj st1.heap.length, rfl, ?_⟩
      · simp [pexec, popMark, hme, hs, palloc, ppush, bind, Except.bind, pure, Except.pure]
      · obtain ⟨t, ht⟩ := f1.heap
        exact ⟨t ++ [.list rs], by simp [ht]⟩
      · simp only [tableP, PRep]
        exact ⟨st1.heap.length, rs, rfl, by simp, PRepList.mono _ _ rs _ hPL⟩
  | .tuple xs, hw, hf, he => by
    simp only [pyWF] at hw
    simp only [floatsOf] at hf
    simp only [enc] at he ⊢
    have hie : (encList ip c xs).err = none := by
      cases xs with
      | nil => rfl
      | cons x xs' => exact encodeTupleOf_err_inv _ _ (by simp) he
    have hl0 : xs.length = 0 → flat (encList ip c xs) = [] := by
      intro h; have := List.length_eq_zero_iff.mp h; subst this; simp [encList, flat, Out.nil]
    have := ppushes_tupleOf (c := c) xs.length (encList ip c xs) (fun h rs => PRepList h rs (tablePList c xs)) hie hl0
      (pt_list hip xs hw hf hie)
    simpa only [tableP, PRep] using this
  | .map kvs, hw, hf, he => by
    simp only [pyWF, Bool.and_eq_true] at hw
    simp only [floatsOf] at hf
    simp only [enc] at he ⊢
    have hie : (encPairs ip c kvs).err = none := by
      cases kvs with
      | nil => rfl
      | cons x xs' =>
        have : ¬ (c.proto ≥ 1 ∧ (x :: xs').length = 0) := by simp
        simp only [this, if_false] at he
        exact (seq_err_none (seq_err_none he).1).2
    have hn : kvs.length = 0 → tablePPairs c kvs = [] := by
      intro h; have := List.length_eq_zero_iff.mp h; subst this; rfl
    have hi := pt_pairs hip kvs hw.1 hf hie
    have := ppushes_dictform (c := c) (tablePPairs c kvs) kvs.length hn (encPairs ip c kvs) hw.2 hie
      (by simpa [flatP_length, tablePPairs_length] using hi)
    simpa only [tableP] using this
  | .dict kvs, hw, hf, he => by
    simp only [pyWF, Bool.and_eq_true] at hw
    simp only [floatsOf] at hf
    simp only [enc] at he ⊢
    have hie : (encPairs ip c kvs).err = none := by
      cases kvs with
      | nil => rfl
      | cons x xs' =>
        have : ¬ (c.proto ≥ 1 ∧ (x :: xs').length = 0) := by simp
        simp only [this, if_false] at he
        exact (seq_err_none (seq_err_none he).1).2
    have hn : kvs.length = 0 → tablePPairs c kvs = [] := by
      intro h; have := List.length_eq_zero_iff.mp h; subst this; rfl
    have hi := pt_pairs hip kvs hw.1 hf hie
    have := ppushes_dictform (c := c) (tablePPairs c kvs) kvs.length hn (encPairs ip c kvs) hw.2 hie
      (by simpa [flatP_length, tablePPairs_length] using hi)
    simpa only [tableP] using this
  | .call m n args, hw, hf, he => by
    simp only [pyWF, Bool.and_eq_true, Bool.not_eq_true'] at hw
    simp only [floatsOf] at hf
    obtain ⟨⟨⟨hm, hn⟩, hres⟩, hargs⟩ := hw
    simp only [enc] at he ⊢
    obtain ⟨h12, _⟩ := seq_err_none he
    obtain ⟨h1, h2⟩ := seq_err_none h12
    have hie : (encList ip c args).err = none := by
      cases args with
      | nil => rfl
      | cons x xs' => exact encodeTupleOf_err_inv _ _ (by simp) h2
    have hl0 : args.length = 0 → flat (encList ip c args) = [] := by
      intro h; have := List.length_eq_zero_iff.mp h; subst this; simp [encList, flat, Out.nil]
    have htup := ppushes_tupleOf (c := c) args.length (encList ip c args) (fun h rs => PRepList h rs (tablePList c args)) hie hl0
      (pt_list hip args hargs hf hie)
    refine ppushes_reduce m n _ _ _ _ h1 h2 (ppushes_class ip hip m n hm hn h1) htup ?_
    intro st rs _ hPL
    refine ⟨[], .call (.glob m n) rs, ?_, ?_⟩
    · exact pyCall_symbolic st m n rs hres
    · simp only [tableP, PRep, List.append_nil]
      exact ⟨.glob m n, rs, rfl, rfl, hPL⟩
  | .ref pid, hw, hf, he => by
    simp only [floatsOf] at hf
    simp only [enc] at he ⊢
    by_cases h0 : c.proto = 0
    · simp only [h0, if_true] at he ⊢
      cases pid with
      | str s =>
        simp only [pyWF, h0, if_true] at hw
        simp only at he ⊢
        by_cases hlf : containsLF s = true
        · simp [hlf, failWith] at he
        · have hlf' : containsLF s = false := by simpa using hlf
          simp only [hlf', Bool.false_eq_true, if_false]
          refine PPushes.one (.pers (.str s)) (parses_persid_txt s hlf') (fun st => ?_) (fun h => ?_)
          · simp [pexec, hw]
          · simp only [tableP, h0, if_true, PRep]
            exact ⟨.str s, rfl, rfl⟩
      | _ => simp [failWith] at he
    · simp only [h0, if_false] at he ⊢
      simp only [pyWF, h0, if_false] at hw
      obtain ⟨h1, _⟩ := seq_err_none he
      rw [flat_seq _ _ h1, flat_emit]
      refine PRuns.snoc (pt_val hip pid hw hf h1) (parses_op 81 .binpersid rfl parseArg_81) ?_
      intro st st1 _ _ ⟨r, hs, hr⟩
      refine ⟨{ st1 with stack := .pers r :: st.stack }, ?_, ⟨rfl, rfl, rfl, [], by simp⟩, .pers r, rfl, ?_⟩
      · simp [pexec, hs]
      · simp only [tableP, h0, if_false, PRep]
        exact ⟨r, rfl, hr⟩
  | .user n, hw, _, he => by
    simp only [pyWF] at hw
    simp only [enc] at he ⊢
    obtain ⟨h123, _⟩ := seq_err_none he
    obtain ⟨h12, h3⟩ := seq_err_none h123
    obtain ⟨_, h2⟩ := seq_err_none h12
    have hs : strOK c (sb "N") = true := by
      unfold strOK; simp; exact ⟨by decide, Or.inr (by decide)⟩
    have pk := ppushes_string (c := c) ip hip (sb "N") hs h2
    have pv := ppushes_int (c := c) (n : Int) hw
    have hitems : PPushesN c (flat (encodeString ip c (sb "N") +> encodeInt c n)) (flatP [(pyStrOf c (sb "N"), PyVal.int n)]).length
        (fun h rs => PRepList h rs (flatP [(pyStrOf c (sb "N"), PyVal.int n)])) := by
      rw [flat_seq _ _ h2]
      refine PRuns.weaken (PRuns.seq pk pv) ?_
      intro st st' _ _ ⟨st1, _, _, ⟨a, ha, pa⟩, ⟨b, hb, pb⟩⟩
      subst pa; subst pb
      refine ⟨[pyStrOf c (sb "N"), .int n], by simp [hb, ha], by simp [flatP], ?_⟩
      simp only [flatP, PRepList, PRep, and_true]
      unfold pyStrOf; split <;> simp [PRep]
    have hk : keysPyOK [(pyStrOf c (sb "N"), PyVal.int n)] = true := by
      unfold keysPyOK nanKeys pyStrOf
      split <;> simp [pyHashable, pyHasNaN]
    have hd := ppushes_dictform (c := c) [(pyStrOf c (sb "N"), PyVal.int n)] 1 (by simp) (encodeString ip c (sb "N") +> encodeInt c n) hk
      (by rw [seq_err h2]; exact h3) hitems
    have e : (emit [40] +> encodeString ip c (sb "N") +> encodeInt c ↑n +> emit [100])
        = (emit [40] +> (encodeString ip c (sb "N") +> encodeInt c ↑n) +> emit [100]) := by
      simp [Out.seq, emit, h2]
    rw [e]
    simpa [tableP, pyDictOf, pyDictSet] using hd
  | .complex _ _, hw, _, _ | .mark, hw, _, _ | .href _, hw, _, _ | .cycle, hw, _, _ => by simp [pyWF] at hw
theorem pt_list (hip : ip 10 = false) :
    (xs : List GoVal) → pyWFList c xs = true → FloatsOK c (floatsOfList xs) → (encList ip c xs).err = none →
    PPushesN c (flat (encList ip c xs)) xs.length (fun h rs => PRepList h rs (tablePList c xs))
  | [], _, _, _ => by
    simp only [encList, flat, Out.nil, List.flatten_nil, List.length_nil]
    exact PRuns.weaken PRuns.nil fun st st' _ _ e => ⟨[], by simp [e], rfl, by simp [tablePList, PRepList]⟩
  | x :: xs, hw, hf, he => by
    simp only [pyWFList, Bool.and_eq_true] at hw
    simp only [floatsOfList] at hf
    simp only [encList] at he ⊢
    obtain ⟨h1, h2⟩ := seq_err_none he
    rw [flat_seq _ _ h1]
    refine PRuns.weaken (PRuns.seq (pt_val hip x hw.1 hf.left h1) (pt_list hip xs hw.2 hf.right h2)) ?_
    intro st st2 _ _ ⟨st1, _, f2, ⟨r, hs1, hr⟩, ⟨rs, hs2, hlen, hPL⟩⟩
    obtain ⟨t, ht⟩ := f2.heap
    refine ⟨r :: rs, by simp [hs2, hs1], by simp [hlen], ?_⟩
    simp only [tablePList, PRepList]
    exact ⟨by rw [ht]; exact PRep.mono _ t r _ hr, hPL⟩
theorem pt_pairs (hip : ip 10 = false) :
    (kvs : List (GoVal × GoVal)) → pyWFPairs c kvs = true → FloatsOK c (floatsOfPairs kvs) → (encPairs ip c kvs).err = none →
    PPushesN c (flat (encPairs ip c kvs)) (2 * kvs.length) (fun h rs => PRepList h rs (flatP (tablePPairs c kvs)))
  | [], _, _, _ => by
    simp only [encPairs, flat, Out.nil, List.flatten_nil, List.length_nil]
    exact PRuns.weaken PRuns.nil fun st st' _ _ e => ⟨[], by simp [e], rfl, by simp [tablePPairs, flatP, PRepList]⟩
  | (k, v) :: kvs, hw, hf, he => by
    simp only [pyWFPairs, Bool.and_eq_true] at hw
    simp only [floatsOfPairs] at hf
    simp only [encPairs] at he ⊢
    obtain ⟨h12, h3⟩ := seq_err_none he
    obtain ⟨h1, h2⟩ := seq_err_none h12
    rw [flat_seq _ _ h12, flat_seq _ _ h1]
    refine PRuns.weaken (PRuns.seq (PRuns.seq (pt_val hip k hw.1.1 hf.left.left h1) (pt_val hip v hw.1.2 hf.left.right h2))
      (pt_pairs hip kvs hw.2 hf.right h3)) ?_
    intro st st3 _ _ ⟨st2, _, f3, ⟨st1, _, f2, ⟨rk, hs1, hrk⟩, ⟨rv, hs2, hrv⟩⟩, ⟨rs, hs3, hlen, hPL⟩⟩
    obtain ⟨t2, ht2⟩ := f2.heap
    obtain ⟨t3, ht3⟩ := f3.heap
    have hrk2 : PRep st2.heap rk (tableP c k) := by rw [ht2]; exact PRep.mono _ t2 rk _ hrk
    refine ⟨rk :: rv :: rs, by simp [hs3, hs2, hs1], by simp [hlen]; omega, ?_⟩
    simp only [tablePPairs, flatP, PRepList]
    exact ⟨by rw [ht3]; exact PRep.mono _ t3 rk _ hrk2, by rw [ht3]; exact PRep.mono _ t3 rv _ hrv, hPL⟩
end

end main

/-- Any amount of fuel beyond the length of the input gives the same run. -/
theorem pvmLoop_fuel : ∀ (fuel1 fuel2 : Nat) (st : PState) (inp : Bytes), inp.length < fuel1 → inp.length < fuel2 →
    pvmLoop fuel1 st inp = pvmLoop fuel2 st inp := by
  intro fuel1
  induction fuel1 with
  | zero => intro fuel2 st inp h; omega
  | succ fuel1 ih =>
    intro fuel2 st inp h1 h2
    cases fuel2 with
    | zero => omega
    | succ fuel2 =>
      cases inp with
      | nil => simp [pvmLoop, readByte]
      | cons key r =>
        unfold pvmLoop
        simp only [readByte]
        cases hp : parseArg key r with
        | error e => rfl
        | ok p =>
          obtain ⟨i, rest⟩ := p
          have hle := (good_parseArg key).length_le hp
          simp at h1 h2
          cases i
          case stop => rfl
          all_goals
            simp only
            split
            · rfl
            · split
              · exact ih _ _ _ (by omega) (by omega)
              · rfl

theorem pvmLoop_stop (f : Nat) (st : PState) (r : PyVal) (s : List PyVal) (t : Bytes) (hs : st.stack = r :: s) :
    pvmLoop (f + 1) st (46 :: t) = (.ok r, { st with stack := s }, t) := by
  rw [pvmLoop]
  simp [readByte, parseArg_46, Rd.pure, hs]

/-- **C01 (what the bytes mean to CPython), all protocols.**  For every Go value `v` of the documented table — nil / None,
    bool, every integer type (int64, uint64, *big.Int), float, string, ByteString, Bytes, []byte, slices, Tuples, builtin maps,
    Dicts, Class, Call, Ref and pointers to the application struct, nested to any depth — every protocol 0..5 and both
    StrictUnicode settings: if `Encode` returns no error, the model of CPython's unpickler loads exactly the bytes written
    without raising, consumes them all, and returns an object that is (`PRep`: immutable values literally, lists / dicts /
    bytearrays as fresh objects with that content) the Python value `tableP c v` of the documented type table: numbers, text,
    byte payloads, key/value association (dict entries assigned in the order written, under Python equality) and nesting
    are those of `v`.  Hypotheses: `pyWF` (text written as unicode is valid UTF-8 — finding K3; a protocol-0 persistent id is
    ASCII — finding K5; dict keys are hashable in Python, at most one of them holds a NaN; a Call does not name a callable
    CPython executes; payload sizes), the regenerated fact that LF is not printable, and at protocol 0 `FloatTextOK` for the
    floats in `v` (as in C03). -/
theorem C01_pvm_table (ip : IsPrint) (hip : ip 10 = false) (c : ECfg) (v : GoVal)
    (hp0 : 0 ≤ c.proto) (hp5 : c.proto ≤ 5)
    (hw : pyWF c v = true) (hf : FloatsOK c (floatsOf v)) (he : (encodeTop ip c none v).err = none) :
    ∃ r st, pvmLoad (flat (encodeTop ip c none v)) = (.ok r, st, []) ∧ PRep st.heap r (tableP c v) := by
  have hrange : (0 ≤ c.proto ∧ c.proto ≤ 5) := ⟨hp0, hp5⟩
  have hdr_err : (if c.proto ≥ 2 then emit [0x80, UInt8.ofNat c.proto.toNat] else Out.nil).err = none := by
    split <;> rfl
  have etop : encodeTop ip c none v =
      (if c.proto ≥ 2 then emit [0x80, UInt8.ofNat c.proto.toNat] else Out.nil) +> enc ip c v +> emit [46] := by
    simp [encodeTop, hrange]
  rw [etop] at he ⊢
  obtain ⟨h12, _⟩ := seq_err_none he
  obtain ⟨_, hev⟩ := seq_err_none h12
  obtain ⟨is, hpar, hnofr, hrun⟩ := pt_val (c := c) ip hip v hw hf hev
  have hislen := parses_length_le hpar
  rw [flat_seq _ _ h12, flat_seq _ _ hdr_err, flat_emit]
  unfold pvmLoad
  by_cases h2 : c.proto ≥ 2
  · simp only [h2, if_true, flat_emit]
    have hpb : (UInt8.ofNat c.proto.toNat).toNat = c.proto.toNat := by simp [UInt8.toNat_ofNat']; omega
    let st1 : PState := { proto := c.proto.toNat }
    have hpo : PProtoOK c st1 := by
      simp only [PProtoOK, pyExecModule, pybuiltinModuleE, st1]
      have : (c.proto.toNat < 3) ↔ (c.proto ≤ 2) := by omega
      simp [this]
    obtain ⟨st2, e2, _, r, hs2, hrep⟩ := hrun st1 hpo
    let F := ([0x80, UInt8.ofNat c.proto.toNat] ++ flat (enc ip c v) ++ [46]).length
    have hfuel := pvmLoop_fuel
      (([0x80, UInt8.ofNat c.proto.toNat] ++ flat (enc ip c v) ++ [46]).length + 1)
      ((F + 1 + is.length) + 1) {}
      ([0x80, UInt8.ofNat c.proto.toNat] ++ flat (enc ip c v) ++ [46]) (by omega)
      (by simp [F]; omega)
    rw [hfuel]
    have hstep := pvmLoop_step (F + 1 + is.length) {} st1 0x80
      (UInt8.ofNat c.proto.toNat :: (flat (enc ip c v) ++ [46])) (flat (enc ip c v) ++ [46]) (.proto c.proto.toNat)
      (by simp [parseArg_128, Rd.map, Rd.bind, readByte, Rd.pure, hpb]) rfl rfl
      (by
        have : c.proto.toNat ≤ 5 := by omega
        simp [pexec, this, st1])
    have e0 : ([0x80, UInt8.ofNat c.proto.toNat] ++ flat (enc ip c v) ++ [46]) =
        0x80 :: (UInt8.ofNat c.proto.toNat :: (flat (enc ip c v) ++ [46])) := by simp
    rw [e0, hstep, pvmLoop_run is (flat (enc ip c v)) st1 st2 [46] (F + 1) hpar hnofr e2]
    rw [pvmLoop_stop F st2 r st1.stack [] hs2]
    exact ⟨r, _, rfl, hrep⟩
  · simp only [h2, if_false, flat, Out.nil, List.flatten_nil, List.nil_append]
    have hpo : PProtoOK c {} := by
      simp only [PProtoOK, pyExecModule, pybuiltinModuleE]
      have : c.proto ≤ 2 := by omega
      simp [this]
    obtain ⟨st2, e2, _, r, hs2, hrep⟩ := hrun {} hpo
    let F := ((enc ip c v).chunks.flatten ++ [46]).length
    have hfuel := pvmLoop_fuel
      (((enc ip c v).chunks.flatten ++ [46]).length + 1) ((F + 1) + is.length) {}
      ((enc ip c v).chunks.flatten ++ [46]) (by omega)
      (by simp [F]; omega)
    rw [hfuel]
    have hrun' := pvmLoop_run is (flat (enc ip c v)) {} st2 [46] (F + 1) hpar hnofr e2
    simp only [flat] at hrun'
    rw [hrun', pvmLoop_stop F st2 r [] [] hs2]
    exact ⟨r, _, rfl, hrep⟩

/-- From protocol 1 on no text form is used: no hypothesis about floats. -/
theorem C01_pvm_table_bin (ip : IsPrint) (hip : ip 10 = false) (c : ECfg) (v : GoVal)
    (hp1 : 1 ≤ c.proto) (hp5 : c.proto ≤ 5) (hw : pyWF c v = true) (he : (encodeTop ip c none v).err = none) :
    ∃ r st, pvmLoad (flat (encodeTop ip c none v)) = (.ok r, st, []) ∧ PRep st.heap r (tableP c v) :=
  C01_pvm_table ip hip c v (by omega) hp5 hw (fun _ _ => Or.inl hp1) he

/-- Non-vacuity: a nested value with a Dict keyed by an int, a tuple holding a big int and a NaN, strings, a Call with bytes and
    a Ref, a bytearray, an unsigned 2^64-1 and an application object meets `pyWF` (StrictUnicode on, protocol 2). -/
example : pyWF { proto := 2, su := true }
    (.list [.dict [(.int 1, .str (sb "a")), (.tuple [.big 7 (2 ^ 70), .float 0x7ff8000000000001], .none), (.bytestr (sb "k"), .list [])],
            .call (sb "mod") (sb "fn") [.bytes [1, 2, 3], .ref (.str (sb "oid"))], .bytearray [0, 255], .uint (2 ^ 64 - 1), .user 5]) = true := by
  decide

/-- The same value at protocol 0 without StrictUnicode (the id of the Ref is ASCII). -/
example : pyWF { proto := 0, su := false }
    (.tuple [.map [(.int 1, .str (sb "a")), (.float 0, .none), (.str (sb "k"), .map [])], .big 3 (-5), .ref (.str (sb "oid"))]) = true := by
  decide

/-- **K3, on the machine.** A Go string that is not valid UTF-8, written as BINUNICODE (StrictUnicode on, protocol 2),
    makes CPython's unpickler raise: the hypothesis `strOK` of `C01_pvm_table` is needed. -/
theorem C01_K3_pvm (ip : IsPrint) :
    (encodeTop ip { proto := 2, su := true } none (.str [0xff])).err = none ∧
    (pvmLoad (flat (encodeTop ip { proto := 2, su := true } none (.str [0xff])))).1 = .error .exc := by
  constructor <;> rfl

/-- **K5, on the machine.** A persistent id that is a non-ASCII string, written at protocol 0 as PERSID, makes
    CPython's unpickler raise ("persistent IDs in protocol 0 must be ASCII strings"). -/
theorem C01_K5_pvm (ip : IsPrint) :
    (encodeTop ip { proto := 0, su := false } none (.ref (.str [0xc3, 0xa9]))).err = none ∧
    (pvmLoad (flat (encodeTop ip { proto := 0, su := false } none (.ref (.str [0xc3, 0xa9]))))).1 = .error .exc := by
  constructor <;> rfl

/-- **C01 with a PersistentRef hook.**  `Encode` with a hook writes exactly what it writes for the graph in which every
    application object the hook maps is replaced by its `Ref` (`substRefs`); so the bytes mean, to CPython, the table value
    of that graph: persistent references where the hook answered, the struct's fields where it did not. -/
theorem C01_pvm_table_hook (ip : IsPrint) (hip : ip 10 = false) (c : ECfg) (g : Nat → Option GoVal) (v : GoVal)
    (hp0 : 0 ≤ c.proto) (hp5 : c.proto ≤ 5)
    (hw : pyWF c (substRefs g v) = true) (hf : FloatsOK c (floatsOf (substRefs g v)))
    (he : (encodeTop ip c (some g) v).err = none) :
    ∃ r st, pvmLoad (flat (encodeTop ip c (some g) v)) = (.ok r, st, []) ∧ PRep st.heap r (tableP c (substRefs g v)) := by
  have e : encodeTop ip c (some g) v = encodeTop ip c none (substRefs g v) := by simp [encodeTop]
  rw [e] at he ⊢
  exact C01_pvm_table ip hip c (substRefs g v) hp0 hp5 hw hf he

/-- **The two unpicklers on the encoder's output.**  For a value in the domain of both theorems, og-rek's own decoder and
    CPython's unpickler both accept exactly the bytes `Encode` wrote: the first returns a value standing for `v` (C03), the
    second the Python value the type table assigns to `v` (C01) — the statement of C06 on the programs the encoder writes. -/
theorem C01_C03_agree (ip : IsPrint) (hip : ip 10 = false) (c : ECfg) (cfg : Cfg) (v : GoVal)
    (hp0 : 0 ≤ c.proto) (hp5 : c.proto ≤ 5) (hsu : cfg.su = c.su)
    (hc : canon cfg true v = true) (hw : pyWF c v = true) (hf : FloatsOK c (floatsOf v))
    (he : (encodeTop ip c none v).err = none) (st0 : DState) :
    (∃ r st', decode (goCfg cfg) none st0 (flat (encodeTop ip c none v)) = (.ok r, st', []) ∧ Rep (goCfg cfg) GoVal.ref st'.heap r v) ∧
    (∃ r st, pvmLoad (flat (encodeTop ip c none v)) = (.ok r, st, []) ∧ PRep st.heap r (tableP c v)) :=
  ⟨C03_roundtrip ip hip c cfg v hp0 hp5 hsu hc hf he st0, C01_pvm_table ip hip c v hp0 hp5 hw hf he⟩

end Ogorek
