import Ogorek.Props.C19
import Ogorek.Lemmas.CpRueInv
import Ogorek.Lemmas.CPickleSForms
import Ogorek.Lemmas.QuoteInv
import Ogorek.Py2Repr

/-!
  C19 — the UNICODE text form as CPython writes it: every text that is valid UTF-8, escaped by the pickler's own
  `raw_unicode_escape` (backslash, LF, CR, NUL and 0x1a as `\u00XX`, code points from U+0100 on as `\uXXXX` / `\UXXXXXXXX`,
  Latin-1 characters as single bytes), is read back exactly, whatever follows the line.
-/
namespace Ogorek

/-- **C19 (UNICODE as written by CPython's pickler, protocol 0).** -/
theorem C19_UNICODE_cpython (s u t : Bytes) (h : cpRue s = some u) :
    parseInsn (86 :: (u ++ 10 :: t)) = .ok (.pushStr s, t) := by
  have hinv := cpRue_inv s u h
  have hlf := cpRue_no_lf s u h
  simp only [parseInsn, Rd.bind, readByte, parseArg_86, Rd.mapE, readLine_line _ _ hlf, parseUnicodeArg, hinv, Rd.pure]

/-- … and AsString of the decoded value is that text, in both StrictUnicode modes. -/
theorem C19_UNICODE_cpython_asString (s : Bytes) (su : Bool) (id : Nat) :
    (pushedValue su id (.pushStr s)).bind asString = some s := (C19_helpers s su id).2.1


/-! ### STRING as Python 2's pickler writes it -/

theorem dse_bs (q : UInt8) (hq : q = 92 ∨ q = 34 ∨ q = 39) (rest t : Bytes) (h : pydecodeStringEscape rest = .ok t) :
    pydecodeStringEscape (92 :: q :: rest) = .ok (q :: t) := by
  rw [pydecodeStringEscape.eq_def]
  rcases hq with rfl | rfl | rfl <;> simp [h, Functor.map, Except.map]

theorem dse_tnr (e v : UInt8) (he : (e = 116 ∧ v = 9) ∨ (e = 110 ∧ v = 10) ∨ (e = 114 ∧ v = 13)) (rest t : Bytes)
    (h : pydecodeStringEscape rest = .ok t) : pydecodeStringEscape (92 :: e :: rest) = .ok (v :: t) := by
  rw [pydecodeStringEscape.eq_def]
  rcases he with ⟨rfl, rfl⟩ | ⟨rfl, rfl⟩ | ⟨rfl, rfl⟩ <;> simp [h, ctrlEscape?, Functor.map, Except.map]

/-- One byte of `repr`, decoded. -/
theorem py2reprByte_dec (q : UInt8) (hq : q = 34 ∨ q = 39) (b : UInt8) (rest t : Bytes) (ih : pydecodeStringEscape rest = .ok t) :
    pydecodeStringEscape (py2reprByte q b ++ rest) = .ok (b :: t) := by
  unfold py2reprByte
  by_cases h1 : (b = q || b = 92) = true
  · simp only [h1, if_true, List.cons_append, List.nil_append]
    refine dse_bs b ?_ _ _ ih
    simp only [Bool.or_eq_true, decide_eq_true_eq] at h1
    rcases h1 with rfl | rfl
    · rcases hq with rfl | rfl <;> simp
    · simp
  · simp only [h1, Bool.false_eq_true, if_false]
    simp only [Bool.or_eq_true, decide_eq_true_eq, not_or] at h1
    by_cases h9 : b = 9
    · subst h9; simpa using dse_tnr 116 9 (Or.inl ⟨rfl, rfl⟩) _ _ ih
    · simp only [h9, if_false]
      by_cases h10 : b = 10
      · subst h10; simpa using dse_tnr 110 10 (Or.inr (Or.inl ⟨rfl, rfl⟩)) _ _ ih
      · simp only [h10, if_false]
        by_cases h13 : b = 13
        · subst h13; simpa using dse_tnr 114 13 (Or.inr (Or.inr ⟨rfl, rfl⟩)) _ _ ih
        · simp only [h13, if_false]
          by_cases hx : (b < 32 || b ≥ 127) = true
          · simp only [hx, if_true]
            exact dse_hex b _ _ ih
          · simp only [hx, Bool.false_eq_true, if_false, List.cons_append, List.nil_append]
            exact dse_copy b _ _ h1.2 ih

/-- `string-escape` decoding inverts `repr` with either quote. -/
theorem py2repr_body_inv (q : UInt8) (hq : q = 34 ∨ q = 39) : (s rest t : Bytes) → pydecodeStringEscape rest = .ok t →
    pydecodeStringEscape (s.flatMap (py2reprByte q) ++ rest) = .ok (s ++ t)
  | [], rest, t, h => by simpa using h
  | b :: s, rest, t, h => by
    have ih := py2repr_body_inv q hq s rest t h
    simp only [List.flatMap_cons, List.append_assoc, List.cons_append]
    exact py2reprByte_dec q hq b _ _ ih

theorem py2reprByte_no_lf (q b : UInt8) (hq : q = 34 ∨ q = 39) : (10 : UInt8) ∉ py2reprByte q b := by
  unfold py2reprByte
  by_cases h1 : (b = q || b = 92) = true
  · simp only [h1, if_true]
    simp only [Bool.or_eq_true, decide_eq_true_eq] at h1
    rcases h1 with rfl | rfl
    · rcases hq with rfl | rfl <;> decide
    · decide
  · simp only [h1, Bool.false_eq_true, if_false]
    by_cases h9 : b = 9
    · simp [h9]
    · simp only [h9, if_false]
      by_cases h10 : b = 10
      · simp [h10]
      · simp only [h10, if_false]
        by_cases h13 : b = 13
        · simp [h13]
        · simp only [h13, if_false]
          by_cases hx : (b < 32 || b ≥ 127) = true
          · simp only [hx, if_true, hexEscape]
            intro hm
            simp only [List.mem_cons, List.not_mem_nil, or_false] at hm
            rcases hm with hm | hm | hm | hm
            · exact absurd hm (by decide)
            · exact absurd hm (by decide)
            · exact hexLower_ne_lf _ hm.symm
            · exact hexLower_ne_lf _ hm.symm
          · simp only [hx, Bool.false_eq_true, if_false, List.mem_cons, List.not_mem_nil, or_false]
            exact fun hh => h10 hh.symm

theorem py2quoteChar_cases (s : Bytes) : py2quoteChar s = 34 ∨ py2quoteChar s = 39 := by
  unfold py2quoteChar; split <;> simp

/-- **C19 (STRING as Python 2's pickler writes it).**  For EVERY byte string `s`, the line `S` + `repr(s)` + LF — single or
    double quotes as `repr` chooses, backslash / quote / TAB / LF / CR escapes, `\xNN` for the other bytes outside 0x20..0x7e — is
    read back as exactly `s` (a Python-2 str: `pushByteString`), whatever follows the line. -/
theorem C19_STRING_py2repr (s t : Bytes) :
    parseInsn (83 :: (py2repr s ++ 10 :: t)) = .ok (.pushByteString s, t) := by
  have hq := py2quoteChar_cases s
  have hbody := py2repr_body_inv (py2quoteChar s) hq s [] [] (by rw [pydecodeStringEscape.eq_def])
  simp only [List.append_nil] at hbody
  have hnolf : (10 : UInt8) ∉ py2repr s := by
    unfold py2repr
    intro hm
    simp only [List.mem_cons, List.mem_append, List.mem_flatMap, List.not_mem_nil, or_false] at hm
    rcases hm with hm | ⟨b, _, hb⟩ | hm
    · rcases hq with h | h <;> rw [h] at hm <;> exact absurd hm (by decide)
    · exact py2reprByte_no_lf _ b hq hb
    · rcases hq with h | h <;> rw [h] at hm <;> exact absurd hm (by decide)
  simp only [parseInsn, Rd.bind, readByte, parseArg_83, Rd.mapE, readLine_line _ _ hnolf]
  have hps : parseStringArg (py2repr s) = .ok s := by
    unfold parseStringArg py2repr
    have hlen : ¬ ((py2quoteChar s :: (s.flatMap (py2reprByte (py2quoteChar s)) ++ [py2quoteChar s])).length < 2) := by simp
    simp only [hlen, if_false]
    rcases hq with h | h <;> simp [h] at hbody ⊢ <;> simp [hbody]
  simp [hps, Rd.pure, Functor.map, Except.map]

end Ogorek
