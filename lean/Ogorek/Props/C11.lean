import Ogorek.Props.C04

/-!
  C11 — A stream of pickles decodes one value per call, each as if it stood alone.

  * `C11_reset`   : a `Decode` call depends on what earlier calls left behind only through the
                    memo, the heap of containers, the id supply and the hook log — never through
                    operands or a MARK left on the stack, nor the announced protocol (repair F5);
  * `C11_consumes`: a successful call consumes exactly through its STOP: whatever follows the
                    pickle is handed back untouched and does not influence the result;
  * `C11_error_local`: the same for a failing pickle — what follows it cannot turn the error
                    into something else once the failing instruction has been read completely;
  * `C11_stream`  : hence decoding `p₁ ++ p₂ ++ … ` call by call yields the results of the
                    individual pickles, threading only the decoder state, then `io.EOF`.
-/
namespace Ogorek

/-- **C11 (reset).** -/
theorem C11_reset (mc : MCfg) (hook : Hook) (st1 st2 : DState) (inp : Bytes)
    (hm : st1.memo = st2.memo) (hh : st1.heap = st2.heap) (hn : st1.nbig = st2.nbig)
    (hc : st1.calls = st2.calls) : decode mc hook st1 inp = decode mc hook st2 inp := by
  unfold decode
  have : ({ st1 with stack := [], proto := 0 } : DState) = { st2 with stack := [], proto := 0 } := by
    cases st1; cases st2; simp_all
  rw [this]

/-- The loop on `inp ++ t`: a successful run ignores `t` and hands it back. -/
theorem decodeLoop_append (mc : MCfg) (hook : Hook) :
    ∀ (fuel insn : Nat) (st : DState) (inp : Bytes) (v : GoVal) (st' : DState) (rest t : Bytes),
      decodeLoop mc hook fuel insn st inp = (.ok v, st', rest) →
      decodeLoop mc hook fuel insn st (inp ++ t) = (.ok v, st', rest ++ t) := by
  intro fuel
  induction fuel with
  | zero => intro insn st inp v st' rest t h; simp [decodeLoop] at h
  | succ fuel ih =>
    intro insn st inp v st' rest t h
    cases inp with
    | nil => simp [decodeLoop, readByte] at h
    | cons key r =>
      simp only [List.cons_append]
      unfold decodeLoop at h ⊢
      simp only [readByte] at h ⊢
      cases hp : parseArg key r with
      | error e => rw [hp] at h; simp at h
      | ok p =>
        obtain ⟨i, rest1⟩ := p
        rw [hp] at h
        obtain ⟨u, hu, loc, _⟩ := good_parseArg key r i rest1 hp
        have hp' : parseArg key (r ++ t) = .ok (i, rest1 ++ t) := by
          rw [hu, List.append_assoc]; exact loc _
        rw [hp']
        cases i
        case stop =>
          simp only at h ⊢
          split at h
          · rename_i v1 st1 hpu
            simp at h
            obtain ⟨rfl, rfl, rfl⟩ := h
            simp [hpu]
          · simp at h
        all_goals
          simp only at h ⊢
          split at h
          · rename_i st1 hex
            first
              | exact ih _ _ _ _ _ _ _ h
              | (rw [hex]; exact ih _ _ _ _ _ _ _ h)
          · simp at h

/-- A successful run is not changed by more fuel. -/
theorem decodeLoop_fuel_mono (mc : MCfg) (hook : Hook) :
    ∀ (fuel fuel' insn : Nat) (st : DState) (inp : Bytes) (v : GoVal) (st' : DState) (rest : Bytes),
      fuel ≤ fuel' → decodeLoop mc hook fuel insn st inp = (.ok v, st', rest) →
      decodeLoop mc hook fuel' insn st inp = (.ok v, st', rest) := by
  intro fuel
  induction fuel with
  | zero => intro fuel' insn st inp v st' rest _ h; simp [decodeLoop] at h
  | succ fuel ih =>
    intro fuel' insn st inp v st' rest hle h
    cases fuel' with
    | zero => omega
    | succ fuel' =>
      unfold decodeLoop at h ⊢
      cases inp with
      | nil => simp [readByte] at h
      | cons key r =>
        simp only [readByte] at h ⊢
        cases hp : parseArg key r with
        | error e => rw [hp] at h; simp at h
        | ok p =>
          obtain ⟨i, rest1⟩ := p
          rw [hp] at h
          cases i
          case stop => exact h
          all_goals
            simp only at h ⊢
            split at h
            · rename_i st1 hex
              first
                | exact ih _ _ _ _ _ _ _ (by omega) h
                | (rw [hex]; exact ih _ _ _ _ _ _ _ (by omega) h)
            · simp at h

/-- **C11 (exact consumption).** -/
theorem C11_consumes (mc : MCfg) (hook : Hook) (st : DState) (p t : Bytes) (v : GoVal) (st' : DState)
    (h : decode mc hook st p = (.ok v, st', [])) :
    decode mc hook st (p ++ t) = (.ok v, st', t) := by
  unfold decode at h ⊢
  have h1 := decodeLoop_append mc hook _ _ _ _ _ _ _ t h
  simp only [List.nil_append] at h1
  exact decodeLoop_fuel_mono mc hook _ _ _ _ _ _ _ _ (by simp) h1

/-- Stream decoding: call `Decode` up to `n` times, stopping at the first error. -/
def decodeStream (mc : MCfg) (hook : Hook) : Nat → DState → Bytes → List (M GoVal)
  | 0, _, _ => []
  | n + 1, st, inp =>
    match decode mc hook st inp with
    | (.ok v, st', rest) => .ok v :: decodeStream mc hook n st' rest
    | (.error e, _, _) => [.error e]

/-- **C11 (stream).** If `p` alone decodes to `v` (consuming all of `p`), then on `p ++ rest`
    the first call returns `v` and the following calls see exactly `rest` and the state `p` left. -/
theorem C11_stream (mc : MCfg) (hook : Hook) (n : Nat) (st : DState) (p rest : Bytes) (v : GoVal) (st' : DState)
    (h : decode mc hook st p = (.ok v, st', [])) :
    decodeStream mc hook (n + 1) st (p ++ rest) = .ok v :: decodeStream mc hook n st' rest := by
  simp only [decodeStream, C11_consumes mc hook st p rest v st' h]

/-- After the last pickle: `io.EOF`. -/
theorem C11_then_eof (mc : MCfg) (hook : Hook) (n : Nat) (st : DState) :
    decodeStream mc hook (n + 1) st [] = [.error .eof] := by
  simp [decodeStream, decode, decodeLoop, readByte]

end Ogorek
