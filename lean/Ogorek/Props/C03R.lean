import Ogorek.Reflect
import Ogorek.Props.C03N
import Ogorek.Props.C01Pvm
import Ogorek.Props.C12

/-!
  # The reflect universe reduces to the plain one

  `encR` is the encoder over reflect-level values (typed slices and arrays, maps of any key type, pointers and pointer chains, nil
  pointers and interfaces, structs with exported / unexported / tagged fields).  `lower` names, for each such value, the plain value
  that is written identically (`encR_lower`): a pointer is its pointee, a nil pointer or interface is None, a slice or array is a
  list, a byte array a bytearray, a struct the map of its emitted fields (tag names if any exported field is tagged).  Hence
  the round-trip / normal-form theorem (C03) and the CPython theorem (C01) hold for the reflect universe too.
-/
namespace Ogorek

mutual
/-- The plain value written identically, if the value is encodable at all. -/
def lower : RVal → Option GoVal
  | .val v => some v
  | .unsupported _ => none
  | .invalid => some .none
  | .zero => none
  | .seq xs => match lowerList xs with
    | some ys => some (.list ys)
    | none => none
  | .tuple xs => match lowerList xs with
    | some ys => some (.tuple ys)
    | none => none
  | .bytearr bs => some (.bytearray bs)
  | .map kvs => match lowerPairs kvs with
    | some es => some (.map es)
    | none => none
  | .ptr v => lower v
  | .strct fields => match lowerFields (fields.any fun f => f.2.1 && f.2.2.1.isSome) fields with
    | some es => if es.isEmpty then none else some (.map es)     -- a struct without emitted fields is written `(d`: see `encR_empty_struct`
    | none => none
def lowerList : List RVal → Option (List GoVal)
  | [] => some []
  | x :: xs => match lower x, lowerList xs with
    | some a, some as => some (a :: as)
    | _, _ => none
def lowerPairs : List (RVal × RVal) → Option (List (GoVal × GoVal))
  | [] => some []
  | (k, v) :: r => match lower k, lower v, lowerPairs r with
    | some a, some b, some es => some ((a, b) :: es)
    | _, _, _ => none
def lowerFields (tagged : Bool) : List (Bytes × Bool × Option Bytes × RVal) → Option (List (GoVal × GoVal))
  | [] => some []
  | (name, exported, tag, v) :: r =>
    if !exported then lowerFields tagged r
    else if tagged then
      match tag with
      | some t => match lower v, lowerFields tagged r with
        | some b, some es => some ((.str t, b) :: es)
        | _, _ => none
      | none => lowerFields tagged r
    else match lower v, lowerFields tagged r with
      | some b, some es => some ((.str name, b) :: es)
      | _, _ => none
end

theorem nil_seq (a : Out) : Out.nil +> a = a := by
  simp [Out.seq, Out.nil]

mutual
theorem encR_lower (ip : IsPrint) (c : ECfg) : ∀ (rv : RVal) (v : GoVal), lower rv = some v → encR ip c rv = enc ip c v
  | .val w, v, h => by simp only [lower, Option.some.injEq] at h; subst h; rfl
  | .unsupported _, _, h => by simp [lower] at h
  | .zero, _, h => by simp [lower] at h
  | .invalid, v, h => by simp only [lower, Option.some.injEq] at h; subst h; rfl
  | .bytearr bs, v, h => by simp only [lower, Option.some.injEq] at h; subst h; rfl
  | .ptr w, v, h => by simp only [lower] at h; simp only [encR]; exact encR_lower ip c w v h
  | .seq xs, v, h => by
    simp only [lower] at h
    cases hl : lowerList xs with
    | none => rw [hl] at h; cases h
    | some ys =>
      rw [hl] at h; cases h
      have hlen := lowerList_length xs ys hl
      simp only [encR, enc, encRList_lower ip c xs ys hl, hlen]
  | .tuple xs, v, h => by
    simp only [lower] at h
    cases hl : lowerList xs with
    | none => rw [hl] at h; cases h
    | some ys =>
      rw [hl] at h; cases h
      have hlen := lowerList_length xs ys hl
      simp only [encR, enc, encRList_lower ip c xs ys hl, hlen]
  | .map kvs, v, h => by
    simp only [lower] at h
    cases hl : lowerPairs kvs with
    | none => rw [hl] at h; cases h
    | some es =>
      rw [hl] at h; cases h
      have hlen := lowerPairs_length kvs es hl
      simp only [encR, enc, encRPairs_lower ip c kvs es hl, hlen]
  | .strct fields, v, h => by
    simp only [lower] at h
    cases hl : lowerFields (fields.any fun f => f.2.1 && f.2.2.1.isSome) fields with
    | none => rw [hl] at h; cases h
    | some es =>
      rw [hl] at h
      simp only at h
      split at h
      · cases h
      · rename_i hne
        cases h
        have hlen : ¬ (c.proto ≥ 1 ∧ es.length = 0) := by
          intro hh
          have : es = [] := List.length_eq_zero_iff.mp hh.2
          subst this
          simp at hne
        simp only [encR, enc, hlen, if_false, encRFields_lower ip c _ fields es hl]
theorem encRList_lower (ip : IsPrint) (c : ECfg) : ∀ (xs : List RVal) (ys : List GoVal), lowerList xs = some ys →
    encRList ip c xs = encList ip c ys
  | [], ys, h => by simp only [lowerList, Option.some.injEq] at h; subst h; rfl
  | x :: xs, ys, h => by
    simp only [lowerList] at h
    cases h1 : lower x <;> cases h2 : lowerList xs <;> rw [h1, h2] at h <;> cases h
    simp only [encRList, encList, encR_lower ip c x _ h1, encRList_lower ip c xs _ h2]
theorem encRPairs_lower (ip : IsPrint) (c : ECfg) : ∀ (kvs : List (RVal × RVal)) (es : List (GoVal × GoVal)), lowerPairs kvs = some es →
    encRPairs ip c kvs = encPairs ip c es
  | [], es, h => by simp only [lowerPairs, Option.some.injEq] at h; subst h; rfl
  | (k, w) :: r, es, h => by
    simp only [lowerPairs] at h
    cases h1 : lower k <;> cases h2 : lower w <;> cases h3 : lowerPairs r <;> rw [h1, h2, h3] at h <;> cases h
    simp only [encRPairs, encPairs, encR_lower ip c k _ h1, encR_lower ip c w _ h2, encRPairs_lower ip c r _ h3]
theorem encRFields_lower (ip : IsPrint) (c : ECfg) (tagged : Bool) : ∀ (fs : List (Bytes × Bool × Option Bytes × RVal)) (es : List (GoVal × GoVal)),
    lowerFields tagged fs = some es → encRFields ip c tagged fs = encPairs ip c es
  | [], es, h => by simp only [lowerFields, Option.some.injEq] at h; subst h; rfl
  | (name, exported, tag, w) :: r, es, h => by
    simp only [lowerFields] at h
    simp only [encRFields]
    cases exported with
    | false =>
      simp only [Bool.not_false, if_true] at h ⊢
      rw [nil_seq]; exact encRFields_lower ip c tagged r es h
    | true =>
      simp only [Bool.not_true, Bool.false_eq_true, if_false] at h ⊢
      cases tagged with
      | true =>
        simp only [if_true] at h ⊢
        cases tag with
        | none => simp only at h ⊢; rw [nil_seq]; exact encRFields_lower ip c true r es h
        | some t =>
          simp only at h ⊢
          cases h1 : lower w <;> cases h2 : lowerFields true r <;> rw [h1, h2] at h <;> cases h
          simp only [encPairs, enc, encR_lower ip c w _ h1, encRFields_lower ip c true r _ h2]
      | false =>
        simp only [Bool.false_eq_true, if_false] at h ⊢
        cases h1 : lower w <;> cases h2 : lowerFields false r <;> rw [h1, h2] at h <;> cases h
        simp only [encPairs, enc, encR_lower ip c w _ h1, encRFields_lower ip c false r _ h2]
theorem lowerList_length : ∀ (xs : List RVal) (ys : List GoVal), lowerList xs = some ys → xs.length = ys.length
  | [], ys, h => by simp only [lowerList, Option.some.injEq] at h; subst h; rfl
  | x :: xs, ys, h => by
    simp only [lowerList] at h
    cases h1 : lower x <;> cases h2 : lowerList xs <;> rw [h1, h2] at h <;> cases h
    simp [lowerList_length xs _ h2]
theorem lowerPairs_length : ∀ (kvs : List (RVal × RVal)) (es : List (GoVal × GoVal)), lowerPairs kvs = some es → kvs.length = es.length
  | [], es, h => by simp only [lowerPairs, Option.some.injEq] at h; subst h; rfl
  | (k, w) :: r, es, h => by
    simp only [lowerPairs] at h
    cases h1 : lower k <;> cases h2 : lower w <;> cases h3 : lowerPairs r <;> rw [h1, h2, h3] at h <;> cases h
    simp [lowerPairs_length r _ h3]
end

theorem encodeTopR_lower (ip : IsPrint) (c : ECfg) (rv : RVal) (v : GoVal) (h : lower rv = some v) :
    encodeTopR ip c rv = encodeTop ip c none v := by
  simp [encodeTopR, encodeTop, encR_lower ip c rv v h]

/-- **C03 for the reflect universe.** A reflect-level value that is encodable (`lower rv = some v`) — typed slices, arrays, maps
    of any key type, pointer chains, nil pointers / interfaces, structs with tagged or untagged fields, nested to any depth —
    round-trips to the documented normal form of the plain value it is written as: `Decode(Encode(rv))` represents `norm v`. -/
theorem C03_normal_form_reflect (ip : IsPrint) (hip : ip 10 = false) (c : ECfg) (cfg : Cfg) (rv : RVal) (v : GoVal)
    (hl : lower rv = some v) (hp0 : 0 ≤ c.proto) (hp5 : c.proto ≤ 5) (hsu : cfg.su = c.su)
    (hc : canon cfg true (norm v) = true) (hf : FloatsOK c (floatsOf v)) (he : (encodeTopR ip c rv).err = none) (st0 : DState) :
    ∃ r st', decode (goCfg cfg) none st0 (flat (encodeTopR ip c rv)) = (.ok r, st', []) ∧
      Rep (goCfg cfg) GoVal.ref st'.heap r (norm v) := by
  rw [encodeTopR_lower ip c rv v hl] at he ⊢
  exact C03_normal_form ip hip c cfg v hp0 hp5 hsu hc hf he st0

/-- **C01 for the reflect universe.** The bytes written for an encodable reflect-level value mean, to CPython's unpickler, the
    table value of the plain value it is written as. -/
theorem C01_pvm_table_reflect (ip : IsPrint) (hip : ip 10 = false) (c : ECfg) (rv : RVal) (v : GoVal)
    (hl : lower rv = some v) (hp0 : 0 ≤ c.proto) (hp5 : c.proto ≤ 5)
    (hw : pyWF c v = true) (hf : FloatsOK c (floatsOf v)) (he : (encodeTopR ip c rv).err = none) :
    ∃ r st, pvmLoad (flat (encodeTopR ip c rv)) = (.ok r, st, []) ∧ PRep st.heap r (tableP c v) := by
  rw [encodeTopR_lower ip c rv v hl] at he ⊢
  exact C01_pvm_table ip hip c v hp0 hp5 hw hf he

/-- A struct none of whose fields is emitted (no exported field, or only untagged ones beside a tagged unexported…) is written
    `MARK DICT`: an empty dict, at every protocol. -/
theorem encR_empty_struct (ip : IsPrint) (c : ECfg) (fields : List (Bytes × Bool × Option Bytes × RVal))
    (h : lowerFields (fields.any fun f => f.2.1 && f.2.2.1.isSome) fields = some []) :
    encR ip c (.strct fields) = emit [40] +> Out.nil +> emit [100] := by
  simp only [encR, encRFields_lower ip c _ fields [] h, encPairs]

/-- Non-vacuity: a pointer to a struct with a tagged and an untagged exported field and an unexported one, holding a typed slice,
    a nil pointer and a byte array, lowers to the map of its tagged field only. -/
example : lower (.ptr (.strct [(sb "A", true, some (sb "a"), .seq [.val (.int 1), .invalid, .bytearr [1, 2]]),
      (sb "B", true, none, .val (.int 2)), (sb "c", false, none, .zero)])) =
    some (.map [(.str (sb "a"), .list [.int 1, .none, .bytearray [1, 2]])]) := by
  simp [lower, lowerFields, lowerList]

/-- **C12 for the reflect universe.** The output for an encodable reflect-level value (structs, typed containers, pointers) passes the
    independent opcode scanner at every protocol. -/
theorem C12_conforms_reflect (ip : IsPrint) (hip : ip 10 = false) (c : ECfg) (rv : RVal) (v : GoVal)
    (hl : lower rv = some v) (hp0 : 0 ≤ c.proto) (hp5 : c.proto ≤ 5)
    (hs : sizesOK v = true) (he : (encodeTopR ip c rv).err = none) :
    conforms c.proto.toNat (flat (encodeTopR ip c rv)) = .ok () := by
  rw [encodeTopR_lower ip c rv v hl] at he ⊢
  exact C12_conforms ip hip c v hp0 hp5 hs he

end Ogorek
