import Ogorek.Lemmas.CPickleRT
import Ogorek.Lemmas.CPickleSRT
import Ogorek.Props.C03
import Ogorek.CPickleOK

/-!
  C02 — what CPython's pickler writes for an object of the basic types, og-rek decodes to the
  documented Go value.  `cpDumps` is the model of `pickle.dumps` (Ogorek/CPickle.lean, compared
  byte for byte with the real C pickler on every run).
-/
namespace Ogorek

/-- STOP after a straight-line run from the reset state: `Decode` returns the top of the stack. -/
theorem decode_of_run (mc : MCfg) (hook : Hook) (st0 st' : DState) (pre : Bytes) (is : List Insn) (r : GoVal) (s : List GoVal)
    (hp : Parses pre is) (hr : runFrom mc hook 0 is { st0 with stack := [], proto := 0 } = .ok st')
    (hs : st'.stack = r :: s) (hm : isMark r = false) :
    decode mc hook st0 (pre ++ [46]) = (.ok r, { st' with stack := s }, []) := by
  unfold decode
  have hfuel := decodeLoop_fuel mc hook ((pre ++ [46]).length + 1) (((pre ++ [46]).length + 1) + is.length) 0
    { st0 with stack := [], proto := 0 } (pre ++ [46]) (by omega) (by omega)
  have hrun := decodeLoop_run mc hook is pre 0 _ st' [46] ((pre ++ ([46] : Bytes)).length + 1) hp hr
  rw [hfuel, hrun]
  exact decodeLoop_stop mc hook _ _ st' r s [] hs hm

/-- The PROTO header (from protocol 2 on) and, optionally, one FRAME header. -/
theorem header_runs (mc : MCfg) (hook : Hook) (p : Nat) (hp5 : p ≤ 5) (fr : Bytes) (hfr : fr = [] ∨ ∃ n, fr = 0x95 :: le8 n) :
    ∃ his, Parses ((if p ≥ 2 then [0x80, UInt8.ofNat p] else []) ++ fr) his ∧
      ∀ insn st, runFrom mc hook insn his st = .ok { st with proto := if p ≥ 2 then p else st.proto } := by
  have hpb : (UInt8.ofNat p).toNat = p := by simp [UInt8.toNat_ofNat']; omega
  have hproto : Parses [0x80, UInt8.ofNat p] [.proto p] := by
    apply Parses.single rfl
    intro t
    simp [parseInsn, Rd.bind, readByte, parseArg_128, Rd.map, Rd.pure, hpb]
  have hframe : ∀ n, Parses (0x95 :: le8 n) [.frame] := by
    intro n
    apply Parses.single rfl
    intro t
    have e : (0x95 :: le8 n) ++ t = 0x95 :: (natLE 8 n ++ t) := by simp [le8]
    rw [e]
    simp [parseInsn, Rd.bind, readByte, parseArg_149, Rd.map, Rd.pure, readFull_exact 8 _ t (natLE_length 8 _)]
  by_cases h2 : p ≥ 2
  · simp only [h2, if_true]
    rcases hfr with rfl | ⟨n, rfl⟩
    · refine ⟨[.proto p], by simpa using hproto, fun insn st => ?_⟩
      simp [runFrom, exec, hp5]
    · refine ⟨[.proto p, .frame], by simpa using Parses.append hproto (hframe n), fun insn st => ?_⟩
      simp [runFrom, exec, hp5]
  · simp only [h2, if_false, List.nil_append]
    rcases hfr with rfl | ⟨n, rfl⟩
    · exact ⟨[], Parses.nil, fun insn st => by simp [runFrom]⟩
    · refine ⟨[.frame], hframe n, fun insn st => ?_⟩
      simp [runFrom, exec]

/-- The common core: header, object, STOP. -/
theorem decode_cpickle (cfg : Cfg) (hook : Hook) (py : Bool) (p : Nat) (hp5 : p ≤ 5) (v : PyObj) (b : Bytes) (n' : Nat)
    (hok : pkOK cfg p v) (hsave : cpSave py p v 0 = some (b, n')) (fr : Bytes) (hfr : fr = [] ∨ ∃ n, fr = 0x95 :: le8 n)
    (st0 : DState) :
    ∃ r st', decode (goCfg cfg) hook st0 ((if p ≥ 2 then [0x80, UInt8.ofNat p] else []) ++ fr ++ (b ++ [46])) = (.ok r, st', []) ∧
      Rep (goCfg cfg) GoVal.ref st'.heap r (goOf v) := by
  obtain ⟨his, hph, hrh⟩ := header_runs (goCfg cfg) hook p hp5 fr hfr
  obtain ⟨is, hpar, hrun⟩ := pk_val (mc := goCfg cfg) (hook := hook) rfl py p v 0 b n' hok hsave
  let sta : DState := { st0 with stack := [], proto := 0 }
  let st1 : DState := { sta with proto := if p ≥ 2 then p else sta.proto }
  have hpo : ProtoOK (ecfg p) st1 := by
    simp only [ProtoOK, pybuiltinModule, pybuiltinModuleE, ecfg, st1, sta]
    by_cases h2 : p ≥ 2
    · have : ((p : Int) ≤ 2) ↔ (p ≤ 2) := by omega
      simp [h2, this]
    · have h1 : (p : Int) ≤ 2 := by omega
      simp [h2, h1]
  obtain ⟨st2, e2, _, _, r, hs2, hrep, _⟩ := hrun (0 + his.length) st1 hpo trivial
  have hall : runFrom (goCfg cfg) hook 0 (his ++ is) sta = .ok st2 := by
    rw [runFrom_append (goCfg cfg) hook his is 0 sta st1 (hrh 0 sta)]
    exact e2
  have hdec := decode_of_run (goCfg cfg) hook st0 st2 _ (his ++ is) r st1.stack (Parses.append hph hpar) hall hs2 hrep.not_mark
  have hbytes : (if p ≥ 2 then [0x80, UInt8.ofNat p] else []) ++ fr ++ (b ++ [46]) =
      ((if p ≥ 2 then [0x80, UInt8.ofNat p] else []) ++ fr ++ b) ++ [46] := by simp
  rw [hbytes]
  exact ⟨r, _, hdec, RepG.toRep (goCfg cfg) GoVal.ref r v hrep⟩

/-- **C02 (CPython's pickler, protocols 0–5).**  For every Python object built from None, bool, int, float,
    str, bytes, bytearray, tuple, list and dict, nested to any depth and of any size, in which no memoized
    object occurs twice, every protocol 0..5 and all four decoder configurations: if `pickle.dumps(obj, p)`
    is within the model (`cpDumps p obj = some bs`: no LONG4 / BINUNICODE8 / BINBYTES8 — og-rek has none of
    them —, bytes from protocol 3 and bytearray from protocol 5 on, text that is valid UTF-8 at protocol 0),
    then `Decode` of exactly these bytes — the opcodes CPython chose, its PUT / MEMOIZE after every string and
    container, lists and dicts created empty and filled by APPEND(S) / SETITEM(S) in batches of 1000 —
    succeeds, consumes all of them and returns the documented Go value `goOf obj` (int64 for what fits 32
    bits and *big.Int beyond, as the opcode dictates; string, Bytes, []byte, Tuple, []any, and map / Dict by
    mode with the dict's entries in order).  From any decoder state, with or without a PersistentLoad hook.
    Hypothesis `pkOK`: the keys of each dict are acceptable to the decoder's table and pairwise different
    for it (`keysOK`, as in C03); a bytearray is below 4 GiB; and at protocol 0 only, for each float
    `PyFloatTextOK` (ParseFloat reads Python's repr back — not proved, as `FloatTextOK` in C03).  That the
    decoder's raw-unicode-escape reading inverts CPython's protocol-0 writing of text is proved
    (`cpRue_inv`, `cpRue_no_lf`), as is that the least LONG1 width holds the number (`long1Width_fits`). -/
theorem C02_pickler (cfg : Cfg) (hook : Hook) (py : Bool) (p : Nat) (hp5 : p ≤ 5) (v : PyObj) (bs : Bytes)
    (hok : pkOK cfg p v) (hd : cpDumps py p v = some bs) (st0 : DState) :
    ∃ r st', decode (goCfg cfg) hook st0 bs = (.ok r, st', []) ∧ Rep (goCfg cfg) GoVal.ref st'.heap r (goOf v) := by
  unfold cpDumps cpDumpsBody at hd
  cases hs : cpSave py p v 0 with
  | none => simp [hs] at hd
  | some r0 =>
    obtain ⟨b, n'⟩ := r0
    simp only [hs, Option.map_some, Option.some.injEq] at hd
    subst hd
    have := decode_cpickle cfg hook py p hp5 v b n' hok hs [] (Or.inl rfl) st0
    simpa using this

/-- The same for the pickle as CPython frames it (protocol 4 and 5: one FRAME around everything after PROTO). -/
theorem C02_pickler_framed (cfg : Cfg) (hook : Hook) (py : Bool) (p : Nat) (hp5 : p ≤ 5) (v : PyObj) (bs : Bytes)
    (hok : pkOK cfg p v) (hd : cpDumpsFramed py p v = some bs) (st0 : DState) :
    ∃ r st', decode (goCfg cfg) hook st0 bs = (.ok r, st', []) ∧ Rep (goCfg cfg) GoVal.ref st'.heap r (goOf v) := by
  unfold cpDumpsFramed cpDumpsBody at hd
  cases hs : cpSave py p v 0 with
  | none => simp [hs] at hd
  | some r0 =>
    obtain ⟨b, n'⟩ := r0
    simp only [hs, Option.map_some, Option.some.injEq] at hd
    subst hd
    by_cases hf : 4 ≤ p ∧ 3 ≤ b.length
    · have := decode_cpickle cfg hook py p hp5 v b n' hok hs (0x95 :: le8 (b ++ [46]).length) (Or.inr ⟨_, rfl⟩) st0
      simpa [hf.1, hf.2] using this
    · have := decode_cpickle cfg hook py p hp5 v b n' hok hs [] (Or.inl rfl) st0
      simpa [hf] using this



/-- The core with the memo read: on a Decoder whose memo is empty. -/
theorem decode_cpickleS (cfg : Cfg) (hook : Hook) (mz : Option PKey → Bool) (py : Bool) (p : Nat) (hp5 : p ≤ 5) (v : PyObjS) (b : Bytes) (s' : PSt)
    (hok : pkOK cfg p (erase v)) (hsave : cpSaveS mz py p v ⟨0, []⟩ = some (b, s')) (fr : Bytes) (hfr : fr = [] ∨ ∃ n, fr = 0x95 :: le8 n)
    (st0 : DState) (hfresh : st0.memo = []) :
    ∃ r st', decode (goCfg cfg) hook st0 ((if p ≥ 2 then [0x80, UInt8.ofNat p] else []) ++ fr ++ (b ++ [46])) = (.ok r, st', []) ∧
      Rep (goCfg cfg) GoVal.ref st'.heap r (goOf (erase v)) := by
  obtain ⟨his, hph, hrh⟩ := header_runs (goCfg cfg) hook p hp5 fr hfr
  obtain ⟨is, hpar, hrun⟩ := sk_val (mc := goCfg cfg) (hook := hook) rfl py p v ⟨0, []⟩ b s' hok hsave
  let sta : DState := { st0 with stack := [], proto := 0 }
  let st1 : DState := { sta with proto := if p ≥ 2 then p else sta.proto }
  have hpo : ProtoOK (ecfg p) st1 := by
    simp only [ProtoOK, pybuiltinModule, pybuiltinModuleE, ecfg, st1, sta]
    by_cases h2 : p ≥ 2
    · have : ((p : Int) ≤ 2) ↔ (p ≤ 2) := by omega
      simp [h2, this]
    · have h1 : (p : Int) ≤ 2 := by omega
      simp [h2, h1]
  have hinv : MemoInv p ⟨0, []⟩ st1 := by
    refine ⟨by simp [st1, sta, hfresh], by simp, ?_, ?_⟩
    · intro k hk; simp [st1, sta, hfresh] at hk
    · intro k idx hk; simp at hk
  obtain ⟨st2, e2, _, _, r, hs2, hrep, _⟩ := hrun (0 + his.length) st1 hpo hinv
  have hall : runFrom (goCfg cfg) hook 0 (his ++ is) sta = .ok st2 := by
    rw [runFrom_append (goCfg cfg) hook his is 0 sta st1 (hrh 0 sta)]
    exact e2
  have hdec := decode_of_run (goCfg cfg) hook st0 st2 _ (his ++ is) r st1.stack (Parses.append hph hpar) hall hs2 hrep.not_mark
  have hbytes : (if p ≥ 2 then [0x80, UInt8.ofNat p] else []) ++ fr ++ (b ++ [46]) =
      ((if p ≥ 2 then [0x80, UInt8.ofNat p] else []) ++ fr ++ b) ++ [46] := by simp
  rw [hbytes]
  exact ⟨r, _, hdec, RepG.toRep (goCfg cfg) GoVal.ref r (erase v) hrep⟩

/-- **C02 (CPython's pickler with its memo read, protocols 0–5).**  As `C02_pickler`, for objects in which str, bytes
    and bytearray objects may occur any number of times — the pickler then writes them once and fetches them with
    BINGET / LONG_BINGET / GET afterwards — and with bytes at protocols 0-2 and bytearray at protocols 0-4, which
    CPython writes as `_codecs.encode(text, 'latin1')`, `bytes()`, `bytearray(bytes)` through globals (and the string
    `'latin1'`) that are memoized at their first use and fetched later; GLOBAL below protocol 4, two strings and
    STACK_GLOBAL from 4 on.  `cpDumpsS` is the model (`Ogorek/CPickleS.lean`), identities being part of the object.
    On a Decoder whose memo is empty (a new Decoder: MEMOIZE numbers entries by the size of the memo, finding K7),
    `Decode` of exactly these bytes succeeds, consumes them all and returns the documented Go value.  Proof: the same
    induction (`sk_val`), every statement now carrying the memo invariant `MemoInv` — the decoder's memo holds exactly the
    keys "0" … "n-1" and, under each index the pickler may fetch again, the value standing for what was memoized there
    (`MemoInv.put`, `runs_get`); containers remain tree-shaped (a list fetched twice is finding K1). -/
theorem C02_pickler_shared (cfg : Cfg) (hook : Hook) (mz : Option PKey → Bool) (py : Bool) (p : Nat) (hp5 : p ≤ 5) (v : PyObjS) (bs : Bytes)
    (hok : pkOK cfg p (erase v)) (hd : cpDumpsFramedS mz py p v = some bs) (st0 : DState) (hfresh : st0.memo = []) :
    ∃ r st', decode (goCfg cfg) hook st0 bs = (.ok r, st', []) ∧ Rep (goCfg cfg) GoVal.ref st'.heap r (goOf (erase v)) := by
  unfold cpDumpsFramedS cpDumpsBodyS at hd
  cases hs : cpSaveS mz py p v ⟨0, []⟩ with
  | none => simp [hs] at hd
  | some r0 =>
    obtain ⟨b, s'⟩ := r0
    simp only [hs, Option.map_some, Option.some.injEq] at hd
    subst hd
    by_cases hf : 4 ≤ p ∧ 3 ≤ b.length
    · have := decode_cpickleS cfg hook mz py p hp5 v b s' hok hs (0x95 :: le8 (b ++ [46]).length) (Or.inr ⟨_, rfl⟩) st0 hfresh
      simpa [hf.1, hf.2] using this
    · have := decode_cpickleS cfg hook mz py p hp5 v b s' hok hs [] (Or.inl rfl) st0 hfresh
      simpa [hf] using this

/-- The same without the frame (what is left of a CPython pickle when its FRAME opcodes are taken out). -/
theorem C02_pickler_shared_unframed (cfg : Cfg) (hook : Hook) (mz : Option PKey → Bool) (py : Bool) (p : Nat) (hp5 : p ≤ 5) (v : PyObjS) (bs : Bytes)
    (hok : pkOK cfg p (erase v)) (hd : cpDumpsS mz py p v = some bs) (st0 : DState) (hfresh : st0.memo = []) :
    ∃ r st', decode (goCfg cfg) hook st0 bs = (.ok r, st', []) ∧ Rep (goCfg cfg) GoVal.ref st'.heap r (goOf (erase v)) := by
  unfold cpDumpsS cpDumpsBodyS at hd
  cases hs : cpSaveS mz py p v ⟨0, []⟩ with
  | none => simp [hs] at hd
  | some r0 =>
    obtain ⟨b, s'⟩ := r0
    simp only [hs, Option.map_some, Option.some.injEq] at hd
    subst hd
    have := decode_cpickleS cfg hook mz py p hp5 v b s' hok hs [] (Or.inl rfl) st0 hfresh
    simpa using this

mutual
/-- From protocol 1 on the hypothesis is decidable. -/
theorem pkOK_of_b (cfg : Cfg) (p : Nat) (hp : p ≥ 1) : (v : PyObj) → pkOKb cfg v = true → pkOK cfg p v
  | .none, _ | .bool _, _ | .int _, _ | .str _, _ | .bytes _, _ => by simp [pkOK]
  | .float _, _ => by simp only [pkOK]; exact Or.inl hp
  | .bytearray s, h => by simpa [pkOK, pkOKb] using h
  | .tuple xs, h => by simp only [pkOK]; exact pkOKList_of_b cfg p hp xs (by simpa [pkOKb] using h)
  | .list xs, h => by simp only [pkOK]; exact pkOKList_of_b cfg p hp xs (by simpa [pkOKb] using h)
  | .dict kvs, h => by
    simp only [pkOKb, Bool.and_eq_true] at h
    simp only [pkOK]
    exact ⟨pkOKPairs_of_b cfg p hp kvs h.1, h.2⟩
theorem pkOKList_of_b (cfg : Cfg) (p : Nat) (hp : p ≥ 1) : (xs : List PyObj) → pkOKbList cfg xs = true → pkOKList cfg p xs
  | [], _ => by simp [pkOKList]
  | x :: xs, h => by
    simp only [pkOKbList, Bool.and_eq_true] at h
    simp only [pkOKList]
    exact ⟨pkOK_of_b cfg p hp x h.1, pkOKList_of_b cfg p hp xs h.2⟩
theorem pkOKPairs_of_b (cfg : Cfg) (p : Nat) (hp : p ≥ 1) : (kvs : List (PyObj × PyObj)) → pkOKbPairs cfg kvs = true → pkOKPairs cfg p kvs
  | [], _ => by simp [pkOKPairs]
  | (k, v) :: r, h => by
    simp only [pkOKbPairs, Bool.and_eq_true] at h
    simp only [pkOKPairs]
    exact ⟨pkOK_of_b cfg p hp k h.1.1, pkOK_of_b cfg p hp v h.1.2, pkOKPairs_of_b cfg p hp r h.2⟩
end

/-- **C02 (CPython's pickler, binary protocols 1–5)**: no text form is used, so the only hypotheses are the
    decidable ones (`pkOKb`: dict keys acceptable and pairwise different for the decoder's table, bytearrays
    below 4 GiB). -/
theorem C02_pickler_bin (cfg : Cfg) (hook : Hook) (py : Bool) (p : Nat) (hp1 : 1 ≤ p) (hp5 : p ≤ 5) (v : PyObj) (bs : Bytes)
    (hok : pkOKb cfg v = true) (hd : cpDumpsFramed py p v = some bs) (st0 : DState) :
    ∃ r st', decode (goCfg cfg) hook st0 bs = (.ok r, st', []) ∧ Rep (goCfg cfg) GoVal.ref st'.heap r (goOf v) :=
  C02_pickler_framed cfg hook py p hp5 v bs (pkOK_of_b cfg p hp1 v hok) hd st0

/-- Non-vacuity: a nested object — a dict keyed by an int, a str and a tuple holding a big int, with list,
    bytes and float values — meets the hypothesis in PyDict mode and is within the pickler model at protocol 4;
    and a dict with plain keys in map mode at protocol 2. -/
example : pkOKb { pyDict := true, su := true }
    (.list [.dict [(.int 1, .str (sb "a")), (.str (sb "k"), .list [.none, .bool true, .float 0x3ff8000000000000]),
                   (.tuple [.int (2 ^ 70), .int (-5)], .bytes [1, 2, 3])], .tuple [], .bytearray [0, 255], .int (-(2 ^ 31) - 1)]) = true := by
  decide

example : (cpDumpsFramed false 4
    (.list [.dict [(.int 1, .str (sb "a")), (.str (sb "k"), .list [.none, .bool true, .float 0x3ff8000000000000]),
                   (.tuple [.int (2 ^ 70), .int (-5)], .bytes [1, 2, 3])], .tuple [], .int (-(2 ^ 31) - 1)])).isSome = true := by
  decide

example : pkOKb { pyDict := false, su := false }
    (.dict [(.int 1, .str (sb "a")), (.float 0, .none), (.str (sb "k"), .dict [])]) = true := by
  decide

/-- Non-vacuity for the memo theorem: two records with the same key objects, the same bytes object twice and a
    bytearray, at protocol 2 (bytes and bytearray through memoized globals): within the model, hypotheses met. -/
example : (cpDumpsFramedS (fun _ => true) true 2
    (.list [.dict [(.str 1 (sb "id"), .int 1), (.str 2 (sb "data"), .bytes 3 [1, 2, 255])],
            .dict [(.str 1 (sb "id"), .int 2), (.str 2 (sb "data"), .bytes 3 [1, 2, 255])], .bytearray 4 [7], .bytes 5 []])).isSome = true := by
  decide

example : pkOKb { pyDict := true, su := false } (erase
    (.list [.dict [(.str 1 (sb "id"), .int 1), (.str 2 (sb "data"), .bytes 3 [1, 2, 255])],
            .dict [(.str 1 (sb "id"), .int 2), (.str 2 (sb "data"), .bytes 3 [1, 2, 255])], .bytearray 4 [7], .bytes 5 []])) = true := by
  decide

end Ogorek
