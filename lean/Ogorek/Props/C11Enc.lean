import Ogorek.Props.C11
import Ogorek.Props.C03

/-!
  C11 for streams written by the encoder: each element decodes to its own value whatever the
  earlier elements left in the decoder (heap of containers, id supply) — the "pure renaming"
  independence, for every pickle `Encode` can write.
-/
namespace Ogorek

/-- The bytes of a stream of `Encode` calls (each with its own protocol / StrictUnicode setting). -/
def encStream (ip : IsPrint) : List (ECfg × GoVal) → Bytes
  | [] => []
  | (c, v) :: r => flat (encodeTop ip c none v) ++ encStream ip r

/-- What `C03_roundtrip` asks of one element. -/
def ElemOK (ip : IsPrint) (cfg : Cfg) (it : ECfg × GoVal) : Prop :=
  0 ≤ it.1.proto ∧ it.1.proto ≤ 5 ∧ cfg.su = it.1.su ∧ canon cfg true it.2 = true ∧
    FloatsOK it.1 (floatsOf it.2) ∧ (encodeTop ip it.1 none it.2).err = none

/-- Element by element: the i-th returned value represents the i-th encoded value. -/
def AllRep (cfg : Cfg) : List GoVal → List (ECfg × GoVal) → Prop
  | [], [] => True
  | r :: rs, it :: its => (∃ h, Rep (goCfg cfg) GoVal.ref h r it.2) ∧ AllRep cfg rs its
  | _, _ => False

/-- **C11 (streams of encoded values).** Decoding the concatenation of any number of `Encode` outputs
    — each at its own protocol — through one Decoder, starting from ANY decoder state, returns one
    value per call, each representing exactly the value that was encoded (`Rep`, in the heap at the
    time of that call), and then `io.EOF`.  In particular what earlier pickles left behind (heap
    objects, big-int ids, memo) does not influence a later element. -/
theorem C11_encoded_stream (ip : IsPrint) (hip : ip 10 = false) (cfg : Cfg) :
    ∀ (items : List (ECfg × GoVal)) (st : DState), (∀ it ∈ items, ElemOK ip cfg it) →
      ∃ rs : List GoVal, decodeStream (goCfg cfg) none (items.length + 1) st (encStream ip items) =
          rs.map .ok ++ [.error .eof] ∧
        AllRep cfg rs items := by
  intro items
  induction items with
  | nil =>
    intro st _
    exact ⟨[], by simp [encStream, C11_then_eof], trivial⟩
  | cons it items ih =>
    intro st hall
    obtain ⟨c, v⟩ := it
    obtain ⟨hp0, hp5, hsu, hc, hf, he⟩ := hall (c, v) (by simp)
    obtain ⟨r, st', hdec, hrep⟩ := C03_roundtrip ip hip c cfg v hp0 hp5 hsu hc hf he st
    obtain ⟨rs, hrs, hall2⟩ := ih st' (fun x hx => hall x (by simp [hx]))
    refine ⟨r :: rs, ?_, ⟨⟨_, hrep⟩, hall2⟩⟩
    simp only [encStream, List.length_cons]
    rw [C11_stream (goCfg cfg) none _ st _ _ r st' hdec, hrs]
    simp

end Ogorek
