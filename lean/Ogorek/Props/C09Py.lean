import Ogorek.Lemmas.PyEq
import Ogorek.Props.C09

/-!
  # C09 against the model of Python's dict

  `Dict.Set` (PyDict mode: drop every entry equal to the key, add the new one — `dictSetSpec`) and the assignment of the
  model of CPython's dict (`pyDictSet`: the entry with an equal key keeps its key and gets the new value, otherwise a new entry)
  are two different procedures.  `C09_python_dict_step` / `C09_python_dict`: on keys that both sides hold without a Python-2
  string (None, bool, int64, *big.Int, float, str, bytes, Class, and tuples / calls / persistent references of these, `keyConv`),
  after any sequence of assignments the two tables have the same number of entries and answer every lookup alike — the key
  classes, the entry count and the final value per class are those of Python's dict.  (With ByteString keys og-rek's
  equality is deliberately non-transitive — C08's K2 — and no Python-3 dict behaves like that.)
-/
namespace Ogorek

mutual
/-- A Go key as the Python key it stands for. -/
def keyConv : GoVal → Option PyVal
  | .none => some .none
  | .bool b => some (.bool b)
  | .int i => if inInt64 i then some (.int i) else none
  | .big _ i => some (.int i)
  | .float f => some (.float f)
  | .str s => some (.str s)
  | .bytes s => some (.bytes s)
  | .tuple xs => match keyConvList xs with
    | some ys => some (.tuple ys)
    | none => none
  | .cls m n => some (.glob m n)
  | .call m n args => match keyConvList args with
    | some ys => some (.call (.glob m n) ys)
    | none => none
  | .ref p => match keyConv p with
    | some q => some (.pers q)
    | none => none
  | .mark => none
  | .uint _ => none
  | .complex _ _ => none
  | .bytestr _ => none
  | .bytearray _ => none
  | .list _ => none
  | .map _ => none
  | .dict _ => none
  | .href _ => none
  | .user _ => none
  | .cycle => none
  | .nil => none
def keyConvList : List GoVal → Option (List PyVal)
  | [] => some []
  | x :: xs => match keyConv x, keyConvList xs with
    | some a, some as => some (a :: as)
    | _, _ => none
end

/-- Numbers: the Go representation and its Python counterpart have the same exact value. -/
theorem keyConv_num {a : GoVal} {a' : PyVal} {x : Num} (h : keyConv a = some a') (hn : numOf? a = some x) :
    ∃ x', pyNum? a' = some x' ∧ exactVal x = exactVal x' ∧ NumWF x := by
  cases a <;> simp [numOf?] at hn <;> subst hn <;> simp [keyConv] at h
  · subst h; exact ⟨_, rfl, rfl, trivial⟩
  · obtain ⟨hi, rfl⟩ := h; exact ⟨_, rfl, rfl, hi⟩
  · subst h; exact ⟨_, rfl, rfl, trivial⟩
  · subst h; exact ⟨_, rfl, rfl, trivial⟩

theorem numEq_conv {x y x' y' : Num} (hx : NumWF x) (hy : NumWF y) (hx' : NumWF x') (hy' : NumWF y')
    (ex : exactVal x = exactVal x') (ey : exactVal y = exactVal y') : numEq x y = numEq x' y' := by
  rw [C07_exact_num x y hx hy, C07_exact_num x' y' hx' hy', ex, ey]

theorem keyConv_numOf_none {a : GoVal} {a' : PyVal} (h : keyConv a = some a') (hn : numOf? a = none) : pyNum? a' = none := by
  cases a <;> simp [numOf?] at hn <;> simp [keyConv] at h
  all_goals first
    | (subst h; rfl)
    | (split at h <;> first | (cases h; rfl) | cases h)

/-- `equal` with a number on the left: never equal to a string kind, `numEq` with another number, false otherwise. -/
theorem goEqual_num_left {a : GoVal} {x : Num} (hn : numOf? a = some x) (b : GoVal) :
    goEqual a b = (match strKind? b with
      | some _ => false
      | none => match numOf? b with
        | some y => numEq x y
        | none => false) := by
  cases a <;> simp [numOf?] at hn <;> subst hn <;> cases b <;> simp [goEqual, strKind?, numOf?]

theorem keyConv_strKind {b : GoVal} {b' : PyVal} {k : Nat × Bytes} (h : keyConv b = some b') (hs : strKind? b = some k) : pyNum? b' = none := by
  cases b <;> simp [strKind?] at hs <;> simp [keyConv] at h <;> subst h <;> rfl

/-- A number against anything convertible. -/
theorem keyConv_eq_num {a b : GoVal} {a' b' : PyVal} {x : Num} (hn : numOf? a = some x) (ha : keyConv a = some a') (hb : keyConv b = some b') :
    goEqual a b = pyEq a' b' := by
  obtain ⟨x', hx', ex, wx⟩ := keyConv_num ha hn
  rw [goEqual_num_left hn, pyEq_num hx']
  cases hs : strKind? b with
  | some k => simp only []; rw [keyConv_strKind hb hs]
  | none =>
    simp only []
    cases hy : numOf? b with
    | none => simp only []; rw [keyConv_numOf_none hb hy]
    | some y =>
      obtain ⟨y', hy', ey, wy⟩ := keyConv_num hb hy
      simp only [hy']
      exact numEq_conv wx wy (pyNum_wf hx') (pyNum_wf hy') ex ey

theorem keyConv_tuple_inv {xs : List GoVal} {a' : PyVal} (h : keyConv (.tuple xs) = some a') :
    ∃ xs', keyConvList xs = some xs' ∧ a' = .tuple xs' := by
  simp only [keyConv] at h
  cases hx : keyConvList xs with
  | none => rw [hx] at h; cases h
  | some xs' => rw [hx] at h; cases h; exact ⟨xs', rfl, rfl⟩

theorem keyConv_call_inv {m n : Bytes} {xs : List GoVal} {a' : PyVal} (h : keyConv (.call m n xs) = some a') :
    ∃ xs', keyConvList xs = some xs' ∧ a' = .call (.glob m n) xs' := by
  simp only [keyConv] at h
  cases hx : keyConvList xs with
  | none => rw [hx] at h; cases h
  | some xs' => rw [hx] at h; cases h; exact ⟨xs', rfl, rfl⟩

theorem keyConv_ref_inv {p : GoVal} {a' : PyVal} (h : keyConv (.ref p) = some a') :
    ∃ q, keyConv p = some q ∧ a' = .pers q := by
  simp only [keyConv] at h
  cases hx : keyConv p with
  | none => rw [hx] at h; cases h
  | some q => rw [hx] at h; cases h; exact ⟨q, rfl, rfl⟩

/-- Two convertible keys of different, non-numeric shapes are unequal on both sides; a tactic-sized helper: everything
    except the three recursive diagonal cases. -/
theorem keyConv_eq_offdiag (a b : GoVal) (a' b' : PyVal) (ha : keyConv a = some a') (hb : keyConv b = some b')
    (hna : numOf? a = none) (hnb : numOf? b = none)
    (hd : ¬ (∃ xs ys, a = .tuple xs ∧ b = .tuple ys)) (hc : ¬ (∃ m n xs m' n' ys, a = .call m n xs ∧ b = .call m' n' ys))
    (hr : ¬ (∃ p q, a = .ref p ∧ b = .ref q)) : goEqual a b = pyEq a' b' := by
  cases a <;> simp [numOf?] at hna <;> simp only [keyConv] at ha <;> try (cases ha; done)
  all_goals (cases b <;> simp [numOf?] at hnb <;> simp only [keyConv] at hb <;> try (cases hb; done))
  all_goals try (exact absurd ⟨_, _, rfl, rfl⟩ hd)
  all_goals try (exact absurd ⟨_, _, _, _, _, _, rfl, rfl⟩ hc)
  all_goals try (exact absurd ⟨_, _, rfl, rfl⟩ hr)
  all_goals (try split at ha) <;> (try split at hb) <;> (try (cases ha; done)) <;> (try (cases hb; done)) <;>
    (try cases ha) <;> (try cases hb) <;> simp [goEqual, pyEq, strKind?, numOf?, pyNum?, strEq]

/-- Everything except the three recursive diagonal cases. -/
theorem keyConv_eq_rest (a b : GoVal) (a' b' : PyVal) (ha : keyConv a = some a') (hb : keyConv b = some b')
    (hd : ¬ (∃ xs ys, a = .tuple xs ∧ b = .tuple ys)) (hc : ¬ (∃ m n xs m' n' ys, a = .call m n xs ∧ b = .call m' n' ys))
    (hr : ¬ (∃ p q, a = .ref p ∧ b = .ref q)) : goEqual a b = pyEq a' b' := by
  cases hna : numOf? a with
  | some x => exact keyConv_eq_num hna ha hb
  | none =>
    cases hnb : numOf? b with
    | some y => rw [C07_symm, pyEq_symm]; exact keyConv_eq_num hnb hb ha
    | none => exact keyConv_eq_offdiag a b a' b' ha hb hna hnb hd hc hr

mutual
/-- **On convertible keys og-rek's `equal` is Python's `==`.** -/
theorem keyConv_eq : ∀ (a b : GoVal) (a' b' : PyVal), keyConv a = some a' → keyConv b = some b' → goEqual a b = pyEq a' b'
  | .tuple xs, b, a', b', ha, hb => by
    cases b with
    | tuple ys =>
      obtain ⟨xs', hx, rfl⟩ := keyConv_tuple_inv ha
      obtain ⟨ys', hy, rfl⟩ := keyConv_tuple_inv hb
      simp only [goEqual, pyEq]
      exact keyConvList_eq xs ys xs' ys' hx hy
    | _ =>
      exact keyConv_eq_rest _ _ _ _ ha hb (by rintro ⟨_, _, _, h⟩; cases h) (by rintro ⟨_, _, _, _, _, _, h, _⟩; cases h)
        (by rintro ⟨_, _, h, _⟩; cases h)
  | .call m n xs, b, a', b', ha, hb => by
    cases b with
    | call m' n' ys =>
      obtain ⟨xs', hx, rfl⟩ := keyConv_call_inv ha
      obtain ⟨ys', hy, rfl⟩ := keyConv_call_inv hb
      simp only [goEqual, pyEq]
      rw [keyConvList_eq xs ys xs' ys' hx hy]
    | _ =>
      exact keyConv_eq_rest _ _ _ _ ha hb (by rintro ⟨_, _, h, _⟩; cases h) (by rintro ⟨_, _, _, _, _, _, _, h⟩; cases h)
        (by rintro ⟨_, _, h, _⟩; cases h)
  | .ref p, b, a', b', ha, hb => by
    cases b with
    | ref q =>
      obtain ⟨p', hp, rfl⟩ := keyConv_ref_inv ha
      obtain ⟨q', hq, rfl⟩ := keyConv_ref_inv hb
      simp only [goEqual, pyEq]
      exact keyConv_eq p q p' q' hp hq
    | _ =>
      exact keyConv_eq_rest _ _ _ _ ha hb (by rintro ⟨_, _, h, _⟩; cases h) (by rintro ⟨_, _, _, _, _, _, h, _⟩; cases h)
        (by rintro ⟨_, _, _, h⟩; cases h)
  | .mark, b, a', b', ha, hb | .none, b, a', b', ha, hb | .bool _, b, a', b', ha, hb | .int _, b, a', b', ha, hb
  | .uint _, b, a', b', ha, hb | .big _ _, b, a', b', ha, hb | .float _, b, a', b', ha, hb | .complex _ _, b, a', b', ha, hb
  | .str _, b, a', b', ha, hb | .bytestr _, b, a', b', ha, hb | .bytes _, b, a', b', ha, hb | .bytearray _, b, a', b', ha, hb
  | .list _, b, a', b', ha, hb | .map _, b, a', b', ha, hb | .dict _, b, a', b', ha, hb | .href _, b, a', b', ha, hb
  | .cls _ _, b, a', b', ha, hb | .user _, b, a', b', ha, hb | .cycle, b, a', b', ha, hb | .nil, b, a', b', ha, hb => by
    exact keyConv_eq_rest _ _ _ _ ha hb (by rintro ⟨_, _, h, _⟩; cases h) (by rintro ⟨_, _, _, _, _, _, h, _⟩; cases h)
      (by rintro ⟨_, _, h, _⟩; cases h)
theorem keyConvList_eq : ∀ (xs ys : List GoVal) (xs' ys' : List PyVal), keyConvList xs = some xs' → keyConvList ys = some ys' →
    goEqualList xs ys = pyEqList xs' ys'
  | [], [], _, _, hx, hy => by simp [keyConvList] at hx hy; subst hx; subst hy; rfl
  | [], y :: ys, xs', ys', hx, hy => by
    simp only [keyConvList] at hx hy
    cases hx
    cases h1 : keyConv y <;> cases h2 : keyConvList ys <;> rw [h1, h2] at hy <;> cases hy
    rfl
  | x :: xs, [], xs', ys', hx, hy => by
    simp only [keyConvList] at hx hy
    cases hy
    cases h1 : keyConv x <;> cases h2 : keyConvList xs <;> rw [h1, h2] at hx <;> cases hx
    rfl
  | x :: xs, y :: ys, xs', ys', hx, hy => by
    simp only [keyConvList] at hx hy
    cases h1 : keyConv x <;> cases h2 : keyConvList xs <;> rw [h1, h2] at hx <;> cases hx
    cases h3 : keyConv y <;> cases h4 : keyConvList ys <;> rw [h3, h4] at hy <;> cases hy
    simp only [goEqualList, pyEqList]
    rw [keyConv_eq x y _ _ h1 h3, keyConvList_eq xs ys _ _ h2 h4]
end

theorem goEqual_trans_conv {a b c : GoVal} {a' b' c' : PyVal} (ha : keyConv a = some a') (hb : keyConv b = some b') (hc : keyConv c = some c')
    (h1 : goEqual a b = true) (h2 : goEqual b c = true) : goEqual a c = true := by
  rw [keyConv_eq a b a' b' ha hb] at h1
  rw [keyConv_eq b c b' c' hb hc] at h2
  rw [keyConv_eq a c a' c' ha hc]
  exact pyEq_trans a' b' c' h1 h2

/-! ### lookups -/

/-- `Dict.Get`: the value of the first entry whose key equals the query. -/
def goFind : Entries → GoVal → Option GoVal
  | [], _ => none
  | (a, b) :: r, q => if goEqual q a then some b else goFind r q

/-- `d[q]` in the Python model. -/
def pyFind : List (PyVal × PyVal) → PyVal → Option PyVal
  | [], _ => none
  | (a, b) :: r, q => if pyEq a q then some b else pyFind r q

def Convertible (k : GoVal) : Prop := ∃ k', keyConv k = some k'

theorem goEqual_false_of {a b c : GoVal} (ha : Convertible a) (hb : Convertible b) (hc : Convertible c)
    (h1 : goEqual a b = true) (h2 : goEqual a c = false) : goEqual b c = false := by
  obtain ⟨a', ha⟩ := ha; obtain ⟨b', hb⟩ := hb; obtain ⟨c', hc⟩ := hc
  cases h : goEqual b c with
  | false => rfl
  | true => rw [goEqual_trans_conv ha hb hc h1 h] at h2; cases h2

/-- What `Dict.Set` does to lookups. -/
theorem goFind_set (k v q : GoVal) (hk : Convertible k) (hq : Convertible q) :
    (es : Entries) → (∀ e ∈ es, Convertible e.1) → goFind (dictSetSpec es k v) q = if goEqual q k then some v else goFind es q
  | [], _ => by simp [dictSetSpec, goFind]
  | (a, b) :: r, hes => by
    have har : Convertible a := hes (a, b) (by simp)
    have ih := goFind_set k v q hk hq r (fun e he => hes e (by simp [he]))
    have e0 : dictSetSpec ((a, b) :: r) k v = if goEqual k a then dictSetSpec r k v else (a, b) :: dictSetSpec r k v := by
      unfold dictSetSpec
      by_cases h : goEqual k a = true <;> simp [List.filter_cons, h]
    rw [e0]
    by_cases hka : goEqual k a = true
    · simp only [hka, if_true, ih, goFind]
      by_cases hqk : goEqual q k = true
      · simp [hqk]
      · simp only [Bool.not_eq_true] at hqk
        have : goEqual q a = false := by
          have h1 : goEqual k q = false := by rw [C07_symm]; exact hqk
          have := goEqual_false_of hk har hq hka h1
          rw [C07_symm]; exact this
        simp [hqk, this]
    · simp only [Bool.not_eq_true] at hka
      simp only [hka, Bool.false_eq_true, if_false, goFind, ih]
      by_cases hqk : goEqual q k = true
      · have : goEqual q a = false := by
          have h1 : goEqual k q = true := by rw [C07_symm]; exact hqk
          exact (by
            have := goEqual_false_of hk hq har h1 hka
            exact this)
        simp [hqk, this]
      · simp only [Bool.not_eq_true] at hqk
        simp [hqk]

/-- What assignment does to lookups in the Python model. -/
theorem pyFind_set (k v q : PyVal) : (ps : List (PyVal × PyVal)) →
    pyFind (pyDictSet ps k v) q = if pyEq k q then some v else pyFind ps q
  | [] => by simp [pyDictSet, pyFind]
  | (a, b) :: r => by
    have ih := pyFind_set k v q r
    unfold pyDictSet
    by_cases hak : pyEq a k = true
    · simp only [hak, if_true, pyFind]
      by_cases hkq : pyEq k q = true
      · have : pyEq a q = true := pyEq_trans a k q hak hkq
        simp [hkq, this]
      · simp only [Bool.not_eq_true] at hkq
        have : pyEq a q = false := by
          cases h : pyEq a q with
          | false => rfl
          | true =>
            have hka : pyEq k a = true := by rw [pyEq_symm]; exact hak
            rw [pyEq_trans k a q hka h] at hkq; cases hkq
        simp [hkq, this]
    · simp only [Bool.not_eq_true] at hak
      simp only [hak, Bool.false_eq_true, if_false, pyFind, ih]
      by_cases hkq : pyEq k q = true
      · have : pyEq a q = false := by
          cases h : pyEq a q with
          | false => rfl
          | true =>
            have hqk : pyEq q k = true := by rw [pyEq_symm]; exact hkq
            rw [pyEq_trans a q k h hqk] at hak; cases hak
        simp [hkq, this]
      · simp only [Bool.not_eq_true] at hkq
        simp [hkq]

theorem pyDictSet_length (k v : PyVal) : (ps : List (PyVal × PyVal)) →
    (pyDictSet ps k v).length = ps.length + (if (pyFind ps k).isSome then 0 else 1)
  | [] => by simp [pyDictSet, pyFind]
  | (a, b) :: r => by
    have ih := pyDictSet_length k v r
    unfold pyDictSet
    by_cases hak : pyEq a k = true
    · simp [hak, pyFind]
    · simp only [Bool.not_eq_true] at hak
      simp only [hak, Bool.false_eq_true, if_false, pyFind, List.length_cons, ih]
      omega

/-- No two stored keys are equal (C08's invariant). -/
def GoNoDup : Entries → Prop
  | [] => True
  | (a, _) :: r => (∀ e ∈ r, goEqual a e.1 = false) ∧ GoNoDup r

theorem goFind_none_filter (k : GoVal) : (es : Entries) → goFind es k = none → es.filter (fun e => !goEqual k e.1) = es
  | [], _ => rfl
  | (a, b) :: r, h => by
    simp only [goFind] at h
    by_cases hka : goEqual k a = true
    · simp [hka] at h
    · simp only [Bool.not_eq_true] at hka
      simp only [hka, Bool.false_eq_true, if_false] at h
      simp [List.filter_cons, hka, goFind_none_filter k r h]

theorem dictSetSpec_length (k v : GoVal) (hk : Convertible k) : (es : Entries) → (∀ e ∈ es, Convertible e.1) → GoNoDup es →
    (dictSetSpec es k v).length = es.length + (if (goFind es k).isSome then 0 else 1)
  | [], _, _ => by simp [dictSetSpec, goFind]
  | (a, b) :: r, hes, hnd => by
    have har : Convertible a := hes (a, b) (by simp)
    have hr : ∀ e ∈ r, Convertible e.1 := fun e he => hes e (by simp [he])
    simp only [GoNoDup] at hnd
    by_cases hka : goEqual k a = true
    · -- the entry goes; nothing else in `r` equals `k`
      have hnone : goFind r k = none := by
        have : ∀ (l : Entries), (∀ e ∈ l, Convertible e.1) → (∀ e ∈ l, goEqual a e.1 = false) → goFind l k = none := by
          intro l
          induction l with
          | nil => intros; rfl
          | cons e l ih =>
            intro hc hne
            obtain ⟨x, y⟩ := e
            have hx : goEqual a x = false := hne (x, y) (by simp)
            have hak : goEqual a k = true := by rw [C07_symm]; exact hka
            have : goEqual k x = false := goEqual_false_of har hk (hc (x, y) (by simp)) hak hx
            simp only [goFind, this, Bool.false_eq_true, if_false]
            exact ih (fun e he => hc e (by simp [he])) (fun e he => hne e (by simp [he]))
        exact this r hr hnd.1
      have e0 : dictSetSpec ((a, b) :: r) k v = r ++ [(k, v)] := by
        unfold dictSetSpec
        simp [List.filter_cons, hka, goFind_none_filter k r hnone]
      rw [e0]
      simp [goFind, hka]
    · simp only [Bool.not_eq_true] at hka
      have ih := dictSetSpec_length k v hk r hr hnd.2
      have e0 : dictSetSpec ((a, b) :: r) k v = (a, b) :: dictSetSpec r k v := by
        unfold dictSetSpec
        simp [List.filter_cons, hka]
      rw [e0]
      simp only [List.length_cons, ih, goFind, hka, Bool.false_eq_true, if_false]
      omega

theorem dictSetSpec_nodup (k v : GoVal) : (es : Entries) → GoNoDup es → GoNoDup (dictSetSpec es k v)
  | [], _ => by simp [dictSetSpec, GoNoDup]
  | (a, b) :: r, hnd => by
    simp only [GoNoDup] at hnd
    have ih := dictSetSpec_nodup k v r hnd.2
    by_cases hka : goEqual k a = true
    · have e0 : dictSetSpec ((a, b) :: r) k v = dictSetSpec r k v := by
        unfold dictSetSpec; simp [List.filter_cons, hka]
      rw [e0]; exact ih
    · simp only [Bool.not_eq_true] at hka
      have e0 : dictSetSpec ((a, b) :: r) k v = (a, b) :: dictSetSpec r k v := by
        unfold dictSetSpec; simp [List.filter_cons, hka]
      rw [e0]
      simp only [GoNoDup]
      refine ⟨?_, ih⟩
      intro e he
      unfold dictSetSpec at he
      simp only [List.mem_append, List.mem_filter, List.mem_singleton] at he
      rcases he with he | he
      · exact hnd.1 e he.1
      · subst he; rw [C07_symm]; exact hka

/-! ### the two tables -/

/-- Related lookups: both absent, or both present with related values. -/
def OptRel (V : GoVal → PyVal → Prop) : Option GoVal → Option PyVal → Prop
  | none, none => True
  | some v, some v' => V v v'
  | _, _ => False

/-- og-rek's Dict (its entries) and the Python model's dict hold the same mapping. -/
structure DictRel (V : GoVal → PyVal → Prop) (es : Entries) (ps : List (PyVal × PyVal)) : Prop where
  len : es.length = ps.length
  conv : ∀ e ∈ es, Convertible e.1
  nodup : GoNoDup es
  look : ∀ q q', keyConv q = some q' → OptRel V (goFind es q) (pyFind ps q')

theorem DictRel.empty (V : GoVal → PyVal → Prop) : DictRel V [] [] :=
  ⟨rfl, by simp, trivial, fun _ _ _ => by simp [goFind, pyFind, OptRel]⟩

theorem OptRel.isSome {V : GoVal → PyVal → Prop} {a : Option GoVal} {b : Option PyVal} (h : OptRel V a b) : a.isSome = b.isSome := by
  cases a <;> cases b <;> simp_all [OptRel]

/-- **C09 against Python's dict, one assignment.**  If og-rek's Dict and the Python model's dict hold the same mapping, they
    still do after `Set(k, v)` / `d[k'] = v'` for a convertible key `k` (`k'` its Python counterpart) and related values:
    same number of entries, every lookup answered alike, still no two equal keys. -/
theorem C09_python_dict_step (V : GoVal → PyVal → Prop) (es : Entries) (ps : List (PyVal × PyVal)) (k v : GoVal) (k' v' : PyVal)
    (h : DictRel V es ps) (hk : keyConv k = some k') (hv : V v v') : DictRel V (dictSetSpec es k v) (pyDictSet ps k' v') := by
  have hkc : Convertible k := ⟨k', hk⟩
  refine ⟨?_, ?_, dictSetSpec_nodup k v es h.nodup, ?_⟩
  · rw [dictSetSpec_length k v hkc es h.conv h.nodup, pyDictSet_length, h.len, (h.look k k' hk).isSome]
  · intro e he
    unfold dictSetSpec at he
    simp only [List.mem_append, List.mem_filter, List.mem_singleton] at he
    rcases he with he | he
    · exact h.conv e he.1
    · subst he; exact hkc
  · intro q q' hq
    rw [goFind_set k v q hkc ⟨q', hq⟩ es h.conv, pyFind_set]
    have e : goEqual q k = pyEq k' q' := by rw [keyConv_eq q k q' k' hq hk, pyEq_symm]
    rw [e]
    by_cases hkq : pyEq k' q' = true
    · simp [hkq, OptRel, hv]
    · simp only [Bool.not_eq_true] at hkq
      simp only [hkq, Bool.false_eq_true, if_false]
      exact h.look q q' hq

/-- Pairs of assignments, key by key convertible and value by value related. -/
def OpsRel (V : GoVal → PyVal → Prop) : List (GoVal × GoVal) → List (PyVal × PyVal) → Prop
  | [], [] => True
  | (k, v) :: r, (k', v') :: r' => keyConv k = some k' ∧ V v v' ∧ OpsRel V r r'
  | _, _ => False

/-- **C09 against Python's dict, any history.**  Starting from related tables (the empty ones, for a dict literal), after any
    sequence of assignments og-rek's Dict and Python's dict have the same number of entries and answer every lookup alike:
    the key classes, the entry count and the final value per class are Python's. -/
theorem C09_python_dict (V : GoVal → PyVal → Prop) : (ops : List (GoVal × GoVal)) → (ops' : List (PyVal × PyVal)) →
    (es : Entries) → (ps : List (PyVal × PyVal)) → OpsRel V ops ops' → DictRel V es ps →
    DictRel V (ops.foldl (fun a e => dictSetSpec a e.1 e.2) es) (ops'.foldl (fun a e => pyDictSet a e.1 e.2) ps)
  | [], [], _, _, _, h => h
  | [], _ :: _, _, _, ho, _ => by simp [OpsRel] at ho
  | _ :: _, [], _, _, ho, _ => by simp [OpsRel] at ho
  | (k, v) :: r, (k', v') :: r', es, ps, ho, h => by
    simp only [OpsRel] at ho
    simp only [List.foldl_cons]
    exact C09_python_dict V r r' _ _ ho.2.2 (C09_python_dict_step V es ps k v k' v' h ho.1 ho.2.1)

/-- Non-vacuity: the keys 1, 1.0, True and a big 1 are convertible and all equal — one class on both sides; a tuple holding a
    str and bytes is convertible too. -/
example : keyConv (.tuple [.int 1, .float 0x3ff0000000000000, .bool true, .big 7 1, .str [97], .bytes [97], .none,
    .call [109] [110] [.ref (.int 5)], .cls [109] [110]]) ≠ none := by decide

example : goEqual (.int 1) (.float 0x3ff0000000000000) = true ∧ pyEq (.int 1) (.float 0x3ff0000000000000) = true ∧
    pyEq (.bool true) (.int 1) = true := by decide

/-! ### the opcodes -/

mutual
/-- A convertible key is hashable for og-rek and for Python. -/
theorem keyConv_hashable : ∀ (a : GoVal) (a' : PyVal), keyConv a = some a' → (hashTree a).isSome = true ∧ pyHashable a' = true
  | .none, _, h | .bool _, _, h | .big _ _, _, h | .float _, _, h | .str _, _, h | .bytes _, _, h | .cls _ _, _, h => by
    simp only [keyConv] at h; cases h; simp [hashTree, pyHashable]
  | .int i, _, h => by
    simp only [keyConv] at h
    split at h
    · cases h; simp [hashTree, pyHashable]
    · cases h
  | .tuple xs, a', h => by
    obtain ⟨xs', hx, rfl⟩ := keyConv_tuple_inv h
    have := keyConvList_hashable xs xs' hx
    simp only [hashTree, pyHashable]
    cases ht : hashTreeList xs with
    | none => rw [ht] at this; simp at this
    | some ts => simp [this.2]
  | .call m n xs, a', h => by
    obtain ⟨xs', hx, rfl⟩ := keyConv_call_inv h
    have := keyConvList_hashable xs xs' hx
    simp only [hashTree, pyHashable]
    cases ht : hashTreeList xs with
    | none => rw [ht] at this; simp at this
    | some ts => simp [this.2]
  | .ref p, a', h => by
    obtain ⟨q, hq, rfl⟩ := keyConv_ref_inv h
    have := keyConv_hashable p q hq
    simp only [hashTree, pyHashable]
    cases ht : hashTree p with
    | none => rw [ht] at this; simp at this
    | some t => simp [this.2]
  | .mark, _, h | .uint _, _, h | .complex _ _, _, h | .bytestr _, _, h | .bytearray _, _, h | .list _, _, h | .map _, _, h
  | .dict _, _, h | .href _, _, h | .user _, _, h | .cycle, _, h | .nil, _, h => by simp [keyConv] at h
theorem keyConvList_hashable : ∀ (xs : List GoVal) (xs' : List PyVal), keyConvList xs = some xs' →
    (hashTreeList xs).isSome = true ∧ pyHashableList xs' = true
  | [], _, h => by simp [keyConvList] at h; subst h; simp [hashTreeList, pyHashableList]
  | x :: xs, xs', h => by
    simp only [keyConvList] at h
    cases h1 : keyConv x <;> cases h2 : keyConvList xs <;> rw [h1, h2] at h <;> cases h
    rename_i a as
    have ha := keyConv_hashable x a h1
    have has := keyConvList_hashable xs as h2
    simp only [hashTreeList, pyHashableList]
    cases hx : hashTree x with
    | none => rw [hx] at ha; simp at ha
    | some t =>
      cases hxs : hashTreeList xs with
      | none => rw [hxs] at has; simp at has
      | some ts => simp [ha.2, has.2]
end

/-- **C09, SETITEM on both machines.**  og-rek's decoder in PyDict mode and the model of CPython's unpickler, holding related
    dicts, both accept the assignment of a convertible key (unless it is a second NaN-holding key, which the Python model
    declines) and end with related dicts again. -/
theorem C09_setitem_python (V : GoVal → PyVal → Prop) (es : Entries) (ps : List (PyVal × PyVal)) (k v : GoVal) (k' v' : PyVal)
    (h : DictRel V es ps) (hk : keyConv k = some k') (hv : V v v')
    (hnan : (pyHasNaN k' && ps.any (fun e => pyHasNaN e.1)) = false) :
    ∃ es' ps', tryAssign .dict es k v = some es' ∧ pyAssign ps k' v' = .ok ps' ∧ DictRel V es' ps' := by
  have hh := keyConv_hashable k k' hk
  refine ⟨dictSetSpec es k v, pyDictSet ps k' v', ?_, ?_, C09_python_dict_step V es ps k v k' v' h hk hv⟩
  · exact C09_setitem_dict es k v hh.1
  · simp [pyAssign, hh.2, hnan]

end Ogorek
