import Ogorek.Encoder
import Ogorek.Generated.Facts

/-!
  C13 — A failing Writer always surfaces as Encode's error, with no writes after it.

  In the model the encoder is a value of `Out` — the list of `Write` calls and the error that
  stopped it — built only by `emit`, `failWith` and the sequencing `+>`, which by definition
  stops at the first error. The theorems below are the algebra that makes the property hold
  for every value; that the *code* never drops an error is a fact regenerated from the source
  (`C13_facts`), and the injected-fault runs of the check tie the two.
-/
namespace Ogorek

/-- Sequencing never loses an error … -/
theorem C13_seq_err_left (a b : Out) (e : EncErr) (h : a.err = some e) : (a +> b) = a := by
  simp [Out.seq, h]

/-- … and never invents success. -/
theorem C13_seq_ok (a b : Out) (h : (a +> b).err = none) : a.err = none ∧ b.err = none := by
  unfold Out.seq at h
  cases ha : a.err with
  | some e => simp [ha] at h
  | none => simp [ha] at h; exact ⟨rfl, h⟩

/-- Chunks written by `a; b` start with the chunks written by `a` (no reordering, nothing
    written after an error of `a`). -/
theorem C13_seq_prefix (a b : Out) : ∃ t, (a +> b).chunks = a.chunks ++ t := by
  unfold Out.seq
  cases a.err with
  | some e => exact ⟨[], by simp⟩
  | none => exact ⟨b.chunks, rfl⟩

/-- **C13 (failure).** If the destination fails at its k-th `Write` and the encoder would make at
    least k writes, exactly k `Write` calls happen and `Encode` returns that error. -/
theorem C13_fail (o : Out) (k : Nat) (h1 : 1 ≤ k) (h2 : k ≤ o.chunks.length) :
    withFault k o = ⟨k, true, none⟩ := by
  simp [withFault, h1, h2]

/-- **C13 (no failure).** A fault position beyond the last write changes nothing. -/
theorem C13_nofault (o : Out) (k : Nat) (h : o.chunks.length < k) :
    withFault k o = ⟨o.chunks.length, false, o.err⟩ := by
  have : ¬ (1 ≤ k ∧ k ≤ o.chunks.length) := by omega
  simp [withFault, this]

/-- **C13 (buffering).** What reaches the destination is the concatenation of the chunks,
    which does not depend on how they are grouped into `Write` calls. -/
theorem C13_buffering (a b : Out) (h : a.err = none) :
    (a +> b).chunks.flatten = a.chunks.flatten ++ b.chunks.flatten := by
  simp [Out.seq, h]

/-- **C13 (facts).** No call in the package discards an `error` result (go/ast, regenerated). -/
theorem C13_facts : Generated.droppedErrors = [] := by decide

end Ogorek
