import Ogorek.Lemmas.NoPanic
import Ogorek.Props.C04

/-!
  C17 — Unhashable dict keys produce an error, never a panic or a dropped entry.
-/
namespace Ogorek

mutual
/-- The key is, or contains at any depth (through Tuple, Call arguments, Ref id), a list,
    a dict / map, or a bytearray. -/
def hasUnhashable : GoVal → Bool
  | .list _ | .bytearray _ | .href _ | .map _ | .dict _ => true
  | .tuple xs => hasUnhashableList xs
  | .call _ _ args => hasUnhashableList args
  | .ref p => hasUnhashable p
  | _ => false
def hasUnhashableList : List GoVal → Bool
  | [] => false
  | x :: xs => hasUnhashable x || hasUnhashableList xs
end

mutual
/-- The key is or contains a tuple (or a Call, which holds one). -/
def hasTuple : GoVal → Bool
  | .tuple _ | .call _ _ _ => true
  | .ref p => hasTuple p
  | _ => false
end

mutual
theorem hashTree_none_of_hasUnhashable : ∀ k : GoVal, hasUnhashable k = true → hashTree k = none
  | .list _, _ | .bytearray _, _ | .href _, _ | .map _, _ | .dict _, _ => by simp [hashTree]
  | .tuple xs, h => by
    simp only [hasUnhashable] at h
    simp [hashTree, hashTreeList_none_of_hasUnhashable xs h]
  | .call m n args, h => by
    simp only [hasUnhashable] at h
    simp [hashTree, hashTreeList_none_of_hasUnhashable args h]
  | .ref p, h => by
    simp only [hasUnhashable] at h
    simp [hashTree, hashTree_none_of_hasUnhashable p h]
  | .mark, h | .none, h | .bool _, h | .int _, h | .uint _, h | .big _ _, h | .float _, h | .complex _ _, h
  | .str _, h | .bytestr _, h | .bytes _, h | .cls _ _, h | .user _, h | .cycle, h | .nil, h => by
    simp [hasUnhashable] at h
theorem hashTreeList_none_of_hasUnhashable : ∀ xs : List GoVal, hasUnhashableList xs = true → hashTreeList xs = none
  | [], h => by simp [hasUnhashableList] at h
  | x :: xs, h => by
    simp only [hasUnhashableList, Bool.or_eq_true] at h
    simp only [hashTreeList]
    rcases h with h | h
    · rw [hashTree_none_of_hasUnhashable x h]
    · rw [hashTreeList_none_of_hasUnhashable xs h]
      split <;> simp_all
end

theorem goMapHashable_false_of : ∀ k : GoVal, (hasUnhashable k = true ∨ hasTuple k = true) → goMapHashable k = false
  | .ref p, h => by
    simp only [hasUnhashable, hasTuple] at h
    simp only [goMapHashable]
    exact goMapHashable_false_of p h
  | .list _, _ | .bytearray _, _ | .href _, _ | .map _, _ | .dict _, _ | .tuple _, _ | .call _ _ _, _ => by
    simp [goMapHashable]
  | .mark, h | .none, h | .bool _, h | .int _, h | .uint _, h | .big _ _, h | .float _, h | .complex _ _, h
  | .str _, h | .bytestr _, h | .bytes _, h | .cls _ _, h | .user _, h | .cycle, h | .nil, h => by
    simp [hasUnhashable, hasTuple] at h

/-- The keys the property speaks about, for a container of the given kind. -/
def badKey (kind : HKind) (k : GoVal) : Prop :=
  hasUnhashable k = true ∨ (kind ≠ .dict ∧ hasTuple k = true)

theorem tryAssign_none_of_badKey {kind : HKind} {k : GoVal} (h : badKey kind k) (es : Entries) (v : GoVal) :
    tryAssign kind es k v = none := by
  unfold tryAssign
  cases kind
  case dict =>
    rcases h with h | h
    · simp [hashable, hashTree_none_of_hasUnhashable k h]
    · exact absurd rfl h.1
  all_goals
    simp only
    rw [goMapHashable_false_of k (by rcases h with h | h; exact Or.inl h; exact Or.inr h.2)]
    simp

/-- An assignment that is accepted really stores the entry (nothing is dropped). -/
theorem C17_assign_present {kind : HKind} {es es' : Entries} {k v : GoVal}
    (h : tryAssign kind es k v = some es') : (k, v) ∈ es' := by
  unfold tryAssign at h
  split at h <;> split at h <;> simp at h <;> subst h <;> simp [dictSetSpec, mapSet]

/-- A run of assignments fails as soon as one key is bad. -/
theorem assignAll_none_of_badKey (kind : HKind) : ∀ (items : List GoVal) (es : Entries) (i : Nat) (k : GoVal),
    items[2 * i]? = some k → 2 * i + 1 < items.length → badKey kind k → assignAll kind es items = none
  | [], _, i, k, h, _, _ => by simp at h
  | [_], _, i, k, _, hl, _ => by simp at hl
  | a :: b :: rest, es, i, k, h, hl, hb => by
    unfold assignAll
    cases i with
    | zero =>
      simp at h; subst h
      rw [tryAssign_none_of_badKey hb]
    | succ i =>
      split
      · apply assignAll_none_of_badKey kind rest _ i k
        · simpa [Nat.mul_succ] using h
        · simp at hl; omega
        · exact hb
      · rfl

/-- **C17 (SETITEM).** Key unhashable (or, for a builtin map, a tuple): an error — not a panic,
    not success. -/
theorem C17_setitem (mc : MCfg) (hook : Hook) (pos : Nat) (st : DState) (v k : GoVal) (id : Nat)
    (s : List GoVal) (o : HObj) (hs : st.stack = v :: k :: .href id :: s) (ho : st.heap[id]? = some o)
    (hkind : o.kind ≠ .list) (hk : isMark k = false) (hv : isMark v = false) (hb : badKey o.kind k) :
    exec mc hook .setitem pos st = .error .other := by
  simp only [exec]
  have hlen : ¬ st.stack.length < 3 := by rw [hs]; simp
  simp only [hlen, if_false]
  rw [xpop_of_cons hs]
  simp only [bind, Except.bind]
  rw [xpop_of_cons (st := { st with stack := k :: .href id :: s }) rfl]
  simp only
  have huk : userOK k = .ok () := by cases k <;> simp_all [userOK, isMark]
  have huv : userOK v = .ok () := by cases v <;> simp_all [userOK, isMark]
  simp only [huk, huv, ho]
  have : (o.kind == HKind.list) = false := by
    cases hkd : o.kind <;> simp_all
  simp only [this, tryAssign_none_of_badKey hb]
  simp

/-- **C17 (DICT).** -/
theorem C17_dict (mc : MCfg) (hook : Hook) (pos : Nat) (st : DState) (above below : List GoVal)
    (hs : splitAtMark st.stack = some (above, below)) (heven : above.length % 2 = 0)
    (i : Nat) (k : GoVal) (hi : above.reverse[2 * i]? = some k) (hl : 2 * i + 1 < above.length)
    (hb : badKey (dictKind mc.cfg) k) :
    exec mc hook .dict pos st = .error .other := by
  simp only [exec, hs]
  have : ¬ above.length % 2 ≠ 0 := by omega
  simp only [this, if_false]
  rw [assignAll_none_of_badKey _ _ _ i k hi (by simpa using hl) hb]

/-- **C17 (SETITEMS).** -/
theorem C17_setitems (mc : MCfg) (hook : Hook) (pos : Nat) (st : DState) (above below' : List GoVal) (id : Nat)
    (o : HObj) (hs : splitAtMark st.stack = some (above, .href id :: below')) (heven : above.length % 2 = 0)
    (ho : st.heap[id]? = some o) (hkind : o.kind ≠ .list)
    (i : Nat) (k : GoVal) (hi : above.reverse[2 * i]? = some k) (hl : 2 * i + 1 < above.length)
    (hb : badKey o.kind k) :
    exec mc hook .setitems pos st = .error .other := by
  simp only [exec, hs]
  have : ¬ above.length % 2 ≠ 0 := by omega
  simp only [this, if_false, ho]
  have : (o.kind == HKind.list) = false := by
    cases hkd : o.kind <;> simp_all
  simp only [this]
  rw [assignAll_none_of_badKey _ _ _ i k hi (by simpa using hl) hb]
  simp


/-- **C17 (API).** `Get`, `Set`, `Del` with a key that is or contains a list, dict or bytearray
    panic with `unhashable type: …` — and, panicking before the table is touched, leave the
    contents as they were (there is no new contents in the outcome). -/
theorem C17_api (pick : Entries → Nat) (es : Entries) (k v : GoVal) (h : hasUnhashable k = true) :
    apiGet pick es k = .panic unhashableMsg ∧ apiSet pick es k v = .panic unhashableMsg ∧
    apiDel pick es k = .panic unhashableMsg := by
  have : hashable k = false := by simp [hashable, hashTree_none_of_hasUnhashable k h]
  simp [apiGet, apiSet, apiDel, this]

end Ogorek
