import Ogorek.Props.C02Py2

/-!
  C06 on what Python 2's picklers write for a str: the model of CPython's unpickler (which, like the oracle, keeps a Python-2 str as a
  value of its own: `.str2`) loads the same bytes, consumes all of them and returns that byte string — so both unpicklers accept these
  programs and return the same object.
-/
namespace Ogorek

section
variable {c : ECfg}

/-- The explicit PUT forms (protocols 0-3) on the Python machine: any index below 2^32, whatever the memo holds. -/
theorem pruns_put_any (p n : Nat) (hp : p ≤ 3) (hn : n < 2 ^ 32) :
    PRunsP c (cpPut p n) (fun st => ∃ r rest, st.stack = r :: rest) (fun st st' => st'.stack = st.stack) := by
  unfold cpPut
  have h4 : ¬ p ≥ 4 := by omega
  simp only [h4, if_false]
  split
  · split
    · rename_i h256
      have hb : (UInt8.ofNat n).toNat = n := by simp [UInt8.toNat_ofNat']; omega
      refine PRunsP.one (i := .put (natDigits n)) (Parses.single rfl fun t => ?_) ?_
      · simp [parseInsn, Rd.bind, readByte, parseArg_113, Rd.map, Rd.pure, memoKey, hb]
      · intro st _ ⟨v, s, hs⟩
        exact ⟨_, pexec_put st n hn hs, rfl, rfl⟩
    · refine PRunsP.one (i := .put (natDigits n)) (Parses.single rfl fun t => ?_) ?_
      · have e : (114 :: le4 n) ++ t = 114 :: (natLE 4 n ++ t) := by simp [le4]
        rw [e]
        simp [parseInsn, Rd.bind, readByte, parseArg_114, Rd.map, Rd.pure, readFull_exact 4 _ t (natLE_length 4 _), memoKey,
          leNat_natLE_of_lt (show n < 256 ^ 4 by omega)]
      · intro st _ ⟨v, s, hs⟩
        exact ⟨_, pexec_put st n hn hs, rfl, rfl⟩
  · refine PRunsP.one (i := .put (natDigits n)) (Parses.single rfl fun t => ?_) ?_
    · have e : (112 :: natDigits n ++ [10]) ++ t = 112 :: (natDigits n ++ 10 :: t) := by simp
      rw [e]
      have hl : (10 : UInt8) ∉ natDigits n := natDigits_no n 10 (by decide)
      simp [parseInsn, Rd.bind, readByte, parseArg_112, Rd.map, Rd.pure, readLine_line _ _ hl]
    · intro st _ ⟨v, s, hs⟩
      exact ⟨_, pexec_put st n hn hs, rfl, rfl⟩

end

/-- The core: one instruction `lb` that pushes `v`, then whatever bytes `pb` the PUT takes, then STOP. -/
theorem py2_leaf_pvm_core (p : Nat) (hp : p ≤ 2) (lb pb : Bytes) (v : PyVal)
    (hstr : PRunsP (ecfg p) lb (fun _ => True) (fun st st' => st'.stack = v :: st.stack))
    (hputr : PRunsP (ecfg p) pb (fun st => ∃ r rest, st.stack = r :: rest) (fun st st' => st'.stack = st.stack)) :
    ∃ st', pvmLoad ((if p ≥ 2 then [0x80, UInt8.ofNat p] else []) ++ (lb ++ pb) ++ [46]) = (.ok v, st', []) := by
  have hpb : (UInt8.ofNat p).toNat = p := by simp [UInt8.toNat_ofNat']; omega
  let st1 : PState := { proto := if p ≥ 2 then p else 0 }
  have hpo : PProtoOK (ecfg p) st1 := by
    simp only [PProtoOK, pyExecModule, pybuiltinModuleE, ecfg, st1]
    by_cases h2 : p ≥ 2
    · have h3 : p < 3 := by omega
      have h1 : (p : Int) ≤ 2 := by omega
      simp [h2, h3, h1]
    · have h1 : (p : Int) ≤ 2 := by omega
      simp [h2, h1]
  have hboth := PRunsP.seq hstr hputr (fun st st1 _ _ e => ⟨v, st.stack, e⟩)
  obtain ⟨is, hpar, hnofr, hrun⟩ := hboth
  obtain ⟨st2, e2, _, stm, _, hq1, hq2⟩ := hrun st1 hpo trivial
  have hs2 : st2.stack = v :: st1.stack := by rw [hq2]; exact hq1
  have hbody : ∀ fuel, ((lb ++ pb) ++ [46]).length < fuel →
      pvmLoop fuel st1 ((lb ++ pb) ++ [46]) = (.ok v, { st2 with stack := st1.stack }, []) := by
    intro fuel hf
    rw [pvmLoop_fuel fuel (((lb ++ pb) ++ [46]).length + 1 + is.length) st1 ((lb ++ pb) ++ [46]) hf (by omega)]
    exact pvm_of_run st1 st2 (lb ++ pb) is v st1.stack hpar hnofr e2 hs2 ((lb ++ pb) ++ [46]).length
  refine ⟨{ st2 with stack := st1.stack }, ?_⟩
  unfold pvmLoad
  by_cases h2 : p ≥ 2
  · simp only [h2, if_true]
    have e0 : ([0x80, UInt8.ofNat p] ++ (lb ++ pb) ++ [46]) = 0x80 :: (UInt8.ofNat p :: ((lb ++ pb) ++ [46])) := by simp
    rw [e0]
    have hstep := pvmLoop_step ((0x80 :: (UInt8.ofNat p :: ((lb ++ pb) ++ [46]))).length) {} { proto := p } 0x80
      (UInt8.ofNat p :: ((lb ++ pb) ++ [46])) ((lb ++ pb) ++ [46]) (.proto p)
      (by simp [parseArg_128, Rd.map, Rd.bind, readByte, Rd.pure, hpb]) rfl rfl (by simp [pexec]; omega)
    rw [hstep]
    have : ({ proto := p } : PState) = st1 := by simp [st1, h2]
    rw [this]
    exact hbody _ (by simp only [List.length_cons]; omega)
  · simp only [h2, if_false, List.nil_append]
    have : ({} : PState) = st1 := by simp [st1, h2]
    rw [this]
    exact hbody _ (by omega)

/-- **C06 (Python 2's str, the Python side).** -/
theorem C06_py2_str_pvm (p : Nat) (hp : p ≤ 2) (put : Option Nat) (hput : ∀ n, put = some n → n < 2 ^ 32) (s : Bytes)
    (hlen : s.length < 2 ^ 32) :
    ∃ st', pvmLoad (py2StrPickle p put s) = (.ok (.str2 s), st', []) := by
  have hstr : PRunsP (ecfg p) (py2StrBody p s) (fun _ => True) (fun st st' => st'.stack = PyVal.str2 s :: st.stack) :=
    PRunsP.one (parses_py2StrBody p s hlen) fun st _ _ => ⟨ppush st (.str2 s), by simp [pexec], rfl, rfl⟩
  unfold py2StrPickle
  cases put with
  | none =>
    exact py2_leaf_pvm_core p hp _ [] _ hstr (PRunsP.weaken PRunsP.nil (fun _ h => h) (fun st st' _ _ e => by subst e; rfl))
  | some n =>
    exact py2_leaf_pvm_core p hp _ (cpPut p n) _ hstr (pruns_put_any p n (by omega) (hput n rfl))

/-- **C06 (Python 2's str): both unpicklers.**  og-rek's decoder and the model of CPython's unpickler accept what Python 2 writes for a
    str, consume all of it and return the same byte string (a `ByteString` / Go string there, a Python-2 str here). -/
theorem C06_py2_str_agree (cfg : Cfg) (hook : Hook) (p : Nat) (hp : p ≤ 2) (put : Option Nat) (hput : ∀ n, put = some n → n < 2 ^ 32)
    (s : Bytes) (hlen : s.length < 2 ^ 32) (st0 : DState) :
    (∃ st', decode (goCfg cfg) hook st0 (py2StrPickle p put s) = (.ok (if cfg.su then .bytestr s else .str s), st', [])) ∧
    (∃ st', pvmLoad (py2StrPickle p put s) = (.ok (.str2 s), st', [])) :=
  ⟨C02_py2_str cfg hook p hp put s hlen st0, C06_py2_str_pvm p hp put hput s hlen⟩

/-- **C06 (Python 2's unicode, the Python side)**: valid UTF-8 text (CPython refuses anything else). -/
theorem C06_py2_unicode_pvm (p : Nat) (hp : p ≤ 2) (put : Option Nat) (hput : ∀ n, put = some n → n < 2 ^ 32) (s bs : Bytes)
    (hlen : s.length < 2 ^ 32) (hu : pyUtf8Valid true s = true) (h : py2UnicodePickle p put s = some bs) :
    ∃ st', pvmLoad bs = (.ok (.str s), st', []) := by
  obtain ⟨tb, htb, hbs⟩ : ∃ tb, (if p = 0 then (py2Rue s).map fun u => 86 :: (u ++ [10]) else some (88 :: (natLE 4 s.length ++ s))) = some tb ∧
      bs = (if p ≥ 2 then [0x80, UInt8.ofNat p] else []) ++ (tb ++ optPut p put) ++ [46] := by
    unfold py2UnicodePickle at h
    cases hx : (if p = 0 then (py2Rue s).map fun u => 86 :: (u ++ [10]) else some (88 :: (natLE 4 s.length ++ s))) with
    | none => simp [hx] at h
    | some tb => simp only [hx, Option.map_some, Option.some.injEq] at h; exact ⟨tb, rfl, h.symm⟩
  have htext : PRunsP (ecfg p) tb (fun _ => True) (fun st st' => st'.stack = PyVal.str s :: st.stack) := by
    refine PRunsP.one (i := .pushStr s) (Parses.single rfl fun t => ?_) fun st _ _ => ⟨ppush st (.str s), by simp [pexec, pyStr, hu, bind, Except.bind, pure, Except.pure], rfl, rfl⟩
    by_cases h0 : p = 0
    · simp only [h0, if_true] at htb
      cases hr : py2Rue s with
      | none => simp [hr] at htb
      | some u =>
        simp only [hr, Option.map_some, Option.some.injEq] at htb
        subst htb
        have := C19_UNICODE_py2 s u t hr
        simpa using this
    · simp only [h0, if_false, Option.some.injEq] at htb
      subst htb
      have := (C19_counted s t).2.2.1 hlen
      simpa using this
  rw [hbs]
  cases put with
  | none =>
    exact py2_leaf_pvm_core p hp _ [] _ htext (PRunsP.weaken PRunsP.nil (fun _ h => h) (fun st st' _ _ e => by subst e; rfl))
  | some n =>
    exact py2_leaf_pvm_core p hp _ (cpPut p n) _ htext (pruns_put_any p n (by omega) (hput n rfl))

/-- **C06 (Python 2's unicode): both unpicklers.** -/
theorem C06_py2_unicode_agree (cfg : Cfg) (hook : Hook) (p : Nat) (hp : p ≤ 2) (put : Option Nat) (hput : ∀ n, put = some n → n < 2 ^ 32)
    (s bs : Bytes) (hlen : s.length < 2 ^ 32) (hu : pyUtf8Valid true s = true) (h : py2UnicodePickle p put s = some bs) (st0 : DState) :
    (∃ st', decode (goCfg cfg) hook st0 bs = (.ok (.str s), st', [])) ∧ (∃ st', pvmLoad bs = (.ok (.str s), st', [])) :=
  ⟨C02_py2_unicode cfg hook p hp put s bs hlen h st0, C06_py2_unicode_pvm p hp put hput s bs hlen hu h⟩

end Ogorek
