import Ogorek.Chunked
import Ogorek.Lemmas.Reader

/-!
  C14 — Decoding does not depend on how the Reader delivers the bytes.

  Each primitive, under every delivery schedule, equals the flat-input reader the decoder model
  is built from; `decode` uses nothing else to touch its input (`parseInsn` is `readByte` followed
  by `parseArg`, which is built from `readByte`, `readFull`, `copyN`, `readLine` by the pure
  combinators of `Rd`).
-/
namespace Ogorek

/-- **C14 (ReadByte).** Whatever has been buffered, the next byte is the next byte of the stream
    (the model's state *is* the remaining stream). -/
theorem C14_readByte (inp : Bytes) :
    readByte inp = (match inp with | [] => .error .eof | b :: r => .ok (b, r)) := by
  cases inp <;> rfl

theorem readNChunked_spec (sizes : Nat → Nat) (eofErr : DErr) :
    ∀ (need i fuel : Nat) (acc inp : Bytes), need < fuel →
      readNChunked sizes eofErr need i fuel acc inp =
        if need ≤ inp.length then .ok (acc ++ inp.take need, inp.drop need)
        else .error (if acc.isEmpty && inp.isEmpty then .eof else eofErr) := by
  intro need
  induction need using Nat.strongRecOn with
  | _ need ih =>
    intro i fuel acc inp hf
    cases need with
    | zero => simp [readNChunked]
    | succ need =>
      cases fuel with
      | zero => omega
      | succ fuel =>
        unfold readNChunked
        by_cases hemp : inp.isEmpty = true
        · have : inp = [] := List.isEmpty_iff.mp hemp
          subst this
          simp
        · have hlen : 0 < inp.length := by
            cases inp with
            | nil => simp at hemp
            | cons _ _ => simp
          simp only [hemp, if_false, Bool.and_false]
          have hc1 : 1 ≤ min (sizes i + 1) (min (need + 1) inp.length) := by omega
          have hc2 : min (sizes i + 1) (min (need + 1) inp.length) ≤ need + 1 := by omega
          have hc3 : min (sizes i + 1) (min (need + 1) inp.length) ≤ inp.length := by omega
          generalize min (sizes i + 1) (min (need + 1) inp.length) = c at hc1 hc2 hc3
          rw [ih (need + 1 - c) (by omega) _ _ _ _ (by omega)]
          have hne : (acc ++ List.take c inp).isEmpty = false := by
            obtain ⟨b, r, hbr⟩ : ∃ b r, inp = b :: r := by
              cases inp with
              | nil => simp at hlen
              | cons b r => exact ⟨b, r, rfl⟩
            obtain ⟨c', hc'⟩ : ∃ c', c = c' + 1 := ⟨c - 1, by omega⟩
            rw [hbr, hc']
            simp
          simp only [List.length_drop, hne, Bool.false_and]
          by_cases hle : need + 1 ≤ inp.length
          · have h1 : need + 1 - c ≤ inp.length - c := by omega
            simp only [h1, hle, if_true, List.append_assoc, List.drop_drop]
            have e1 : List.take c inp ++ List.take (need + 1 - c) (List.drop c inp) = List.take (need + 1) inp := by
              have := List.take_add (l := inp) (i := c) (j := need + 1 - c)
              rw [show c + (need + 1 - c) = need + 1 by omega] at this
              exact this.symm
            have e2 : c + (need + 1 - c) = need + 1 := by omega
            rw [e1, e2]
            simp
          · have h1 : ¬ need + 1 - c ≤ inp.length - c := by omega
            simp only [h1, hle, if_false]
            simp

/-- **C14 (io.ReadFull).** -/
theorem C14_readFull (sizes : Nat → Nat) (n : Nat) (inp : Bytes) :
    readNChunked sizes .unexpectedEOF n 0 (n + 1) [] inp = readFull n inp := by
  rw [readNChunked_spec _ _ _ _ _ _ _ (by omega)]
  unfold readFull
  by_cases h : n ≤ inp.length
  · simp [h]
  · simp only [h, if_false, List.isEmpty_nil, Bool.true_and]
    cases inp <;> simp

/-- **C14 (io.CopyN and the byte-wise loops).** -/
theorem C14_copyN (sizes : Nat → Nat) (n : Nat) (inp : Bytes) :
    readNChunked sizes .eof n 0 (n + 1) [] inp = copyN n inp := by
  rw [readNChunked_spec _ _ _ _ _ _ _ (by omega)]
  unfold copyN
  by_cases h : n ≤ inp.length
  · simp [h]
  · simp [h]

theorem splitLine_ne_none_of_mem : ∀ (s : Bytes), (10 : UInt8) ∈ s → splitLine s ≠ none
  | [], h => by simp at h
  | x :: xs, h => by
    unfold splitLine
    split
    · simp
    · rename_i hne
      have hx : (10 : UInt8) ∈ xs := by
        simp at h
        rcases h with h | h
        · exact absurd h.symm hne
        · exact h
      have := splitLine_ne_none_of_mem xs hx
      cases hs : splitLine xs with
      | none => exact absurd hs this
      | some p => simp

theorem not_mem_of_splitLine_none {s : Bytes} (h : splitLine s = none) : (10 : UInt8) ∉ s :=
  fun hm => splitLine_ne_none_of_mem s hm h

/-- The line loop, for any accumulated prefix. -/
theorem readLineChunked_spec (windows : Nat → Nat) :
    ∀ (fuel i : Nat) (acc inp : Bytes), inp.length < fuel →
      readLineChunked windows fuel i acc inp =
        (match splitLine inp with
         | some (l, r) => .ok (acc ++ l, r)
         | none => .error .eof) := by
  intro fuel
  induction fuel with
  | zero => intro i acc inp h; omega
  | succ fuel ih =>
    intro i acc inp hlen
    unfold readLineChunked
    simp only
    cases hs : splitLine (List.take (windows i + 1) inp) with
    | some p =>
      obtain ⟨l, r⟩ := p
      obtain ⟨h1, h2⟩ := splitLine_some hs
      have hi : inp = l ++ 10 :: (r ++ inp.drop (windows i + 1)) := by
        conv => lhs; rw [← List.take_append_drop (windows i + 1) inp, h1]
        simp
      have hsl : splitLine inp = some (l, r ++ inp.drop (windows i + 1)) := by
        conv => lhs; rw [hi]
        exact splitLine_of_not_mem h2 _
      simp only [hsl]
      congr 2
      conv => lhs; rw [hi]
      simp
    | none =>
      simp only
      have hno := not_mem_of_splitLine_none hs
      by_cases hw : windows i + 1 < inp.length
      · simp only [hw, if_true]
        rw [ih _ _ _ (by simp [List.length_drop]; omega)]
        -- splitLine inp in terms of splitLine of the rest
        cases hr : splitLine (inp.drop (windows i + 1)) with
        | none =>
          have hno2 := not_mem_of_splitLine_none hr
          have : (10 : UInt8) ∉ inp := by
            intro hm
            rw [← List.take_append_drop (windows i + 1) inp] at hm
            rcases List.mem_append.mp hm with hm | hm
            · exact hno hm
            · exact hno2 hm
          simp [splitLine_none this]
        | some p =>
          obtain ⟨l, r⟩ := p
          obtain ⟨h1, h2⟩ := splitLine_some hr
          have hi : inp = (inp.take (windows i + 1) ++ l) ++ 10 :: r := by
            conv => lhs; rw [← List.take_append_drop (windows i + 1) inp, h1]
            simp
          have hnm : (10 : UInt8) ∉ inp.take (windows i + 1) ++ l := by
            simp; exact ⟨hno, h2⟩
          have hsl : splitLine inp = some (inp.take (windows i + 1) ++ l, r) := by
            conv => lhs; rw [hi]
            exact splitLine_of_not_mem hnm _
          simp [hsl]
      · simp only [hw, if_false]
        have hall : inp.take (windows i + 1) = inp := List.take_of_length_le (by omega)
        rw [hall] at hno
        simp [splitLine_none hno]

/-- **C14 (readLine).** og-rek's `ReadSlice` loop, for every sequence of window sizes (lines
    shorter or longer than the buffer, the LF arriving in any window), is the flat `readLine`. -/
theorem C14_readLine (windows : Nat → Nat) (inp : Bytes) :
    readLineChunked windows (inp.length + 1) 0 [] inp = readLine inp := by
  rw [readLineChunked_spec _ _ _ _ _ (by omega)]
  unfold readLine
  cases splitLine inp with
  | none => rfl
  | some p => obtain ⟨l, r⟩ := p; simp

end Ogorek
