import Ogorek.Lemmas.Num
import Ogorek.Lemmas.Reader
import Ogorek.Lemmas.Keys
import Ogorek.Conv
import Ogorek.Dict

/-!
  C19 — Integer and string helpers are independent of the pickle representation.

  For every integer `n` and every opcode form able to carry it, the instruction the decoder
  reads pushes a value on which `AsInt64` answers `n` exactly when `n` fits int64; for every
  payload and each binary string/bytes opcode the pushed value carries the payload unchanged and
  `AsString` / `AsBytes` accept exactly the documented kinds.
-/
namespace Ogorek

/-- The value an instruction pushes (for the push-only instructions), under configuration `su`;
    `id` is the allocation id a long gets. -/
def pushedValue (su : Bool) (id : Nat) : Insn → Option GoVal
  | .pushInt i => some (.int i)
  | .pushBig i => some (.big id i)
  | .pushBool b => some (.bool b)
  | .pushByteString s => some (if su then .bytestr s else .str s)
  | .pushStr s => some (.str s)
  | .pushBytes s => some (.bytes s)
  | .pushBytearray s => some (.bytearray s)
  | _ => none

/-- What `AsInt64` must answer for the mathematical integer `n`. -/
def int64Spec (n : Int) : Option Int := if inInt64 n then some n else none

theorem readLine_line (l t : Bytes) (h : (10 : UInt8) ∉ l) : readLine (l ++ 10 :: t) = .ok (l, t) := by
  unfold readLine; rw [splitLine_of_not_mem h]

theorem natDigits_not_bool (n : Nat) : natDigits n ≠ [48, 48] ∧ natDigits n ≠ [48, 49] := by
  rw [natDigits]
  split
  · simp
  · rename_i h
    have h1 : 1 ≤ n / 10 := by omega
    rw [natDigits]
    split
    · rename_i h2
      have hb : (digitByte (n / 10)) ≠ 48 := by
        intro hc
        have := congrArg UInt8.toNat hc
        rw [digitByte_toNat] at this
        simp at this; omega
      constructor <;> (intro hc; simp at hc; exact hb hc.1)
    · have hl := natDigits_ne_nil (n / 10 / 10)
      constructor <;>
        (intro hc
         have := congrArg List.length hc
         simp only [List.length_append, List.length_cons, List.length_nil] at this
         have h0 : (natDigits (n / 10 / 10)).length = 0 := by omega
         exact hl (List.length_eq_zero_iff.mp h0))

theorem fmtInt_not_bool (n : Int) : fmtInt n ≠ [48, 48] ∧ fmtInt n ≠ [48, 49] := by
  unfold fmtInt
  split
  · constructor <;> (intro hc; simp at hc)
  · exact natDigits_not_bool _

theorem parseIntArg_fmtInt (n : Int) :
    parseIntArg (fmtInt n) = .ok (if inInt64 n then .pushInt n else .pushBig n) := by
  unfold parseIntArg
  obtain ⟨h1, h2⟩ := fmtInt_not_bool n
  simp [h1, h2, parseDecimal_fmtInt]

/-- **C19 (INT text).** -/
theorem C19_INT (n : Int) (t : Bytes) (su : Bool) (id : Nat) :
    ∃ i, parseInsn (73 :: fmtInt n ++ 10 :: t) = .ok (i, t) ∧
      (pushedValue su id i).bind asInt64 = int64Spec n := by
  refine ⟨if inInt64 n then .pushInt n else .pushBig n, ?_, ?_⟩
  · simp [parseInsn, Rd.bind, readByte, parseArg_73, Rd.mapE, readLine_line _ _ (fmtInt_no_lf n), parseIntArg_fmtInt, Rd.pure]
  · unfold int64Spec
    split <;> simp_all [pushedValue, asInt64]

/-- **C19 (LONG text).** -/
theorem C19_LONG (n : Int) (t : Bytes) (su : Bool) (id : Nat) :
    ∃ i, parseInsn (76 :: fmtInt n ++ 76 :: 10 :: t) = .ok (i, t) ∧
      (pushedValue su id i).bind asInt64 = int64Spec n := by
  refine ⟨.pushBig n, ?_, ?_⟩
  · have hl : (10 : UInt8) ∉ fmtInt n ++ [76] := by
      simp; exact fmtInt_no_lf n
    have : (76 :: fmtInt n ++ 76 :: 10 :: t) = 76 :: ((fmtInt n ++ [76]) ++ 10 :: t) := by simp
    rw [this]
    simp only [parseInsn, Rd.bind, readByte, parseArg_76, Rd.mapE, readLine_line _ _ hl, parseLongArg]
    simp [parseDecimal_fmtInt, Rd.pure]
  · unfold int64Spec
    split <;> simp_all [pushedValue, asInt64]

/-- **C19 (BININT1).** -/
theorem C19_BININT1 (b : UInt8) (t : Bytes) (su : Bool) (id : Nat) :
    ∃ i, parseInsn (75 :: b :: t) = .ok (i, t) ∧
      (pushedValue su id i).bind asInt64 = int64Spec b.toNat := by
  refine ⟨.pushInt b.toNat, by simp [parseInsn, Rd.bind, readByte, parseArg_75, Rd.map, Rd.pure], ?_⟩
  have : inInt64 (b.toNat : Int) = true := by
    have := b.toNat_lt
    unfold inInt64 minInt64 maxInt64
    simp only [Bool.and_eq_true, decide_eq_true_eq]; omega
  simp [pushedValue, asInt64, int64Spec, this]

theorem readFull_exact (n : Nat) (a t : Bytes) (h : a.length = n) : readFull n (a ++ t) = .ok (a, t) := by
  subst h
  unfold readFull
  simp

/-- **C19 (BININT2).** -/
theorem C19_BININT2 (n : Nat) (hn : n < 65536) (t : Bytes) (su : Bool) (id : Nat) :
    ∃ i, parseInsn (77 :: natLE 2 n ++ t) = .ok (i, t) ∧
      (pushedValue su id i).bind asInt64 = int64Spec n := by
  refine ⟨.pushInt n, ?_, ?_⟩
  · simp [parseInsn, Rd.bind, readByte, parseArg_77, Rd.map, Rd.pure, readFull_exact 2 _ t (natLE_length 2 n),
      leNat_natLE_of_lt (show n < 256 ^ 2 from hn)]
  · have : inInt64 (n : Int) = true := by
      unfold inInt64 minInt64 maxInt64
      simp only [Bool.and_eq_true, decide_eq_true_eq]; omega
    simp [pushedValue, asInt64, int64Spec, this]

/-- **C19 (BININT).** -/
theorem C19_BININT (n : Int) (h1 : -(2 : Int) ^ 31 ≤ n) (h2 : n ≤ (2 : Int) ^ 31 - 1) (t : Bytes) (su : Bool) (id : Nat) :
    ∃ i, parseInsn (74 :: natLE 4 (ofSigned 32 n) ++ t) = .ok (i, t) ∧
      (pushedValue su id i).bind asInt64 = int64Spec n := by
  refine ⟨.pushInt n, ?_, ?_⟩
  · simp [parseInsn, Rd.bind, readByte, parseArg_74, Rd.map, Rd.pure, readFull_exact 4 _ t (natLE_length 4 _),
      toSigned_ofSigned_32 n h1 h2]
  · have : inInt64 n = true := by
      unfold inInt64 minInt64 maxInt64
      simp only [Bool.and_eq_true, decide_eq_true_eq]; omega
    simp [pushedValue, asInt64, int64Spec, this]

theorem copyN_exact (a t : Bytes) : copyN a.length (a ++ t) = .ok (a, t) := by
  unfold copyN; simp

/-- **C19 (LONG1).** Any width `1 ≤ k ≤ 255` into which `n` fits (CPython writes the minimal
    one; 128 ≤ k ≤ 255 is the range repaired by F1). -/
theorem C19_LONG1 (k : Nat) (n : Int) (hk : 0 < k) (hk2 : k < 256)
    (h1 : -((256 : Int) ^ k) ≤ 2 * n) (h2 : 2 * n < (256 : Int) ^ k) (t : Bytes) (su : Bool) (id : Nat) :
    ∃ i, parseInsn (0x8a :: UInt8.ofNat k :: twos k n ++ t) = .ok (i, t) ∧
      (pushedValue su id i).bind asInt64 = int64Spec n := by
  refine ⟨.pushBig n, ?_, ?_⟩
  · have hl : (twos k n).length = k := by unfold twos; exact natLE_length _ _
    have hkb : (UInt8.ofNat k).toNat = k := by simp [UInt8.toNat_ofNat']; omega
    have hc := copyN_exact (twos k n) t
    rw [hl] at hc
    simp [parseInsn, Rd.bind, readByte, parseArg_138, Rd.map, Rd.pure, readCounted1, hkb, hc,
      decodeLong_twos k n hk h1 h2]
  · unfold int64Spec
    split <;> simp_all [pushedValue, asInt64]

/-- LONG1 with an empty payload is zero. -/
theorem C19_LONG1_zero (t : Bytes) : parseInsn (0x8a :: 0 :: t) = .ok (.pushBig 0, t) := by
  simp [parseInsn, Rd.bind, readByte, parseArg_138, Rd.map, Rd.pure, readCounted1, copyN, decodeLong]


/-! ### text and byte payloads (binary forms) -/

theorem readCounted_exact (w : Nat) (s t : Bytes) (h1 : s.length < 256 ^ w) (h2 : s.length ≤ 2 ^ 63 - 1) :
    readCounted w (natLE w s.length ++ (s ++ t)) = .ok (s, t) := by
  unfold readCounted Rd.bind
  rw [readFull_exact w _ _ (natLE_length w _)]
  simp only [leNat_natLE_of_lt h1]
  have : ¬ s.length > 2 ^ 63 - 1 := by omega
  simp only [this, if_false]
  exact copyN_exact s t

theorem readCounted1_exact (s t : Bytes) (h : s.length < 256) :
    readCounted1 (UInt8.ofNat s.length :: (s ++ t)) = .ok (s, t) := by
  unfold readCounted1 Rd.bind
  simp only [readByte]
  have : (UInt8.ofNat s.length).toNat = s.length := by simp [UInt8.toNat_ofNat']; omega
  rw [this]
  exact copyN_exact s t

/-- **C19 (binary string / bytes forms).** Each counted opcode delivers its payload unchanged,
    as the documented kind. -/
theorem C19_counted (s t : Bytes) :
    (s.length < 2 ^ 32 → parseInsn (84 :: (natLE 4 s.length ++ (s ++ t))) = .ok (.pushByteString s, t)) ∧
    (s.length < 256 → parseInsn (85 :: UInt8.ofNat s.length :: (s ++ t)) = .ok (.pushByteString s, t)) ∧
    (s.length < 2 ^ 32 → parseInsn (88 :: (natLE 4 s.length ++ (s ++ t))) = .ok (.pushStr s, t)) ∧
    (s.length < 256 → parseInsn (0x8c :: UInt8.ofNat s.length :: (s ++ t)) = .ok (.pushStr s, t)) ∧
    (s.length < 2 ^ 32 → parseInsn (66 :: (natLE 4 s.length ++ (s ++ t))) = .ok (.pushBytes s, t)) ∧
    (s.length < 256 → parseInsn (67 :: UInt8.ofNat s.length :: (s ++ t)) = .ok (.pushBytes s, t)) ∧
    (s.length < 2 ^ 63 → parseInsn (0x96 :: (natLE 8 s.length ++ (s ++ t))) = .ok (.pushBytearray s, t)) := by
  refine ⟨?_, ?_, ?_, ?_, ?_, ?_, ?_⟩
  · intro h
    simp only [parseInsn, Rd.bind, readByte, parseArg_84, Rd.map, readCounted_exact 4 s t (by omega) (by omega), Rd.pure]
  · intro h
    simp only [parseInsn, Rd.bind, readByte, parseArg_85, Rd.map, readCounted1_exact s t h, Rd.pure]
  · intro h
    simp only [parseInsn, Rd.bind, readByte, parseArg_88, Rd.map, readCounted_exact 4 s t (by omega) (by omega), Rd.pure]
  · intro h
    simp only [parseInsn, Rd.bind, readByte, parseArg_140, Rd.map, readCounted1_exact s t h, Rd.pure]
  · intro h
    simp only [parseInsn, Rd.bind, readByte, parseArg_66, Rd.map, readCounted_exact 4 s t (by omega) (by omega), Rd.pure]
  · intro h
    simp only [parseInsn, Rd.bind, readByte, parseArg_67, Rd.map, readCounted1_exact s t h, Rd.pure]
  · intro h
    simp only [parseInsn, Rd.bind, readByte, parseArg_150, Rd.map, readCounted_exact 8 s t (by omega) (by omega), Rd.pure]

/-- **C19 (helpers).** `AsString` accepts exactly unicode and py2-str results, `AsBytes` exactly
    bytes and py2-str results, and both return the payload unchanged, in both StrictUnicode modes. -/
theorem C19_helpers (s : Bytes) (su : Bool) (id : Nat) :
    ((pushedValue su id (.pushByteString s)).bind asString = some s) ∧
    ((pushedValue su id (.pushStr s)).bind asString = some s) ∧
    ((pushedValue su id (.pushBytes s)).bind asString = none) ∧
    ((pushedValue su id (.pushBytearray s)).bind asString = none) ∧
    ((pushedValue su id (.pushBytes s)).bind asBytes = some s) ∧
    ((pushedValue su id (.pushStr s)).bind asBytes = none) ∧
    ((pushedValue su id (.pushBytearray s)).bind asBytes = none) ∧
    ((pushedValue true id (.pushByteString s)).bind asBytes = some s) := by
  cases su <;> simp [pushedValue, asString, asBytes]

/-- **C19 (Dict key).** In PyDict mode the int64 and the `*big.Int` representation of one
    integer are equal keys with equal hash, so they address the same entry. -/
theorem C19_key (n : Int) (id : Nat) (h : inInt64 n = true) :
    goEqual (.int n) (.big id n) = true ∧ goEqual (.big id n) (.int n) = true ∧
    hashTree (.int n) = hashTree (.big id n) := by
  refine ⟨?_, ?_, ?_⟩
  · simp [goEqual, strKind?, numOf?, numEq, eqIntBig, h]
  · simp [goEqual, strKind?, numOf?, numEq, eqIntBig, h]
  · simp [hashTree, hashBig, h]

end Ogorek
