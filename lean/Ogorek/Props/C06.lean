import Ogorek.Props.C02
import Ogorek.Lemmas.NoPanic

/-!
  C06 — No disagreement with CPython on any well-formed opcode program.
-/
namespace Ogorek

/-- **C06 (DUP).** DUP pushes the very value on top of the stack: for a dict — a heap reference —
    the same object that later SETITEM(S) extend. -/
theorem C06_dup_same (mc : MCfg) (hook : Hook) (pos : Nat) (st : DState) (v : GoVal) (s : List GoVal)
    (h : st.stack = v :: s) : exec mc hook .dup pos st = .ok { st with stack := v :: v :: s } := by
  simp [exec, h, push]

/-- **C06 (GET).** GET of any width pushes the value stored under that key, unchanged. -/
theorem C06_get_same (mc : MCfg) (hook : Hook) (pos : Nat) (st : DState) (key : Bytes) (v : GoVal)
    (h : st.memo.lookup key = some v) : exec mc hook (.get key) pos st = .ok (push st v) := by
  simp [exec, memoGet, h]

/-- A dict reached twice through the memo is one heap object: SETITEM through either reference
    changes what the other sees. -/
theorem C06_dict_shared (mc : MCfg) (hook : Hook) (pos : Nat) (st : DState) (id : Nat) (o : HObj) (k v : GoVal)
    (s : List GoVal) (es : Entries)
    (hs : st.stack = v :: k :: .href id :: s) (ho : st.heap[id]? = some o) (hkind : (o.kind == HKind.list) = false)
    (hk : isMark k = false) (hv : isMark v = false) (ha : tryAssign o.kind o.kvs k v = some es) :
    ∃ st', exec mc hook .setitem pos st = .ok st' ∧ st'.heap[id]? = some { o with kvs := es } ∧ st'.memo = st.memo := by
  have hlen : ¬ st.stack.length < 3 := by rw [hs]; simp
  have huk : userOK k = .ok () := by cases k <;> simp_all [userOK, isMark]
  have huv : userOK v = .ok () := by cases v <;> simp_all [userOK, isMark]
  have hid : id < st.heap.length := by
    apply Classical.byContradiction; intro hc
    rw [List.getElem?_eq_none (by omega)] at ho; simp at ho
  refine ⟨heapSet { st with stack := .href id :: s } id { o with kvs := es }, ?_, ?_, ?_⟩
  · simp only [exec, hlen, if_false]
    rw [xpop_of_cons hs]
    simp only [bind, Except.bind]
    rw [xpop_of_cons (st := { st with stack := k :: .href id :: s }) rfl]
    simp [huk, huv, ho, hkind, ha, pure, Except.pure]
  · simp [heapSet, List.getElem?_set, hid]
  · simp [heapSet]

/-- `]q\x00K\x01ah\x00\x86.` : a list is memoised, extended, fetched again, paired with itself. -/
def k1Program : Bytes := [93, 113, 0, 75, 1, 97, 104, 0, 0x86, 46]

/-- **C06 / K1 witness.** CPython gives `([1], [1])`; the decoder `([1], [])`: the copy in the memo
    is the stale slice header. -/
theorem C06_K1_witness (c : Cfg) :
    (decode (goCfg c) none {} k1Program).1 = .ok (.tuple [.list [.int 1], .list []]) := by
  simp [k1Program, decode, decodeLoop, readByte, parseArg_93, parseArg_113, parseArg_75, parseArg_97, parseArg_104, parseArg_134,
    parseArg_46, Rd.map, Rd.bind, Rd.pure, exec, goCfg, mkList, push, memoPut, memoGet, memoKey, natDigits_small, xpop,
    listAppend, userOK, userOKAll, popUser, pop, bind, Except.bind, pure, Except.pure, List.lookup]

/-- **C06 (lists by reference).** In the machine with K1 repaired the same program yields `([1], [1])`:
    the APPEND through the stack reference is seen through the memo reference. -/
theorem C06_ref_appends_shared (c : Cfg) :
    (let r := decode (refCfg c) none {} k1Program
     r.1.toOption.map (resolveV r.2.1.heap 3) = some (.tuple [.list [.int 1], .list [.int 1]])) := by
  simp [k1Program, decode, decodeLoop, readByte, parseArg_93, parseArg_113, parseArg_75, parseArg_97, parseArg_104, parseArg_134,
    parseArg_46, Rd.map, Rd.bind, Rd.pure, exec, refCfg, mkList, allocObj, heapSet, push, memoPut, memoGet, memoKey, natDigits_small,
    xpop, listAppend, userOK, userOKAll, popUser, pop, bind, Except.bind, pure, Except.pure, List.lookup, Except.toOption, resolveV]

end Ogorek
