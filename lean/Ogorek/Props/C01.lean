import Ogorek.Props.C03
import Ogorek.Props.C02
import Ogorek.Props.C12

/-!
  C01 — Encoder output means the documented Python value under CPython's unpickler.
-/
namespace Ogorek

/-- **C01 (integers).** `encodeInt` picks its form by value and protocol only — BININT1 / BININT2 /
    BININT when the protocol allows and the value fits, decimal INT text otherwise — and each form
    reads back as the same integer (`C03_int`). -/
theorem C01_int_forms (c : ECfg) (i : Int) :
    (encodeInt c i).chunks = [if c.proto ≥ 1 ∧ 0 ≤ i ∧ i ≤ 255 then [75, UInt8.ofNat i.toNat]
      else if c.proto ≥ 1 ∧ 0 ≤ i ∧ i ≤ 65535 then [77, UInt8.ofNat (i.toNat % 256), UInt8.ofNat (i.toNat / 256)]
      else if c.proto ≥ 1 ∧ -(2 : Int) ^ 31 ≤ i ∧ i ≤ (2 : Int) ^ 31 - 1 then 74 :: le4 (ofSigned 32 i)
      else 73 :: fmtInt i ++ [10]] := by
  unfold encodeInt
  repeat' split
  all_goals simp [emit]

/-- **C01 (Bytes below protocol 3).** The text handed to `_codecs.encode(…, 'latin1')` is the latin-1
    decoding of the bytes, written as UTF-8; decoding it as latin-1 gives the bytes back — which is
    what CPython's `_codecs.encode` computes and what og-rek's own decoder does. -/
theorem C01_bytes_latin1 (d : Bytes) : decodeLatin1Bytes (.str (latin1ToUtf8 d)) = some d :=
  decodeLatin1Bytes_latin1 d

/-- **C01 / K3 witness.** A Go string that is not UTF-8 goes unchanged into BINUNICODE at protocol 3
    (CPython then raises UnicodeDecodeError): the byte 0x93 is written as the payload of an
    `X` opcode of length 1. -/
theorem C01_K3_witness (ip : IsPrint) :
    (encodeTop ip ⟨3, false⟩ none (.str [0x93])).chunks.flatten = [0x80, 3, 88, 1, 0, 0, 0, 0x93, 46] ∧
    validUtf8 [0x93] = false := by
  constructor
  · simp [encodeTop, enc, encodeString, encodeUnicode, emit, Out.seq, Out.nil, le4, natLE]
  · decide

end Ogorek
