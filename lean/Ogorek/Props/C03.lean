import Ogorek.Lemmas.RoundTrip
import Ogorek.Props.C04
import Ogorek.Lemmas.QuoteInv
import Ogorek.Generated.IsPrint

/-!
  C03 — Encode then Decode is the identity on canonical values, a normal form otherwise.
-/
namespace Ogorek

/-- **C03 (int64).** Whatever form `encodeInt` picks — BININT1, BININT2, BININT or INT text —
    the decoder reads the same int64 back and stops exactly at the end of it. -/
theorem C03_int (c : ECfg) (i : Int) (hi : inInt64 i = true) (t : Bytes) :
    (encodeInt c i).err = none ∧
    parseInsn ((encodeInt c i).chunks.flatten ++ t) = .ok (.pushInt i, t) := encodeInt_parse c i hi t

/-- The STOP step of the loop. -/
theorem decodeLoop_stop (mc : MCfg) (hook : Hook) (f insn : Nat) (st : DState) (r : GoVal) (s : List GoVal) (t : Bytes)
    (hs : st.stack = r :: s) (hm : isMark r = false) :
    decodeLoop mc hook (f + 1) insn st (46 :: t) = (.ok r, { st with stack := s }, t) := by
  rw [decodeLoop]
  simp [readByte, parseArg_46, Rd.pure, popUser, pop, hs, userOK_nm hm, bind, Except.bind, pure, Except.pure]

/-- **C03 (round trip, protocols 0–5).** For every canonical value `v` — None, bool, int64, *big.Int,
    float64, string, ByteString, Bytes, []byte, Class, and lists, Tuples, Calls, Refs, builtin maps and
    Dicts of these nested to any depth (`canon`: payloads below 2^32 / 2^31 bytes; a Call is not one of
    the bytes / bytearray forms the decoder interprets; the keys of each map / Dict literal are
    acceptable to the decoder's table and pairwise different for it, `keysOK`) — every protocol 0..5,
    both StrictUnicode settings (the same on both sides) and both PyDict settings: if `Encode` returns
    no error (i.e. none of the three documented limitations applies), then `Decode` of exactly the bytes
    it wrote succeeds, consumes all of them, and returns a value that represents `v` (`Rep`: identical
    in type and content; ByteString comes back as string when StrictUnicode is off; a map comes back as
    Dict with PyDict on and the other way round; big ints are fresh objects).  The decoder may start
    from any state (memo and heap left by earlier pickles of the stream).
    Hypotheses besides `canon`: the printability table does not call LF printable (a regenerated fact
    about strconv.IsPrint); and, at protocol 0 only, `FloatTextOK f` for each float64 in `v`: its `%g`
    text has no newline and ParseFloat reads it back as the same float (strconv's shortest-round-trip
    property, not proved here — it fails by design only for NaNs with a payload, which `FNaN` cannot
    carry). Everything else at protocol 0 — both text codecs in particular — is proved.
    Not covered (tied by correspondence): `*big.Int` keys of builtin maps (pointer identity); Tuple /
    Call keys are covered for Dicts only (a builtin map cannot hold them). -/
theorem C03_roundtrip (ip : IsPrint) (hip : ip 10 = false) (c : ECfg) (cfg : Cfg) (v : GoVal)
    (hp0 : 0 ≤ c.proto) (hp5 : c.proto ≤ 5) (hsu : cfg.su = c.su)
    (hc : canon cfg true v = true) (hf : FloatsOK c (floatsOf v)) (he : (encodeTop ip c none v).err = none) (st0 : DState) :
    ∃ r st', decode (goCfg cfg) none st0 (flat (encodeTop ip c none v)) = (.ok r, st', []) ∧
      Rep (goCfg cfg) GoVal.ref st'.heap r v := by
  have hrange : (0 ≤ c.proto ∧ c.proto ≤ 5) := ⟨hp0, hp5⟩
  have hdr_err : (if c.proto ≥ 2 then emit [0x80, UInt8.ofNat c.proto.toNat] else Out.nil).err = none := by
    split <;> rfl
  have etop : encodeTop ip c none v =
      (if c.proto ≥ 2 then emit [0x80, UInt8.ofNat c.proto.toNat] else Out.nil) +> enc ip c v +> emit [46] := by
    simp [encodeTop, hrange]
  rw [etop] at he ⊢
  obtain ⟨h12, _⟩ := seq_err_none he
  obtain ⟨_, hev⟩ := seq_err_none h12
  obtain ⟨is, hpar, hrun⟩ := rt_val (mc := goCfg cfg) (hook := none) (ρ := GoVal.ref) (rk := true) ip ⟨fun _ => rfl, fun _ => rfl⟩ (fun _ _ => rfl) hip hsu rfl v hc hf hev
  rw [flat_seq _ _ h12, flat_seq _ _ hdr_err, flat_emit]
  unfold decode
  by_cases h2 : c.proto ≥ 2
  · -- PROTO header first
    simp only [h2, if_true, flat_emit]
    have hpb : (UInt8.ofNat c.proto.toNat).toNat = c.proto.toNat := by simp [UInt8.toNat_ofNat']; omega
    let st1 : DState := { st0 with stack := [], proto := c.proto.toNat }
    have hpo : ProtoOK c st1 := by
      simp only [ProtoOK, pybuiltinModule, pybuiltinModuleE, st1]
      have : (c.proto.toNat ≤ 2) ↔ (c.proto ≤ 2) := by omega
      simp [this]
    obtain ⟨st2, e2, _, r, hs2, hrep⟩ := hrun 1 st1 hpo
    let F := ([0x80, UInt8.ofNat c.proto.toNat] ++ flat (enc ip c v) ++ [46]).length
    have hfuel := decodeLoop_fuel (goCfg cfg) none
      (([0x80, UInt8.ofNat c.proto.toNat] ++ flat (enc ip c v) ++ [46]).length + 1)
      ((F + 1 + is.length) + 1) 0 { st0 with stack := [], proto := 0 }
      ([0x80, UInt8.ofNat c.proto.toNat] ++ flat (enc ip c v) ++ [46]) (by omega)
      (by simp [F]; omega)
    rw [hfuel]
    have hstep := decodeLoop_step (goCfg cfg) none (F + 1 + is.length) 0 { st0 with stack := [], proto := 0 } st1 0x80
      (UInt8.ofNat c.proto.toNat :: (flat (enc ip c v) ++ [46])) (flat (enc ip c v) ++ [46]) (.proto c.proto.toNat)
      (by simp [parseArg_128, Rd.map, Rd.bind, readByte, Rd.pure, hpb]) rfl
      (by
        have : c.proto.toNat ≤ 5 := by omega
        simp [exec, this, st1])
    have e0 : ([0x80, UInt8.ofNat c.proto.toNat] ++ flat (enc ip c v) ++ [46]) =
        0x80 :: (UInt8.ofNat c.proto.toNat :: (flat (enc ip c v) ++ [46])) := by simp
    rw [e0, hstep, decodeLoop_run (goCfg cfg) none is (flat (enc ip c v)) (0 + 1) st1 st2 [46] (F + 1) hpar e2]
    rw [decodeLoop_stop (goCfg cfg) none F _ st2 r st1.stack [] hs2 hrep.not_mark]
    exact ⟨r, _, rfl, hrep⟩
  · -- protocols 0 and 1: no header
    simp only [h2, if_false, flat, Out.nil, List.flatten_nil, List.nil_append]
    have hpo : ProtoOK c { st0 with stack := [], proto := 0 } := by
      simp only [ProtoOK, pybuiltinModule, pybuiltinModuleE]
      have : c.proto ≤ 2 := by omega
      simp [this]
    obtain ⟨st2, e2, _, r, hs2, hrep⟩ := hrun 0 _ hpo
    let F := ((enc ip c v).chunks.flatten ++ [46]).length
    have hfuel := decodeLoop_fuel (goCfg cfg) none
      (((enc ip c v).chunks.flatten ++ [46]).length + 1) ((F + 1) + is.length) 0 { st0 with stack := [], proto := 0 }
      ((enc ip c v).chunks.flatten ++ [46]) (by omega)
      (by simp [F]; omega)
    rw [hfuel]
    have hrun' := decodeLoop_run (goCfg cfg) none is (flat (enc ip c v)) 0 _ st2 [46] (F + 1) hpar e2
    simp only [flat] at hrun'
    rw [hrun', decodeLoop_stop (goCfg cfg) none F _ st2 r [] [] hs2 hrep.not_mark]
    exact ⟨r, _, rfl, hrep⟩

end Ogorek

namespace Ogorek

/-- The same from protocol 1 on, where no text form is used: no hypothesis about floats at all. -/
theorem C03_roundtrip_bin (ip : IsPrint) (hip : ip 10 = false) (c : ECfg) (cfg : Cfg) (v : GoVal)
    (hp1 : 1 ≤ c.proto) (hp5 : c.proto ≤ 5) (hsu : cfg.su = c.su)
    (hc : canon cfg true v = true) (he : (encodeTop ip c none v).err = none) (st0 : DState) :
    ∃ r st', decode (goCfg cfg) none st0 (flat (encodeTop ip c none v)) = (.ok r, st', []) ∧
      Rep (goCfg cfg) GoVal.ref st'.heap r v :=
  C03_roundtrip ip hip c cfg v (by omega) hp5 hsu hc (fun _ _ => Or.inl hp1) he st0

/-- Non-vacuity: a nested value with a Dict keyed by an int, a tuple holding a big int and a NaN, and a
    string meets the theorem's hypotheses (PyDict on), and so does a builtin map (PyDict off). -/
example : canon { pyDict := true, su := true } true
    (.list [.dict [(.int 1, .str (sb "a")), (.tuple [.big 7 (2 ^ 70), .float 0x7ff8000000000001], .none), (.bytestr (sb "k"), .list [])],
            .call (sb "mod") (sb "fn") [.bytes [1, 2, 3], .ref (.str (sb "oid"))], .bytearray [0, 255]]) = true := by
  decide

example : canon { pyDict := false, su := false } true
    (.tuple [.map [(.int 1, .str (sb "a")), (.float 0, .none), (.str (sb "k"), .map [])], .big 3 (-5)]) = true := by
  decide

end Ogorek

namespace Ogorek

/-- **C03 (STRING text form, protocol 0).** For EVERY byte string `s` — any bytes, valid UTF-8 or not —
    and every printability table that does not call LF printable: the decoder reads `S"…"\n` as written
    by the encoder (`pyquote`) back as exactly `s`, and stops right after the line.  (The quoting and
    `pydecodeStringEscape` are inverse: `pyquote_inv`; the quoted text holds no newline: `pyquote_no_lf`.) -/
theorem C03_string_p0 (ip : IsPrint) (hip : ip 10 = false) (c : ECfg) (hp : ¬ c.proto ≥ 1) (s t : Bytes) :
    parseInsn (flat (encodeByteString ip c s) ++ t) = .ok (.pushByteString s, t) := by
  obtain ⟨b1, b2, e, _, hpi, hr⟩ := parses_bytestring_txt ip hip c s hp
  simp [Parses] at hr; subst hr
  simp only [List.append_nil] at e
  rw [e]; exact hpi t

/-- **C03 (UNICODE text form, protocol 0).** Every string the encoder accepts (valid UTF-8) is read back
    from `V…\n` exactly (`rue_inv`, `rue_no_lf`). -/
theorem C03_unicode_p0 (c : ECfg) (hp : ¬ c.proto ≥ 1) (s t : Bytes) (he : (encodeUnicode c s).err = none) :
    parseInsn (flat (encodeUnicode c s) ++ t) = .ok (.pushStr s, t) := by
  obtain ⟨b1, b2, e, _, hpi, hr⟩ := parses_unicode_txt c s hp he
  simp [Parses] at hr; subst hr
  simp only [List.append_nil] at e
  rw [e]; exact hpi t

set_option maxRecDepth 100000 in
/-- The hypothesis about the printability table holds of the table regenerated from the toolchain's
    `strconv.IsPrint` on every run: LF is not printable. -/
theorem C03_isprint_lf : Generated.isPrint 10 = false := by decide

end Ogorek
