import Ogorek.Props.C07R

/-!
  C07 (continued) — transitivity at the leaves.  Numbers: `equal` is transitive across all numeric
  representations (it is equality of exact values).  Strings: transitive whenever the MIDDLE value
  is not a ByteString — the one non-transitive case (finding K2) is exactly a ByteString between a
  `string` and a `Bytes`.
-/
set_option linter.unusedSimpArgs false

namespace Ogorek

theorem exactRealEq_trans {a b c : ExactReal} (h1 : exactRealEq a b = true) (h2 : exactRealEq b c = true) :
    exactRealEq a c = true := by
  have e1 := (exactRealEq_true h1).1
  subst e1; exact h2

/-- **C07 (transitivity, numbers).** -/
theorem numEq_trans (x y z : Num) (hx : NumWF x) (hy : NumWF y) (hz : NumWF z)
    (h1 : numEq x y = true) (h2 : numEq y z = true) : numEq x z = true := by
  rw [C07_exact_num x y hx hy] at h1
  rw [C07_exact_num y z hy hz] at h2
  rw [C07_exact_num x z hx hz]
  unfold exactEq at *
  simp only [Bool.and_eq_true] at h1 h2 ⊢
  exact ⟨exactRealEq_trans h1.1 h2.1, exactRealEq_trans h1.2 h2.2⟩

/-- **C07 (transitivity, strings).** Through a middle value that is not a ByteString (`kb ≠ 1`). -/
theorem strEq_trans (ka : Nat) (a : Bytes) (kb : Nat) (b : Bytes) (kc : Nat) (c : Bytes) (hb : kb ≠ 1)
    (h1 : strEq ka a kb b = true) (h2 : strEq kb b kc c = true) : strEq ka a kc c = true := by
  unfold strEq at *
  simp only [Bool.and_eq_true, Bool.or_eq_true, beq_iff_eq] at h1 h2 ⊢
  obtain ⟨k1, e1⟩ := h1
  obtain ⟨k2, e2⟩ := h2
  refine ⟨?_, e1.trans e2⟩
  rcases k1 with (k1 | k1) | k1
  · rcases k2 with (k2 | k2) | k2
    · left; left; exact k1.trans k2
    · exact absurd k2 hb
    · right; exact k2
  · left; right; exact k1
  · exact absurd k1 hb

mutual
/-- Go integer ranges hold everywhere inside (through lists too, unlike `keyWF`). -/
def rangeOK : GoVal → Bool
  | .int i => inInt64 i
  | .uint u => decide (u < 2 ^ 64)
  | .tuple xs => rangeOKList xs
  | .list xs => rangeOKList xs
  | .call _ _ args => rangeOKList args
  | .ref p => rangeOK p
  | _ => true
def rangeOKList : List GoVal → Bool
  | [] => true
  | x :: xs => rangeOK x && rangeOKList xs
end

mutual
/-- No ByteString anywhere inside. -/
def noBS : GoVal → Bool
  | .bytestr _ => false
  | .tuple xs => noBSList xs
  | .list xs => noBSList xs
  | .call _ _ args => noBSList args
  | .ref p => noBS p
  | _ => true
def noBSList : List GoVal → Bool
  | [] => true
  | x :: xs => noBS x && noBSList xs
end

theorem numWF_of_rangeOK {v : GoVal} {x : Num} (h : numOf? v = some x) (hw : rangeOK v = true) : NumWF x := by
  cases v <;> simp [numOf?] at h <;> subst h <;> simp_all [rangeOK, NumWF]

theorem goEqual_num {a : GoVal} {x : Num} (hx : numOf? a = some x) (b : GoVal) :
    goEqual a b = (match numOf? b with | some y => numEq x y | none => false) := by
  cases a <;> simp [numOf?] at hx <;> subst hx <;> cases b <;> simp [goEqual, strKind?, numOf?]

theorem goEqual_str {a : GoVal} {k : Nat} {s : Bytes} (hs : strKind? a = some (k, s)) (b : GoVal) :
    goEqual a b = (match strKind? b with | some (kb, y) => strEq k s kb y | none => false) := by
  cases a <;> simp [strKind?] at hs <;> obtain ⟨rfl, rfl⟩ := hs <;> cases b <;> simp [goEqual, strKind?]

theorem trans_num {a b c : GoVal} {x : Num} (hx : numOf? a = some x)
    (wa : rangeOK a = true) (wb : rangeOK b = true) (wc : rangeOK c = true)
    (h1 : goEqual a b = true) (h2 : goEqual b c = true) : goEqual a c = true := by
  rw [goEqual_num hx] at h1 ⊢
  cases hy : numOf? b with
  | none => simp [hy] at h1
  | some y =>
    simp only [hy] at h1
    rw [goEqual_num hy] at h2
    cases hz : numOf? c with
    | none => simp [hz] at h2
    | some z =>
      simp only [hz] at h2 ⊢
      exact numEq_trans x y z (numWF_of_rangeOK hx wa) (numWF_of_rangeOK hy wb) (numWF_of_rangeOK hz wc) h1 h2

theorem trans_str {a b c : GoVal} {k : Nat} {s : Bytes} (hs : strKind? a = some (k, s)) (nb : noBS b = true)
    (h1 : goEqual a b = true) (h2 : goEqual b c = true) : goEqual a c = true := by
  rw [goEqual_str hs] at h1 ⊢
  cases hy : strKind? b with
  | none => simp [hy] at h1
  | some y =>
    obtain ⟨kb, sb'⟩ := y
    simp only [hy] at h1
    rw [goEqual_str hy] at h2
    have hkb : kb ≠ 1 := by
      cases b <;> simp [strKind?] at hy <;> first | (have := hy.1; omega) | (simp [noBS] at nb)
    cases hz : strKind? c with
    | none => simp [hz] at h2
    | some z =>
      obtain ⟨kc, sc⟩ := z
      simp only [hz] at h2 ⊢
      exact strEq_trans k s kb sb' kc sc hkb h1 h2

mutual
/-- **C07 (transitivity).** `equal a b` and `equal b c` give `equal a c` whenever the middle value
    holds no ByteString — for all values, containers included. -/
theorem C07_trans : ∀ a b c : GoVal, rangeOK a = true → rangeOK b = true → rangeOK c = true → noBS b = true →
    goEqual a b = true → goEqual b c = true → goEqual a c = true
  | .tuple xs, b, c, wa, wb, wc, nb, h1, h2 => by
    cases b <;> simp [goEqual, strKind?, numOf?] at h1
    all_goals (cases c <;> simp [goEqual, strKind?, numOf?] at h2 ⊢)
    all_goals simp only [rangeOK, noBS] at wa wb wc nb
    all_goals exact goEqualList_trans xs _ _ wa wb wc nb h1 h2
  | .list xs, b, c, wa, wb, wc, nb, h1, h2 => by
    cases b <;> simp [goEqual, strKind?, numOf?] at h1
    all_goals (cases c <;> simp [goEqual, strKind?, numOf?] at h2 ⊢)
    all_goals simp only [rangeOK, noBS] at wa wb wc nb
    all_goals exact goEqualList_trans xs _ _ wa wb wc nb h1 h2
  | .call m n args, b, c, wa, wb, wc, nb, h1, h2 => by
    cases b <;> simp [goEqual, strKind?, numOf?] at h1
    all_goals (cases c <;> simp [goEqual, strKind?, numOf?] at h2 ⊢)
    simp only [rangeOK, noBS] at wa wb wc nb
    obtain ⟨⟨rfl, rfl⟩, h1⟩ := h1
    obtain ⟨⟨rfl, rfl⟩, h2⟩ := h2
    exact ⟨⟨rfl, rfl⟩, goEqualList_trans args _ _ wa wb wc nb h1 h2⟩
  | .ref p, b, c, wa, wb, wc, nb, h1, h2 => by
    cases b <;> simp [goEqual, strKind?, numOf?] at h1
    all_goals (cases c <;> simp [goEqual, strKind?, numOf?] at h2 ⊢)
    simp only [rangeOK, noBS] at wa wb wc nb
    exact C07_trans p _ _ wa wb wc nb h1 h2
  | .bool x, b, c, wa, wb, wc, _, h1, h2 => trans_num (x := .bool x) rfl wa wb wc h1 h2
  | .int x, b, c, wa, wb, wc, _, h1, h2 => trans_num (x := .int x) rfl wa wb wc h1 h2
  | .uint x, b, c, wa, wb, wc, _, h1, h2 => trans_num (x := .uint x) rfl wa wb wc h1 h2
  | .big _ x, b, c, wa, wb, wc, _, h1, h2 => trans_num (x := .big x) rfl wa wb wc h1 h2
  | .float x, b, c, wa, wb, wc, _, h1, h2 => trans_num (x := .float x) rfl wa wb wc h1 h2
  | .complex x y, b, c, wa, wb, wc, _, h1, h2 => trans_num (x := .complex x y) rfl wa wb wc h1 h2
  | .str x, b, c, _, _, _, nb, h1, h2 => trans_str (k := 0) (s := x) rfl nb h1 h2
  | .bytestr x, b, c, _, _, _, nb, h1, h2 => trans_str (k := 1) (s := x) rfl nb h1 h2
  | .bytes x, b, c, _, _, _, nb, h1, h2 => trans_str (k := 2) (s := x) rfl nb h1 h2
  | .mark, b, c, _, _, _, _, h1, h2 => by
    cases b <;> simp [goEqual, strKind?, numOf?] at h1; exact h2
  | .none, b, c, _, _, _, _, h1, h2 => by
    cases b <;> simp [goEqual, strKind?, numOf?] at h1; exact h2
  | .nil, b, c, _, _, _, _, h1, h2 => by
    cases b <;> simp [goEqual, strKind?, numOf?] at h1
  | .cycle, b, c, _, _, _, _, h1, h2 => by
    cases b <;> simp [goEqual, strKind?, numOf?] at h1
  | .map _, b, c, _, _, _, _, h1, h2 => by
    cases b <;> simp [goEqual, strKind?, numOf?] at h1
  | .dict _, b, c, _, _, _, _, h1, h2 => by
    cases b <;> simp [goEqual, strKind?, numOf?] at h1
  | .bytearray x, b, c, _, _, _, _, h1, h2 => by
    cases b <;> simp [goEqual, strKind?, numOf?] at h1; subst h1; exact h2
  | .href x, b, c, _, _, _, _, h1, h2 => by
    cases b <;> simp [goEqual, strKind?, numOf?] at h1; subst h1; exact h2
  | .user x, b, c, _, _, _, _, h1, h2 => by
    cases b <;> simp [goEqual, strKind?, numOf?] at h1; subst h1; exact h2
  | .cls m n, b, c, _, _, _, _, h1, h2 => by
    cases b <;> simp [goEqual, strKind?, numOf?] at h1
    obtain ⟨rfl, rfl⟩ := h1; exact h2
theorem goEqualList_trans : ∀ xs ys zs : List GoVal, rangeOKList xs = true → rangeOKList ys = true →
    rangeOKList zs = true → noBSList ys = true →
    goEqualList xs ys = true → goEqualList ys zs = true → goEqualList xs zs = true
  | [], ys, zs, _, _, _, _, h1, h2 => by
    cases ys with
    | nil => exact h2
    | cons _ _ => simp [goEqualList] at h1
  | x :: xs, ys, zs, wa, wb, wc, nb, h1, h2 => by
    cases ys with
    | nil => simp [goEqualList] at h1
    | cons y ys =>
      cases zs with
      | nil => simp [goEqualList] at h2
      | cons z zs =>
        simp only [goEqualList, rangeOKList, noBSList, Bool.and_eq_true] at *
        exact ⟨C07_trans x y z wa.1 wb.1 wc.1 nb.1 h1.1 h2.1,
          goEqualList_trans xs ys zs wa.2 wb.2 wc.2 nb.2 h1.2 h2.2⟩
end

/-- **C08 (unique candidate).** Under the invariant, a query holding no ByteString has at most one
    stored key equal to it — the transitivity hypothesis of `C08_match_unique` discharged. -/
theorem C08_match_unique_noBS (es : Entries) (q : GoVal) (hinv : NoEqualKeys es) (hq : noBS q = true)
    (wq : rangeOK q = true) (wes : ∀ e ∈ es, rangeOK e.1 = true) : (matching es q).length ≤ 1 :=
  C08_match_unique es q hinv (fun e1 h1 e2 h2 g1 g2 =>
    C07_trans e1.1 q e2.1 (wes e1 h1) wq (wes e2 h2) hq (by rw [C07_symm]; exact g1) g2)

/-- **C08 (Get, most recent).** Right after `Set k v`, EVERY query equal to `k` that holds no
    ByteString returns `v`, whatever else is stored and whatever the table picks: the side condition
    of `C08_get_after_set` follows from transitivity through the query. (A ByteString query is K2.) -/
theorem C08_get_after_set_noBS (pick pick' : Entries → Nat) (es : Entries) (k v q : GoVal)
    (hq : goEqual q k = true) (nq : noBS q = true) (wq : rangeOK q = true) (wk : rangeOK k = true)
    (wes : ∀ e ∈ es, rangeOK e.1 = true) : tableGet pick' (dictSet pick es k v) q = some v := by
  rw [C08_set]
  refine C08_get_after_set pick' es k v q hq ?_
  intro e he hke
  cases hqe : goEqual q e.1 with
  | false => rfl
  | true =>
    have : goEqual k e.1 = true :=
      C07_trans k q e.1 wk wq (wes e he) nq (by rw [C07_symm]; exact hq) hqe
    rw [this] at hke; exact absurd hke (by simp)

/-- The K2 shape: through a ByteString in the middle, transitivity fails. -/
theorem strEq_not_trans : strEq 0 [97] 1 [97] = true ∧ strEq 1 [97] 2 [97] = true ∧ strEq 0 [97] 2 [97] = false := by
  decide

end Ogorek
