import Ogorek.Props.C04

/-!
  C10 — Truncated input is always io.ErrUnexpectedEOF, exhausted input is io.EOF.
-/
namespace Ogorek

/-- **C10 (clean end).** No byte left before the first opcode: `io.EOF`. -/
theorem C10_empty_is_eof (mc : MCfg) (hook : Hook) (st : DState) :
    (decode mc hook st []).1 = .error .eof := by
  simp [decode, decodeLoop, readByte]

/-- The loop on a proper prefix of an input on which it succeeds consuming everything. -/
theorem decodeLoop_trunc (mc : MCfg) (hook : Hook) :
    ∀ (fuel insn : Nat) (st : DState) (inp : Bytes) (v : GoVal) (st' : DState),
      decodeLoop mc hook fuel insn st inp = (.ok v, st', []) →
      ∀ (k fuel' : Nat), k < inp.length → (insn ≠ 0 ∨ 0 < k) → k < fuel' →
        (decodeLoop mc hook fuel' insn st (inp.take k)).1 = .error .unexpectedEOF := by
  intro fuel
  induction fuel with
  | zero => intro insn st inp v st' h; simp [decodeLoop] at h
  | succ fuel ih =>
    intro insn st inp v st' h k fuel' hk hpos hfuel
    cases fuel' with
    | zero => omega
    | succ fuel' =>
    cases inp with
    | nil => simp at hk
    | cons key r =>
      cases k with
      | zero =>
        -- cut at an opcode boundary after at least one instruction
        have : insn ≠ 0 := by
          rcases hpos with h | h
          · exact h
          · omega
        simp [decodeLoop, readByte, this]
      | succ k =>
        simp only [List.take_succ_cons]
        unfold decodeLoop at h ⊢
        simp only [readByte] at h ⊢
        cases hp : parseArg key r with
        | error e => rw [hp] at h; simp at h
        | ok p =>
          obtain ⟨i, rest⟩ := p
          rw [hp] at h
          obtain ⟨u, hu, loc, tr⟩ := good_parseArg key r i rest hp
          simp at hk
          by_cases hku : k < u.length
          · -- the cut falls inside this instruction's argument
            have hsplit : u = u.take k ++ u.drop k := (List.take_append_drop k u).symm
            have hne : u.drop k ≠ [] := by
              intro hd
              have := congrArg List.length hd
              simp at this; omega
            obtain ⟨e, he, hl⟩ := tr (u.take k) (u.drop k) hsplit hne
            have htake : List.take k r = u.take k := by
              rw [hu, List.take_append_of_le_length (by omega)]
            rw [htake, he]
            rcases hl with rfl | rfl <;> simp
          · -- the whole instruction is inside the prefix: same instruction, same effect
            have htake : List.take k r = u ++ List.take (k - u.length) rest := by
              rw [hu, List.take_append]
              simp [List.take_of_length_le (Nat.le_of_not_lt hku)]
            rw [htake, loc]
            have hrest : k - u.length < rest.length := by
              have := congrArg List.length hu
              simp at this; omega
            cases i
            case stop =>
              -- STOP consumed everything: rest = [] contradicts a cut after it
              simp only at h
              split at h
              · simp at h
                obtain ⟨_, _, h3⟩ := h
                rw [h3] at hrest
                simp at hrest
              · simp at h
            all_goals
              simp only at h ⊢
              split
              · rename_i st'' hex
                rw [hex] at h
                simp only at h
                exact ih _ _ _ _ _ h _ _ hrest (Or.inl (by omega)) (by simp at hfuel; omega)
              · rename_i e hex
                rw [hex] at h
                simp at h

/-- **C10 (truncation).** If the input is exactly one pickle that decodes successfully, every
    proper non-empty prefix of it yields `io.ErrUnexpectedEOF` (and, in the model as in the
    code, no value). -/
theorem C10_trunc (mc : MCfg) (hook : Hook) (st : DState) (inp : Bytes) (v : GoVal) (st' : DState)
    (h : decode mc hook st inp = (.ok v, st', [])) (k : Nat) (h0 : 0 < k) (hk : k < inp.length) :
    (decode mc hook st (inp.take k)).1 = .error .unexpectedEOF := by
  unfold decode at h ⊢
  refine decodeLoop_trunc mc hook _ _ _ _ _ _ h k _ hk (Or.inr h0) ?_
  simp [List.length_take]
  omega

end Ogorek
