import Ogorek.Props.C07
import Ogorek.Props.C08F

/-!
  C07 (continued) — reflexivity.  `equal a a` holds for every value that holds no NaN and none of
  the kinds `equal` never accepts (maps, Dicts, untyped nil): exactly Python's `x == x` for
  hashable NaN-free keys.  With it, "Set k v; Get k" returns `v` outright (C08_get_set_same).
-/
namespace Ogorek

mutual
/-- No NaN anywhere inside, and no kind on which `equal` is constantly false. -/
def reflOK : GoVal → Bool
  | .float f => !f.isNaN
  | .complex re im => !re.isNaN && !im.isNaN
  | .tuple xs => reflOKList xs
  | .list xs => reflOKList xs
  | .call _ _ args => reflOKList args
  | .ref p => reflOK p
  | .map _ => false
  | .dict _ => false
  | .nil => false
  | .cycle => false
  | _ => true
def reflOKList : List GoVal → Bool
  | [] => true
  | x :: xs => reflOK x && reflOKList xs
end

theorem F64.eq_self (f : F64) (h : f.isNaN = false) : F64.eq f f = true :=
  (F64.eq_iff f f).mpr ⟨h, h, Or.inl rfl⟩

theorem F64.eq_self_iff (f : F64) : F64.eq f f = true ↔ f.isNaN = false :=
  ⟨fun h => ((F64.eq_iff f f).mp h).1, F64.eq_self f⟩

mutual
/-- **C07 (reflexivity).** -/
theorem C07_refl : ∀ a : GoVal, reflOK a = true → goEqual a a = true
  | .tuple xs, h => by simp only [goEqual]; exact goEqualList_refl xs (by simpa [reflOK] using h)
  | .list xs, h => by simp only [goEqual]; exact goEqualList_refl xs (by simpa [reflOK] using h)
  | .call m n args, h => by
    simp only [goEqual, beq_self_eq_true, Bool.true_and]
    exact goEqualList_refl args (by simpa [reflOK] using h)
  | .ref p, h => by simp only [goEqual]; exact C07_refl p (by simpa [reflOK] using h)
  | .mark, _ => by simp [goEqual, strKind?, numOf?]
  | .none, _ => by simp [goEqual, strKind?, numOf?]
  | .nil, h => by simp [reflOK] at h
  | .cycle, h => by simp [reflOK] at h
  | .map _, h => by simp [reflOK] at h
  | .dict _, h => by simp [reflOK] at h
  | .bool x, _ => by simp [goEqual, strKind?, numOf?, numEq, eqIntInt]
  | .int x, _ => by simp [goEqual, strKind?, numOf?, numEq, eqIntInt]
  | .uint x, _ => by simp [goEqual, strKind?, numOf?, numEq, eqUintUint]
  | .big _ x, _ => by simp [goEqual, strKind?, numOf?, numEq, eqBigBig]
  | .float x, h => by
    simp only [reflOK, Bool.not_eq_true'] at h
    simp [goEqual, strKind?, numOf?, numEq, eqFloatFloat, F64.eq_self x h]
  | .complex x y, h => by
    simp only [reflOK, Bool.and_eq_true, Bool.not_eq_true'] at h
    simp [goEqual, strKind?, numOf?, numEq, eqComplexComplex, F64.eq_self x h.1, F64.eq_self y h.2]
  | .str x, _ => by simp [goEqual, strKind?, strEq]
  | .bytestr x, _ => by simp [goEqual, strKind?, strEq]
  | .bytes x, _ => by simp [goEqual, strKind?, strEq]
  | .bytearray x, _ => by simp [goEqual, strKind?, numOf?]
  | .href x, _ => by simp [goEqual, strKind?, numOf?]
  | .cls m n, _ => by simp [goEqual, strKind?, numOf?]
  | .user x, _ => by simp [goEqual, strKind?, numOf?]
theorem goEqualList_refl : ∀ xs : List GoVal, reflOKList xs = true → goEqualList xs xs = true
  | [], _ => rfl
  | x :: xs, h => by
    simp only [reflOKList, Bool.and_eq_true] at h
    simp only [goEqualList, Bool.and_eq_true]
    exact ⟨C07_refl x h.1, goEqualList_refl xs h.2⟩
end

/-- A NaN is the counterexample the hypothesis excludes: `equal(nan, nan)` is false, as in Python. -/
theorem C07_refl_nan (f : F64) (h : f.isNaN = true) : goEqual (.float f) (.float f) = false := by
  have : F64.eq f f = false := by
    cases hh : F64.eq f f with
    | false => rfl
    | true => rw [(F64.eq_self_iff f).mp hh] at h; exact absurd h (by simp)
  simp [goEqual, strKind?, numOf?, numEq, eqFloatFloat, this]

/-- **C08 (Set then Get, same key).** For a NaN-free key, `Get k` right after `Set k v` returns `v`
    whatever the table picks and whatever else is stored. -/
theorem C08_get_set_same (pick pick' : Entries → Nat) (es : Entries) (k v : GoVal) (hk : reflOK k = true) :
    tableGet pick' (dictSet pick es k v) k = some v := by
  rw [C08_set]
  exact C08_get_after_set pick' es k v k (C07_refl k hk) (fun _ _ h => h)

mutual
/-- No NaN anywhere inside the value. -/
def noNaN : GoVal → Bool
  | .float f => !f.isNaN
  | .complex re im => !re.isNaN && !im.isNaN
  | .tuple xs => noNaNList xs
  | .list xs => noNaNList xs
  | .call _ _ args => noNaNList args
  | .ref p => noNaN p
  | _ => true
def noNaNList : List GoVal → Bool
  | [] => true
  | x :: xs => noNaN x && noNaNList xs
end

mutual
/-- Every hashable value without a NaN inside is in the domain of `C07_refl`: the kinds `equal`
    never accepts are exactly kinds `hash` panics on. -/
theorem reflOK_of_hashable : ∀ a : GoVal, (hashTree a).isSome = true → noNaN a = true → reflOK a = true
  | .tuple xs, h, hn => by
    simp only [hashTree, Option.isSome_map] at h
    simp only [noNaN] at hn
    simp only [reflOK]; exact reflOKList_of_hashable xs h hn
  | .call m n args, h, hn => by
    simp only [hashTree, Option.isSome_map] at h
    simp only [noNaN] at hn
    simp only [reflOK]; exact reflOKList_of_hashable args h hn
  | .ref p, h, hn => by
    simp only [hashTree, Option.isSome_map] at h
    simp only [noNaN] at hn
    simp only [reflOK]; exact reflOK_of_hashable p h hn
  | .list _, h, _ => by simp [hashTree] at h
  | .map _, h, _ => by simp [hashTree] at h
  | .dict _, h, _ => by simp [hashTree] at h
  | .nil, h, _ => by simp [hashTree] at h
  | .cycle, h, _ => by simp [hashTree] at h
  | .bytearray _, h, _ => by simp [hashTree] at h
  | .href _, h, _ => by simp [hashTree] at h
  | .float f, _, hn => by simpa [reflOK, noNaN] using hn
  | .complex re im, _, hn => by simpa [reflOK, noNaN] using hn
  | .mark, _, _ => by simp [reflOK]
  | .none, _, _ => by simp [reflOK]
  | .bool _, _, _ => by simp [reflOK]
  | .int _, _, _ => by simp [reflOK]
  | .uint _, _, _ => by simp [reflOK]
  | .big _ _, _, _ => by simp [reflOK]
  | .str _, _, _ => by simp [reflOK]
  | .bytestr _, _, _ => by simp [reflOK]
  | .bytes _, _, _ => by simp [reflOK]
  | .cls _ _, _, _ => by simp [reflOK]
  | .user _, _, _ => by simp [reflOK]
theorem reflOKList_of_hashable : ∀ xs : List GoVal, (hashTreeList xs).isSome = true → noNaNList xs = true →
    reflOKList xs = true
  | [], _, _ => rfl
  | x :: xs, h, hn => by
    simp only [noNaNList, Bool.and_eq_true] at hn
    have hx : (hashTree x).isSome = true ∧ (hashTreeList xs).isSome = true := by
      simp only [hashTreeList] at h
      cases h1 : hashTree x <;> cases h2 : hashTreeList xs <;> simp [h1, h2] at h ⊢
    simp only [reflOKList, Bool.and_eq_true]
    exact ⟨reflOK_of_hashable x hx.1 hn.1, reflOKList_of_hashable xs hx.2 hn.2⟩
end

/-- **C07 (reflexivity on keys).** Every key a Dict accepts (hashable) that holds no NaN equals itself. -/
theorem C07_refl_hashable (a : GoVal) (h : hashable a = true) (hn : noNaN a = true) : goEqual a a = true :=
  C07_refl a (reflOK_of_hashable a h hn)

/-- **C08 (Set then Get, any accepted key).** For every key the Dict accepts that holds no NaN,
    `Get k` right after `Set k v` returns `v`. -/
theorem C08_get_set_hashable (pick pick' : Entries → Nat) (es : Entries) (k v : GoVal)
    (h : hashable k = true) (hn : noNaN k = true) : tableGet pick' (dictSet pick es k v) k = some v :=
  C08_get_set_same pick pick' es k v (reflOK_of_hashable k h hn)

example : reflOK (.tuple [.int 1, .str [97], .float 0, .tuple [.none, .bool true]]) = true := by
  simp [reflOK, reflOKList, F64.isNaN]; decide

end Ogorek
