import Ogorek.Dict
import Ogorek.Decoder
import Ogorek.Encoder
import Ogorek.Generated.Facts

/-!
  C20 — Separate Encoders/Decoders and shared read-only values are concurrency-safe.

  What a theorem can carry: the *logical* non-interference. The package has no mutable
  package-level state (a fact regenerated from the source), so a Decoder / Encoder instance is a
  machine whose steps read and write only its own state; for such machines every interleaving
  of steps leaves each machine in the state it reaches alone (`C20_independent`). Reading a
  shared value is a pure function of it (`C20_readonly_*`). Data-race freedom in the sense of
  the Go memory model, and gomap's internals, are runtime behaviour: the check measures them
  with the race detector.
-/
namespace Ogorek

/-- **C20 (facts).** Every package-level variable is an error value created once with `errors.New`,
    none is assigned, incremented or has its address taken inside a function, and the only
    deferred calls are the `recover()` helpers of the two TryAssign functions; no goroutine is
    started by the package. -/
theorem C20_facts :
    (Generated.globalVars.all fun v => v.2 == "errors.New(…)") = true ∧
    Generated.globalWrites = [] ∧
    Generated.goAndDefer = ["ogorek.go:dictTryAssign defer", "ogorek.go:mapTryAssign defer"] := by
  decide

section Interleaving
variable {ι σ : Type} [DecidableEq ι]

/-- One step of machine `i`: only component `i` of the joint state changes. -/
def stepAt (step : ι → σ → σ) (s : ι → σ) (i : ι) : ι → σ :=
  fun j => if j = i then step i (s i) else s j

/-- Run a schedule (the sequence of machines that take a step). -/
def runSched (step : ι → σ → σ) (s : ι → σ) : List ι → (ι → σ)
  | [] => s
  | i :: rest => runSched step (stepAt step s i) rest

def iter (f : σ → σ) : Nat → σ → σ
  | 0, x => x
  | n + 1, x => iter f n (f x)

/-- **C20 (independence).** For machines that touch only their own state, whatever the
    interleaving, machine `i` ends in the state it reaches by taking its own steps alone: the
    schedule matters only through the number of steps `i` was given. -/
theorem C20_independent (step : ι → σ → σ) (sched : List ι) (s : ι → σ) (i : ι) :
    runSched step s sched i = iter (step i) (sched.count i) (s i) := by
  induction sched generalizing s with
  | nil => simp [runSched, iter]
  | cons j rest ih =>
    simp only [runSched]
    rw [ih]
    by_cases h : j = i
    · subst h
      simp [stepAt, List.count_cons, iter]
    · have hne : ¬ i = j := fun e => h e.symm
      have hb : (j == i) = false := by simp [h]
      simp [stepAt, hne, List.count_cons, hb]

/-- Two schedules that give machine `i` the same number of steps agree on it — in particular the
    concurrent schedule and "one machine after another". -/
theorem C20_any_two_schedules (step : ι → σ → σ) (s1 s2 : List ι) (s : ι → σ) (i : ι)
    (h : s1.count i = s2.count i) : runSched step s s1 i = runSched step s s2 i := by
  rw [C20_independent, C20_independent, h]
end Interleaving

/-- **C20 (read-only Dict).** `Get` and `Del`-free reads return the table unchanged: concurrent
    readers of one Dict all see the value the sequential run sees. -/
theorem C20_readonly_get (pick : Entries → Nat) (es es' : Entries) (k : GoVal) (r : Option GoVal)
    (h : apiGet pick es k = .done es' r) : es' = es ∧ r = tableGet pick es k := by
  unfold apiGet at h
  split at h
  · simp at h; exact ⟨h.1.symm, h.2.symm⟩
  · simp at h

end Ogorek
