import Ogorek.Props.C08

/-!
  C08 (continued) — frame and size laws of the Dict table, for every `pick`.

  `C08.lean` says what `Set` / `Del` do to the key they name; this file says what they leave
  alone (a query unrelated to the key sees the same candidates before and after), that `Get`
  after `Del` of the same key finds nothing, and how `Len` moves.
-/
namespace Ogorek

/-- **C08 (Get after Del).** Right after `Del k`, `Get k` finds nothing — whatever the table picks. -/
theorem C08_get_after_del (pick : Entries → Nat) (es : Entries) (k : GoVal) :
    tableGet pick (dictDel pick es k) k = none := by
  unfold tableGet
  simp [C08_del_none]

/-- **C08 (frame, Del).** A query none of whose candidates equals `k` sees the same candidates,
    in the same order, before and after `Del k`. -/
theorem C08_frame_del (pick : Entries → Nat) (es : Entries) (k q : GoVal)
    (hsep : ∀ e ∈ es, goEqual q e.1 = true → goEqual k e.1 = false) :
    matching (dictDel pick es k) q = matching es q := by
  rw [C08_del]
  unfold matching
  rw [List.filter_filter]
  apply List.filter_congr
  intro e he
  cases hq : goEqual q e.1 with
  | false => simp
  | true => simp [hsep e he hq]

/-- **C08 (frame, Set).** A query that is not equal to `k`, and none of whose candidates equals `k`,
    sees the same candidates before and after `Set k v`. -/
theorem C08_frame_set (pick : Entries → Nat) (es : Entries) (k v q : GoVal)
    (hqk : goEqual q k = false)
    (hsep : ∀ e ∈ es, goEqual q e.1 = true → goEqual k e.1 = false) :
    matching (dictSet pick es k v) q = matching es q := by
  unfold dictSet
  have h := C08_frame_del pick es k q hsep
  unfold matching at h ⊢
  rw [List.filter_append, h]
  simp [hqk]

/-- **C08 (frame, Get).** With a single candidate (the invariant `C08_inv` plus transitivity around
    the query — `C08_match_unique`), `Get q` returns the same value before and after a `Set` or `Del`
    of an unrelated key, whatever the table picks on either side. -/
theorem C08_get_frame (pick pick' : Entries → Nat) (es es' : Entries) (q : GoVal)
    (hm : matching es' q = matching es q) (h1 : (matching es q).length ≤ 1) :
    tableGet pick' es' q = tableGet pick es q := by
  unfold tableGet
  simp only [hm]
  by_cases h0 : (matching es q).length = 0
  · simp [h0]
  · have : (matching es q).length = 1 := by omega
    simp [this, Nat.mod_one]

/-- **C08 (Len, Del).** `Del k` shrinks `Len` by exactly the number of entries equal to `k`. -/
theorem C08_len_del (pick : Entries → Nat) (es : Entries) (k : GoVal) :
    (dictDel pick es k).length + (matching es k).length = es.length := by
  rw [C08_del]
  unfold matching
  induction es with
  | nil => simp
  | cons x xs ih =>
    simp only [List.filter_cons]
    cases goEqual k x.1 <;> simp <;> omega

/-- **C08 (Len, Set).** `Set k v` leaves one entry for `k`: `Len` grows by one minus the number of
    entries equal to `k` that were there. -/
theorem C08_len_set (pick : Entries → Nat) (es : Entries) (k v : GoVal) :
    (dictSet pick es k v).length + (matching es k).length = es.length + 1 := by
  unfold dictSet
  have := C08_len_del pick es k
  simp only [List.length_append, List.length_cons, List.length_nil]
  omega

/-- Under the invariant, with `k` equal to itself (every hashable key but NaN-holding ones) and
    equality transitive around `k`, `Set` of a present key keeps `Len` and of an absent key adds one. -/
theorem C08_len_set_inv (pick : Entries → Nat) (es : Entries) (k v : GoVal) (hinv : NoEqualKeys es)
    (htrans : ∀ e1 ∈ es, ∀ e2 ∈ es, goEqual k e1.1 = true → goEqual k e2.1 = true → goEqual e1.1 e2.1 = true) :
    (dictSet pick es k v).length = es.length ∨ (dictSet pick es k v).length = es.length + 1 := by
  have h1 := C08_match_unique es k hinv htrans
  have h2 := C08_len_set pick es k v
  omega

/-- Number of `Set` operations in a history. -/
def setCount : List DictOp → Nat
  | [] => 0
  | .set _ _ :: ops => setCount ops + 1
  | _ :: ops => setCount ops

theorem C08_len_step (pick : Entries → Nat) (es : Entries) (op : DictOp) :
    (dictStep pick es op).length ≤ es.length + setCount [op] := by
  cases op with
  | get k => simp [dictStep, setCount]
  | del k => have := C08_len_del pick es k; simp only [dictStep, setCount]; omega
  | set k v => have := C08_len_set pick es k v; simp only [dictStep, setCount]; omega

/-- **C08 (Len, histories).** After any history on an empty Dict — for every way the table resolves
    its choices — `Len` is at most the number of `Set` operations performed: no operation ever
    creates an entry that was not set, and `Del` / `Get` create none. -/
theorem C08_len_bound (pick : Entries → Nat) (ops : List DictOp) :
    (ops.foldl (dictStep pick) []).length ≤ setCount ops := by
  suffices ∀ es : Entries, (ops.foldl (dictStep pick) es).length ≤ es.length + setCount ops by
    simpa using this []
  induction ops with
  | nil => intro es; simp [setCount]
  | cons op ops ih =>
    intro es
    have h1 := ih (dictStep pick es op)
    have h2 := C08_len_step pick es op
    have h3 : setCount (op :: ops) = setCount [op] + setCount ops := by
      cases op <;> simp [setCount] <;> omega
    simp only [List.foldl_cons]
    omega

/-- Every stored entry was put there by a `Set` of the history (keys and values are never invented). -/
theorem C08_entries_from_sets (pick : Entries → Nat) (ops : List DictOp) (e : GoVal × GoVal)
    (he : e ∈ ops.foldl (dictStep pick) []) : DictOp.set e.1 e.2 ∈ ops := by
  suffices ∀ es : Entries, e ∈ ops.foldl (dictStep pick) es → e ∈ es ∨ DictOp.set e.1 e.2 ∈ ops by
    rcases this [] he with h | h
    · simp at h
    · exact h
  clear he
  induction ops with
  | nil => intro es h; left; simpa using h
  | cons op ops ih =>
    intro es h
    simp only [List.foldl_cons] at h
    rcases ih _ h with h | h
    · cases op with
      | get k => left; simpa [dictStep] using h
      | del k =>
        simp only [dictStep, C08_del, List.mem_filter] at h
        left; exact h.1
      | set k v =>
        simp only [dictStep, C08_set, dictSetSpec, List.mem_append, List.mem_filter, List.mem_singleton] at h
        rcases h with h | h
        · left; exact h.1
        · right; subst h; simp
    · right; exact List.mem_cons_of_mem _ h

/-- **C08 (Get, histories).** Whatever `Get q` returns after any history was set by a `Set` of that
    history under a key equal to `q` — `Get` never returns a value for an unrelated key, and never
    invents one. -/
theorem C08_get_from_sets (pick pick' : Entries → Nat) (ops : List DictOp) (q v : GoVal)
    (h : tableGet pick' (ops.foldl (dictStep pick) []) q = some v) :
    ∃ k, goEqual q k = true ∧ DictOp.set k v ∈ ops := by
  rcases C08_get_any pick' (ops.foldl (dictStep pick) []) q with ⟨_, hn⟩ | ⟨e, he, hq, hg⟩
  · rw [hn] at h; exact absurd h (by simp)
  · rw [hg] at h
    have hv : e.2 = v := by simpa using h
    exact ⟨e.1, hq, hv ▸ C08_entries_from_sets pick ops e he⟩

/-- Non-vacuity: an int key set beside a string key — the string query's candidates are untouched. -/
example : matching (dictSetSpec [(.str [97], .int 1)] (.int 5) (.int 2)) (.str [97]) =
    matching [(.str [97], .int 1)] (.str [97]) := by
  simp [dictSetSpec, matching, goEqual, strKind?, numOf?, strEq]

end Ogorek
