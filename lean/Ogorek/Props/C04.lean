import Ogorek.Lemmas.NoPanic
import Ogorek.Generated.Facts

/-!
  C04 — Decode is total and resource-safe on arbitrary bytes.

  * `C04_no_panic`   : no input, configuration, hook or prior state makes `Decode` panic
                       (every Go panic source is an explicit outcome of the model);
  * `C04_consumes`   : every instruction consumes at least one byte;
  * `C04_progress`   : the main loop needs at most `length + 1` iterations — more fuel changes nothing;
  * `C04_alloc`      : memory requested before the payload is known to be present is ≤ 64 KiB
                       whatever the length field says, and a payload that is returned was present;
  * `C04_opcode`     : an opcode byte outside the supported set is `OpcodeError` with that byte;
  * `C04_proto`      : `PROTO v`, `v > 5`, is `ErrInvalidPickleVersion`;
  * `C04_facts`      : the constants the model uses are those in /repo's source today.
-/
namespace Ogorek

/-! ### parse layer: no panic -/

def RdNoPanic (r : Rd α) : Prop := ∀ inp w, r inp ≠ .error (.panic w)

theorem RdNoPanic.pure (a : α) : RdNoPanic (Rd.pure a) := by intro inp w; simp [Rd.pure]
theorem RdNoPanic.fail {e : DErr} (he : ∀ w, e ≠ .panic w) : RdNoPanic (Rd.fail e : Rd α) := by
  intro inp w; simp [Rd.fail]; exact he w

theorem RdNoPanic.bind {r : Rd α} {s : α → Rd β} (hr : RdNoPanic r) (hs : ∀ a, RdNoPanic (s a)) :
    RdNoPanic (r.bind s) := by
  intro inp w
  unfold Rd.bind
  split
  · exact hs _ _ w
  · rename_i e he
    intro h
    simp at h
    exact hr inp w (by rw [he, h])

theorem RdNoPanic.mapE {r : Rd α} {f : α → Except DErr β} (hr : RdNoPanic r)
    (hf : ∀ a w, f a ≠ .error (.panic w)) : RdNoPanic (r.mapE f) := by
  unfold Rd.mapE
  apply RdNoPanic.bind hr
  intro a
  split
  · exact RdNoPanic.pure _
  · rename_i e he
    exact RdNoPanic.fail fun w hw => hf a w (by rw [he, hw])

theorem RdNoPanic.map {r : Rd α} (f : α → β) (hr : RdNoPanic r) : RdNoPanic (r.map f) := by
  unfold Rd.map
  exact RdNoPanic.bind hr fun a => RdNoPanic.pure _

theorem RdNoPanic.ite {c : Prop} [Decidable c] {a b : Rd α} (ha : RdNoPanic a) (hb : RdNoPanic b) :
    RdNoPanic (if c then a else b) := by
  split <;> assumption

theorem np_readByte : RdNoPanic readByte := by
  intro inp w; cases inp <;> simp [readByte]
theorem np_readFull (n : Nat) : RdNoPanic (readFull n) := by
  intro inp w; unfold readFull; repeat' split
  all_goals simp
theorem np_copyN (n : Nat) : RdNoPanic (copyN n) := by
  intro inp w; unfold copyN; split <;> simp
theorem np_readLine : RdNoPanic readLine := by
  intro inp w; unfold readLine; split <;> simp
theorem np_readCounted (n : Nat) : RdNoPanic (readCounted n) := by
  unfold readCounted
  apply RdNoPanic.bind (np_readFull n)
  intro lb
  split
  · exact RdNoPanic.fail (by intro w; simp)
  · exact np_copyN _
theorem np_readCounted1 : RdNoPanic readCounted1 := by
  unfold readCounted1
  exact RdNoPanic.bind np_readByte fun b => np_copyN _

theorem parseFloatArg_np (l : Bytes) (w : String) : parseFloatArg l ≠ .error (.panic w) := by
  unfold parseFloatArg; split <;> simp
theorem parseIntArg_np (l : Bytes) (w : String) : parseIntArg l ≠ .error (.panic w) := by
  unfold parseIntArg; repeat' split
  all_goals simp
theorem parseLongArg_np (l : Bytes) (w : String) : parseLongArg l ≠ .error (.panic w) := by
  unfold parseLongArg; repeat' split
  all_goals simp
theorem parseUnicodeArg_np (l : Bytes) (w : String) : parseUnicodeArg l ≠ .error (.panic w) := by
  unfold parseUnicodeArg; split <;> simp
theorem parseStringArg_np (l : Bytes) (w : String) : parseStringArg l ≠ .error (.panic w) := by
  unfold parseStringArg
  repeat' split
  all_goals try simp
  rename_i h
  exact absurd h (pydecodeStringEscape_no_panic _)
theorem parseStringInsn_np (l : Bytes) (w : String) :
    (Insn.pushByteString <$> parseStringArg l) ≠ .error (.panic w) := by
  intro h
  cases hs : parseStringArg l with
  | error e => rw [hs] at h; simp [Functor.map, Except.map] at h; exact parseStringArg_np l w (by rw [hs, h])
  | ok s => rw [hs] at h; simp [Functor.map, Except.map] at h

theorem np_parseArg (key : UInt8) : RdNoPanic (parseArg key) := by
  unfold parseArg
  repeat' first
    | apply RdNoPanic.ite
    | exact RdNoPanic.pure _
    | exact RdNoPanic.mapE np_readLine parseFloatArg_np
    | exact RdNoPanic.mapE np_readLine parseIntArg_np
    | exact RdNoPanic.mapE np_readLine parseLongArg_np
    | exact RdNoPanic.mapE np_readLine parseUnicodeArg_np
    | exact RdNoPanic.mapE np_readLine parseStringInsn_np
    | exact RdNoPanic.map _ np_readLine
    | exact RdNoPanic.map _ np_readByte
    | exact RdNoPanic.map _ (np_readFull _)
    | exact RdNoPanic.map _ (np_readCounted _)
    | exact RdNoPanic.map _ np_readCounted1
    | exact RdNoPanic.bind np_readLine fun m => RdNoPanic.map _ np_readLine

/-! ### progress -/

/-- Every instruction consumes at least its opcode byte. -/
theorem C04_consumes {inp : Bytes} {i : Insn} {rest : Bytes} (h : parseInsn inp = .ok (i, rest)) :
    rest.length < inp.length := by
  cases inp with
  | nil => simp [parseInsn, Rd.bind, readByte] at h
  | cons key r =>
    simp [parseInsn, Rd.bind, readByte] at h
    have := (good_parseArg key).length_le h
    simp; omega

theorem popUser_np' (st : DState) (w : String) : popUser st ≠ .error (.panic w) := popUser_np st w

/-- With fuel exceeding the input length the loop never runs out of fuel and never panics. -/
theorem decodeLoop_no_panic (mc : MCfg) (hook : Hook) :
    ∀ (fuel insn : Nat) (st : DState) (inp : Bytes), inp.length < fuel →
      ∀ w, (decodeLoop mc hook fuel insn st inp).1 ≠ .error (.panic w) := by
  intro fuel
  induction fuel with
  | zero => intro insn st inp h; omega
  | succ fuel ih =>
    intro insn st inp hlen w
    unfold decodeLoop
    cases inp with
    | nil => simp [readByte]; split <;> simp
    | cons key r =>
      simp only [readByte]
      cases hp : parseArg key r with
      | error e =>
        simp only
        split
        · simp
        · intro h; simp at h; exact np_parseArg key r w (by rw [hp, h])
      | ok p =>
        obtain ⟨i, rest⟩ := p
        have hle := (good_parseArg key).length_le hp
        cases i
        case stop =>
          simp only
          cases hu : popUser st with
          | ok q => simp
          | error e => simp; intro h; exact popUser_np st w (by rw [hu, h])
        all_goals
          simp only
          split
          · rename_i st' _
            apply ih
            simp at hlen
            omega
          · rename_i e he
            simp
            intro h
            exact exec_no_panic mc hook _ _ st w (by rw [he, h])

/-- **C04 (no panic).** Whatever the bytes, configuration, hook and prior decoder state. -/
theorem C04_no_panic (mc : MCfg) (hook : Hook) (st : DState) (inp : Bytes) (w : String) :
    (decode mc hook st inp).1 ≠ .error (.panic w) := by
  unfold decode
  exact decodeLoop_no_panic mc hook _ _ _ _ (by omega) w

theorem decodeLoop_fuel (mc : MCfg) (hook : Hook) :
    ∀ (fuel1 fuel2 insn : Nat) (st : DState) (inp : Bytes), inp.length < fuel1 → inp.length < fuel2 →
      decodeLoop mc hook fuel1 insn st inp = decodeLoop mc hook fuel2 insn st inp := by
  intro fuel1
  induction fuel1 with
  | zero => intro fuel2 insn st inp h; omega
  | succ fuel1 ih =>
    intro fuel2 insn st inp h1 h2
    cases fuel2 with
    | zero => omega
    | succ fuel2 =>
      cases inp with
      | nil => simp [decodeLoop, readByte]
      | cons key r =>
        unfold decodeLoop
        simp only [readByte]
        cases hp : parseArg key r with
        | error e => rfl
        | ok p =>
          obtain ⟨i, rest⟩ := p
          have hle := (good_parseArg key).length_le hp
          simp at h1 h2
          cases i
          case stop => rfl
          all_goals
            simp only
            split
            · exact ih _ _ _ _ (by omega) (by omega)
            · rfl

/-- **C04 (progress).** Each iteration consumes at least one byte, so `length + 1` iterations
    always suffice: any larger amount of fuel gives the same result (and by `C04_no_panic`
    that result is never the out-of-fuel outcome). -/
theorem C04_progress (mc : MCfg) (hook : Hook) (fuel insn : Nat) (st : DState) (inp : Bytes)
    (h : inp.length < fuel) :
    decodeLoop mc hook fuel insn st inp = decodeLoop mc hook (inp.length + 1) insn st inp :=
  decodeLoop_fuel mc hook _ _ _ _ _ h (by omega)

/-! ### allocation -/

/-- **C04 (allocation).** What is pre-allocated on the strength of a length field alone never
    exceeds `maxgrow` = 64 KiB … -/
theorem C04_alloc (inp : Bytes) : preallocOf inp ≤ maxgrow := by
  unfold preallocOf
  split
  · simp
  · dsimp only
    (repeat' split) <;> first | exact Nat.min_le_right _ _ | exact Nat.zero_le _

/-- … and a payload that is returned was entirely present in the input. -/
theorem C04_alloc_payload (n : Nat) {inp s rest : Bytes} (h : readCounted n inp = .ok (s, rest)) :
    s.length + rest.length ≤ inp.length := by
  unfold readCounted Rd.bind at h
  split at h
  · rename_i lb r1 h1
    have e1 := (good_readFull n).length_le h1
    dsimp only at h
    split at h
    · simp [Rd.fail] at h
    · unfold copyN at h
      split at h
      · simp at h
        obtain ⟨rfl, rfl⟩ := h
        simp
        omega
      · simp at h
  · simp at h

/-! ### unsupported opcodes and versions -/

/-- Opcode bytes the decoder implements. -/
def supportedOpcodes : List UInt8 :=
  [40, 46, 48, 50, 70, 73, 74, 75, 76, 77, 78, 80, 81, 82, 83, 84, 85, 86, 88, 97, 99, 100, 125, 101, 103, 104,
   0x8a, 0x89, 0x88, 106, 108, 93, 112, 113, 114, 115, 116, 0x85, 0x86, 0x87, 41, 117, 71, 66, 67, 0x95, 0x8c,
   0x93, 0x94, 0x96, 0x97, 0x98, 0x80]

/-- The instruction an unsupported byte parses to. -/
def unsupportedInsn (key : UInt8) : Insn :=
  if key = 49 then .popMark else if key = 98 then .build else if key = 105 then .inst
  else if key = 111 then .obj else .unknown key

theorem parseArg_unsupported : ∀ key : UInt8, key ∉ supportedOpcodes →
    ∀ r, parseArg key r = .ok (unsupportedInsn key, r) := by
  intro key hk r
  simp [supportedOpcodes] at hk
  unfold parseArg unsupportedInsn
  simp [hk, Rd.pure]
  repeat' split
  all_goals rfl

theorem exec_unsupported (mc : MCfg) (hook : Hook) (key : UInt8) (pos : Nat) (st : DState) :
    exec mc hook (unsupportedInsn key) pos st = .error (.opcode key pos) := by
  unfold unsupportedInsn
  repeat' split
  all_goals simp_all [exec]

/-- **C04 (opcode).** Reaching an opcode byte outside the supported set — POP_MARK, BUILD,
    INST, OBJ included — ends `Decode` with `OpcodeError` carrying that byte. -/
theorem C04_opcode (mc : MCfg) (hook : Hook) (key : UInt8) (hk : key ∉ supportedOpcodes)
    (fuel insn : Nat) (st : DState) (r : Bytes) :
    (decodeLoop mc hook (fuel + 1) insn st (key :: r)).1 = .error (.opcode key (insn + 1)) := by
  unfold decodeLoop
  simp only [readByte, parseArg_unsupported key hk r]
  have hne : unsupportedInsn key ≠ .stop := by
    unfold unsupportedInsn; repeat' split
    all_goals simp
  have he := exec_unsupported mc hook key (insn + 1) st
  generalize unsupportedInsn key = i at hne he
  cases i
  case stop => exact absurd rfl hne
  all_goals simp only [he]

/-- **C04 (PROTO).** A PROTO opcode announcing a version above 5 is `ErrInvalidPickleVersion`. -/
theorem C04_proto (mc : MCfg) (hook : Hook) (v : UInt8) (hv : v > 5)
    (fuel insn : Nat) (st : DState) (r : Bytes) :
    (decodeLoop mc hook (fuel + 1) insn st (0x80 :: v :: r)).1 = .error .invalidVersion := by
  have hv' : ¬ v.toNat ≤ 5 := by
    have := UInt8.lt_iff_toNat_lt.mp hv
    simp at this; omega
  have hp : parseArg 0x80 (v :: r) = .ok (.proto v.toNat, r) := by
    simp [parseArg, Rd.map, Rd.bind, Rd.pure, readByte]
  unfold decodeLoop
  simp only [readByte, hp, exec, hv', if_false]

/-! ### facts regenerated from the source -/

/-- The 68 opcodes of pickle protocols 0–5 (pickletools), by byte value. -/
def pickleOpcodeValues : List Nat :=
  [40, 41, 46, 48, 49, 50, 66, 67, 70, 71, 73, 74, 75, 76, 77, 78, 80, 81, 82, 83, 84, 85, 86, 88, 93, 97, 98, 99,
   100, 101, 103, 104, 105, 106, 108, 111, 112, 113, 114, 115, 116, 117, 125, 128, 129, 130, 131, 132, 133, 134,
   135, 136, 137, 138, 139, 140, 141, 142, 143, 144, 145, 146, 147, 148, 149, 150, 151, 152]

/-- **C04 (facts).** What the model assumes about constants is what the source says now. -/
theorem C04_facts :
    Generated.opcodeValues = pickleOpcodeValues ∧ Generated.maxgrow = (maxgrow : Int) ∧
    Generated.protoUpperBounds = ["5"] ∧ Generated.droppedErrors = [] := by
  decide

end Ogorek
