import Ogorek.Props.C06Dec
import Ogorek.Props.C03N
import Ogorek.Props.C05
import Ogorek.Props.C01Pvm
import Ogorek.Props.C18RT
import Ogorek.Props.C03R

/-!
  The protocol-0 float-text hypothesis of the encoder-side theorems (`FloatsOK`: `ParseFloat` reads `%g` back), evaluated:
  `floatsOKb c fs` runs the model's `%g` and float parser on every float of the value.  The theorems of C03 / C01 / C05 / C18
  restated with that Boolean, so that the cases of the correspondence runs — protocol 0 included — are instances of them.
-/
namespace Ogorek

def floatsOKb (c : ECfg) (fs : List F64) : Bool := fs.all fun f => decide (c.proto ≥ 1) || floatTextOKb f

theorem FloatsOK_of_b (c : ECfg) (fs : List F64) (h : floatsOKb c fs = true) : FloatsOK c fs := by
  intro f hf
  unfold floatsOKb at h
  rw [List.all_eq_true] at h
  have := h f hf
  simp only [Bool.or_eq_true, decide_eq_true_eq] at this
  exact this.imp id (floatTextOK_of_b f)

/-- **C03, every hypothesis evaluated** (`canon`, `floatsOKb`, the encoder's own error answer). -/
theorem C03_roundtrip_dec (ip : IsPrint) (hip : ip 10 = false) (c : ECfg) (cfg : Cfg) (v : GoVal)
    (hp0 : 0 ≤ c.proto) (hp5 : c.proto ≤ 5) (hsu : cfg.su = c.su)
    (hc : canon cfg true v = true) (hf : floatsOKb c (floatsOf v) = true) (he : (encodeTop ip c none v).err = none) (st0 : DState) :
    ∃ r st', decode (goCfg cfg) none st0 (flat (encodeTop ip c none v)) = (.ok r, st', []) ∧
      Rep (goCfg cfg) GoVal.ref st'.heap r v :=
  C03_roundtrip ip hip c cfg v hp0 hp5 hsu hc (FloatsOK_of_b c _ hf) he st0

theorem C03_normal_form_dec (ip : IsPrint) (hip : ip 10 = false) (c : ECfg) (cfg : Cfg) (v : GoVal)
    (hp0 : 0 ≤ c.proto) (hp5 : c.proto ≤ 5) (hsu : cfg.su = c.su)
    (hc : canon cfg true (norm v) = true) (hf : floatsOKb c (floatsOf v) = true) (he : (encodeTop ip c none v).err = none) (st0 : DState) :
    ∃ r st', decode (goCfg cfg) none st0 (flat (encodeTop ip c none v)) = (.ok r, st', []) ∧
      Rep (goCfg cfg) GoVal.ref st'.heap r (norm v) :=
  C03_normal_form ip hip c cfg v hp0 hp5 hsu hc (FloatsOK_of_b c _ hf) he st0

/-- **C01, every hypothesis evaluated.** -/
theorem C01_pvm_table_dec (ip : IsPrint) (hip : ip 10 = false) (c : ECfg) (v : GoVal)
    (hp0 : 0 ≤ c.proto) (hp5 : c.proto ≤ 5)
    (hw : pyWF c v = true) (hf : floatsOKb c (floatsOf v) = true) (he : (encodeTop ip c none v).err = none) :
    ∃ r st, pvmLoad (flat (encodeTop ip c none v)) = (.ok r, st, []) ∧ PRep st.heap r (tableP c v) :=
  C01_pvm_table ip hip c v hp0 hp5 hw (FloatsOK_of_b c _ hf) he

/-- **C05, every hypothesis evaluated.** -/
theorem C05_reencode_dec (ip : IsPrint) (hip : ip 10 = false) (cfg : Cfg) (inp : Bytes)
    (r : GoVal) (st' : DState) (rest : Bytes) (hdec : decode (goCfg cfg) none {} inp = (.ok r, st', rest)) (fuel : Nat)
    (hn : noCycle (resolveV st'.heap fuel r) = true) (hs : shapeOK cfg (resolveV st'.heap fuel r) = true)
    (c : ECfg) (hp0 : 0 ≤ c.proto) (hp5 : c.proto ≤ 5) (hsu : cfg.su = c.su)
    (hf : floatsOKb c (floatsOf (resolveV st'.heap fuel r)) = true)
    (he : (encodeTop ip c none (resolveV st'.heap fuel r)).err = none) (st1 : DState) :
    ∃ r2 st2, decode (goCfg cfg) none st1 (flat (encodeTop ip c none (resolveV st'.heap fuel r))) = (.ok r2, st2, []) ∧
      Rep (goCfg cfg) GoVal.ref st2.heap r2 (resolveV st'.heap fuel r) :=
  C05_reencode ip hip cfg inp r st' rest hdec fuel hn hs c hp0 hp5 hsu (FloatsOK_of_b c _ hf) he st1

/-- **C18 (round trip under hooks), every hypothesis about the value evaluated.** -/
theorem C03_roundtrip_hook_dec (ip : IsPrint) (hip : ip 10 = false) (c : ECfg) (cfg : Cfg) (hook : Hook) (ρ : GoVal → GoVal)
    (hh : HookFor hook ρ) (v : GoVal)
    (hp0 : 0 ≤ c.proto) (hp5 : c.proto ≤ 5) (hsu : cfg.su = c.su)
    (hc : canon cfg false v = true) (hf : floatsOKb c (floatsOf v) = true) (he : (encodeTop ip c none v).err = none) (st0 : DState) :
    ∃ r st', decode (goCfg cfg) hook st0 (flat (encodeTop ip c none v)) = (.ok r, st', []) ∧
      Rep (goCfg cfg) ρ st'.heap r v :=
  C03_roundtrip_hook ip hip c cfg hook ρ hh v hp0 hp5 hsu hc (FloatsOK_of_b c _ hf) he st0

/-- Non-vacuity at protocol 0: the `%g` text of these floats is read back. -/
example : floatsOKb { proto := 0, su := false } (floatsOf (.list [.float 0x3ff8000000000000, .float 0x3fb999999999999a,
    .dict [(.float 0x7fefffffffffffff, .float 0x0000000000000001)], .tuple [.float 0xc05edd3c07ee0b0b, .float 0x4415af1d78b58c40,
    .float 0x7ff0000000000000, .float 0x8000000000000000]])) = true := by
  decide +kernel

end Ogorek
