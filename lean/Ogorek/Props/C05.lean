import Ogorek.Props.C16
import Ogorek.Props.C03
import Ogorek.Lemmas.Bridge
import Ogorek.Lemmas.Resolve

/-!
  C05 — Every decoded value re-encodes at every protocol and decodes back to itself.

  `C05_encodable`: a resolved decode result (documented types only — C16_resolved — and acyclic)
  is accepted by the encoder at every protocol and StrictUnicode setting, except for the three
  documented limitations: the encoder never answers with a TypeError, never panics.
-/
namespace Ogorek

/-- The encoder stopped, if at all, with one of the three documented limitations. -/
def Documented (o : Out) : Prop :=
  o.err = none ∨ o.err = some .p0Utf8 ∨ o.err = some .p0Persid ∨ o.err = some .p0123Global

theorem Documented.seq {a b : Out} (ha : Documented a) (hb : Documented b) : Documented (a +> b) := by
  unfold Out.seq
  cases h : a.err with
  | some e => simpa [Documented, h] using ha
  | none => exact hb

theorem Documented.emit (bs : Bytes) : Documented (emit bs) := Or.inl rfl
theorem Documented.nil : Documented Out.nil := Or.inl rfl

theorem doc_encodeBool (c : ECfg) (b : Bool) : Documented (encodeBool c b) := by
  unfold encodeBool; split <;> exact Documented.emit _
theorem doc_encodeInt (c : ECfg) (i : Int) : Documented (encodeInt c i) := by
  unfold encodeInt; repeat' split
  all_goals exact Documented.emit _
theorem doc_encodeFloat (c : ECfg) (f : F64) : Documented (encodeFloat c f) := by
  unfold encodeFloat; split <;> exact Documented.emit _
theorem doc_encodeByteString (ip : IsPrint) (c : ECfg) (s : Bytes) : Documented (encodeByteString ip c s) := by
  unfold encodeByteString; split
  · apply Documented.seq
    · split <;> exact Documented.emit _
    · exact Documented.emit _
  · exact Documented.emit _
theorem doc_encodeUnicode (c : ECfg) (s : Bytes) : Documented (encodeUnicode c s) := by
  unfold encodeUnicode; split
  · apply Documented.seq
    · split <;> exact Documented.emit _
    · exact Documented.emit _
  · split
    · exact Documented.emit _
    · exact Or.inr (Or.inl rfl)
theorem doc_encodeString (ip : IsPrint) (c : ECfg) (s : Bytes) : Documented (encodeString ip c s) := by
  unfold encodeString; split
  · exact doc_encodeUnicode _ _
  · exact doc_encodeByteString _ _ _
theorem doc_encodeClass (ip : IsPrint) (c : ECfg) (m n : Bytes) : Documented (encodeClass ip c m n) := by
  unfold encodeClass; split
  · exact (Documented.seq (Documented.seq (doc_encodeString _ _ _) (doc_encodeString _ _ _)) (Documented.emit _))
  · split
    · exact Or.inr (Or.inr (Or.inr rfl))
    · exact Documented.emit _
theorem doc_encodeTupleOf (c : ECfg) (l : Nat) (items : Out) (h : Documented items) :
    Documented (encodeTupleOf c l items) := by
  unfold encodeTupleOf
  split
  · exact Documented.seq h (Documented.emit _)
  · split
    · exact Documented.emit _
    · exact Documented.seq (Documented.seq (Documented.emit _) h) (Documented.emit _)
theorem doc_encodeBytes (ip : IsPrint) (c : ECfg) (s : Bytes) : Documented (encodeBytes ip c s) := by
  unfold encodeBytes; split
  · apply Documented.seq
    · split <;> exact Documented.emit _
    · exact Documented.emit _
  · exact Documented.seq (Documented.seq (doc_encodeClass _ _ _ _)
      (doc_encodeTupleOf _ _ _ (Documented.seq (doc_encodeUnicode _ _) (doc_encodeByteString _ _ _)))) (Documented.emit _)
theorem doc_encodeByteArray (ip : IsPrint) (c : ECfg) (s : Bytes) : Documented (encodeByteArray ip c s) := by
  unfold encodeByteArray; split
  · exact Documented.seq (Documented.emit _) (Documented.emit _)
  · exact Documented.seq (Documented.seq (doc_encodeClass _ _ _ _)
      (doc_encodeTupleOf _ _ _ (doc_encodeBytes _ _ _))) (Documented.emit _)

mutual
/-- No `cycle` marker: the result is a finite tree. -/
def acyclic : GoVal → Bool
  | .cycle => false
  | .list xs => acyclicList xs
  | .tuple xs => acyclicList xs
  | .call _ _ args => acyclicList args
  | .ref p => acyclic p
  | .map kvs => acyclicPairs kvs
  | .dict kvs => acyclicPairs kvs
  | _ => true
def acyclicList : List GoVal → Bool
  | [] => true
  | x :: xs => acyclic x && acyclicList xs
def acyclicPairs : List (GoVal × GoVal) → Bool
  | [] => true
  | (k, v) :: r => acyclic k && acyclic v && acyclicPairs r
end

mutual
/-- **C05 (encodable).** -/
theorem C05_encodable (ip : IsPrint) (ec : ECfg) (c : Cfg) (u : Bool) :
    ∀ v : GoVal, wfRes c u v = true → acyclic v = true → Documented (enc ip ec v)
  | .none, _, _ => by simp only [enc]; exact Documented.emit _
  | .bool b, _, _ => by simp only [enc]; exact doc_encodeBool _ _
  | .int i, _, _ => by simp only [enc]; exact doc_encodeInt _ _
  | .big _ i, _, _ => by simp only [enc, encodeLong]; exact Documented.emit _
  | .float f, _, _ => by simp only [enc]; exact doc_encodeFloat _ _
  | .str s, _, _ => by simp only [enc]; exact doc_encodeString _ _ _
  | .bytestr s, _, _ => by simp only [enc]; exact doc_encodeByteString _ _ _
  | .bytes s, _, _ => by simp only [enc]; exact doc_encodeBytes _ _ _
  | .bytearray s, _, _ => by simp only [enc]; exact doc_encodeByteArray _ _ _
  | .cls m n, _, _ => by simp only [enc]; exact doc_encodeClass _ _ _ _
  | .user n, _, _ => by
    simp only [enc]
    exact Documented.seq (Documented.seq (Documented.seq (Documented.emit _) (doc_encodeString _ _ _)) (doc_encodeInt _ _)) (Documented.emit _)
  | .list xs, hw, ha => by
    simp only [wfRes] at hw; simp only [acyclic] at ha
    simp only [enc]
    split
    · exact Documented.emit _
    · exact Documented.seq (Documented.seq (Documented.emit _) (C05_encodableList ip ec c u xs hw ha)) (Documented.emit _)
  | .tuple xs, hw, ha => by
    simp only [wfRes] at hw; simp only [acyclic] at ha
    simp only [enc]
    exact doc_encodeTupleOf _ _ _ (C05_encodableList ip ec c u xs hw ha)
  | .call m n args, hw, ha => by
    simp only [wfRes] at hw; simp only [acyclic] at ha
    simp only [enc]
    exact Documented.seq (Documented.seq (doc_encodeClass _ _ _ _)
      (doc_encodeTupleOf _ _ _ (C05_encodableList ip ec c u args hw ha))) (Documented.emit _)
  | .ref p, hw, ha => by
    simp only [wfRes] at hw; simp only [acyclic] at ha
    simp only [enc]
    split
    · split
      · split
        · exact Or.inr (Or.inr (Or.inl rfl))
        · exact Documented.emit _
      · exact Or.inr (Or.inr (Or.inl rfl))
    · exact Documented.seq (C05_encodable ip ec c u p hw ha) (Documented.emit _)
  | .map kvs, hw, ha => by
    simp only [wfRes, Bool.and_eq_true] at hw; simp only [acyclic] at ha
    simp only [enc]
    split
    · exact Documented.emit _
    · exact Documented.seq (Documented.seq (Documented.emit _) (C05_encodablePairs ip ec c u kvs hw.2 ha)) (Documented.emit _)
  | .dict kvs, hw, ha => by
    simp only [wfRes, Bool.and_eq_true] at hw; simp only [acyclic] at ha
    simp only [enc]
    split
    · exact Documented.emit _
    · exact Documented.seq (Documented.seq (Documented.emit _) (C05_encodablePairs ip ec c u kvs hw.2 ha)) (Documented.emit _)
  | .cycle, _, ha => by simp [acyclic] at ha
  | .mark, hw, _ | .uint _, hw, _ | .complex _ _, hw, _ | .href _, hw, _ | .nil, hw, _ => by simp [wfRes] at hw
theorem C05_encodableList (ip : IsPrint) (ec : ECfg) (c : Cfg) (u : Bool) :
    ∀ xs : List GoVal, wfResList c u xs = true → acyclicList xs = true → Documented (encList ip ec xs)
  | [], _, _ => by simp only [encList]; exact Documented.nil
  | x :: xs, hw, ha => by
    simp only [wfResList, Bool.and_eq_true] at hw
    simp only [acyclicList, Bool.and_eq_true] at ha
    simp only [encList]
    exact Documented.seq (C05_encodable ip ec c u x hw.1 ha.1) (C05_encodableList ip ec c u xs hw.2 ha.2)
theorem C05_encodablePairs (ip : IsPrint) (ec : ECfg) (c : Cfg) (u : Bool) :
    ∀ kvs : List (GoVal × GoVal), wfResPairs c u kvs = true → acyclicPairs kvs = true → Documented (encPairs ip ec kvs)
  | [], _, _ => by simp only [encPairs]; exact Documented.nil
  | (k, v) :: r, hw, ha => by
    simp only [wfResPairs, Bool.and_eq_true] at hw
    simp only [acyclicPairs, Bool.and_eq_true] at ha
    simp only [encPairs]
    exact Documented.seq (Documented.seq (C05_encodable ip ec c u k hw.1.1 ha.1.1) (C05_encodable ip ec c u v hw.1.2 ha.1.2))
      (C05_encodablePairs ip ec c u r hw.2 ha.2)
end


/-- **C05 (decodes back).** Whatever byte string `Decode` accepted (from any state whose containers
    satisfy the decoder's key invariant — in particular a fresh Decoder) and whatever plain value `v`
    its result stands for (`Rep`: the result with its containers unfolded; of documented types, `wfRes`;
    of encodable shape, `shapeOK`: payloads below 4 GiB, no Call of the bytes / bytearray forms, and with
    builtin maps no `*big.Int` keys): at every protocol 0..5 at which `Encode v` returns no error
    (i.e. none of the three documented limitations applies), decoding exactly the bytes written — by any
    Decoder of the same configuration, in any state — succeeds, consumes them all and returns a result
    that stands for the same `v`: identical in type and content to the first result.
    (Protocol 0 only: `FloatsOK`, the float-text hypothesis of `C03_roundtrip`.) -/
theorem C05_decodes_back (ip : IsPrint) (hip : ip 10 = false) (cfg : Cfg) (inp : Bytes) (st0 : DState) (hk0 : HeapKeys st0)
    (r : GoVal) (st' : DState) (rest : Bytes) (hdec : decode (goCfg cfg) none st0 inp = (.ok r, st', rest))
    (v : GoVal) (hrep : Rep (goCfg cfg) GoVal.ref st'.heap r v) (hw : wfRes cfg false v = true) (hs : shapeOK cfg v = true)
    (c : ECfg) (hp0 : 0 ≤ c.proto) (hp5 : c.proto ≤ 5) (hsu : cfg.su = c.su) (hf : FloatsOK c (floatsOf v))
    (he : (encodeTop ip c none v).err = none) (st1 : DState) :
    ∃ r2 st2, decode (goCfg cfg) none st1 (flat (encodeTop ip c none v)) = (.ok r2, st2, []) ∧
      Rep (goCfg cfg) GoVal.ref st2.heap r2 v := by
  have hk' : HeapKeys st' := by
    have := decode_heapKeys (goCfg cfg) none st0 inp hk0
    rw [hdec] at this; exact this
  have hc : canon cfg true v = true := canon_of_rep (mc := goCfg cfg) (fun o ho => (hk' o ho).1) v hrep hw hs
  exact C03_roundtrip ip hip c cfg v hp0 hp5 hsu hc hf he st1


/-- Non-vacuity: the pickle `}(K\x01]K\x02\x85Nu.` — a dict `{1: [], (2,): None}` built with SETITEMS —
    decodes (PyDict on) to a result that stands for that Dict, which meets the theorem's hypotheses. -/
example : ∃ r st', decode (goCfg { pyDict := true, su := false }) none {} [125, 40, 75, 1, 93, 75, 2, 0x85, 78, 117, 46] = (.ok r, st', []) ∧
    Rep (goCfg { pyDict := true, su := false }) GoVal.ref st'.heap r (.dict [(.int 1, .list []), (.tuple [.int 2], .none)]) ∧
    wfRes { pyDict := true, su := false } false (.dict [(.int 1, .list []), (.tuple [.int 2], .none)]) = true ∧
    shapeOK { pyDict := true, su := false } (.dict [(.int 1, .list []), (.tuple [.int 2], .none)]) = true := by
  refine ⟨.href 0, (decode (goCfg { pyDict := true, su := false }) none {} [125, 40, 75, 1, 93, 75, 2, 0x85, 78, 117, 46]).2.1,
    by rfl, ?_, by decide, by decide⟩
  have hh : (decode (goCfg { pyDict := true, su := false }) none {} [125, 40, 75, 1, 93, 75, 2, 0x85, 78, 117, 46]).2.1.heap =
      [{ kind := .dict, kvs := [(.int 1, .list []), (.tuple [.int 2], .none)] }] := by rfl
  rw [hh]
  simp [Rep, RepList, RepPairs, dictKind, goCfg]

/-- **C05 (the fuzz target's invariant, for the model).** Whenever a fresh Decoder accepts a byte string
    and the result, with its containers unfolded (`resolveV`), is acyclic (`noCycle`) and of encodable
    shape (`shapeOK`): at every protocol 0..5 at which `Encode` of that value returns no error, decoding
    the bytes written — by any Decoder of the same configuration in any state — succeeds, consumes them
    all and returns a result that stands for the very same value.  No hypothesis about the unfolded value
    remains to be shown by the caller: that it is of documented types is `C16_resolved`, that the result
    stands for it is `rep_resolve`, that it is canonical is `canon_of_rep` from the key invariant. -/
theorem C05_reencode (ip : IsPrint) (hip : ip 10 = false) (cfg : Cfg) (inp : Bytes)
    (r : GoVal) (st' : DState) (rest : Bytes) (hdec : decode (goCfg cfg) none {} inp = (.ok r, st', rest)) (fuel : Nat)
    (hn : noCycle (resolveV st'.heap fuel r) = true) (hs : shapeOK cfg (resolveV st'.heap fuel r) = true)
    (c : ECfg) (hp0 : 0 ≤ c.proto) (hp5 : c.proto ≤ 5) (hsu : cfg.su = c.su)
    (hf : FloatsOK c (floatsOf (resolveV st'.heap fuel r)))
    (he : (encodeTop ip c none (resolveV st'.heap fuel r)).err = none) (st1 : DState) :
    ∃ r2 st2, decode (goCfg cfg) none st1 (flat (encodeTop ip c none (resolveV st'.heap fuel r))) = (.ok r2, st2, []) ∧
      Rep (goCfg cfg) GoVal.ref st2.heap r2 (resolveV st'.heap fuel r) := by
  obtain ⟨hinv, hwf⟩ := C16_result_wf (goCfg cfg) none (by simp [HookOK]) {} inp r st' rest (Inv.init _ _) hdec
  have hk' : HeapKeys st' := by
    have := decode_heapKeys (goCfg cfg) none {} inp HeapKeys.init
    rw [hdec] at this; exact this
  have hrep := rep_resolve cfg st' hinv (fun o ho => (hk' o ho).2) fuel r hwf hn
  have hw := C16_resolved cfg false st' hinv fuel r hwf
  exact C05_decodes_back ip hip cfg inp {} HeapKeys.init r st' rest hdec _ hrep hw hs c hp0 hp5 hsu hf he st1

end Ogorek
