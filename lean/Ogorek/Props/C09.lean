import Ogorek.Props.C06
import Ogorek.Props.C08
import Ogorek.Props.C17

/-!
  C09 — Dict opcodes build Python's dict in PyDict mode and a plain Go map otherwise.
-/
namespace Ogorek

/-- **C09 (PyDict assignment).** An accepted key assignment on a Dict is `Dict.Set`: every entry
    whose key equals the new key under Python equality goes, the new entry is added. -/
theorem C09_setitem_dict (es : Entries) (k v : GoVal) (h : hashable k = true) :
    tryAssign .dict es k v = some (dictSetSpec es k v) := by
  simp [tryAssign, h]

/-- **C09 (map assignment).** On a builtin map it is `m[k] = v` under Go key identity. -/
theorem C09_setitem_map (es : Entries) (k v : GoVal) (h : goMapHashable k = true) :
    tryAssign .map es k v = some (mapSet es k v) := by
  simp [tryAssign, h]

/-- **C09 (classes and final values).** After the assignment there is exactly one entry in the class
    of the new key — with the new value — and every entry of another class is untouched. -/
theorem C09_dictSet_classes (es : Entries) (k v : GoVal) :
    (∀ e ∈ dictSetSpec es k v, goEqual k e.1 = true → e = (k, v)) ∧
    (k, v) ∈ dictSetSpec es k v ∧
    (∀ e ∈ es, goEqual k e.1 = false → e ∈ dictSetSpec es k v) ∧
    (∀ e ∈ dictSetSpec es k v, e = (k, v) ∨ e ∈ es) := by
  refine ⟨fun e he hq => C08_set_del es k v e he hq, by simp [dictSetSpec], ?_, ?_⟩
  · intro e he hq
    simp [dictSetSpec, he, hq]
  · intro e he
    rcases dictSetSpec_mem' he with h | h
    · exact Or.inr h
    · exact Or.inl h
where
  dictSetSpec_mem' {es : Entries} {k v : GoVal} {kv : GoVal × GoVal} (h : kv ∈ dictSetSpec es k v) : kv ∈ es ∨ kv = (k, v) := by
    unfold dictSetSpec at h
    simp only [List.mem_append, List.mem_filter, List.mem_singleton] at h
    rcases h with h | h
    · exact Or.inl h.1
    · exact Or.inr h

/-- **C09 (Go key identity).** For a builtin map: `int64 1`, `float64 1`, `true` and two distinct
    `*big.Int` 1 are four different keys; NaN never equals itself; +0 and −0 are one key; the three
    string types are three keys. -/
theorem C09_map_identity :
    goKeyEq (.int 1) (.float 0x3ff0000000000000) = false ∧ goKeyEq (.int 1) (.bool true) = false ∧
    goKeyEq (.int 1) (.big 7 1) = false ∧ goKeyEq (.big 7 1) (.big 8 1) = false ∧ goKeyEq (.big 7 1) (.big 7 1) = true ∧
    goKeyEq (.float 0x7ff8000000000001) (.float 0x7ff8000000000001) = false ∧
    goKeyEq (.float 0) (.float 0x8000000000000000) = true ∧
    goKeyEq (.str [97]) (.bytestr [97]) = false ∧ goKeyEq (.str [97]) (.bytes [97]) = false ∧
    goKeyEq (.int 1) (.int 1) = true := by
  simp [goKeyEq, F64.eq, F64.isNaN, F64.isZero, F64.expField, F64.fracField]

end Ogorek
