import Ogorek.Props.C07T

/-!
  C08 (refinement) — away from ByteStrings the Dict IS the abstract map: after any history, `Get q`
  is decided by the latest operation whose key equals `q` (`specGet`), for every way the table
  resolves its choices.
-/
set_option linter.unusedSimpArgs false

namespace Ogorek

/-- The abstract map, read off the history latest-first. -/
def specGet (q : GoVal) : List DictOp → Option GoVal
  | [] => none
  | .set k v :: rest => if goEqual q k then some v else specGet q rest
  | .del k :: rest => if goEqual q k then none else specGet q rest
  | .get _ :: rest => specGet q rest

def keyOK (k : GoVal) : Bool := noBS k && rangeOK k

def opOK : DictOp → Bool
  | .set k _ => keyOK k
  | .del k => keyOK k
  | .get _ => true

/-- The history applied latest-first (`runRev pick ops.reverse` is the `foldl` of `C08_inv`). -/
def runRev (pick : Entries → Nat) : List DictOp → Entries
  | [] => []
  | op :: rest => dictStep pick (runRev pick rest) op

def TGood (es : Entries) : Prop := NoEqualKeys es ∧ ∀ e ∈ es, keyOK e.1 = true

theorem TGood.step (pick : Entries → Nat) (es : Entries) (op : DictOp) (h : TGood es) (ho : opOK op = true) :
    TGood (dictStep pick es op) := by
  refine ⟨C08_inv_step pick es op h.1, ?_⟩
  intro e he
  cases op with
  | get k => exact h.2 e (by simpa [dictStep] using he)
  | del k =>
    simp only [dictStep, C08_del, List.mem_filter] at he
    exact h.2 e he.1
  | set k v =>
    simp only [dictStep, C08_set, dictSetSpec, List.mem_append, List.mem_filter, List.mem_singleton] at he
    rcases he with he | rfl
    · exact h.2 e he.1
    · exact ho

theorem TGood.run (pick : Entries → Nat) : ∀ rops : List DictOp, (∀ op ∈ rops, opOK op = true) → TGood (runRev pick rops)
  | [], _ => ⟨List.Pairwise.nil, by simp [runRev]⟩
  | op :: rest, h => TGood.step pick _ op (TGood.run pick rest (fun o ho => h o (List.mem_cons_of_mem _ ho))) (h op (by simp))

theorem TGood.unique {es : Entries} (h : TGood es) (q : GoVal) (hq : keyOK q = true) : (matching es q).length ≤ 1 := by
  simp only [keyOK, Bool.and_eq_true] at hq
  exact C08_match_unique_noBS es q h.1 hq.1 hq.2 (fun e he => by
    have := h.2 e he; simp only [keyOK, Bool.and_eq_true] at this; exact this.2)

/-- A query not equal to `k` has no candidate equal to `k` (transitivity through the stored key). -/
theorem TGood.sep {es : Entries} (h : TGood es) (q k : GoVal) (hq : keyOK q = true) (hk : keyOK k = true)
    (hqk : goEqual q k = false) : ∀ e ∈ es, goEqual q e.1 = true → goEqual k e.1 = false := by
  intro e he hqe
  cases hke : goEqual k e.1 with
  | false => rfl
  | true =>
    have we := h.2 e he
    simp only [keyOK, Bool.and_eq_true] at hq hk we
    have : goEqual q k = true :=
      C07_trans q e.1 k hq.2 we.2 hk.2 we.1 hqe (by rw [C07_symm]; exact hke)
    rw [this] at hqk; exact absurd hqk (by simp)

/-- One step of the refinement. -/
theorem C08_step_spec (pick pick' pick'' : Entries → Nat) (es : Entries) (op : DictOp) (q : GoVal)
    (h : TGood es) (ho : opOK op = true) (hq : keyOK q = true) :
    tableGet pick' (dictStep pick es op) q =
      (match op with
       | .set k v => if goEqual q k then some v else tableGet pick'' es q
       | .del k => if goEqual q k then none else tableGet pick'' es q
       | .get _ => tableGet pick'' es q) := by
  have hq' := hq
  simp only [keyOK, Bool.and_eq_true] at hq'
  have wes : ∀ e ∈ es, rangeOK e.1 = true := fun e he => by
    have := h.2 e he; simp only [keyOK, Bool.and_eq_true] at this; exact this.2
  cases op with
  | get k => exact C08_get_frame pick'' pick' es es q rfl (h.unique q hq)
  | set k v =>
    have hk : keyOK k = true := ho
    have hk' := hk
    simp only [keyOK, Bool.and_eq_true] at hk'
    cases hqk : goEqual q k with
    | true =>
      simp only [dictStep, hqk, if_true]
      exact C08_get_after_set_noBS pick pick' es k v q hqk hq'.1 hq'.2 hk'.2 wes
    | false =>
      simp only [dictStep, hqk, Bool.false_eq_true, if_false]
      exact C08_get_frame pick'' pick' es _ q (C08_frame_set pick es k v q hqk (h.sep q k hq hk hqk)) (h.unique q hq)
  | del k =>
    have hk : keyOK k = true := ho
    have hk' := hk
    simp only [keyOK, Bool.and_eq_true] at hk'
    cases hqk : goEqual q k with
    | true =>
      simp only [dictStep, hqk, if_true]
      have hm : matching (dictDel pick es k) q = [] := by
        rw [C08_del]; unfold matching
        rw [List.filter_filter]
        apply List.filter_eq_nil_iff.mpr
        intro e he
        cases hqe : goEqual q e.1 with
        | false => simp
        | true =>
          have : goEqual k e.1 = true :=
            C07_trans k q e.1 hk'.2 hq'.2 (wes e he) hq'.1 (by rw [C07_symm]; exact hqk) hqe
          simp [this]
      unfold tableGet; simp [hm]
    | false =>
      simp only [dictStep, hqk, Bool.false_eq_true, if_false]
      exact C08_get_frame pick'' pick' es _ q (C08_frame_del pick es k q (h.sep q k hq hk hqk)) (h.unique q hq)

/-- **C08 (refinement).** After any history whose keys hold no ByteString — for every way the table
    resolves its choices, at every step and in the final `Get` — `Get q` is what the abstract map says:
    the value of the latest `Set` under a key equal to `q`, unless a later `Del` of such a key removed it. -/
theorem C08_refines (pick pick' : Entries → Nat) (q : GoVal) (hq : keyOK q = true) :
    ∀ rops : List DictOp, (∀ op ∈ rops, opOK op = true) → tableGet pick' (runRev pick rops) q = specGet q rops
  | [], _ => by simp [runRev, specGet, tableGet, matching]
  | op :: rest, h => by
    have hg := TGood.run pick rest (fun o ho => h o (List.mem_cons_of_mem _ ho))
    have ih := C08_refines pick pick' q hq rest (fun o ho => h o (List.mem_cons_of_mem _ ho))
    have hs := C08_step_spec pick pick' pick' (runRev pick rest) op q hg (h op (by simp)) hq
    simp only [runRev]
    rw [hs]
    cases op <;> simp only [specGet, ih]

/-- The same for the left-to-right `foldl` of `C08_inv`. -/
theorem C08_refines_foldl (pick pick' : Entries → Nat) (q : GoVal) (hq : keyOK q = true) (ops : List DictOp)
    (h : ∀ op ∈ ops, opOK op = true) :
    tableGet pick' (ops.foldl (dictStep pick) []) q = specGet q ops.reverse := by
  have hr : ∀ l : List DictOp, runRev pick l = l.foldr (fun op es => dictStep pick es op) [] := by
    intro l; induction l with
    | nil => rfl
    | cons a l ih => simp [runRev, ih]
  rw [← C08_refines pick pick' q hq ops.reverse (fun o ho => h o (by simpa using ho)), hr, List.foldr_reverse]

example : specGet (.int 1) [.del (.str [97]), .set (.uint 2) (.int 9), .set (.bool true) (.int 7), .set (.int 1) (.int 5)] = some (.int 7) := by
  simp [specGet, goEqual, strKind?, numOf?, numEq, eqIntInt, eqIntUint, bint]

/-- Non-vacuity: the refinement applied to a concrete history (hypotheses discharged by computation). -/
example : tableGet (fun _ => 3) (runRev (fun _ => 5) [.set (.int 1) (.int 5), .del (.str [97])]) (.bool true) = some (.int 5) := by
  rw [C08_refines (fun _ => 5) (fun _ => 3) (.bool true) (by simp [keyOK, noBS, rangeOK]) _
    (by simp [opOK, keyOK, noBS, rangeOK, inInt64, minInt64, maxInt64])]
  simp [specGet, goEqual, strKind?, numOf?, numEq, eqIntInt, bint]

end Ogorek
