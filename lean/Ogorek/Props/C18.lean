import Ogorek.Lemmas.NoPanic
import Ogorek.Encoder

/-!
  C18 — Persistent-reference hooks are called as documented and invert each other.

  Decoder: the log `calls` records every argument `PersistentLoad` was invoked with.
  * `C18_other_insn_no_call` : instructions other than PERSID / BINPERSID never call the hook;
  * `C18_persid`, `C18_binpersid` : these call it exactly once, with the Ref carrying the decoded
    id; a non-nil result replaces the Ref, nil keeps it, an error aborts `Decode` with an error;
  * without a hook the Ref itself is pushed and nothing is logged.
  Encoder:
  * `C18_ref_*` : a pointer to an application struct for which `PersistentRef` returns a Ref is
    encoded exactly as that Ref: PERSID with a single-line string id at protocol 0 (otherwise
    the documented error), id followed by BINPERSID at protocols ≥ 1.
-/
namespace Ogorek

def isPersid : Insn → Bool
  | .persid _ | .binpersid => true
  | _ => false

theorem listAppend_calls {st st' : DState} {l l' : GoVal} {items : List GoVal}
    (h : listAppend st l items = some (st', l')) : st'.calls = st.calls := by
  unfold listAppend at h
  repeat' split at h
  all_goals simp at h
  all_goals (obtain ⟨rfl, _⟩ := h; simp [heapSet])

/-- **C18 (only persistent-reference opcodes call the hook).** Any other instruction leaves the
    log of `PersistentLoad` calls as it was. -/
theorem C18_other_insn_no_call (mc : MCfg) (hook : Hook) (i : Insn) (pos : Nat) (st st' : DState)
    (hi : isPersid i = false) (h : exec mc hook i pos st = .ok st') : st'.calls = st.calls := by
  cases i <;> simp [isPersid] at hi
  all_goals simp only [exec] at h
  all_goals try (simp [push, mkList, allocObj] at h; subst h; rfl)
  all_goals try (repeat' split at h) <;> (try simp_all [push, pop, mkList, allocObj, memoPut, heapSet, bind, Except.bind, pure, Except.pure]) <;> (try (subst h; rfl)) <;> done
  case pop =>
    cases hp : pop st with
    | error e => rw [hp] at h; simp [bind, Except.bind] at h
    | ok q =>
      rw [hp] at h; simp [bind, Except.bind, pure, Except.pure] at h; subst h
      unfold pop at hp; split at hp <;> simp at hp; rw [← hp]
  case put =>
    split at h
    · simp at h
    · rename_i v s hs
      cases hu : userOK v with
      | error e => rw [hu] at h; simp [bind, Except.bind] at h
      | ok u => rw [hu] at h; simp [bind, Except.bind, pure, Except.pure] at h; subst h; rfl
  case memoize =>
    split at h
    · simp at h
    · rename_i v s hs
      cases hu : userOK v with
      | error e => rw [hu] at h; simp [bind, Except.bind] at h
      | ok u => rw [hu] at h; simp [bind, Except.bind, pure, Except.pure] at h; subst h; rfl
  case tupleN n =>
    split at h
    · simp at h
    · cases hu : userOKAll (List.take n st.stack).reverse with
      | error e => rw [hu] at h; simp [bind, Except.bind] at h
      | ok u => rw [hu] at h; simp [bind, Except.bind, pure, Except.pure] at h; subst h; rfl
  case emptyList =>
    simp at h; subst h
    unfold mkList; split <;> simp [push, allocObj]
  case list =>
    split at h
    · simp at h
    · simp at h; subst h
      unfold mkList; split <;> simp [allocObj]
  case stackGlobal =>
    split at h
    · simp at h
    · rename_i hlen
      obtain ⟨a, b, s, hs⟩ := two_of_len hlen
      rw [xpop_of_cons hs] at h
      simp only [bind, Except.bind] at h
      rw [xpop_of_cons (st := { st with stack := b :: s }) rfl] at h
      simp only at h
      split at h
      · simp [pure, Except.pure, push] at h; subst h; rfl
      · simp at h
  case reduce =>
    split at h
    · simp at h
    · rename_i hlen
      obtain ⟨a, b, s, hs⟩ := two_of_len hlen
      rw [xpop_of_cons hs] at h
      simp only [bind, Except.bind] at h
      rw [xpop_of_cons (st := { st with stack := b :: s }) rfl] at h
      simp only at h
      split at h
      · split at h
        · rename_i r hr
          cases r with
          | error e => simp at h
          | ok v => simp [pure, Except.pure, push] at h; subst h; rfl
        · simp [pure, Except.pure, push] at h; subst h; rfl
      · simp at h
  case append =>
    split at h
    · simp at h
    · rename_i hlen
      obtain ⟨a, b, s, hs⟩ := two_of_len hlen
      rw [xpop_of_cons hs] at h
      simp only [bind, Except.bind] at h
      cases hu : userOK a with
      | error e => rw [hu] at h; simp at h
      | ok u =>
        rw [hu] at h
        simp only at h
        split at h
        · rename_i st1 l' hla
          simp [pure, Except.pure] at h; subst h
          exact (listAppend_calls hla : st1.calls = _)
        · simp at h
  case appends =>
    split at h
    · simp at h
    · split at h
      · simp at h
      · split at h
        · rename_i st1 l' hla
          simp at h; subst h
          exact (listAppend_calls hla : st1.calls = _)
        · simp at h
  case setitem =>
    split at h
    · simp at h
    · rename_i hlen
      obtain ⟨a, b, c, s, hs⟩ := three_of_len hlen
      rw [xpop_of_cons hs] at h
      simp only [bind, Except.bind] at h
      rw [xpop_of_cons (st := { st with stack := b :: c :: s }) rfl] at h
      simp only at h
      cases hub : userOK b with
      | error e => rw [hub] at h; simp at h
      | ok u1 =>
        rw [hub] at h; simp only at h
        cases hua : userOK a with
        | error e => rw [hua] at h; simp at h
        | ok u2 =>
          rw [hua] at h; simp only at h
          repeat' split at h
          all_goals simp [pure, Except.pure] at h
          subst h; simp [heapSet]

/-- What `handleRef` does with the hook's answer. -/
theorem C18_handleRef (load : Nat → GoVal → LoadResult) (st : DState) (r : GoVal) :
    handleRef (some load) st r =
      (match load st.calls.length r with
       | .replace v => .ok (push { st with calls := r :: st.calls } v)
       | .keep => .ok (push { st with calls := r :: st.calls } r)
       | .fail => .error .hook) := by
  simp only [handleRef, List.length_cons, Nat.add_sub_cancel]
  cases hl : load st.calls.length r <;> simp

theorem C18_handleRef_nohook (st : DState) (r : GoVal) : handleRef none st r = .ok (push st r) := by
  simp [handleRef]

/-- **C18 (PERSID).** One call, with `Ref{Pid: string(line)}`. -/
theorem C18_persid (mc : MCfg) (load : Nat → GoVal → LoadResult) (pos : Nat) (st : DState) (s : Bytes) :
    exec mc (some load) (.persid s) pos st = handleRef (some load) st (.ref (.str s)) := by
  simp [exec]

/-- **C18 (BINPERSID).** One call, with the Ref carrying the popped id (which is never the mark). -/
theorem C18_binpersid (mc : MCfg) (hook : Hook) (pos : Nat) (st : DState) (pid : GoVal) (s : List GoVal)
    (hs : st.stack = pid :: s) (hm : isMark pid = false) :
    exec mc hook .binpersid pos st = handleRef hook { st with stack := s } (.ref pid) := by
  have hu : userOK pid = .ok () := by cases pid <;> simp_all [userOK, isMark]
  simp [exec, popUser, pop, hs, hu, bind, Except.bind, pure, Except.pure]

/-- In both cases the log grows by exactly that one Ref when the hook does not fail. -/
theorem C18_one_call (load : Nat → GoVal → LoadResult) (st st' : DState) (r : GoVal)
    (h : handleRef (some load) st r = .ok st') : st'.calls = r :: st.calls := by
  rw [C18_handleRef] at h
  split at h <;> simp [push] at h <;> subst h <;> rfl

/-! ### encoder side -/

/-- **C18 (PersistentRef, protocol 0).** A mapped application object is written as PERSID with its
    string id when that id is a single line; otherwise the documented error and nothing is written. -/
theorem C18_ref_p0 (ip : IsPrint) (su : Bool) (g : Nat → Option GoVal) (n : Nat) (pid : GoVal) (hg : g n = some pid) :
    enc ip ⟨0, su⟩ (substRefs g (.user n)) =
      (match pid with
       | .str s => if containsLF s then failWith .p0Persid else emit (80 :: s ++ [10])
       | _ => failWith .p0Persid) := by
  simp only [substRefs, hg, enc]
  cases pid <;> simp

/-- **C18 (PersistentRef, protocols ≥ 1).** The id, then BINPERSID. -/
theorem C18_ref_bin (ip : IsPrint) (c : ECfg) (hp : c.proto ≠ 0) (g : Nat → Option GoVal) (n : Nat) (pid : GoVal)
    (hg : g n = some pid) :
    enc ip c (substRefs g (.user n)) = enc ip c pid +> emit [81] := by
  simp only [substRefs, hg, enc, hp, if_false]

/-- An object the hook does not map is encoded as the struct it is. -/
theorem C18_ref_unmapped (g : Nat → Option GoVal) (n : Nat) (hg : g n = none) :
    substRefs g (.user n) = .user n := by
  simp [substRefs, hg]

end Ogorek
