import Ogorek.Float

/-!
  The universe of Go values the library produces and consumes, and the canonical
  text form shared with the Go harness and the Python oracle.
-/
namespace Ogorek

/-- Go values as seen through `any`.
    * `mark` is the decoder's internal `mark{}` — a value like any other on the Go
      stack (`[]any`); that it never escapes is a theorem (C16), not a typing fact.
    * `big` carries an allocation id: `*big.Int` is a pointer and pointer identity is
      observable when it is used as a builtin-map key.
    * `href` points into the decoder's heap of mutable, reference-like containers
      (`map[any]any` and `Dict` are reference types in Go). -/
inductive GoVal where
  | mark
  | none
  | bool (b : Bool)
  | int (i : Int)                       -- int64 (and narrower ints, widened)
  | uint (u : Nat)                      -- uint64 (and narrower), encoder / Dict-key input only
  | big (id : Nat) (i : Int)            -- *big.Int
  | float (f : F64)                     -- float64 (float32 widened exactly)
  | complex (re im : F64)               -- complex128, Dict-key / encoder input only
  | str (s : Bytes)                     -- string
  | bytestr (s : Bytes)                 -- ogórek.ByteString
  | bytes (s : Bytes)                   -- ogórek.Bytes
  | bytearray (s : Bytes)               -- []byte
  | list (xs : List GoVal)              -- []any
  | tuple (xs : List GoVal)             -- ogórek.Tuple
  | map (kvs : List (GoVal × GoVal))    -- map[any]any  (resolved form)
  | dict (kvs : List (GoVal × GoVal))   -- ogórek.Dict  (resolved form)
  | href (id : Nat)                     -- reference to a heap container (decoder only)
  | cls (m n : Bytes)                   -- ogórek.Class
  | call (m n : Bytes) (args : List GoVal)  -- ogórek.Call{Class, Tuple}
  | ref (pid : GoVal)                   -- ogórek.Ref
  | user (n : Nat)                      -- an application object (PersistentLoad result / *struct)
  | cycle                               -- rendering marker for a container that contains itself
  | nil                                 -- untyped nil interface (encoder input only)
  deriving Inhabited

/-- Error classes of `Decode` (never error text). -/
inductive DErr where
  | eof                 -- io.EOF
  | unexpectedEOF       -- io.ErrUnexpectedEOF
  | opcode (k : UInt8) (pos : Nat)   -- OpcodeError
  | invalidVersion      -- ErrInvalidPickleVersion
  | stackUnderflow      -- errStackUnderflow
  | noMarker            -- errNoMarker
  | markExposed         -- errNoMarkUse
  | hook                -- error returned by PersistentLoad
  | other               -- any other error value
  | panic (what : String)   -- a Go panic escaping Decode
  | unmodelled              -- input the model declines to interpret (hex / underscore float text)
  deriving DecidableEq, Repr, Inhabited

def DErr.render : DErr → String
  | .eof => "eof"
  | .unexpectedEOF => "unexpectedEOF"
  | .opcode k pos => s!"opcode:{k.toNat}:{pos}"
  | .invalidVersion => "invalidVersion"
  | .stackUnderflow => "stackUnderflow"
  | .noMarker => "noMarker"
  | .markExposed => "markExposed"
  | .hook => "hook"
  | .other => "other"
  | .panic w => s!"PANIC:{w}"
  | .unmodelled => "UNMODELLED"

/-! ### canonical text -/

def f64Hex (f : F64) : String := hexOfBytes (natBE 8 f.toNat)

def sortPairs (ps : List (String × String)) : List (String × String) :=
  ps.mergeSort fun a b => a.1 < b.1 || (a.1 == b.1 && a.2 ≤ b.2)

/-- Canonical rendering; map / dict entries sorted by rendered key then value. -/
partial def GoVal.render : GoVal → String
  | .mark => "M"
  | .none => "N"
  | .bool true => "T"
  | .bool false => "F"
  | .int i => s!"I{i}"
  | .uint u => s!"U{u}"
  | .big _ i => s!"L{i}"
  | .float f => "D" ++ f64Hex f
  | .complex re im => "Z" ++ f64Hex re ++ "," ++ f64Hex im
  | .str s => "S" ++ hexOrDash s
  | .bytestr s => "Y" ++ hexOrDash s
  | .bytes s => "B" ++ hexOrDash s
  | .bytearray s => "A" ++ hexOrDash s
  | .list xs => "l( " ++ String.join (xs.map fun x => x.render ++ " ") ++ ")"
  | .tuple xs => "t( " ++ String.join (xs.map fun x => x.render ++ " ") ++ ")"
  | .map kvs =>
    "m( " ++ String.join ((sortPairs (kvs.map fun (k, v) => (k.render, v.render))).map
      fun (k, v) => k ++ " " ++ v ++ " ") ++ ")"
  | .dict kvs =>
    "d( " ++ String.join ((sortPairs (kvs.map fun (k, v) => (k.render, v.render))).map
      fun (k, v) => k ++ " " ++ v ++ " ") ++ ")"
  | .href id => s!"H{id}"
  | .cls m n => "C" ++ hexOrDash m ++ "." ++ hexOrDash n
  | .call m n args =>
    "c( C" ++ hexOrDash m ++ "." ++ hexOrDash n ++ " " ++ String.join (args.map fun x => x.render ++ " ") ++ ")"
  | .ref pid => "R( " ++ pid.render ++ " )"
  | .user n => s!"X{n}"
  | .cycle => "#cycle"
  | .nil => "Nil"

/-- Rendering that keeps the given entry order (used to feed ordered input to the encoder). -/
partial def GoVal.renderOrdered : GoVal → String
  | .list xs => "l( " ++ String.join (xs.map fun x => x.renderOrdered ++ " ") ++ ")"
  | .tuple xs => "t( " ++ String.join (xs.map fun x => x.renderOrdered ++ " ") ++ ")"
  | .map kvs => "m( " ++ String.join (kvs.map fun (k, v) => k.renderOrdered ++ " " ++ v.renderOrdered ++ " ") ++ ")"
  | .dict kvs => "d( " ++ String.join (kvs.map fun (k, v) => k.renderOrdered ++ " " ++ v.renderOrdered ++ " ") ++ ")"
  | .call m n args =>
    "c( C" ++ hexOrDash m ++ "." ++ hexOrDash n ++ " " ++ String.join (args.map fun x => x.renderOrdered ++ " ") ++ ")"
  | .ref pid => "R( " ++ pid.renderOrdered ++ " )"
  | v => v.render

def parseClassTok (t : String) : Option (Bytes × Bytes) :=
  match (t.drop 1).toString.splitOn "." with
  | [m, n] => do
    let m ← bytesOfHex? m
    let n ← bytesOfHex? n
    pure (m, n)
  | _ => none

mutual
/-- Parse one value from a token list. -/
partial def parseVal : List String → Option (GoVal × List String)
  | [] => none
  | t :: rest =>
    let body := (t.drop 1).toString
    match t.front with
    | 'M' => some (.mark, rest)
    | 'N' => if t == "Nil" then some (.nil, rest) else some (.none, rest)
    | 'T' => some (.bool true, rest)
    | 'F' => some (.bool false, rest)
    | 'I' => body.toInt?.map fun i => (.int i, rest)
    | 'U' => body.toNat?.map fun u => (.uint u, rest)
    | 'L' => body.toInt?.map fun i => (.big 0 i, rest)
    | 'D' => (bytesOfHex? body).map fun b => (.float (UInt64.ofNat (beNat b)), rest)
    | 'Z' => match body.splitOn "," with
      | [a, b] => do
        let a ← bytesOfHex? a
        let b ← bytesOfHex? b
        pure (.complex (UInt64.ofNat (beNat a)) (UInt64.ofNat (beNat b)), rest)
      | _ => none
    | 'S' => (bytesOfHex? body).map fun b => (.str b, rest)
    | 'Y' => (bytesOfHex? body).map fun b => (.bytestr b, rest)
    | 'B' => (bytesOfHex? body).map fun b => (.bytes b, rest)
    | 'A' => (bytesOfHex? body).map fun b => (.bytearray b, rest)
    | 'X' => body.toNat?.map fun n => (.user n, rest)
    | 'Q' => match body.splitOn ":" with          -- narrower signed ints widen to int64
      | [_, n] => n.toInt?.map fun i => (.int i, rest)
      | _ => none
    | 'V' => match body.splitOn ":" with          -- unsigned ints
      | [_, n] => n.toNat?.map fun u => (.uint u, rest)
      | _ => none
    | 'E' => (bytesOfHex? body).map fun b => (.float (F64.ofF32Bits (beNat b)), rest)
    | 'P' => do                                   -- pointer: the encoder dereferences it
      let (p, r) ← parseVal rest
      match r with
      | ")" :: r' => pure (p, r')
      | _ => none
    | 'C' => (parseClassTok t).map fun (m, n) => (.cls m n, rest)
    | 'l' => (parseSeq rest []).map fun (xs, r) => (.list xs, r)
    | 't' => if t == "t0" then some (.tuple [], rest)    -- the empty tuple held as a nil slice: the same value
             else (parseSeq rest []).map fun (xs, r) => (.tuple xs, r)
    | 'm' => (parseSeq rest []).bind fun (xs, r) => (pairUp xs).map fun kvs => (.map kvs, r)
    | 'd' => (parseSeq rest []).bind fun (xs, r) => (pairUp xs).map fun kvs => (.dict kvs, r)
    | 'c' => match rest with
      | ct :: rest' => do
        let (m, n) ← parseClassTok ct
        let (xs, r) ← parseSeq rest' []
        pure (.call m n xs, r)
      | [] => none
    | 'R' => do
      let (p, r) ← parseVal rest
      match r with
      | ")" :: r' => pure (.ref p, r')
      | _ => none
    | _ => none
/-- Parse values up to the closing `)`. -/
partial def parseSeq : List String → List GoVal → Option (List GoVal × List String)
  | [], _ => none
  | ")" :: rest, acc => some (acc.reverse, rest)
  | toks, acc => do
    let (v, r) ← parseVal toks
    parseSeq r (v :: acc)
/-- `[k1, v1, k2, v2, …]` to pairs. -/
partial def pairUp : List GoVal → Option (List (GoVal × GoVal))
  | [] => some []
  | k :: v :: r => (pairUp r).map ((k, v) :: ·)
  | _ => none
end

def parseValue? (toks : List String) : Option GoVal :=
  match parseVal toks with
  | some (v, []) => some v
  | _ => none

end Ogorek
