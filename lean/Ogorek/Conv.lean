import Ogorek.Decoder

/-! `typeconv.go`: AsInt64, AsBytes, AsString. `none` = the helper returns an error. -/
namespace Ogorek

/-- `AsInt64`. -/
def asInt64 : GoVal → Option Int
  | .int i => some i
  | .big _ i => if inInt64 i then some i else none
  | _ => none

/-- `AsBytes`: Bytes or ByteString. -/
def asBytes : GoVal → Option Bytes
  | .bytes s => some s
  | .bytestr s => some s
  | _ => none

/-- `AsString`: string or ByteString. -/
def asString : GoVal → Option Bytes
  | .str s => some s
  | .bytestr s => some s
  | _ => none

end Ogorek
