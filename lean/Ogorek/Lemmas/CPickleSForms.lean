import Ogorek.Lemmas.CPickleSMemo

/-!
  Decoding what CPython's pickler writes (C02), with the memo read: strings and bytes that may be
  fetched again, the globals, and the REDUCE forms for bytes / bytearray below protocol 3 / 5.
-/
namespace Ogorek

section
variable {mc : MCfg} {hook : Hook} {c : ECfg} {σ : Type} {I : σ → DState → Prop}

/-- The fragment pushes exactly the value `r` (a constant: nothing in the heap), heap untouched. -/
def PushesV (mc : MCfg) (hook : Hook) (c : ECfg) (I : σ → DState → Prop) (bs : Bytes) (r : GoVal) (s s' : σ) : Prop :=
  RunsP mc hook c bs (I s) (fun st st' => I s' st' ∧ st'.stack = r :: st.stack ∧ st'.heap = st.heap)

theorem PushesV.toG {bs : Bytes} {r : GoVal} {v : PyObj} {s s' : σ} (h : PushesV mc hook c I bs r s s')
    (hr : ∀ n hp, RepG mc.cfg n hp r v) : PushesG mc hook c I bs v s s' := by
  refine RunsP.weaken h (fun _ h => h) ?_
  intro st st' _ _ ⟨hj, hs, hh⟩
  exact ⟨hj, r, hs, hr _ _, KeepsH.of_eq hh⟩

theorem PushesV.put {bs pb : Bytes} {r : GoVal} {s s1 s2 : σ} {vp : GoVal → Prop} (h : PushesV mc hook c I bs r s s1)
    (hput : PutOK mc hook c I pb vp s1 s2) (hm : isMark r = false) (hv : vp r) :
    PushesV mc hook c I (bs ++ pb) r s s2 := by
  refine RunsP.weaken (RunsP.seq h hput ?_) (fun _ h => h) ?_
  · intro st st1 _ _ ⟨hj, hs, _⟩
    exact ⟨hj, r, st.stack, hs, hm, hv⟩
  · intro st st2 _ _ ⟨st1, _, ⟨_, hs, hh⟩, hj2, hs2, hh2⟩
    exact ⟨hj2, by rw [hs2, hs], by rw [hh2, hh]⟩

/-- A fragment followed by one instruction, which may use that the protocol is the expected one. -/
theorem RunsP.snocP {b1 b2 : Bytes} {i : Insn} {P : DState → Prop} {Q1 Q : DState → DState → Prop}
    (h1 : RunsP mc hook c b1 P Q1) (hp : Parses b2 [i])
    (he : ∀ pos st st', ProtoOK c st' → P st → st'.proto = st.proto → Q1 st st' →
      ∃ st'', exec mc hook i pos st' = .ok st'' ∧ st''.proto = st'.proto ∧ Q st st'') :
    RunsP mc hook c (b1 ++ b2) P Q := by
  obtain ⟨is1, hp1, hr1⟩ := h1
  refine ⟨is1 ++ [i], Parses.append hp1 hp, fun insn st hpo hpre => ?_⟩
  obtain ⟨st1, e1, f1, q1⟩ := hr1 insn st hpo hpre
  obtain ⟨st2, e2, f2, q2⟩ := he (insn + is1.length + 1) st st1 (hpo.of_proto f1) hpre f1 q1
  refine ⟨st2, ?_, f2.trans f1, q2⟩
  rw [runFrom_append mc hook is1 [i] insn st st1 e1]
  simp [runFrom, e2]

/-- `class, argument tuple, REDUCE` for a call the decoder interprets. -/
theorem pushesG_reduce (hI : MemoOnly I) {g ab : Bytes} {m n : Bytes} {xs : List PyObj} {res : PyObj} {s s1 s2 : σ}
    (hg : PushesV mc hook c I g (.cls m n) s s1) (ha : PushesG mc hook c I ab (.tuple xs) s1 s2)
    (hcall : ∀ (st : DState) rs h nn, ProtoOK c st → RepGList mc.cfg nn h rs xs →
      ∃ rv, handleCall st.proto m n rs = some (.ok rv) ∧ ∀ n' h', RepG mc.cfg n' h' rv res) :
    PushesG mc hook c I (g ++ ab ++ [82]) res s s2 := by
  refine RunsP.snocP (RunsP.seq hg ha (fun _ _ _ _ q => q.1)) (parses_op 82 .reduce rfl parseArg_82) ?_
  intro pos st st2 hpo _ _ ⟨st1, _, ⟨_, hs1, hh1⟩, hj2, r, hs2, hr, hk⟩
  simp only [RepG] at hr
  obtain ⟨rs, rfl, hrl⟩ := hr
  have hst : st2.stack = .tuple rs :: .cls m n :: st.stack := by rw [hs2, hs1]
  obtain ⟨rv, hc, hrv⟩ := hcall { st2 with stack := st.stack } rs _ _ (by simpa [ProtoOK] using hpo) hrl
  refine ⟨{ st2 with stack := rv :: st.stack }, ?_, rfl, hI s2 st2 _ rfl hj2, rv, rfl, hrv _ _, ?_⟩
  · simp only [exec, hst, xpop, bind, Except.bind, pure, Except.pure, push, List.length_cons]
    simp only [show ¬ (st.stack.length + 1 + 1 < 2) by omega, if_false]
    simp only at hc
    simp [hc]
  · unfold KeepsH at hk ⊢
    rw [hh1] at hk
    exact hk

end

/-! ### with the pickler's memo as index -/

section
variable {mc : MCfg} {hook : Hook} {mz : Option PKey → Bool}

theorem pushesG_get_str (p : Nat) (s : PSt) (k : PKey) (idx : Nat) (v : PyObj) (hf : s.find k = some idx)
    (hv : ∀ n hp, RepG mc.cfg n hp (valOf p k) v) :
    PushesG mc hook (ecfg p) (MemoInv p) (cpGet p idx) v s s :=
  PushesV.toG (runs_get p s k idx hf) hv

theorem parses_cpStr (p : Nat) (txt b : Bytes) (h : cpStr p txt = some b) : Parses b [.pushStr txt] := by
  unfold cpStr at h
  by_cases hp : p ≥ 1
  · simp only [hp, if_true] at h
    by_cases hl : txt.length < 2 ^ 32
    · simp only [hl, if_true, Option.some.injEq] at h
      subst h
      exact parses_unicode_bin (ecfg p) txt ((ecfg_ge p 1).mpr hp) hl
    · simp [hl] at h
  · simp only [hp, if_false] at h
    cases hu : cpRue txt with
    | none => simp [hu] at h
    | some u =>
      simp only [hu, Option.some.injEq] at h
      subst h
      have hinv := cpRue_inv txt u hu
      have hlf := cpRue_no_lf txt u hu
      apply Parses.single rfl
      intro t
      have e : (86 :: u ++ [10]) ++ t = 86 :: (u ++ 10 :: t) := by simp
      rw [e]
      simp only [parseInsn, Rd.bind, readByte, parseArg_86, Rd.mapE, readLine_line _ _ hlf, parseUnicodeArg, hinv, Rd.pure]

/-- `save_unicode` with the memo, as a constant push (nothing is allocated). -/
theorem saveStrS_okV (p : Nat) (s s' : PSt) (key putKey : Option PKey) (txt b : Bytes)
    (hkey : ∀ k, key = some k → valOf p k = .str txt) (hpk : ∀ k, putKey = some k → valOf p k = .str txt)
    (h : saveStrS mz p s key putKey txt = some (b, s')) :
    PushesV mc hook (ecfg p) (MemoInv p) b (.str txt) s s' := by
  unfold saveStrS at h
  cases hfind : key.bind s.find with
  | some idx =>
    simp only [hfind, Option.some.injEq, Prod.mk.injEq] at h
    obtain ⟨rfl, rfl⟩ := h
    cases key with
    | none => simp at hfind
    | some k =>
      simp only [Option.bind_some] at hfind
      have := runs_get (mc := mc) (hook := hook) (c := ecfg p) p s k idx hfind
      rw [hkey k rfl] at this
      exact this
  | none =>
    simp only [hfind] at h
    cases hcs : cpStr p txt with
    | none => simp [hcs] at h
    | some b0 =>
      simp only [hcs] at h
      cases hput : putS mz p s putKey with
      | none => simp [hput] at h
      | some r =>
        obtain ⟨pb, s1⟩ := r
        simp only [hput, Option.some.injEq, Prod.mk.injEq] at h
        obtain ⟨rfl, rfl⟩ := h
        have hv : PushesV mc hook (ecfg p) (MemoInv p) b0 (.str txt) s s := by
          refine RunsP.one (parses_cpStr p txt b0 hcs) ?_
          intro pos st _ hj
          exact ⟨push st (.str txt), rfl, rfl, MemoInv.memoOnly p s st _ rfl hj, rfl, rfl⟩
        exact hv.put (putOK_S p s s1 putKey pb hput) rfl (fun k hk => (hpk k hk).symm)

/-- `save_unicode` with the memo: fetched if memoized, else written and memoized. -/
theorem saveStrS_ok (p : Nat) (s s' : PSt) (key putKey : Option PKey) (txt b : Bytes)
    (hkey : ∀ k, key = some k → valOf p k = .str txt) (hpk : ∀ k, putKey = some k → valOf p k = .str txt)
    (h : saveStrS mz p s key putKey txt = some (b, s')) :
    PushesG mc hook (ecfg p) (MemoInv p) b (.str txt) s s' :=
  (saveStrS_okV p s s' key putKey txt b hkey hpk h).toG (fun n hp => by simp [RepG])

theorem parses_global (m n : Bytes) (hm : (10 : UInt8) ∉ m) (hn : (10 : UInt8) ∉ n) :
    Parses (99 :: m ++ [10] ++ n ++ [10]) [.global m n] := by
  apply Parses.single rfl
  intro t
  have e : (99 :: m ++ [10] ++ n ++ [10]) ++ t = 99 :: (m ++ 10 :: (n ++ 10 :: t)) := by simp
  rw [e]
  simp only [parseInsn, Rd.bind, readByte, parseArg_99, readLine_line _ _ hm, Rd.map, readLine_line _ _ hn, Rd.pure]

/-- `save_global` of one of the builtins: fetched if memoized, else GLOBAL (or, from protocol 4 on, two strings
    and STACK_GLOBAL) and memoized. -/
theorem saveGlobalS_ok (p : Nat) (s s' : PSt) (key : PKey) (m n b : Bytes) (hkey : valOf p key = .cls m n)
    (hm : (10 : UInt8) ∉ m) (hn : (10 : UInt8) ∉ n) (h : saveGlobalS mz p s key m n = some (b, s')) :
    PushesV mc hook (ecfg p) (MemoInv p) b (.cls m n) s s' := by
  unfold saveGlobalS at h
  cases hfind : s.find key with
  | some idx =>
    simp only [hfind, Option.some.injEq, Prod.mk.injEq] at h
    obtain ⟨rfl, rfl⟩ := h
    have := runs_get (mc := mc) (hook := hook) (c := ecfg p) p s key idx hfind
    rw [hkey] at this
    exact this
  | none =>
    simp only [hfind] at h
    by_cases h4 : p ≥ 4
    · simp only [h4, if_true] at h
      cases h1 : saveStrS mz p s none none m with
      | none => simp [h1] at h
      | some r1 =>
        obtain ⟨b1, s1⟩ := r1
        simp only [h1] at h
        cases h2 : saveStrS mz p s1 none none n with
        | none => simp [h2] at h
        | some r2 =>
          obtain ⟨b2, s2⟩ := r2
          simp only [h2] at h
          cases hput : putS mz p s2 (some key) with
          | none => simp [hput] at h
          | some r3 =>
            obtain ⟨pb, s3⟩ := r3
            simp only [hput, Option.some.injEq, Prod.mk.injEq] at h
            obtain ⟨rfl, rfl⟩ := h
            have hs1 := saveStrS_okV (mc := mc) (hook := hook) p s s1 none none m b1 (fun _ hk => by cases hk) (fun _ hk => by cases hk) h1
            have hs2 := saveStrS_okV (mc := mc) (hook := hook) p s1 s2 none none n b2 (fun _ hk => by cases hk) (fun _ hk => by cases hk) h2
            have hsg : PushesV mc hook (ecfg p) (MemoInv p) (b1 ++ b2 ++ [0x93]) (.cls m n) s s2 := by
              refine RunsP.snoc (RunsP.seq hs1 hs2 (fun _ _ _ _ q => q.1)) (parses_op 0x93 .stackGlobal rfl parseArg_147) ?_
              intro pos st st2 _ _ ⟨st1, _, ⟨_, hst1, hh1⟩, hj2, hst2, hh2⟩
              have hst : st2.stack = .str n :: .str m :: st.stack := by rw [hst2, hst1]
              refine ⟨{ st2 with stack := .cls m n :: st.stack }, ?_, rfl, MemoInv.memoOnly p s2 st2 _ rfl hj2, rfl, by rw [← hh1, ← hh2]⟩
              simp only [exec, hst, xpop, bind, Except.bind, pure, Except.pure, push, List.length_cons]
              simp only [show ¬ (st.stack.length + 1 + 1 < 2) by omega, if_false]
            exact hsg.put (putOK_S p s2 s3 (some key) pb hput) rfl (fun k hk => by injection hk with hk; subst hk; exact hkey.symm)
    · simp only [h4, if_false] at h
      cases hput : putS mz p s (some key) with
      | none => simp [hput] at h
      | some r3 =>
        obtain ⟨pb, s3⟩ := r3
        simp only [hput, Option.some.injEq, Prod.mk.injEq] at h
        obtain ⟨rfl, rfl⟩ := h
        have hg : PushesV mc hook (ecfg p) (MemoInv p) (99 :: m ++ [10] ++ n ++ [10]) (.cls m n) s s := by
          refine RunsP.one (parses_global m n hm hn) ?_
          intro pos st _ hj
          exact ⟨push st (.cls m n), rfl, rfl, MemoInv.memoOnly p s st _ rfl hj, rfl, rfl⟩
        exact hg.put (putOK_S p s s3 (some key) pb hput) rfl (fun k hk => by injection hk with hk; subst hk; exact hkey.symm)

end

end Ogorek
